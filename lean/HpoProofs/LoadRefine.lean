import HpoProps.C02
import HpoProofs.BinaryLoad
import HpoProofs.Facts
import HpoProofs.ObsEq
import HpoProofs.Ic
/-!
The last refinement step of the binary round trip (C07): for every ontology in the class
`Reachable` (what the public constructors establish, see below) the builder steps of
`Ontology::from_bytes` (`Onto.loadFacts 3`) applied to the records `as_bytes` writes (`factsOf o`,
in ANY order inside the sections) succeed and rebuild the ontology itself, up to the documented
truncation of term and gene names.

Route (fact level): both the input ontology and the reloaded one satisfy the same
characterisations — parents / children from the parent records, ancestors = transitive closure
(C01), links by the `linked` clause of `AnnInv` (C02), direct terms from the records, ic from the
counts (C03), default categories (C19) — and all groups are canonical (strictly ascending), hence
equal.
-/
namespace Hpo
namespace Binary
open Group Relation C01 C02

/-! ### generic list facts -/

theorem getR_none_iff (rs : List Rec) (j : Nat) : getR rs j = none ↔ j ∉ rs.map (·.id) := by
  rw [← getR_isSome_iff]; cases getR rs j <;> simp

theorem getR_of_mem_nodup {rs : List Rec} (h : (rs.map (·.id)).Nodup) {r : Rec} (hr : r ∈ rs) :
    getR rs r.id = some r := by
  induction rs with
  | nil => simp at hr
  | cons u rs ih =>
    simp only [List.map_cons, List.nodup_cons] at h
    simp only [getR]
    rcases List.mem_cons.1 hr with rfl | hr
    · simp
    · have : ¬ u.id = r.id := by
        intro heq; exact h.1 (heq ▸ List.mem_map_of_mem (f := (·.id)) hr)
      simp [this, ih h.2 hr]

/-- lookups do not depend on the order of the slots -/
theorem getT_perm {ts ts' : List Term} (hp : ts.Perm ts') (hnd : (ts.map (·.id)).Nodup) (j : Nat) :
    getT ts j = getT ts' j := by
  have hnd' : (ts'.map (·.id)).Nodup := (hp.map _).nodup_iff.1 hnd
  cases h : getT ts j with
  | none =>
    symm
    rw [getT_none_iff] at h ⊢
    intro hm; exact h ((hp.map _).mem_iff.2 hm)
  | some t =>
    have := getT_of_mem_nodup hnd' (hp.mem_iff.1 (getT_mem h))
    rw [getT_id h] at this
    exact this.symm

theorem getR_perm {rs rs' : List Rec} (hp : rs.Perm rs') (hnd : (rs.map (·.id)).Nodup) (j : Nat) :
    getR rs j = getR rs' j := by
  have hnd' : (rs'.map (·.id)).Nodup := (hp.map _).nodup_iff.1 hnd
  cases h : getR rs j with
  | none =>
    symm
    rw [getR_none_iff] at h ⊢
    intro hm; exact h ((hp.map _).mem_iff.2 hm)
  | some t =>
    have := getR_of_mem_nodup hnd' (hp.mem_iff.1 (getR_mem h))
    rw [getR_id h] at this
    exact this.symm

/-- two arenas with the same slot order and the same lookups are equal -/
theorem list_eq_of_getT : ∀ (ts ts' : List Term), ts.map (·.id) = ts'.map (·.id) →
    (ts.map (·.id)).Nodup → (∀ j, getT ts j = getT ts' j) → ts = ts' := by
  intro ts
  induction ts with
  | nil => intro ts' hid _ _; cases ts' with
    | nil => rfl
    | cons _ _ => simp at hid
  | cons t ts ih =>
    intro ts' hid hnd h
    cases ts' with
    | nil => simp at hid
    | cons t' ts' =>
      simp only [List.map_cons, List.cons.injEq] at hid
      simp only [List.map_cons, List.nodup_cons] at hnd
      have ht : t = t' := by
        have := h t.id
        simp only [getT, ↓reduceIte, hid.1] at this
        simpa using this
      subst ht
      congr 1
      apply ih ts' hid.2 hnd.2
      intro j
      by_cases hj : t.id = j
      · subst hj
        rw [(getT_none_iff ts t.id).2 hnd.1, (getT_none_iff ts' t.id).2 (hid.2 ▸ hnd.1)]
      · have := h j
        simpa only [getT, hj, ↓reduceIte] using this

theorem list_eq_of_getR : ∀ (rs rs' : List Rec), rs.map (·.id) = rs'.map (·.id) →
    (rs.map (·.id)).Nodup → (∀ j, getR rs j = getR rs' j) → rs = rs' := by
  intro rs
  induction rs with
  | nil => intro rs' hid _ _; cases rs' with
    | nil => rfl
    | cons _ _ => simp at hid
  | cons t ts ih =>
    intro ts' hid hnd h
    cases ts' with
    | nil => simp at hid
    | cons t' ts' =>
      simp only [List.map_cons, List.cons.injEq] at hid
      simp only [List.map_cons, List.nodup_cons] at hnd
      have ht : t = t' := by
        have := h t.id
        simp only [getR, ↓reduceIte, hid.1] at this
        simpa using this
      subst ht
      congr 1
      apply ih ts' hid.2 hnd.2
      intro j
      by_cases hj : t.id = j
      · subst hj
        rw [(getR_none_iff ts t.id).2 hnd.1, (getR_none_iff ts' t.id).2 (hid.2 ▸ hnd.1)]
      · have := h j
        simpa only [getR, hj, ↓reduceIte] using this

theorem getR_map (rs : List Rec) (f : Rec → Rec) (hf : ∀ r, (f r).id = r.id) (j : Nat) :
    getR (rs.map f) j = (getR rs j).map f := by
  induction rs with
  | nil => rfl
  | cons t ts ih =>
    simp only [List.map_cons, getR, hf]
    split
    · rfl
    · exact ih

/-- a strictly ascending list is its own `HpoGroup` -/
theorem ofList_of_sorted (l : List Nat) (h : Sorted l) : Group.ofList l = l :=
  eq_of_sorted_of_mem_iff _ _ (sorted_ofList l) h (fun x => mem_ofList l x)

/-! ### the term records -/

theorem termFacts_eq_map (ts : List Term) : termFacts ts = ts.map termFact := by
  induction ts with
  | nil => rfl
  | cons t ts ih => simp [termFacts, ih]

theorem geneFacts_eq_map (rs : List Rec) :
    geneFacts rs = rs.map (fun r => { r with name := truncName r.name }) := by
  induction rs with
  | nil => rfl
  | cons t ts ih => simp [geneFacts, ih]

theorem parentFacts_eq_map (ts : List Term) : parentFacts ts = ts.map (fun t => (t.id, t.parents)) := by
  induction ts with
  | nil => rfl
  | cons t ts ih => simp [parentFacts, ih]

theorem getT_termFacts (ts : List Term) (j : Nat) :
    getT (termFacts ts) j = (getT ts j).map termFact := by
  rw [termFacts_eq_map]; exact getT_map ts termFact (fun _ => rfl) j

/-- the arena after the term section: all relations empty -/
theorem preInv_termFacts (ts : List Term) (hnd : (ts.map (·.id)).Nodup)
    (hs : ∀ t ∈ ts, t.id < maxId) : PreInv (termFacts ts) := by
  have hg := getT_termFacts ts
  have hP : ∀ j, parentsOf (termFacts ts) j = [] := by
    intro j; simp only [parentsOf, hg]; cases getT ts j <;> rfl
  have hC : ∀ j, childrenOf (termFacts ts) j = [] := by
    intro j; simp only [childrenOf, hg]; cases getT ts j <;> rfl
  constructor
  · rw [map_id_termFacts]; exact hnd
  · intro j hj
    rw [hg] at hj
    cases h : getT ts j with
    | none => simp [h] at hj
    | some t => have := hs t (getT_mem h); rwa [getT_id h] at this
  · intro j; simp only [allOf, hg]; cases getT ts j <;> rfl
  · intro k j; simp only [annOf, hg]; cases getT ts j <;> cases k <;> rfl
  · intro j p hp; rw [hP] at hp; simp at hp
  · intro j p hp; rw [hC] at hp; simp at hp
  · intro p c; rw [hP, hC]; simp
  · intro j; rw [hP]; exact sorted_nil
  · intro j; rw [hC]; exact sorted_nil

/-! ### the parent records: `add_parent_unchecked` on present ids is `add_parent` -/

/-- the is_a edges `(parent, child)` listed by parent records -/
def edgesOf : List (Nat × List Nat) → List EdgeFact
  | [] => []
  | r :: rs => r.2.map (fun p => (p, r.1)) ++ edgesOf rs

theorem mem_edgesOf (rs : List (Nat × List Nat)) (x j : Nat) :
    (x, j) ∈ edgesOf rs ↔ ∃ ps, (j, ps) ∈ rs ∧ x ∈ ps := by
  induction rs with
  | nil => simp [edgesOf]
  | cons r rs ih =>
    obtain ⟨t, ps⟩ := r
    simp only [edgesOf, List.mem_append, List.mem_map, Prod.mk.injEq, ih, List.mem_cons]
    constructor
    · rintro (⟨p, hp, rfl, rfl⟩ | ⟨qs, hq, hx⟩)
      · exact ⟨ps, Or.inl ⟨rfl, rfl⟩, hp⟩
      · exact ⟨qs, Or.inr hq, hx⟩
    · rintro ⟨qs, ⟨rfl, rfl⟩ | hq, hx⟩
      · exact Or.inl ⟨x, hx, rfl, rfl⟩
      · exact Or.inr ⟨qs, hq, hx⟩

theorem addParentUnchecked_eq_applyB (o : Onto) (p c : Nat) (hs : PreInv o.terms)
    (hp : (getT o.terms p).isSome) (hc : (getT o.terms c).isSome) :
    o.addParentUnchecked p c = applyB o (.parent p c) := by
  have h := C01_unchecked_eq_checked o p c hs hp hc
  cases hu : o.addParentUnchecked p c with
  | none => rw [hu] at h; simp at h
  | some o' =>
    rw [hu] at h
    simp only [Option.map_some, Option.some.injEq] at h
    simp only [applyB, ← h]

theorem applyB_parent_isSome (o o' : Onto) (p c : Nat) (h : applyB o (.parent p c) = some o')
    (j : Nat) : (getT o'.terms j).isSome = (getT o.terms j).isSome := by
  simp only [applyB] at h
  rcases addParent_cases o p c with ⟨he, _⟩ | ⟨_, _, hok⟩
  · rw [he] at h; simp at h; subst h; rfl
  · rw [hok] at h; simp at h; subst h
    exact (addParent_terms o.terms p c j).1

theorem runB_edges_some (es : List EdgeFact) : ∀ o : Onto, ∃ o', runB (es.map edgeOp) o = some o' := by
  induction es with
  | nil => intro o; exact ⟨o, rfl⟩
  | cons e es ih =>
    intro o
    simp only [List.map_cons, runB, edgeOp, applyB]
    cases o.addParent e.1 e.2 <;> simp only [Option.bind_some] <;> exact ih _

theorem addParentsOf_eq_runB (t : Nat) (ps : List Nat) :
    ∀ o : Onto, PreInv o.terms → (getT o.terms t).isSome → (∀ p ∈ ps, (getT o.terms p).isSome) →
      Onto.addParentsOf t ps o = runB ((ps.map (fun p => (p, t))).map edgeOp) o := by
  induction ps with
  | nil => intro o _ _ _; rfl
  | cons p ps ih =>
    intro o hpre ht hps
    simp only [Onto.addParentsOf, List.map_cons, runB]
    rw [addParentUnchecked_eq_applyB o p t hpre (hps p (by simp)) ht]
    show (applyB o (.parent p t)).bind _ = (applyB o (.parent p t)).bind _
    cases ha : applyB o (.parent p t) with
    | none => rfl
    | some o1 =>
      simp only [Option.bind_some]
      have hs := applyB_parent_isSome o o1 p t ha
      exact ih o1 (preInv_apply o o1 _ hpre ha).1 (by rw [hs]; exact ht)
        (fun q hq => by rw [hs]; exact hps q (by simp [hq]))

theorem runB_edges_isSome (es : List EdgeFact) (o o' : Onto) (hpre : PreInv o.terms)
    (h : runB (es.map edgeOp) o = some o') (j : Nat) :
    (getT o'.terms j).isSome = (getT o.terms j).isSome :=
  (edges_phase es o o' hpre h).1 j

theorem addParentRecs_eq_runB (rs : List (Nat × List Nat)) :
    ∀ o : Onto, PreInv o.terms →
      (∀ r ∈ rs, (getT o.terms r.1).isSome ∧ ∀ p ∈ r.2, (getT o.terms p).isSome) →
      Onto.addParentRecs rs o = runB ((edgesOf rs).map edgeOp) o := by
  induction rs with
  | nil => intro o _ _; rfl
  | cons r rs ih =>
    intro o hpre hall
    obtain ⟨t, ps⟩ := r
    have h1 := hall (t, ps) (by simp)
    simp only [Onto.addParentRecs, edgesOf, List.map_append, runB_append]
    rw [addParentsOf_eq_runB t ps o hpre h1.1 h1.2]
    cases ha : runB ((ps.map (fun p => (p, t))).map edgeOp) o with
    | none => rfl
    | some o1 =>
      simp only [Option.bind_some]
      have hs := runB_edges_isSome _ o o1 hpre ha
      exact ih o1 (preInv_run _ o o1 hpre ha).1
        (fun r hr => by
          have := hall r (by simp [hr])
          exact ⟨by rw [hs]; exact this.1, fun p hp => by rw [hs]; exact this.2 p hp⟩)


/-! ### the class of ontologies -/

/-- default category / modifier groups of an arena (`set_default_categories`, `set_default_modifier`) -/
def defModifier (ts : List Term) : List Nat :=
  Group.ofList ((childrenOf ts 1).filter (· ≠ Onto.phenotypeId))
def defCategories (ts : List Term) : List Nat :=
  Group.ofList ((childrenOf ts 1).filter (· ≠ Onto.phenotypeId) ++ childrenOf ts Onto.phenotypeId)

/-- What every public constructor establishes (Builder + `build_with_defaults`, proved below in
`reachable_of_builder`; `from_bytes` / the text loaders end in the same builder steps):

* term ids unique and below 10^7 (arena keys);
* parent ids resolve, `children` is the exact inverse of `parents`, both strictly ascending;
* ancestor groups = transitive closure of `parents` (C01), no term its own ancestor, strictly ascending;
* per kind: record ids unique; a record id is on a term iff the record is directly annotated to the
  term or to a descendant (C02); direct terms of a record resolve and are strictly ascending;
  the records on a term are strictly ascending;
* the stored ic pair is `icPair (#records of the kind) (#records on the term)` and every such pair
  of counts passed `InformationContent::calculate` (a zero count, or both ≤ 65 535) (C03);
* both roots exist and categories / modifier are the default groups (C19).

Nothing is said about names, the slot-0 placeholder, or the order of slots and records. -/
structure Reachable (o : Onto) : Prop where
  nodup : (o.terms.map (·.id)).Nodup
  small : ∀ t ∈ o.terms, t.id < maxId
  closedP : ∀ j p, p ∈ parentsOf o.terms j → (getT o.terms p).isSome
  inverse : ∀ p c, c ∈ childrenOf o.terms p ↔ p ∈ parentsOf o.terms c
  sortedP : ∀ j, Sorted (parentsOf o.terms j)
  sortedC : ∀ j, Sorted (childrenOf o.terms j)
  closure : ∀ j a, a ∈ allOf o.terms j ↔ TransGen (isA o) j a
  acyclic : ∀ j, j ∉ allOf o.terms j
  sortedA : ∀ j, Sorted (allOf o.terms j)
  recNodup : ∀ k, ((o.recs k).map (·.id)).Nodup
  linked : ∀ k x r, r ∈ annOf k o.terms x ↔ ∃ d, d ∈ hposOf k o r ∧ (d = x ∨ x ∈ allOf o.terms d)
  sortedAnn : ∀ k j, Sorted (annOf k o.terms j)
  recTerms : ∀ k r d, d ∈ hposOf k o r → (getT o.terms d).isSome
  hposSorted : ∀ k r, Sorted (hposOf k o r)
  ic : ∀ t ∈ o.terms, ∀ k, t.ic k = icPair (o.recs k).length (t.ann k).length
  icFits : ∀ t ∈ o.terms, ∀ k, (o.recs k).length = 0 ∨ (t.ann k).length = 0 ∨
    ((o.recs k).length ≤ 65535 ∧ (t.ann k).length ≤ 65535)
  roots : (getT o.terms 1).isSome ∧ (getT o.terms Onto.phenotypeId).isSome
  categories : o.categories = defCategories o.terms
  modifier : o.modifier = defModifier o.terms

/-- what the reloaded ontology keeps of a term / a record: names cut as documented -/
def truncTerm (t : Term) : Term := { t with name := truncName t.name }
def truncRec (k : Kind) (r : Rec) : Rec := if k = .gene then { r with name := truncName r.name } else r

/-- the ontology `from_bytes(as_bytes(o))` returns -/
def truncOnto (o : Onto) : Onto :=
  { o with terms := o.terms.map truncTerm, genes := geneFacts o.genes, slot0 := placeholder }

/-- the records of kind `k` of a decoded file -/
def factRecs (f : RawFacts) (k : Kind) : List Rec :=
  if k = .gene then f.genes else if k = .omim then f.omim else f.orpha

theorem truncRec_id (k : Kind) (r : Rec) : (truncRec k r).id = r.id := by
  unfold truncRec; split <;> rfl
theorem truncRec_hpos (k : Kind) (r : Rec) : (truncRec k r).hpos = r.hpos := by
  unfold truncRec; split <;> rfl

theorem truncRec_omim : truncRec .omim = id := by funext r; simp [truncRec]
theorem truncRec_orpha : truncRec .orpha = id := by funext r; simp [truncRec]

theorem factRecs_factsOf (o : Onto) (k : Kind) : factRecs (factsOf o) k = (o.recs k).map (truncRec k) := by
  cases k
  · simp [factRecs, factsOf, Onto.recs, truncRec, geneFacts_eq_map]
  · simp [factRecs, factsOf, Onto.recs, truncRec_omim]
  · simp [factRecs, factsOf, Onto.recs, truncRec_orpha]

theorem truncOnto_recs (o : Onto) (k : Kind) : (truncOnto o).recs k = (o.recs k).map (truncRec k) := by
  cases k
  · simp [truncOnto, Onto.recs, truncRec, geneFacts_eq_map]
  · simp [truncOnto, Onto.recs, truncRec_omim]
  · simp [truncOnto, Onto.recs, truncRec_orpha]

/-! ### terms, parents, ancestors -/

/-- the term after the parents section -/
def stage2 (t : Term) : Term :=
  { id := t.id, name := truncName t.name, parents := t.parents, children := t.children,
    obsolete := t.obsolete, replacement := t.replacement }
/-- … after `connect_all_terms` -/
def stage3 (t : Term) : Term := { stage2 t with allParents := t.allParents }
/-- … after the gene / disease sections -/
def stage6 (t : Term) : Term := { stage3 t with genes := t.genes, omim := t.omim, orpha := t.orpha }

theorem term_ext_fields (t u : Term) (h0 : t.id = u.id) (h1 : fieldsOf t = fieldsOf u)
    (h2 : t.parents = u.parents) (h3 : t.children = u.children) : t = u := by
  cases t; cases u
  simp only [fieldsOf, Prod.mk.injEq] at h1
  simp_all

theorem parentsOf_eq {ts : List Term} {j : Nat} {t : Term} (h : getT ts j = some t) :
    parentsOf ts j = t.parents := by simp [parentsOf, h]
theorem childrenOf_eq {ts : List Term} {j : Nat} {t : Term} (h : getT ts j = some t) :
    childrenOf ts j = t.children := by simp [childrenOf, h]
theorem allOf_eq {ts : List Term} {j : Nat} {t : Term} (h : getT ts j = some t) :
    allOf ts j = t.allParents := by simp [allOf, h]
theorem annOf_eq {k : Kind} {ts : List Term} {j : Nat} {t : Term} (h : getT ts j = some t) :
    annOf k ts j = t.ann k := by simp [annOf, h]

/-- Term and parent sections, in any record order: no panic; every lookup returns the term of `o`
with its (cut) name, flags, parents and children and nothing else. -/
theorem parents_phase (o : Onto) (h : Reachable o) (ft : List Term) (fp : List (Nat × List Nat))
    (hpt : (termFacts o.terms).Perm ft) (hpp : (parentFacts o.terms).Perm fp) (o0 : Onto)
    (h0 : o0.terms = []) :
    Onto.addTermsFold ft o0 = some { o0 with terms := ft } ∧
    ∃ o2, Onto.addParentRecs fp { o0 with terms := ft } = some o2 ∧
      o2 = { o0 with terms := o2.terms } ∧ PreInv o2.terms ∧
      o2.terms.map (·.id) = ft.map (·.id) ∧
      (∀ j, getT o2.terms j = (getT o.terms j).map stage2) := by
  have hndF : ((termFacts o.terms).map (·.id)).Nodup := by rw [map_id_termFacts]; exact h.nodup
  have hnd : (ft.map (·.id)).Nodup := (hpt.map _).nodup_iff.1 hndF
  have hsm : ∀ t ∈ ft, t.id < maxId := by
    intro t ht
    obtain ⟨t0, ht0, rfl⟩ := mem_termFacts.1 (hpt.mem_iff.2 ht)
    exact h.small t0 ht0
  have hgt : ∀ j, getT ft j = (getT o.terms j).map termFact := by
    intro j; rw [← getT_perm hpt hndF j, getT_termFacts]
  have hpre1 : PreInv ft := by
    have := preInv_termFacts o.terms h.nodup h.small
    -- `PreInv` only speaks about lookups and the id list
    have hP : ∀ j, parentsOf ft j = parentsOf (termFacts o.terms) j := by
      intro j; simp only [parentsOf, getT_perm hpt hndF j]
    have hC : ∀ j, childrenOf ft j = childrenOf (termFacts o.terms) j := by
      intro j; simp only [childrenOf, getT_perm hpt hndF j]
    have hA : ∀ j, allOf ft j = allOf (termFacts o.terms) j := by
      intro j; simp only [allOf, getT_perm hpt hndF j]
    have hN : ∀ k j, annOf k ft j = annOf k (termFacts o.terms) j := by
      intro k j; simp only [annOf, getT_perm hpt hndF j]
    have hG : ∀ j, getT ft j = getT (termFacts o.terms) j := fun j => (getT_perm hpt hndF j).symm
    constructor
    · exact hnd
    · intro j hj; rw [hG] at hj; exact this.small j hj
    · intro j; rw [hA]; exact this.fresh j
    · intro k j; rw [hN]; exact this.freshAnn k j
    · intro j p hp; rw [hP] at hp; rw [hG]; exact this.closedP j p hp
    · intro j p hp; rw [hC] at hp; rw [hG]; exact this.closedC j p hp
    · intro p c; rw [hC, hP]; exact this.inverse p c
    · intro j; rw [hP]; exact this.sortedP j
    · intro j; rw [hC]; exact this.sortedC j
  have hadd : Onto.addTermsFold ft o0 = some { o0 with terms := ft } := by
    have := addTermsFold_eq ft o0 hsm (by rw [h0]; simpa using hnd)
    rw [this, h0]; rfl
  refine ⟨hadd, ?_⟩
  -- every id in a parent record is a term
  have hpresent : ∀ j, (getT ft j).isSome = (getT o.terms j).isSome := by
    intro j; rw [hgt]; cases getT o.terms j <;> rfl
  have hrec : ∀ r ∈ fp, ∃ t ∈ o.terms, r = (t.id, t.parents) :=
    fun r hr => mem_parentFacts.1 (hpp.mem_iff.2 hr)
  have hall : ∀ r ∈ fp, (getT ft r.1).isSome ∧ ∀ p ∈ r.2, (getT ft p).isSome := by
    intro r hr
    obtain ⟨t, ht, rfl⟩ := hrec r hr
    have hg := getT_of_mem_nodup h.nodup ht
    refine ⟨by rw [hpresent, hg]; rfl, ?_⟩
    intro p hp
    rw [hpresent]
    exact h.closedP t.id p (by rw [parentsOf_eq hg]; exact hp)
  have heq := addParentRecs_eq_runB fp { o0 with terms := ft } hpre1 hall
  obtain ⟨o2, hrun⟩ := runB_edges_some (edgesOf fp) { o0 with terms := ft }
  obtain ⟨hpre2, hrest2⟩ := preInv_run _ _ o2 hpre1 hrun
  obtain ⟨e1, e2, e3, e4⟩ := edges_phase (edgesOf fp) _ o2 hpre1 hrun
  simp only at e1 e2 e3 e4
  have hids : o2.terms.map (·.id) = ft.map (·.id) := by
    have := (addParentRecs_same fp _ o2 (heq.trans hrun)).1
    have h2 := congrArg (List.map (fun c : Nat × List Char × Bool × Option Nat => c.1)) this
    simpa [List.map_map, Function.comp_def, core] using h2
  -- edges of the parent records = the parent fields of `o`
  have hedge : ∀ x j, (x, j) ∈ edgesOf fp ↔ x ∈ parentsOf o.terms j := by
    intro x j
    rw [mem_edgesOf]
    constructor
    · rintro ⟨ps, hm, hx⟩
      obtain ⟨t, ht, he⟩ := hrec _ hm
      simp only [Prod.mk.injEq] at he
      obtain ⟨rfl, rfl⟩ := he
      rw [parentsOf_eq (getT_of_mem_nodup h.nodup ht)]; exact hx
    · intro hx
      cases hg : getT o.terms j with
      | none => simp [parentsOf, hg] at hx
      | some t =>
        rw [parentsOf_eq hg] at hx
        refine ⟨t.parents, hpp.mem_iff.1 (mem_parentFacts.2 ⟨t, getT_mem hg, ?_⟩), hx⟩
        rw [getT_id hg]
  have hP0 : ∀ j, parentsOf ft j = [] := fun j => by
    simp only [parentsOf, hgt]; cases getT o.terms j <;> rfl
  have hC0 : ∀ j, childrenOf ft j = [] := fun j => by
    simp only [childrenOf, hgt]; cases getT o.terms j <;> rfl
  have hP : ∀ j, parentsOf o2.terms j = parentsOf o.terms j := by
    intro j
    apply eq_of_sorted_of_mem_iff _ _ (hpre2.sortedP j) (h.sortedP j)
    intro x
    rw [e3 j x, hP0, hedge, hpresent, hpresent]
    constructor
    · rintro (h' | ⟨h', _, _⟩)
      · simp at h'
      · exact h'
    · intro hx
      refine Or.inr ⟨hx, h.closedP j x hx, ?_⟩
      cases hg : getT o.terms j with
      | none => simp [parentsOf, hg] at hx
      | some _ => rfl
  have hC : ∀ j, childrenOf o2.terms j = childrenOf o.terms j := by
    intro j
    apply eq_of_sorted_of_mem_iff _ _ (hpre2.sortedC j) (h.sortedC j)
    intro x
    rw [e4 j x, hC0, hedge, hpresent, hpresent, h.inverse]
    constructor
    · rintro (h' | ⟨h', _, _⟩)
      · simp at h'
      · exact h'
    · intro hx
      refine Or.inr ⟨hx, ?_, h.closedP x j hx⟩
      cases hg : getT o.terms x with
      | none => simp [parentsOf, hg] at hx
      | some _ => rfl
  refine ⟨o2, heq.trans hrun, hrest2, hpre2, hids, ?_⟩
  intro j
  have hs := e1 j
  have hf := e2 j
  rw [hgt] at hf
  rw [hpresent] at hs
  cases hg : getT o.terms j with
  | none =>
    rw [hg] at hs
    cases hg2 : getT o2.terms j with
    | none => rfl
    | some _ => rw [hg2] at hs; simp at hs
  | some t =>
    rw [hg] at hs hf
    cases hg2 : getT o2.terms j with
    | none => rw [hg2] at hs; simp at hs
    | some u =>
      rw [hg2] at hf
      simp only [Option.map_some, Option.some.injEq] at hf ⊢
      have hp := hP j
      have hc := hC j
      rw [parentsOf_eq hg2, parentsOf_eq hg] at hp
      rw [childrenOf_eq hg2, childrenOf_eq hg] at hc
      exact term_ext_fields u (stage2 t) ((getT_id hg2).trans (getT_id hg).symm) hf hp hc


theorem transGen_congr {r p : Nat → Nat → Prop} (h : ∀ a b, r a b ↔ p a b) (a b : Nat) :
    TransGen r a b ↔ TransGen p a b :=
  ⟨fun t => TransGen.mono (fun x y hxy => (h x y).1 hxy) a b t,
   fun t => TransGen.mono (fun x y hxy => (h x y).2 hxy) a b t⟩

/-- the target of a chain of parent links is a parent of something -/
theorem transGen_last {r : Nat → Nat → Prop} {a b : Nat} (h : TransGen r a b) : ∃ c, r c b := by
  cases h with
  | single h => exact ⟨_, h⟩
  | tail _ h => exact ⟨_, h⟩

theorem transGen_first {r : Nat → Nat → Prop} {a b : Nat} (h : TransGen r a b) : ∃ c, r a c := by
  induction h with
  | single h => exact ⟨_, h⟩
  | tail _ _ ih => exact ih

/-- the ancestor groups of a `Reachable` ontology form a closure in the sense of the link lemma -/
theorem Reachable.ancClosure {o : Onto} (h : Reachable o) (rank : Nat → Nat)
    (hrank : ∀ c p, p ∈ parentsOf o.terms c → rank p < rank c) :
    AncClosure (allOf o.terms) (fun j => (getT o.terms j).isSome) rank := by
  refine ⟨?_, ?_, ?_⟩
  · intro t a b ha hb
    rw [h.closure] at ha hb ⊢
    exact ha.trans hb
  · intro t a ha
    rw [h.closure] at ha
    have : ∀ {x y : Nat}, TransGen (isA o) x y → rank y < rank x := by
      intro x y hxy
      induction hxy with
      | single h1 => exact hrank _ _ h1
      | tail _ h1 ih => exact Nat.lt_trans (hrank _ _ h1) ih
    exact this ha
  · intro t a _ ha
    rw [h.closure] at ha
    obtain ⟨c, hc⟩ := transGen_last ha
    exact h.closedP c a hc

/-! derived: every id stored anywhere in a `Reachable` ontology resolves -/

theorem Reachable.closedC {o : Onto} (h : Reachable o) (j c : Nat) (hc : c ∈ childrenOf o.terms j) :
    (getT o.terms c).isSome := by
  have := (h.inverse j c).1 hc
  cases hg : getT o.terms c with
  | none => simp [parentsOf, hg] at this
  | some _ => rfl

theorem Reachable.closedA {o : Onto} (h : Reachable o) (j a : Nat) (ha : a ∈ allOf o.terms j) :
    (getT o.terms a).isSome := by
  obtain ⟨c, hc⟩ := transGen_last ((h.closure j a).1 ha)
  exact h.closedP c a hc

theorem Reachable.annResolves {o : Onto} (h : Reachable o) (k : Kind) (x r : Nat)
    (hr : r ∈ annOf k o.terms x) : (getR (o.recs k) r).isSome := by
  obtain ⟨d, hd, _⟩ := (h.linked k x r).1 hr
  cases hg : getR (o.recs k) r with
  | none => simp [hposOf, hg] at hd
  | some _ => rfl

/-- `connect_all_terms` on the reloaded terms: succeeds and caches exactly the ancestor groups of `o`;
the result satisfies the annotation invariant (no records yet). -/
theorem connect_phase (o : Onto) (h : Reachable o) (o2 : Onto) (hpre : PreInv o2.terms)
    (hrecs : ∀ k, o2.recs k = [])
    (h2 : ∀ j, getT o2.terms j = (getT o.terms j).map stage2) :
    ∃ o3, o2.connectAll = .ok o3 ∧ o3 = { o2 with terms := o3.terms } ∧
      o3.terms.map (·.id) = o2.terms.map (·.id) ∧
      (∀ j, getT o3.terms j = (getT o.terms j).map stage3) ∧
      AnnInv (allOf o.terms) (fun j => (getT o.terms j).isSome) o3 ∧
      ∃ rank, AncClosure (allOf o.terms) (fun j => (getT o.terms j).isSome) rank ∧
        ∀ j, rank j < o3.terms.length + 2 := by
  have hPar : ∀ j, parentsOf o2.terms j = parentsOf o.terms j := by
    intro j; simp only [parentsOf, h2]; cases getT o.terms j <;> rfl
  have hisA : ∀ a b, isA o2 a b ↔ isA o a b := by
    intro a b; simp only [isA, hPar]
  have hirr : Irreflexive o2 := by
    intro j hj
    exact h.acyclic j ((h.closure j j).2 ((transGen_congr hisA j j).1 hj))
  have hac : Acyclic o2 := (C01_acyclic_iff_irreflexive o2 hpre).2 hirr
  obtain ⟨o3, hc, hrest, hupd, hex, hsorted⟩ := C01_connect o2 hpre hac
  have hsome2 : ∀ j, (getT o2.terms j).isSome = (getT o.terms j).isSome := by
    intro j; rw [h2]; cases getT o.terms j <;> rfl
  have hall : ∀ j, allOf o3.terms j = allOf o.terms j := by
    intro j
    by_cases hj : (getT o.terms j).isSome
    · apply eq_of_sorted_of_mem_iff _ _ (hsorted j) (h.sortedA j)
      intro a
      rw [hex j (by rw [hupd.isSome, hsome2]; exact hj) a, h.closure, transGen_congr hisA]
    · have n1 : getT o.terms j = none := by
        cases hg : getT o.terms j with
        | none => rfl
        | some _ => rw [hg] at hj; simp at hj
      have n3 : getT o3.terms j = none := by
        have := hupd.isSome j
        rw [hsome2, n1] at this
        cases hg : getT o3.terms j with
        | none => rfl
        | some _ => rw [hg] at this; simp at this
      simp [allOf, n1, n3]
  have h3 : ∀ j, getT o3.terms j = (getT o.terms j).map stage3 := by
    intro j
    rw [hupd.2 j, h2 j, hall j]
    cases hg : getT o.terms j with
    | none => rfl
    | some t => simp [allOf_eq hg, stage3]
  have hrecs3 : ∀ k, o3.recs k = [] := fun k => by rw [recs_of_rest hrest k]; exact hrecs k
  have hhp : ∀ k r, hposOf k o3 r = [] := by intro k r; simp [hposOf, hrecs3, getR]
  have hann : ∀ k j, annOf k o3.terms j = [] := by
    intro k j; simp only [annOf, h3]; cases getT o.terms j <;> cases k <;> rfl
  obtain ⟨rank, hrank, hbound⟩ := hac
  have hlen : o3.terms.length = o2.terms.length := by
    have := congrArg List.length hupd.1; simpa using this
  refine ⟨o3, hc, hrest, hupd.1, h3, ⟨?_, ?_, ?_, ?_, ?_, ?_, ?_⟩, rank, ?_, ?_⟩
  · exact hall
  · intro j; rw [h3]; cases getT o.terms j <;> simp
  · intro j hj
    rw [h3] at hj
    cases hg : getT o.terms j with
    | none => rw [hg] at hj; simp at hj
    | some t => have := h.small t (getT_mem hg); rwa [getT_id hg] at this
  · intro k j; rw [hann]; exact sorted_nil
  · intro k x r; rw [hann, hhp]; simp
  · intro k r d hd; rw [hhp] at hd; simp at hd
  · intro k r; rw [hhp]; exact sorted_nil
  · exact h.ancClosure rank (fun c p hp => hrank c p (by rw [hPar]; exact hp))
  · rw [hlen]; exact hbound


/-! ### the gene / disease sections: link first, insert the record afterwards -/

/-- release version, placeholder slot, categories and modifier are untouched -/
def SameMeta (o o' : Onto) : Prop :=
  o'.version = o.version ∧ o'.slot0 = o.slot0 ∧ o'.categories = o.categories ∧ o'.modifier = o.modifier

theorem SameMeta.refl (o : Onto) : SameMeta o o := ⟨rfl, rfl, rfl, rfl⟩
theorem SameMeta.trans {a b c : Onto} (h1 : SameMeta a b) (h2 : SameMeta b c) : SameMeta a c :=
  ⟨h2.1.trans h1.1, h2.2.1.trans h1.2.1, h2.2.2.1.trans h1.2.2.1, h2.2.2.2.trans h1.2.2.2⟩
theorem sameMeta_of_rest {o o' : Onto} (h : o' = { o with terms := o'.terms }) : SameMeta o o' := by
  rw [h]; exact ⟨rfl, rfl, rfl, rfl⟩
theorem sameMeta_setRecs (o : Onto) (k : Kind) (v : List Rec) : SameMeta o (o.setRecs k v) := by
  cases k <;> exact ⟨rfl, rfl, rfl, rfl⟩

/-- the record as `add_genes_from_bytes` stores it: its terms collected into an `HpoGroup` -/
def normRec (r : Rec) : Rec := { r with hpos := Group.ofList r.hpos }

theorem hposOf_append_fresh (o : Onto) (k : Kind) (r : Rec) (hfresh : getR (o.recs k) r.id = none)
    (k' : Kind) (r' : Nat) :
    hposOf k' (o.setRecs k (o.recs k ++ [r])) r' =
      if k' = k ∧ r' = r.id then r.hpos else hposOf k' o r' := by
  unfold hposOf
  by_cases hk : k' = k
  · subst hk
    rw [recs_setRecs, getR_append]
    by_cases hr : r' = r.id
    · subst hr; simp [hfresh]
    · have hr' : ¬ r.id = r' := fun e => hr e.symm
      cases getR (o.recs k') r' <;> simp [hr, hr']
  · rw [recs_setRecs_ne _ _ _ _ hk]; simp [hk]

section
variable (anc : Nat → List Nat) (ex : Nat → Prop)

/-- `linkAll`: the record id `r` is linked to its direct terms one after the other while the record
itself is not yet in the map (the "pending record": `done` are the direct terms linked so far).
The `linked` clause of `AnnInv` is false for `r` in between; what the recursion of `link` needs
(`UpClosedAbove`) still holds. -/
theorem linkAll_post (rank : Nat → Nat) (hc : AncClosure anc ex rank) (k : Kind) (r : Nat) (o0 : Onto)
    (hinv : AnnInv anc ex o0) (hf : ∀ j, rank j < o0.terms.length + 2) :
    ∀ (ts done : List Nat) (o : Onto), (∀ t ∈ ts, ex t) →
      o = { o0 with terms := o.terms } → UpdAnn k o0.terms o.terms → LState anc ex k o.terms →
      (∀ x h, h ∈ annOf k o.terms x ↔ h ∈ annOf k o0.terms x ∨ (h = r ∧ ∃ d ∈ done, Up anc d x)) →
      ∃ o', Onto.linkAll k r ts o = .ok o' ∧ o' = { o0 with terms := o'.terms } ∧
        UpdAnn k o0.terms o'.terms ∧ LState anc ex k o'.terms ∧
        (∀ x h, h ∈ annOf k o'.terms x ↔
          h ∈ annOf k o0.terms x ∨ (h = r ∧ ∃ d ∈ done ++ ts, Up anc d x)) := by
  intro ts
  induction ts with
  | nil =>
    intro done o _ hrest hupd hst hfr
    exact ⟨o, rfl, hrest, hupd, hst, by simpa using hfr⟩
  | cons t ts ih =>
    intro done o hex hrest hupd hst hfr
    have hlen : o.terms.length = o0.terms.length := by
      have := congrArg List.length hupd.1; simpa using this
    have hup : UpClosedAbove anc k o.terms r t := by
      intro x _ hgx y hy
      rcases (hfr x r).1 hgx with h1 | ⟨_, d, hd, hu⟩
      · exact (hfr y r).2 (Or.inl (hinv.upclosed anc ex rank hc k x r h1 y hy))
      · refine (hfr y r).2 (Or.inr ⟨rfl, d, hd, Or.inr ?_⟩)
        rcases hu with rfl | hu
        · exact hy
        · exact hc.trans d x y hu hy
    obtain ⟨o1, hl, p⟩ := link_post anc ex k r rank hc o.linkFuel o t
      (by simp only [Onto.linkFuel, hlen]; exact hf t) (hex t (by simp)) hst hup
    obtain ⟨o', hl', hrest', hupd', hst', hfr'⟩ := ih (done ++ [t]) o1
      (fun u hu => hex u (by simp [hu])) (by rw [p.rest, hrest]) (hupd.trans p.upd) p.state (by
        intro x h
        rw [p.frame x h, hfr x h]
        simp only [List.mem_append, List.mem_singleton]
        constructor
        · rintro ((h1 | ⟨rfl, d, hd, hu⟩) | ⟨rfl, hu⟩)
          · exact Or.inl h1
          · exact Or.inr ⟨rfl, d, Or.inl hd, hu⟩
          · exact Or.inr ⟨rfl, t, Or.inr rfl, hu⟩
        · rintro (h1 | ⟨rfl, d, hd | rfl, hu⟩)
          · exact Or.inl (Or.inl h1)
          · exact Or.inl (Or.inr ⟨rfl, d, hd, hu⟩)
          · exact Or.inr ⟨rfl, hu⟩)
    refine ⟨o', by simp only [Onto.linkAll, hl, Res.bind, hl'], hrest', hupd', hst', ?_⟩
    intro x h
    rw [hfr' x h]
    simp only [List.append_assoc, List.singleton_append]

/-- one gene / disease section: every record is linked and stored; the invariant is re-established
after each record. Hypotheses: record ids unique and not yet present, direct terms resolve. -/
theorem addRecs_post (rank : Nat → Nat) (hc : AncClosure anc ex rank) (k : Kind) :
    ∀ (rs : List Rec) (o : Onto), AnnInv anc ex o → (∀ j, rank j < o.terms.length + 2) →
      (rs.map (·.id)).Nodup → (∀ r ∈ rs, getR (o.recs k) r.id = none) →
      (∀ r ∈ rs, ∀ d ∈ r.hpos, ex d) →
      ∃ o', Onto.addRecsFromBytes k rs o = .ok o' ∧ AnnInv anc ex o' ∧
        UpdAnn k o.terms o'.terms ∧ o'.recs k = o.recs k ++ rs.map normRec ∧
        (∀ k', k' ≠ k → o'.recs k' = o.recs k') ∧ SameMeta o o' := by
  intro rs
  induction rs with
  | nil =>
    intro o hinv _ _ _ _
    exact ⟨o, rfl, hinv, UpdAnn.refl k _, by simp, fun _ _ => rfl, SameMeta.refl o⟩
  | cons r rs ih =>
    intro o hinv hf hnd hfresh hres
    simp only [List.map_cons, List.nodup_cons] at hnd
    have hfr0 := hfresh r (by simp)
    obtain ⟨o1, hl, hrest, hupd, hst, hfr⟩ := linkAll_post anc ex rank hc k r.id o hinv hf
      (Group.ofList r.hpos) [] o
      (fun t ht => hres r (by simp) t ((mem_ofList _ _).1 ht)) rfl (UpdAnn.refl k _)
      (hinv.lstate anc ex k) (by intro x h; simp)
    simp only [List.nil_append] at hfr
    have hrecs1 : ∀ k', o1.recs k' = o.recs k' := recs_of_rest hrest
    have hput : putR (o1.recs k) (normRec r) = o.recs k ++ [normRec r] := by
      have : getR (o.recs k) (normRec r).id = none := hfr0
      simp only [putR, hrecs1, this]
    -- the state after `HashMap::insert`
    have ht2 : (o1.setRecs k (putR (o1.recs k) (normRec r))).terms = o1.terms := terms_setRecs _ _ _
    have hhp : ∀ k' r', hposOf k' (o1.setRecs k (putR (o1.recs k) (normRec r))) r' =
        if k' = k ∧ r' = r.id then Group.ofList r.hpos else hposOf k' o r' := by
      intro k' r'
      have hfr1 : getR (o1.recs k) (normRec r).id = none := by rw [hrecs1]; exact hfr0
      have := hposOf_append_fresh o1 k (normRec r) hfr1 k' r'
      rw [hput, ← hrecs1 k]
      rw [this]
      have e : hposOf k' o1 r' = hposOf k' o r' := by simp only [hposOf, hrecs1]
      rw [e]; rfl
    have hnone : ∀ x, r.id ∉ annOf k o.terms x := by
      intro x hx
      obtain ⟨d, hd, _⟩ := (hinv.linked k x r.id).1 hx
      simp [hposOf, hfr0] at hd
    have hinv2 : AnnInv anc ex (o1.setRecs k (putR (o1.recs k) (normRec r))) := by
      constructor
      · rw [ht2]; exact hst.ancF
      · rw [ht2]; exact hst.pres
      · rw [ht2]; exact hst.small
      · intro k' j
        rw [ht2]
        by_cases hk : k' = k
        · subst hk; exact hst.sortedA j
        · rw [hupd.ann_ne hk]; exact hinv.sorted k' j
      · intro k' x h
        rw [ht2, hhp]
        by_cases hk : k' = k
        · subst hk
          rw [hfr x h, hinv.linked k' x h]
          by_cases hh : h = r.id
          · subst hh
            simp only [and_self, ↓reduceIte, true_and]
            constructor
            · rintro (⟨d, hd, _⟩ | h1)
              · simp [hposOf, hfr0] at hd
              · exact h1
            · exact Or.inr
          · simp only [hh, and_false, ↓reduceIte, false_and, or_false]
        · simp only [hk, false_and, ↓reduceIte]
          rw [hupd.ann_ne hk]; exact hinv.linked k' x h
      · intro k' r' d
        rw [hhp]
        split
        · intro hd; exact hres r (by simp) d ((mem_ofList _ _).1 hd)
        · exact hinv.recTerms k' r' d
      · intro k' r'
        rw [hhp]
        split
        · exact sorted_ofList _
        · exact hinv.hposSorted k' r'
    have hlen1 : o1.terms.length = o.terms.length := by
      have := congrArg List.length hupd.1; simpa using this
    have hrecs2 : (o1.setRecs k (putR (o1.recs k) (normRec r))).recs k = o.recs k ++ [normRec r] := by
      rw [recs_setRecs, hput]
    obtain ⟨o', hr', hinv', hupd', hrk, hrne, hmeta⟩ := ih _ hinv2
      (by rw [ht2, hlen1]; exact hf) hnd.2
      (by
        intro r' hr'
        rw [hrecs2, getR_append, hfresh r' (by simp [hr'])]
        have : ¬ (normRec r).id = r'.id := by
          intro e; exact hnd.1 (List.mem_map.2 ⟨r', hr', e.symm⟩)
        simp [this])
      (fun r' hr' => hres r' (by simp [hr']))
    refine ⟨o', ?_, hinv', ?_, ?_, ?_, ?_⟩
    · simp only [Onto.addRecsFromBytes, hl, Res.bind]
      exact hr'
    · rw [ht2] at hupd'; exact hupd.trans hupd'
    · rw [hrk, hrecs2]; simp
    · intro k' hk
      rw [hrne k' hk, recs_setRecs_ne _ _ _ _ hk, hrecs1]
    · exact ((sameMeta_of_rest hrest).trans (sameMeta_setRecs _ _ _)).trans hmeta

end


/-! ### information content and default groups -/

/-- the condition under which `InformationContent::calculate(total, current)` is `Ok` -/
def IcFits (total cur : Nat) : Prop := total = 0 ∨ cur = 0 ∨ (total ≤ 65535 ∧ cur ≤ 65535)

theorem icFold_fits (k : Kind) (total : Nat) (ts ts' : List Term)
    (h : Onto.icFold k total ts = .ok ts') : ∀ t ∈ ts, IcFits total (t.ann k).length := by
  induction ts generalizing ts' with
  | nil => intro t ht; simp at ht
  | cons u ts ih =>
    simp only [Onto.icFold] at h
    obtain ⟨v, hv, h2⟩ := Res.bind_eq_ok h
    obtain ⟨ts1, h3, _⟩ := Res.bind_eq_ok h2
    intro t ht
    rcases List.mem_cons.1 ht with rfl | ht
    · exact ((icCalc_ok_iff _ _ _).1 hv).2
    · exact ih _ h3 t ht

theorem calcIc_total (o : Onto)
    (h : ∀ t ∈ o.terms, ∀ k, IcFits (o.recs k).length (t.ann k).length) :
    ∃ ts', o.calcIc = .ok { o with terms := ts' } := by
  obtain ⟨t1, h1⟩ := icFold_total .gene (o.recs .gene).length o.terms (fun t ht => h t ht .gene)
  have e1 := icFold_ok _ _ _ _ h1
  obtain ⟨t2, h2⟩ := icFold_total .omim (o.recs .omim).length t1 (by
    intro t ht; rw [e1] at ht; obtain ⟨t0, ht0, rfl⟩ := List.mem_map.1 ht
    rw [setIc_ann]; exact h t0 ht0 .omim)
  have e2 := icFold_ok _ _ _ _ h2
  obtain ⟨t3, h3⟩ := icFold_total .orpha (o.recs .orpha).length t2 (by
    intro t ht; rw [e2] at ht; obtain ⟨t0, ht0, rfl⟩ := List.mem_map.1 ht
    rw [e1] at ht0; obtain ⟨t00, ht00, rfl⟩ := List.mem_map.1 ht0
    rw [setIc_ann, setIc_ann]; exact h t00 ht00 .orpha)
  refine ⟨t3, ?_⟩
  simp only [Onto.recs] at h1 h2 h3
  simp only [Onto.calcIc, Onto.calcIcKind, Onto.recs, h1, Res.bind, h2, h3]

theorem calcIc_fits (o o' : Onto) (h : o.calcIc = .ok o') :
    ∀ t ∈ o.terms, ∀ k, IcFits (o.recs k).length (t.ann k).length := by
  unfold Onto.calcIc at h
  obtain ⟨o1, h1, h'⟩ := Res.bind_eq_ok h
  obtain ⟨o2, h2, h3⟩ := Res.bind_eq_ok h'
  unfold Onto.calcIcKind at h1 h2 h3
  obtain ⟨t1, g1, e1⟩ := Res.bind_eq_ok h1
  obtain ⟨t2, g2, e2⟩ := Res.bind_eq_ok h2
  obtain ⟨t3, g3, _⟩ := Res.bind_eq_ok h3
  simp only [Res.ok.injEq] at e1 e2
  subst e1; subst e2
  have m1 := icFold_ok _ _ _ _ g1
  have m2 := icFold_ok _ _ _ _ g2
  have f1 := icFold_fits _ _ _ _ g1
  have f2 := icFold_fits _ _ _ _ g2
  have f3 := icFold_fits _ _ _ _ g3
  simp only at m2 f2 f3 g2 g3
  intro t ht k
  cases k
  · exact f1 t ht
  · have := f2 _ (by rw [m1]; exact List.mem_map_of_mem ht)
    rw [setIc_ann] at this; exact this
  · have := f3 _ (by rw [m2, m1]; exact List.mem_map_of_mem (List.mem_map_of_mem ht))
    rw [setIc_ann, setIc_ann] at this; exact this

/-- `build_with_defaults` succeeds iff both roots exist, and then stores the default groups -/
theorem buildWithDefaults_ok_iff (o o' : Onto) (hs : ∀ j, (getT o.terms j).isSome → j < maxId) :
    o.buildWithDefaults = .ok o' ↔
      ((getT o.terms 1).isSome ∧ (getT o.terms Onto.phenotypeId).isSome ∧
        o' = { o with categories := defCategories o.terms, modifier := defModifier o.terms }) := by
  unfold Onto.buildWithDefaults Onto.defaultCategories Onto.defaultModifier Onto.buildMinimal
  have e : ∀ i, ({ o with categories := [], modifier := [] } : Onto).get i = o.get i := fun _ => rfl
  simp only [e, get_eq_getT o _ hs]
  cases h1 : getT o.terms 1 with
  | none => simp [Res.bind]
  | some r =>
    cases h2 : getT o.terms Onto.phenotypeId with
    | none => simp [Res.bind]
    | some p =>
      simp only [Res.bind, Res.ok.injEq, Option.isSome_some, true_and, defCategories, defModifier,
        childrenOf_eq h1, childrenOf_eq h2]
      exact eq_comm


/-! ### assembling `Onto.loadFacts 3` -/

theorem factRecs_perm {g f : RawFacts} (hp : FactsPerm g f) (k : Kind) :
    (factRecs g k).Perm (factRecs f k) := by
  cases k
  · simpa [factRecs] using hp.genes
  · simpa [factRecs] using hp.omim
  · simpa [factRecs] using hp.orpha

theorem normRec_of_sorted (r : Rec) (h : Sorted r.hpos) : normRec r = r := by
  cases r; simp only [normRec, Rec.mk.injEq, true_and]; exact ofList_of_sorted _ h

theorem hposOf_eq {k : Kind} {o : Onto} {j : Nat} {r : Rec} (h : getR (o.recs k) j = some r) :
    hposOf k o j = r.hpos := by simp [hposOf, h]

/-- the records of one kind of a (permuted) file written from a `Reachable` ontology -/
theorem recFacts_ok (o : Onto) (h : Reachable o) (f : RawFacts) (hp : FactsPerm (factsOf o) f)
    (k : Kind) :
    ((factRecs f k).map (·.id)).Nodup ∧
    (∀ r ∈ factRecs f k, ∀ d ∈ r.hpos, (getT o.terms d).isSome) ∧
    (∀ r, getR ((factRecs f k).map normRec) r = (getR (o.recs k) r).map (truncRec k)) ∧
    (factRecs f k).length = (o.recs k).length ∧
    ((factRecs f k).map (·.id)).Perm ((o.recs k).map (·.id)) := by
  have perm := factRecs_perm hp k
  rw [factRecs_factsOf] at perm
  have hids : ((o.recs k).map (truncRec k)).map (·.id) = (o.recs k).map (·.id) := by
    rw [List.map_map]; apply List.map_congr_left; intro r _; exact truncRec_id k r
  have nodup0 : (((o.recs k).map (truncRec k)).map (·.id)).Nodup := by rw [hids]; exact h.recNodup k
  refine ⟨(perm.map _).nodup_iff.1 nodup0, ?_, ?_, ?_, ?_⟩
  · intro r hr d hd
    obtain ⟨r0, hr0, rfl⟩ := List.mem_map.1 (perm.mem_iff.2 hr)
    rw [truncRec_hpos] at hd
    have hg := getR_of_mem_nodup (h.recNodup k) hr0
    exact h.recTerms k r0.id d (by rw [hposOf_eq hg]; exact hd)
  · intro r
    rw [getR_map _ normRec (fun _ => rfl), ← getR_perm perm nodup0 r,
      getR_map _ (truncRec k) (truncRec_id k)]
    cases hg : getR (o.recs k) r with
    | none => rfl
    | some r0 =>
      simp only [Option.map_some, Option.some.injEq]
      apply normRec_of_sorted
      rw [truncRec_hpos, ← hposOf_eq hg]
      exact h.hposSorted k r
  · rw [← perm.length_eq, List.length_map]
  · rw [← hids]; exact (perm.map _).symm

/-- what is observable of the reloaded ontology `o'` (loaded from the records `f`), relative to `o`:
same release version; every term lookup returns the term of `o` with all its fields, the name cut;
every record lookup returns the record of `o` (gene names cut); same categories and modifier; the
slots / records are those of the file, in file order. -/
structure Loaded (o : Onto) (f : RawFacts) (o' : Onto) : Prop where
  version : o'.version = o.version
  slot0 : o'.slot0 = placeholder
  termIds : o'.terms.map (·.id) = f.terms.map (·.id)
  terms : ∀ j, getT o'.terms j = (getT o.terms j).map truncTerm
  recIds : ∀ k, (o'.recs k).map (·.id) = (factRecs f k).map (·.id)
  recs : ∀ k r, getR (o'.recs k) r = (getR (o.recs k) r).map (truncRec k)
  categories : o'.categories = o.categories
  modifier : o'.modifier = o.modifier

/-- **The refinement step.** For a `Reachable` ontology, the builder steps of `from_bytes` on the
records `as_bytes` writes — in any order inside the five sections — succeed (no error, no panic, no
divergence) and return an ontology with the same observations up to the documented name cut. -/
theorem loadFacts_refine (o : Onto) (h : Reachable o) (f : RawFacts)
    (hp : FactsPerm (factsOf o) f) : ∃ o', Onto.loadFacts 3 f = .ok o' ∧ Loaded o f o' := by
  obtain ⟨hadd, o2, hpar, hrest2, hpre2, hids2, hg2⟩ :=
    parents_phase o h f.terms f.parents hp.terms hp.parents { version := f.version } rfl
  have hrecs2 : ∀ k, o2.recs k = [] := by intro k; rw [hrest2]; cases k <;> rfl
  obtain ⟨o3, hc, hrest3, hids3, hg3, hinv3, rank, hcl, hbound⟩ :=
    connect_phase o h o2 hpre2 hrecs2 hg2
  have hrecs3 : ∀ k, o3.recs k = [] := fun k => by rw [recs_of_rest hrest3 k]; exact hrecs2 k
  have hex : ∀ k, ∀ r ∈ factRecs f k, ∀ d ∈ r.hpos, (fun j => (getT o.terms j).isSome) d :=
    fun k => (recFacts_ok o h f hp k).2.1
  -- genes
  obtain ⟨o4, ha4, hinv4, hupd4, hrk4, hrne4, hm4⟩ := addRecs_post _ _ rank hcl .gene
    (factRecs f .gene) o3 hinv3 hbound (recFacts_ok o h f hp .gene).1
    (fun r _ => by rw [hrecs3]; rfl) (hex .gene)
  have hlen4 : o4.terms.length = o3.terms.length := by
    have := congrArg List.length hupd4.1; simpa using this
  -- OMIM diseases
  obtain ⟨o5, ha5, hinv5, hupd5, hrk5, hrne5, hm5⟩ := addRecs_post _ _ rank hcl .omim
    (factRecs f .omim) o4 hinv4 (by rw [hlen4]; exact hbound) (recFacts_ok o h f hp .omim).1
    (fun r _ => by rw [hrne4 .omim (by decide), hrecs3]; rfl) (hex .omim)
  have hlen5 : o5.terms.length = o4.terms.length := by
    have := congrArg List.length hupd5.1; simpa using this
  -- ORPHA diseases
  obtain ⟨o6, ha6, hinv6, hupd6, hrk6, hrne6, hm6⟩ := addRecs_post _ _ rank hcl .orpha
    (factRecs f .orpha) o5 hinv5 (by rw [hlen5, hlen4]; exact hbound) (recFacts_ok o h f hp .orpha).1
    (fun r _ => by rw [hrne5 .orpha (by decide), hrne4 .orpha (by decide), hrecs3]; rfl) (hex .orpha)
  -- the record maps
  have hrecs6 : ∀ k, o6.recs k = (factRecs f k).map normRec := by
    intro k
    cases k
    · rw [hrne6 .gene (by decide), hrne5 .gene (by decide), hrk4, hrecs3]; rfl
    · rw [hrne6 .omim (by decide), hrk5, hrne4 .omim (by decide), hrecs3]; rfl
    · rw [hrk6, hrne5 .orpha (by decide), hrne4 .orpha (by decide), hrecs3]; rfl
  have hgetR : ∀ k r, getR (o6.recs k) r = (getR (o.recs k) r).map (truncRec k) := by
    intro k r; rw [hrecs6]; exact (recFacts_ok o h f hp k).2.2.1 r
  have hhp : ∀ k r, hposOf k o6 r = hposOf k o r := by
    intro k r; simp only [hposOf, hgetR]
    cases getR (o.recs k) r <;> simp [truncRec_hpos]
  -- the links
  have hann : ∀ k x, annOf k o6.terms x = annOf k o.terms x := by
    intro k x
    apply eq_of_sorted_of_mem_iff _ _ (hinv6.sorted k x) (h.sortedAnn k x)
    intro r
    rw [hinv6.linked k x r, h.linked k x r]
    simp only [hhp, Up, eq_comm]
  have hg6 : ∀ j, getT o6.terms j = (getT o.terms j).map stage6 := by
    intro j
    have a1 : annOf .gene o4.terms j = annOf .gene o.terms j := by
      rw [← hann, hupd6.ann_ne (by decide), hupd5.ann_ne (by decide)]
    have a2 : annOf .omim o5.terms j = annOf .omim o.terms j := by
      rw [← hann, hupd6.ann_ne (by decide)]
    rw [hupd6.2 j, hupd5.2 j, hupd4.2 j, hg3 j, a1, a2, hann]
    cases hg : getT o.terms j with
    | none => rfl
    | some t => simp only [Option.map_some, annOf_eq hg]; rfl
  have hids6 : o6.terms.map (·.id) = f.terms.map (·.id) := by
    rw [hupd6.1, hupd5.1, hupd4.1, hids3, hids2]
  have hnd6 : (o6.terms.map (·.id)).Nodup := by
    rw [hids6]
    have : ((termFacts o.terms).map (·.id)).Nodup := by rw [map_id_termFacts]; exact h.nodup
    exact (hp.terms.map _).nodup_iff.1 this
  have hlenR : ∀ k, (o6.recs k).length = (o.recs k).length := by
    intro k; rw [hrecs6, List.length_map]; exact (recFacts_ok o h f hp k).2.2.2.1
  -- information content
  obtain ⟨ts7, hic⟩ := calcIc_total o6 (by
    intro u hu k
    have hgu := getT_of_mem_nodup hnd6 hu
    rw [hg6] at hgu
    cases hg : getT o.terms u.id with
    | none => rw [hg] at hgu; simp at hgu
    | some t =>
      rw [hg] at hgu
      simp only [Option.map_some, Option.some.injEq] at hgu
      have := h.icFits t (getT_mem hg) k
      rw [hlenR, ← hgu]
      cases k <;> exact this)
  obtain ⟨ht7, _, _, _⟩ := calcIc_ok o6 _ hic
  simp only at ht7
  have hg7 : ∀ j, getT ts7 j = (getT o.terms j).map truncTerm := by
    intro j
    rw [ht7, getT_map _ _ (fun t => by simp [setIc_id]), hg6]
    cases hg : getT o.terms j with
    | none => rfl
    | some t =>
      simp only [Option.map_some, Option.some.injEq]
      have i1 := h.ic t (getT_mem hg) .gene
      have i2 := h.ic t (getT_mem hg) .omim
      have i3 := h.ic t (getT_mem hg) .orpha
      have l1 := hlenR .gene
      have l2 := hlenR .omim
      have l3 := hlenR .orpha
      simp only [Term.ic, Term.ann, Onto.recs] at i1 i2 i3 l1 l2 l3
      cases t
      simp only [stage6, stage3, stage2, truncTerm, Term.setIc, l1, l2, l3] at i1 i2 i3 ⊢
      simp only [i1, i2, i3]
  -- default groups
  have hsmall7 : ∀ j, (getT ts7 j).isSome → j < maxId := by
    intro j hj
    rw [hg7] at hj
    cases hg : getT o.terms j with
    | none => rw [hg] at hj; simp at hj
    | some t => have := h.small t (getT_mem hg); rwa [getT_id hg] at this
  have hch : ∀ j, childrenOf ts7 j = childrenOf o.terms j := by
    intro j; simp only [childrenOf, hg7]; cases getT o.terms j <;> rfl
  have hr1 : (getT ts7 1).isSome = true := by
    rw [hg7]; have := h.roots.1
    cases hg : getT o.terms 1 with
    | none => rw [hg] at this; simp at this
    | some _ => rfl
  have hr2 : (getT ts7 Onto.phenotypeId).isSome = true := by
    rw [hg7]; have := h.roots.2
    cases hg : getT o.terms Onto.phenotypeId with
    | none => rw [hg] at this; simp at this
    | some _ => rfl
  have hbd := (buildWithDefaults_ok_iff ({ o6 with terms := ts7 } : Onto) _ hsmall7).2 ⟨hr1, hr2, rfl⟩
  have hmeta : SameMeta ({ version := f.version } : Onto) o6 :=
    (((sameMeta_of_rest hrest2).trans (sameMeta_of_rest hrest3)).trans hm4).trans (hm5.trans hm6)
  refine ⟨{ o6 with terms := ts7, categories := defCategories ts7, modifier := defModifier ts7 }, ?_, ?_⟩
  · have h31 : (3 : Nat) ≠ 1 := by decide
    have h32 : (3 : Nat) > 2 := by decide
    simp only [Onto.loadFacts, h31, h32, ↓reduceIte, hadd, hpar, hc, Res.bind]
    have e1 : f.genes = factRecs f .gene := rfl
    have e2 : f.omim = factRecs f .omim := rfl
    have e3 : f.orpha = factRecs f .orpha := rfl
    rw [e1, ha4]; simp only
    rw [e2, ha5]; simp only
    rw [e3, ha6]; simp only
    rw [hic]; simp only
    exact hbd
  · constructor
    · show o6.version = o.version
      rw [hmeta.1]; exact hp.version.symm
    · show o6.slot0 = placeholder
      rw [hmeta.2.1]
    · show ts7.map (·.id) = _
      rw [ht7, List.map_map, ← hids6]
      apply List.map_congr_left; intro t _; simp [setIc_id]
    · exact hg7
    · intro k
      show (({ o6 with terms := ts7 } : Onto).recs k).map (·.id) = _
      have : ({ o6 with terms := ts7 } : Onto).recs k = o6.recs k := by cases k <;> rfl
      rw [this, hrecs6, List.map_map]; rfl
    · intro k r
      have : ({ o6 with terms := ts7 } : Onto).recs k = o6.recs k := by cases k <;> rfl
      show getR (({ o6 with terms := ts7 } : Onto).recs k) r = _
      rw [this]; exact hgetR k r
    · show defCategories ts7 = o.categories
      rw [h.categories]; simp only [defCategories, hch]
    · show defModifier ts7 = o.modifier
      rw [h.modifier]; simp only [defModifier, hch]


/-! ### exact form: the records in the order `as_bytes` wrote them -/

theorem FactsPerm.refl (f : RawFacts) : FactsPerm f f :=
  ⟨rfl, List.Perm.refl _, List.Perm.refl _, List.Perm.refl _, List.Perm.refl _, List.Perm.refl _⟩

theorem onto_ext (a b : Onto) (h1 : a.terms = b.terms) (h2 : a.slot0 = b.slot0)
    (h3 : ∀ k, a.recs k = b.recs k) (h4 : a.version = b.version)
    (h5 : a.categories = b.categories) (h6 : a.modifier = b.modifier) : a = b := by
  have g := h3 .gene; have om := h3 .omim; have orp := h3 .orpha
  cases a; cases b
  simp only [Onto.recs] at g om orp
  simp_all

/-- With the records in the order they were written, the reloaded ontology is `truncOnto o`
literally: same slots in the same order, same record lists, every field equal (names cut). -/
theorem loadFacts_factsOf (o : Onto) (h : Reachable o) :
    Onto.loadFacts 3 (factsOf o) = .ok (truncOnto o) := by
  obtain ⟨o', hl, L⟩ := loadFacts_refine o h (factsOf o) (FactsPerm.refl _)
  rw [hl]
  congr 1
  apply onto_ext
  · have hids : o'.terms.map (·.id) = (o.terms.map truncTerm).map (·.id) := by
      rw [L.termIds]
      show (termFacts o.terms).map (·.id) = _
      rw [map_id_termFacts, List.map_map]; rfl
    apply list_eq_of_getT _ _ hids
    · rw [hids, List.map_map]; exact h.nodup
    · intro j; rw [L.terms j]; exact (getT_map o.terms truncTerm (fun _ => rfl) j).symm
  · exact L.slot0
  · intro k
    rw [truncOnto_recs]
    have hids : (o'.recs k).map (·.id) = ((o.recs k).map (truncRec k)).map (·.id) := by
      rw [L.recIds k, factRecs_factsOf]
    apply list_eq_of_getR _ _ hids
    · rw [hids, List.map_map]
      have : (o.recs k).map ((fun r : Rec => r.id) ∘ truncRec k) = (o.recs k).map (·.id) := by
        apply List.map_congr_left; intro r _; exact truncRec_id k r
      rw [this]; exact h.recNodup k
    · intro j; rw [L.recs k j]; exact (getR_map _ (truncRec k) (truncRec_id k) j).symm
  · exact L.version
  · exact L.categories
  · exact L.modifier

/-! ### the Builder route establishes `Reachable` -/

/-- what the three passes of `calculate_information_content` do to a term -/
def icAll (o : Onto) (t : Term) : Term :=
  ((t.setIc .gene (icPair o.genes.length t.genes.length)).setIc .omim
    (icPair o.omim.length t.omim.length)).setIc .orpha (icPair o.orpha.length t.orpha.length)

theorem icAll_id (o : Onto) (t : Term) : (icAll o t).id = t.id := rfl
theorem icAll_ann (o : Onto) (t : Term) (k : Kind) : (icAll o t).ann k = t.ann k := by cases k <;> rfl
theorem icAll_ic (o : Onto) (t : Term) (k : Kind) :
    (icAll o t).ic k = icPair (o.recs k).length (t.ann k).length := by cases k <;> rfl

theorem ids_of_core {ts ts' : List Term} (h : ts'.map core = ts.map core) :
    ts'.map (·.id) = ts.map (·.id) := by
  have h2 := congrArg (List.map (fun c : Nat × List Char × Bool × Option Nat => c.1)) h
  simpa [List.map_map, Function.comp_def, core] using h2

theorem applyA_ids (o : Onto) (op : AOp) : (applyA o op).terms.map (·.id) = o.terms.map (·.id) := by
  cases op with
  | addRec k n i => simp [applyA, Onto.addRec, terms_setRecs]
  | annotate k rid n t =>
    simp only [applyA]
    cases hr : o.annotate k rid n t with
    | ok o' =>
      simp only
      unfold Onto.annotate at hr
      cases hg : o.get t with
      | none => simp [hg] at hr
      | some _ =>
        simp only [hg] at hr
        have := ids_of_core (link_same _ _ _ _ _ _ hr).1
        rw [this, terms_addTermToRec]
    | err _ => rfl
    | panic => rfl
    | diverge => rfl

theorem runA_ids (ops : List AOp) : ∀ o : Onto, (runA ops o).terms.map (·.id) = o.terms.map (·.id) := by
  induction ops with
  | nil => intro o; rfl
  | cons op ops ih =>
    intro o
    simp only [runA, List.foldl_cons]
    have := ih (applyA o op)
    simp only [runA] at this
    rw [this, applyA_ids]

theorem runA_core (anc : Nat → List Nat) (ex : Nat → Prop) (rank : Nat → Nat)
    (hc : AncClosure anc ex rank) (ops : List AOp) :
    ∀ o : Onto, AnnInv anc ex o → (∀ j, rank j < o.terms.length + 2) →
      ∀ j, (getT (runA ops o).terms j).map coreOf = (getT o.terms j).map coreOf := by
  induction ops with
  | nil => intro o _ _ j; rfl
  | cons op ops ih =>
    intro o hinv hf j
    obtain ⟨hinv1, hlen1, hcore1⟩ := applyA_core anc ex rank hc o hinv hf op
    have := ih (applyA o op) hinv1 (by rw [hlen1]; exact hf) j
    simp only [runA, List.foldl_cons] at this ⊢
    rw [this, hcore1]

theorem core_proj {t u : Term} (h : coreOf t = coreOf u) :
    t.id = u.id ∧ t.parents = u.parents ∧ t.children = u.children ∧ t.allParents = u.allParents := by
  simp only [coreOf, Prod.mk.injEq] at h
  exact ⟨h.1, h.2.2.1, h.2.2.2.2.1, h.2.2.2.1⟩

/-- **Non-vacuity and link to the public constructors.** Every ontology the Builder produces —
any history of `new_term` / `add_parent` calls (failing ones included) with an acyclic result,
`connect_all_terms`, any history of `add_gene` / `add_*_disease` / `annotate_*` calls,
`calculate_information_content`, `build_with_defaults` — is `Reachable`. -/
theorem reachable_of_builder (tops : List BOp) (o oc : Onto) (hrun : runB tops {} = some o)
    (hac : Acyclic o) (hc : o.connectAll = .ok oc) (aops : List AOp) (r d : Onto)
    (hic : (runA aops oc).calcIc = .ok r) (hd : r.buildWithDefaults = .ok d) : Reachable d := by
  obtain ⟨hpre, hrest0⟩ := preInv_run tops {} o preInv_nil hrun
  obtain ⟨oc', hc', hrest, hupd, hex, hsorted⟩ := C01_connect o hpre hac
  rw [hc] at hc'; cases hc'
  obtain ⟨hinv, ⟨rank, hcl, hf⟩, _, _⟩ := connected_annInv tops o oc hrun hac hc
  have H := (C02_history _ _ rank hcl aops oc hinv hf).1
  have hcore := runA_core _ _ rank hcl aops oc hinv hf
  have hidsb := runA_ids aops oc
  obtain ⟨hrt, hrg, hro, hrr⟩ := calcIc_ok _ r hic
  have hrt' : r.terms = (runA aops oc).terms.map (icAll (runA aops oc)) := hrt
  have hgr : ∀ j, getT r.terms j = (getT (runA aops oc).terms j).map (icAll (runA aops oc)) := by
    intro j; rw [hrt']; exact getT_map _ _ (icAll_id _) j
  -- presence and the relations, through all stages
  have hSb : ∀ j, (getT (runA aops oc).terms j).isSome = (getT o.terms j).isSome := by
    intro j
    have := congrArg Option.isSome (hcore j)
    simp only [Option.isSome_map] at this
    rw [this, hupd.isSome]
  have hSr : ∀ j, (getT r.terms j).isSome = (getT o.terms j).isSome := by
    intro j; rw [hgr, Option.isSome_map, hSb]
  have hsmallr : ∀ j, (getT r.terms j).isSome → j < maxId := by
    intro j hj; rw [hSr] at hj; exact hpre.small j hj
  obtain ⟨hroot1, hroot2, hdeq⟩ := (buildWithDefaults_ok_iff r d hsmallr).1 hd
  have hdt : d.terms = r.terms := by rw [hdeq]
  have hproj : ∀ j t, getT r.terms j = some t → ∃ u tb, getT o.terms j = some u ∧
      getT (runA aops oc).terms j = some tb ∧ t = icAll (runA aops oc) tb ∧
      t.parents = u.parents ∧ t.children = u.children ∧ t.allParents = allOf oc.terms j := by
    intro j t ht
    rw [hgr] at ht
    cases hb : getT (runA aops oc).terms j with
    | none => rw [hb] at ht; simp at ht
    | some tb =>
      rw [hb] at ht
      simp only [Option.map_some, Option.some.injEq] at ht
      have hcj := hcore j
      rw [hb, hupd.2 j] at hcj
      cases hu : getT o.terms j with
      | none => rw [hu] at hcj; simp at hcj
      | some u =>
        rw [hu] at hcj
        simp only [Option.map_some, Option.some.injEq] at hcj
        obtain ⟨_, c2, c3, c4⟩ := core_proj hcj
        refine ⟨u, tb, rfl, rfl, ht.symm, ?_, ?_, ?_⟩
        · rw [← ht]; exact c2
        · rw [← ht]; exact c3
        · rw [← ht]; exact c4
  have hnone : ∀ j, getT r.terms j = none → getT o.terms j = none := by
    intro j hj
    have := hSr j
    rw [hj] at this
    cases hg : getT o.terms j with
    | none => rfl
    | some _ => rw [hg] at this; simp at this
  have hP : ∀ j, parentsOf d.terms j = parentsOf o.terms j := by
    intro j; rw [hdt]
    cases hg : getT r.terms j with
    | none => simp [parentsOf, hg, hnone j hg]
    | some t =>
      obtain ⟨u, _, hu, _, _, e, _, _⟩ := hproj j t hg
      rw [parentsOf_eq hg, parentsOf_eq hu, e]
  have hC : ∀ j, childrenOf d.terms j = childrenOf o.terms j := by
    intro j; rw [hdt]
    cases hg : getT r.terms j with
    | none => simp [childrenOf, hg, hnone j hg]
    | some t =>
      obtain ⟨u, _, hu, _, _, _, e, _⟩ := hproj j t hg
      rw [childrenOf_eq hg, childrenOf_eq hu, e]
  have hA : ∀ j, allOf d.terms j = allOf oc.terms j := by
    intro j; rw [hdt]
    cases hg : getT r.terms j with
    | none =>
      have : getT oc.terms j = none := by
        have h1 := hupd.isSome j
        rw [hnone j hg] at h1
        cases hg2 : getT oc.terms j with
        | none => rfl
        | some _ => rw [hg2] at h1; simp at h1
      simp [allOf, hg, this]
    | some t =>
      obtain ⟨_, _, _, _, _, _, _, e⟩ := hproj j t hg
      rw [allOf_eq hg, e]
  have hN : ∀ k j, annOf k d.terms j = annOf k (runA aops oc).terms j := by
    intro k j; rw [hdt]
    simp only [annOf, hgr]
    cases getT (runA aops oc).terms j with
    | none => rfl
    | some tb => simp [icAll_ann]
  have hdr : ∀ k, d.recs k = (runA aops oc).recs k := by
    intro k; rw [hdeq]; cases k
    · exact hrg
    · exact hro
    · exact hrr
  have hhp : ∀ k x, hposOf k d x = hposOf k (runA aops oc) x := by
    intro k x; simp only [hposOf, hdr]
  have hisA : ∀ a b, isA d a b ↔ isA o a b := by intro a b; simp only [isA, hP]
  have hmem : ∀ t ∈ d.terms, ∃ tb ∈ (runA aops oc).terms, t = icAll (runA aops oc) tb := by
    intro t ht
    rw [hdt, hrt'] at ht
    obtain ⟨tb, htb, rfl⟩ := List.mem_map.1 ht
    exact ⟨tb, htb, rfl⟩
  have hrecs0 : ∀ k, ((oc.recs k).map (·.id)).Nodup := by
    intro k
    have : oc.recs k = [] := by rw [hrest, hrest0]; cases k <;> rfl
    simp [this]
  constructor
  · rw [hdt, hrt', List.map_map]
    have : (runA aops oc).terms.map ((fun t : Term => t.id) ∘ icAll (runA aops oc)) =
        (runA aops oc).terms.map (·.id) := List.map_congr_left (fun t _ => icAll_id _ t)
    rw [this, hidsb, hupd.1]; exact hpre.nodup
  · intro t ht
    obtain ⟨tb, htb, rfl⟩ := hmem t ht
    rw [icAll_id]
    apply hpre.small
    rw [← hSb, getT_isSome_iff]
    exact List.mem_map_of_mem htb
  · intro j p hp
    rw [hP] at hp
    rw [hdt, hSr]; exact hpre.closedP j p hp
  · intro p c; rw [hC, hP]; exact hpre.inverse p c
  · intro j; rw [hP]; exact hpre.sortedP j
  · intro j; rw [hC]; exact hpre.sortedC j
  · intro j a
    rw [hA, transGen_congr hisA]
    by_cases hj : (getT oc.terms j).isSome
    · exact hex j hj a
    · have n1 : getT oc.terms j = none := by
        cases hg : getT oc.terms j with
        | none => rfl
        | some _ => rw [hg] at hj; simp at hj
      have n0 : getT o.terms j = none := by
        have h1 := hupd.isSome j
        rw [n1] at h1
        cases hg : getT o.terms j with
        | none => rfl
        | some _ => rw [hg] at h1; simp at h1
      constructor
      · intro ha; simp [allOf, n1] at ha
      · intro ht
        obtain ⟨c, hc'⟩ := transGen_first ht
        simp [isA, parentsOf, n0] at hc'
  · intro j hj
    rw [hA] at hj
    have hpj : (getT oc.terms j).isSome := by
      cases hg : getT oc.terms j with
      | none => simp [allOf, hg] at hj
      | some _ => rfl
    have := (hex j hpj j).1 hj
    obtain ⟨rk, hrk, _⟩ := hac
    have := transGen_rank hrk this
    omega
  · intro j; rw [hA]; exact hsorted j
  · intro k; rw [hdr]
    exact recIds_nodup aops oc hrecs0 _ _ rank hcl hinv hf k
  · intro k x rr
    rw [hN, hhp, H.linked k x rr]
    simp only [Up, ancOf, hA, eq_comm]
  · intro k j; rw [hN]; exact H.sorted k j
  · intro k rr dd hdd
    rw [hhp] at hdd
    have := H.recTerms k rr dd hdd
    rw [hdt, hSr, ← hupd.isSome]; exact this
  · intro k rr; rw [hhp]; exact H.hposSorted k rr
  · intro t ht k
    obtain ⟨tb, _, rfl⟩ := hmem t ht
    rw [icAll_ic, icAll_ann, hdr]
  · intro t ht k
    obtain ⟨tb, htb, rfl⟩ := hmem t ht
    rw [icAll_ann, hdr]
    exact calcIc_fits _ r hic tb htb k
  · rw [hdt]; exact ⟨hroot1, hroot2⟩
  · rw [hdeq]
  · rw [hdeq]


/-! ### observational equality up to the name cut; the class is closed under the round trip -/

/-- `o'` shows the observations of `o` with term and gene names cut to ≤ 255 bytes: same release
version, same set of term ids and every term lookup equal in all other fields (flags, parents,
children, ancestors, linked records of the three kinds, ic pairs), same set of record ids per kind and
every record lookup equal (direct terms), same categories and modifier. -/
structure ObsTrunc (o o' : Onto) : Prop where
  version : o'.version = o.version
  terms : ∀ j, getT o'.terms j = (getT o.terms j).map truncTerm
  termSet : (o'.terms.map (·.id)).Perm (o.terms.map (·.id))
  recs : ∀ k r, getR (o'.recs k) r = (getR (o.recs k) r).map (truncRec k)
  recSet : ∀ k, ((o'.recs k).map (·.id)).Perm ((o.recs k).map (·.id))
  categories : o'.categories = o.categories
  modifier : o'.modifier = o.modifier

theorem Loaded.obs {o : Onto} (h : Reachable o) {f : RawFacts} {o' : Onto} (L : Loaded o f o')
    (hp : FactsPerm (factsOf o) f) : ObsTrunc o o' := by
  refine ⟨L.version, L.terms, ?_, L.recs, ?_, L.categories, L.modifier⟩
  · rw [L.termIds]
    have := (hp.terms.map (fun t : Term => t.id)).symm
    rwa [show (factsOf o).terms = termFacts o.terms from rfl, map_id_termFacts] at this
  · intro k; rw [L.recIds k]; exact (recFacts_ok o h f hp k).2.2.2.2

theorem getT_truncOnto (o : Onto) (j : Nat) :
    getT (truncOnto o).terms j = (getT o.terms j).map truncTerm :=
  getT_map o.terms truncTerm (fun _ => rfl) j

theorem getR_truncOnto (o : Onto) (k : Kind) (r : Nat) :
    getR ((truncOnto o).recs k) r = (getR (o.recs k) r).map (truncRec k) := by
  rw [truncOnto_recs]; exact getR_map _ (truncRec k) (truncRec_id k) r

theorem truncOnto_ids (o : Onto) : (truncOnto o).terms.map (·.id) = o.terms.map (·.id) := by
  show (o.terms.map truncTerm).map (·.id) = _
  rw [List.map_map]; rfl

theorem truncOnto_recIds (o : Onto) (k : Kind) :
    ((truncOnto o).recs k).map (·.id) = (o.recs k).map (·.id) := by
  rw [truncOnto_recs, List.map_map]
  apply List.map_congr_left; intro r _; exact truncRec_id k r

theorem obsTrunc_truncOnto (o : Onto) : ObsTrunc o (truncOnto o) :=
  ⟨rfl, getT_truncOnto o, by rw [truncOnto_ids], getR_truncOnto o,
   fun k => by rw [truncOnto_recIds], rfl, rfl⟩

/-- The class is closed under the round trip: what `from_bytes(as_bytes(o))` returns is `Reachable`
again (so the theorems apply to a round trip of a round trip, and to every ontology read from a
file that `as_bytes` wrote). -/
theorem reachable_truncOnto (o : Onto) (h : Reachable o) : Reachable (truncOnto o) := by
  have hg := getT_truncOnto o
  have hS : ∀ j, (getT (truncOnto o).terms j).isSome = (getT o.terms j).isSome := by
    intro j; rw [hg]; cases getT o.terms j <;> rfl
  have hP : ∀ j, parentsOf (truncOnto o).terms j = parentsOf o.terms j := by
    intro j; simp only [parentsOf, hg]; cases getT o.terms j <;> rfl
  have hC : ∀ j, childrenOf (truncOnto o).terms j = childrenOf o.terms j := by
    intro j; simp only [childrenOf, hg]; cases getT o.terms j <;> rfl
  have hA : ∀ j, allOf (truncOnto o).terms j = allOf o.terms j := by
    intro j; simp only [allOf, hg]; cases getT o.terms j <;> rfl
  have hN : ∀ k j, annOf k (truncOnto o).terms j = annOf k o.terms j := by
    intro k j; simp only [annOf, hg]; cases getT o.terms j <;> cases k <;> rfl
  have hhp : ∀ k r, hposOf k (truncOnto o) r = hposOf k o r := by
    intro k r; simp only [hposOf, getR_truncOnto]
    cases getR (o.recs k) r <;> simp [truncRec_hpos]
  have hlen : ∀ k, ((truncOnto o).recs k).length = (o.recs k).length := by
    intro k; rw [truncOnto_recs, List.length_map]
  have hisA : ∀ a b, isA (truncOnto o) a b ↔ isA o a b := by intro a b; simp only [isA, hP]
  have hmem : ∀ t ∈ (truncOnto o).terms, ∃ t0 ∈ o.terms, t = truncTerm t0 := by
    intro t ht
    obtain ⟨t0, ht0, rfl⟩ := List.mem_map.1 ht
    exact ⟨t0, ht0, rfl⟩
  constructor
  · rw [truncOnto_ids]; exact h.nodup
  · intro t ht; obtain ⟨t0, ht0, rfl⟩ := hmem t ht; exact h.small t0 ht0
  · intro j p hp; rw [hP] at hp; rw [hS]; exact h.closedP j p hp
  · intro p c; rw [hC, hP]; exact h.inverse p c
  · intro j; rw [hP]; exact h.sortedP j
  · intro j; rw [hC]; exact h.sortedC j
  · intro j a; rw [hA, transGen_congr hisA]; exact h.closure j a
  · intro j; rw [hA]; exact h.acyclic j
  · intro j; rw [hA]; exact h.sortedA j
  · intro k; rw [truncOnto_recIds]; exact h.recNodup k
  · intro k x r; rw [hN, hhp]; simp only [hA]; exact h.linked k x r
  · intro k j; rw [hN]; exact h.sortedAnn k j
  · intro k r d hd; rw [hhp] at hd; rw [hS]; exact h.recTerms k r d hd
  · intro k r; rw [hhp]; exact h.hposSorted k r
  · intro t ht k
    obtain ⟨t0, ht0, rfl⟩ := hmem t ht
    rw [hlen]
    have := h.ic t0 ht0 k
    cases k <;> exact this
  · intro t ht k
    obtain ⟨t0, ht0, rfl⟩ := hmem t ht
    rw [hlen]
    have := h.icFits t0 ht0 k
    cases k <;> exact this
  · rw [hS, hS]; exact h.roots
  · show o.categories = _
    rw [h.categories]; simp only [defCategories, hC]
  · show o.modifier = _
    rw [h.modifier]; simp only [defModifier, hC]

/-- names that fit the length byte are not cut -/
theorem truncOnto_eq_self (o : Onto) (hs : o.slot0 = placeholder)
    (ht : ∀ t ∈ o.terms, (Proto.utf8 t.name).length ≤ 255)
    (hr : ∀ r ∈ o.genes, (Proto.utf8 r.name).length ≤ 255) : truncOnto o = o := by
  have e1 : o.terms.map truncTerm = o.terms := by
    conv => rhs; rw [← List.map_id o.terms]
    apply List.map_congr_left
    intro t htm
    have := takeFit_eq_self 255 t.name (ht t htm)
    cases t
    simp only [truncTerm, truncName, id] at this ⊢
    simp only [this]
  have e2 : geneFacts o.genes = o.genes := by
    rw [geneFacts_eq_map]
    conv => rhs; rw [← List.map_id o.genes]
    apply List.map_congr_left
    intro r hrm
    have := takeFit_eq_self 255 r.name (hr r hrm)
    cases r
    simp only [truncName, id] at this ⊢
    simp only [this]
  cases o
  simp only [truncOnto] at e1 e2 hs ⊢
  simp only [e1, e2, hs]

end Binary
end Hpo
