import HpoModel.Group
/-! Lemmas about the sorted-vector model of `HpoGroup` (core Lean only). -/
namespace Hpo
namespace Group

/-- strictly ascending = sorted + duplicate free -/
def Sorted (l : List Nat) : Prop := l.Pairwise (· < ·)

instance (l : List Nat) : Decidable (Sorted l) := by unfold Sorted; infer_instance

theorem sorted_nil : Sorted [] := List.Pairwise.nil

theorem Sorted.nodup {l : List Nat} (h : Sorted l) : l.Nodup := by
  unfold Sorted at h
  exact List.Pairwise.imp (fun hab => Nat.ne_of_lt hab) h

theorem Sorted.tail {a : Nat} {l : List Nat} (h : Sorted (a :: l)) : Sorted l :=
  (List.pairwise_cons.1 h).2

theorem Sorted.head_lt {a : Nat} {l : List Nat} (h : Sorted (a :: l)) : ∀ x ∈ l, a < x :=
  (List.pairwise_cons.1 h).1

/-! ### insert -/

theorem mem_insert (l : List Nat) (x y : Nat) : y ∈ (insert l x).1 ↔ y = x ∨ y ∈ l := by
  fun_induction insert l x <;> grind

theorem sorted_insert (l : List Nat) (x : Nat) (h : Sorted l) : Sorted (insert l x).1 := by
  unfold Sorted at *
  fun_induction insert l x
  · simp
  · rename_i a l x hxa
    simp only [List.pairwise_cons] at h ⊢
    refine ⟨?_, h⟩
    intro y hy
    rcases List.mem_cons.1 hy with rfl | hy
    · exact hxa
    · exact Nat.lt_trans hxa (h.1 y hy)
  · exact h
  · rename_i a l x hxa hne ih
    simp only [List.pairwise_cons] at h ⊢
    refine ⟨?_, ih h.2⟩
    intro y hy
    rcases (mem_insert l x y).1 hy with rfl | hy
    · omega
    · exact h.1 y hy

/-- the returned flag is `true` exactly when the id was not yet a member -/
theorem insert_snd (l : List Nat) (x : Nat) (h : Sorted l) : (insert l x).2 = true ↔ x ∉ l := by
  unfold Sorted at h
  fun_induction insert l x
  · simp
  · rename_i a l x hxa
    simp only [List.pairwise_cons] at h
    simp only [List.mem_cons, not_or, true_iff]
    refine ⟨by omega, ?_⟩
    intro hx; have := h.1 x hx; omega
  · simp
  · rename_i a l x hxa hne ih
    simp only [List.pairwise_cons] at h
    rw [ih h.2]
    simp only [List.mem_cons, not_or]
    constructor
    · intro h'; exact ⟨hne, h'⟩
    · intro h'; exact h'.2

/-- inserting a member changes nothing -/
theorem insert_of_mem (l : List Nat) (x : Nat) (h : Sorted l) (hx : x ∈ l) : (insert l x).1 = l := by
  unfold Sorted at h
  fun_induction insert l x
  · simp at hx
  · rename_i a l x hxa
    simp only [List.pairwise_cons] at h
    rcases List.mem_cons.1 hx with rfl | hx
    · omega
    · have := h.1 x hx; omega
  · rfl
  · rename_i a l x hxa hne ih
    simp only [List.pairwise_cons] at h
    rcases List.mem_cons.1 hx with rfl | hx
    · omega
    · simp [ih h.2 hx]

theorem length_insert (l : List Nat) (x : Nat) :
    (insert l x).1.length = if (insert l x).2 then l.length + 1 else l.length := by
  fun_induction insert l x <;> simp_all <;> split <;> simp_all

/-! ### canonical form: a sorted duplicate-free vector is determined by its elements -/

theorem eq_of_sorted_of_mem_iff : ∀ (l r : List Nat), Sorted l → Sorted r →
    (∀ x, x ∈ l ↔ x ∈ r) → l = r := by
  intro l
  induction l with
  | nil =>
    intro r _ _ h
    cases r with
    | nil => rfl
    | cons b r => have := (h b).2 (by simp); simp at this
  | cons a l ih =>
    intro r hl hr h
    cases r with
    | nil => have := (h a).1 (by simp); simp at this
    | cons b r =>
      have hla := hl.head_lt
      have hrb := hr.head_lt
      have hab : a = b := by
        have h1 := (h a).1 (by simp)
        have h2 := (h b).2 (by simp)
        rcases List.mem_cons.1 h1 with h1 | h1
        · exact h1
        · rcases List.mem_cons.1 h2 with h2 | h2
          · exact h2.symm
          · have := hrb a h1; have := hla b h2; omega
      subst hab
      congr 1
      apply ih r hl.tail hr.tail
      intro x
      constructor
      · intro hx
        have := (h x).1 (by simp [hx])
        rcases List.mem_cons.1 this with rfl | h'
        · have := hla x hx; omega
        · exact h'
      · intro hx
        have := (h x).2 (by simp [hx])
        rcases List.mem_cons.1 this with rfl | h'
        · have := hrb x hx; omega
        · exact h'

/-! ### union -/

theorem bitor_nil_left (r : List Nat) : bitor [] r = r := rfl

theorem bitor_nil_right (l : List Nat) : bitor l [] = l := by
  induction l with
  | nil => rfl
  | cons a l ih => simp [bitor, mergeAux, ih]

/-- the loop body of the code's merge -/
theorem bitor_cons_cons (a b : Nat) (l r : List Nat) :
    bitor (a :: l) (b :: r) =
      if a < b then a :: bitor l (b :: r)
      else if b < a then b :: bitor (a :: l) r
      else a :: bitor l r := by
  simp [bitor, mergeAux]

theorem mem_bitor (l r : List Nat) (x : Nat) : x ∈ bitor l r ↔ x ∈ l ∨ x ∈ r := by
  induction l generalizing r with
  | nil => simp [bitor]
  | cons a l ihl =>
    induction r with
    | nil => simp [bitor_nil_right]
    | cons b r ihr =>
      rw [bitor_cons_cons]
      split
      · simp [ihl]; grind
      · split
        · simp [ihr]; grind
        · have : a = b := by omega
          subst this; simp [ihl]; grind

theorem sorted_bitor (l r : List Nat) (hl : Sorted l) (hr : Sorted r) : Sorted (bitor l r) := by
  unfold Sorted at *
  induction l generalizing r with
  | nil => simpa [bitor] using hr
  | cons a l ihl =>
    induction r with
    | nil => simpa [bitor_nil_right] using hl
    | cons b r ihr =>
      rw [bitor_cons_cons]
      simp only [List.pairwise_cons] at hl hr
      split
      · rename_i hab
        simp only [List.pairwise_cons]
        refine ⟨?_, ihl (b :: r) hl.2 (by simp [List.pairwise_cons]; exact hr)⟩
        intro x hx; rw [mem_bitor] at hx
        rcases hx with hx | hx
        · exact hl.1 x hx
        · simp at hx; rcases hx with rfl | hx
          · exact hab
          · exact Nat.lt_trans hab (hr.1 x hx)
      · split
        · rename_i hab hba
          simp only [List.pairwise_cons]
          refine ⟨?_, ihr hr.2⟩
          intro x hx; rw [mem_bitor] at hx
          rcases hx with hx | hx
          · simp at hx; rcases hx with rfl | hx
            · exact hba
            · exact Nat.lt_trans hba (hl.1 x hx)
          · exact hr.1 x hx
        · rename_i hab hba
          have : a = b := by omega
          subst this
          simp only [List.pairwise_cons]
          refine ⟨?_, ihl r hl.2 hr.2⟩
          intro x hx; rw [mem_bitor] at hx
          rcases hx with hx | hx
          · exact hl.1 x hx
          · exact hr.1 x hx

/-! ### intersection -/

theorem mem_bitand (l r : List Nat) (x : Nat) : x ∈ bitand l r ↔ x ∈ l ∧ x ∈ r := by
  unfold bitand
  split <;> simp [List.mem_filter] <;> grind

theorem sorted_filter (l : List Nat) (p : Nat → Bool) (h : Sorted l) : Sorted (l.filter p) := by
  unfold Sorted at *
  exact h.sublist List.filter_sublist

theorem sorted_bitand (l r : List Nat) (hl : Sorted l) (hr : Sorted r) : Sorted (bitand l r) := by
  unfold bitand
  split
  · exact sorted_filter _ _ hr
  · exact sorted_filter _ _ hl

/-! ### constructors and bulk insertion -/

theorem mem_insertAll (xs g : List Nat) (y : Nat) : y ∈ insertAll g xs ↔ y ∈ g ∨ y ∈ xs := by
  unfold insertAll
  induction xs generalizing g with
  | nil => simp
  | cons x xs ih =>
    simp only [List.foldl_cons, List.mem_cons]
    rw [ih, mem_insert]
    grind

theorem sorted_insertAll (xs g : List Nat) (h : Sorted g) : Sorted (insertAll g xs) := by
  unfold insertAll
  induction xs generalizing g with
  | nil => simpa
  | cons x xs ih => simp only [List.foldl_cons]; exact ih _ (sorted_insert g x h)

theorem mem_ofList (xs : List Nat) (y : Nat) : y ∈ ofList xs ↔ y ∈ xs := by
  have := mem_insertAll xs [] y
  simpa [insertAll, ofList] using this

theorem sorted_ofList (xs : List Nat) : Sorted (ofList xs) := by
  have := sorted_insertAll xs [] sorted_nil
  simpa [insertAll, ofList] using this

theorem mem_addId (l : List Nat) (x y : Nat) : y ∈ addId l x ↔ y = x ∨ y ∈ l := mem_insert l x y

theorem sorted_addId (l : List Nat) (x : Nat) (h : Sorted l) : Sorted (addId l x) :=
  sorted_insert l x h

/-- bulk insertion is union with the set of the inserted ids -/
theorem insertAll_eq_bitor (g xs : List Nat) (hg : Sorted g) (hx : Sorted xs) :
    insertAll g xs = bitor g xs := by
  apply eq_of_sorted_of_mem_iff _ _ (sorted_insertAll xs g hg) (sorted_bitor g xs hg hx)
  intro x; rw [mem_insertAll, mem_bitor]

theorem contains_iff (l : List Nat) (x : Nat) : contains l x = true ↔ x ∈ l := by
  simp [contains]

end Group
end Hpo
