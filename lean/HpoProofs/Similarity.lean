import HpoProofs.NumReal
import HpoProofs.Group
import HpoModel.Similarity
/-! Helper lemmas for C04: the similarity model at `ℝ`. -/
namespace Hpo
namespace Sim
open Hpo.Group NumReal

/-! ### the folds -/

theorem sumGo_eq (ic : Nat → ℝ) (acc : ℝ) (l : List Nat) :
    sumGo ic acc l = acc + (l.map ic).sum := by
  induction l generalizing acc with
  | nil => simp [sumGo]
  | cons i is ih => simp [sumGo, ih, add_assoc]

theorem sumIc_eq (ic : Nat → ℝ) (l : List Nat) : sumIc ic l = (l.map ic).sum := by
  simp [sumIc, sumGo_eq]

theorem sumIc_nonneg (ic : Nat → ℝ) (hn : ∀ i, 0 ≤ ic i) (l : List Nat) : 0 ≤ sumIc ic l := by
  rw [sumIc_eq]
  apply List.sum_nonneg
  intro x hx
  rcases List.mem_map.1 hx with ⟨i, _, rfl⟩
  exact hn i

theorem step_eq_max (acc x : ℝ) : (if Num.lt acc x then x else acc) = max acc x := by
  simp only [lt_eq, decide_eq_true_eq]
  split
  · rename_i h; rw [max_eq_right h.le]
  · rename_i h; rw [max_eq_left (not_lt.1 h)]

theorem maxGo_eq (ic : Nat → ℝ) (acc : ℝ) (l : List Nat) :
    maxGo ic acc l = (l.map ic).foldl max acc := by
  induction l generalizing acc with
  | nil => rfl
  | cons i is ih => simp only [maxGo, List.map_cons, List.foldl_cons, ih, step_eq_max]

theorem le_maxGo_acc (ic : Nat → ℝ) (acc : ℝ) (l : List Nat) : acc ≤ maxGo ic acc l := by
  induction l generalizing acc with
  | nil => simp [maxGo]
  | cons i is ih =>
    simp only [maxGo, step_eq_max]
    exact le_trans (le_max_left _ _) (ih _)

theorem le_maxGo_mem (ic : Nat → ℝ) (acc : ℝ) (l : List Nat) (i : Nat) (hi : i ∈ l) :
    ic i ≤ maxGo ic acc l := by
  induction l generalizing acc with
  | nil => simp at hi
  | cons j js ih =>
    simp only [maxGo, step_eq_max]
    rcases List.mem_cons.1 hi with rfl | h
    · exact le_trans (le_max_right _ _) (le_maxGo_acc ic _ js)
    · exact ih _ h

theorem maxGo_le (ic : Nat → ℝ) (acc M : ℝ) (l : List Nat) (hacc : acc ≤ M)
    (hl : ∀ i ∈ l, ic i ≤ M) : maxGo ic acc l ≤ M := by
  induction l generalizing acc with
  | nil => simpa [maxGo] using hacc
  | cons j js ih =>
    simp only [maxGo, step_eq_max]
    apply ih
    · exact max_le hacc (hl j (by simp))
    · intro i hi; exact hl i (by simp [hi])

theorem maxGo_attained (ic : Nat → ℝ) (acc : ℝ) (l : List Nat) :
    maxGo ic acc l = acc ∨ ∃ i ∈ l, maxGo ic acc l = ic i := by
  induction l generalizing acc with
  | nil => left; rfl
  | cons j js ih =>
    simp only [maxGo, step_eq_max]
    rcases ih (max acc (ic j)) with h | ⟨i, hi, h⟩
    · rcases max_choice acc (ic j) with hm | hm
      · left; rw [h, hm]
      · right; exact ⟨j, by simp, by rw [h, hm]⟩
    · right; exact ⟨i, by simp [hi], h⟩

/-! ### ancestor groups -/

theorem mem_common (a b : Term) (c : Nat) :
    c ∈ a.allCommonAncestorIds b ↔ (c = a.id ∨ c ∈ a.allParents) ∧ (c = b.id ∨ c ∈ b.allParents) := by
  simp [Term.allCommonAncestorIds, Term.allInclusive, mem_bitand, mem_addId]

theorem mem_union (a b : Term) (c : Nat) :
    c ∈ a.unionAncestorIds b ↔ c ∈ a.allParents ∨ c ∈ b.allParents := by
  simp [Term.unionAncestorIds, mem_bitor]

theorem sorted_common (a b : Term) (ha : Sorted a.allParents) (hb : Sorted b.allParents) :
    Sorted (a.allCommonAncestorIds b) :=
  sorted_bitand _ _ (sorted_addId _ _ ha) (sorted_addId _ _ hb)

theorem common_comm (a b : Term) (ha : Sorted a.allParents) (hb : Sorted b.allParents) :
    a.allCommonAncestorIds b = b.allCommonAncestorIds a := by
  apply eq_of_sorted_of_mem_iff _ _ (sorted_common a b ha hb) (sorted_common b a hb ha)
  intro x; rw [mem_common, mem_common]; exact And.comm

theorem union_comm (a b : Term) (ha : Sorted a.allParents) (hb : Sorted b.allParents) :
    a.unionAncestorIds b = b.unionAncestorIds a := by
  unfold Term.unionAncestorIds
  apply eq_of_sorted_of_mem_iff _ _ (sorted_bitor _ _ ha hb) (sorted_bitor _ _ hb ha)
  intro x; rw [mem_bitor, mem_bitor]; exact Or.comm

theorem bitor_comm' (l r : List Nat) (hl : Sorted l) (hr : Sorted r) : bitor l r = bitor r l := by
  apply eq_of_sorted_of_mem_iff _ _ (sorted_bitor _ _ hl hr) (sorted_bitor _ _ hr hl)
  intro x; rw [mem_bitor, mem_bitor]; exact Or.comm

theorem bitand_comm' (l r : List Nat) (hl : Sorted l) (hr : Sorted r) : bitand l r = bitand r l := by
  apply eq_of_sorted_of_mem_iff _ _ (sorted_bitand _ _ hl hr) (sorted_bitand _ _ hr hl)
  intro x; rw [mem_bitand, mem_bitand]; exact And.comm

/-! ### Resnik -/

theorem resnik_nonneg (ic : Nat → ℝ) (a b : Term) : 0 ≤ resnik ic a b := by
  have := le_maxGo_acc ic (Num.ofNat 0) (a.allCommonAncestorIds b)
  simpa [resnik] using this

theorem resnik_comm (ic : Nat → ℝ) (a b : Term) (ha : Sorted a.allParents) (hb : Sorted b.allParents) :
    resnik ic a b = resnik ic b a := by
  simp only [resnik, common_comm a b ha hb]

/-- ic of an ancestor never exceeds the ic of a term with positive ic (C03's monotonicity) -/
def Mono (ic : Nat → ℝ) (t : Term) : Prop := 0 < ic t.id → ∀ c ∈ t.allParents, ic c ≤ ic t.id

theorem resnik_le_left (ic : Nat → ℝ) (a b : Term) (hm : Mono ic a) (hpos : 0 < ic a.id) :
    resnik ic a b ≤ ic a.id := by
  unfold resnik
  apply maxGo_le
  · simpa using hpos.le
  · intro c hc
    rcases ((mem_common a b c).1 hc).1 with rfl | h
    · exact le_refl _
    · exact hm hpos c h

theorem resnik_le_right (ic : Nat → ℝ) (a b : Term) (hm : Mono ic b) (hpos : 0 < ic b.id) :
    resnik ic a b ≤ ic b.id := by
  unfold resnik
  apply maxGo_le
  · simpa using hpos.le
  · intro c hc
    rcases ((mem_common a b c).1 hc).2 with rfl | h
    · exact le_refl _
    · exact hm hpos c h

/-- the Jiang-Conrath denominator is at least 1 once both guards are passed -/
theorem jcDenom_ge_one (ic : Nat → ℝ) (a b : Term) (hn : ∀ i, 0 ≤ ic i) (hma : Mono ic a) (hmb : Mono ic b)
    (h1 : ic a.id ≠ 0) (h2 : ic b.id ≠ 0) : 1 ≤ jcDenom ic a b := by
  have p1 : 0 < ic a.id := lt_of_le_of_ne (hn _) (Ne.symm h1)
  have p2 : 0 < ic b.id := lt_of_le_of_ne (hn _) (Ne.symm h2)
  have r1 := resnik_le_left ic a b hma p1
  have r2 := resnik_le_right ic a b hmb p2
  simp only [jcDenom, add_eq, sub_eq, mul_eq, ofNat_eq]
  push_cast
  linarith

end Sim
end Hpo
