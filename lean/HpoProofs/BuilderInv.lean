import HpoProofs.Arena
/-!
Invariants of the term-level builder operations (`new_term`, `add_parent`): for every history of
calls — failing calls included — the arena stays referentially closed, `children` is the exact
inverse of `parents`, groups stay sorted, and failing calls change nothing.
-/
namespace Hpo
open Group

/-- term-level builder calls -/
inductive BOp where
  | term (name : List Char) (id : Nat) (obsolete : Bool := false) (replacement : Option Nat := none)
  | parent (p c : Nat)
deriving Repr

/-- one call; `none` = the real code panics (`new_term` with an id ≥ 10^7) -/
def applyB (o : Onto) : BOp → Option Onto
  | .term n i ob rp => o.addTerm { id := i, name := n, obsolete := ob, replacement := rp }
  | .parent p c => match o.addParent p c with
    | .ok o' => some o'
    | _ => some o      -- `Err(DoesNotExist)`: builder unchanged

def runB : List BOp → Onto → Option Onto
  | [], o => some o
  | op :: ops, o => (applyB o op).bind (runB ops)

/-- state invariant of `Builder<LooseCollection>` / `Builder<AllTerms>` -/
structure PreInv (ts : List Term) : Prop where
  nodup : (ts.map (·.id)).Nodup
  small : ∀ j, (getT ts j).isSome → j < maxId
  fresh : ∀ j, allOf ts j = []
  freshAnn : ∀ k j, annOf k ts j = []
  closedP : ∀ j p, p ∈ parentsOf ts j → (getT ts p).isSome
  closedC : ∀ j c, c ∈ childrenOf ts j → (getT ts c).isSome
  inverse : ∀ p c, c ∈ childrenOf ts p ↔ p ∈ parentsOf ts c
  sortedP : ∀ j, Sorted (parentsOf ts j)
  sortedC : ∀ j, Sorted (childrenOf ts j)

theorem preInv_nil : PreInv [] := by
  constructor <;> intros <;> simp_all [getT, allOf, parentsOf, childrenOf, annOf, sorted_nil]

theorem getT_of_mem_nodup {ts : List Term} (h : (ts.map (·.id)).Nodup) {t : Term} (ht : t ∈ ts) :
    getT ts t.id = some t := by
  induction ts with
  | nil => simp at ht
  | cons u ts ih =>
    simp only [List.map_cons, List.nodup_cons] at h
    simp only [getT]
    rcases List.mem_cons.1 ht with rfl | ht
    · simp
    · have : ¬ u.id = t.id := by
        intro heq; exact h.1 (heq ▸ List.mem_map_of_mem (f := (·.id)) ht)
      simp [this, ih h.2 ht]

theorem getT_append_fresh (ts : List Term) (t : Term) (j : Nat) (h : getT ts t.id = none) :
    getT (ts ++ [t]) j = if j = t.id then some t else getT ts j := by
  rw [getT_append]
  by_cases hj : j = t.id
  · subst hj; simp [h]
  · have : ¬ t.id = j := fun h => hj h.symm
    simp only [this, hj, ↓reduceIte]
    cases getT ts j <;> rfl

theorem preInv_newTerm (ts ts' : List Term) (n : List Char) (i : Nat) (ob : Bool) (rp : Option Nat)
    (h : PreInv ts)
    (hins : arenaInsert ts { id := i, name := n, obsolete := ob, replacement := rp } = some ts') :
    PreInv ts' := by
  unfold arenaInsert at hins
  simp only at hins
  split at hins
  · simp at hins
  · rename_i hsm
    split at hins
    · simp at hins; subst hins; exact h
    · rename_i hnone
      simp at hins; subst hins
      have hg : ∀ j, getT (ts ++ [{ id := i, name := n, obsolete := ob, replacement := rp }]) j
          = if j = i then some { id := i, name := n, obsolete := ob, replacement := rp } else getT ts j :=
        fun j => getT_append_fresh ts _ j hnone
      have hP : ∀ j, parentsOf (ts ++ [{ id := i, name := n, obsolete := ob, replacement := rp }]) j = parentsOf ts j := by
        intro j; simp only [parentsOf, hg]
        split
        · rename_i hj; subst hj; simp [hnone]
        · rfl
      have hC : ∀ j, childrenOf (ts ++ [{ id := i, name := n, obsolete := ob, replacement := rp }]) j = childrenOf ts j := by
        intro j; simp only [childrenOf, hg]
        split
        · rename_i hj; subst hj; simp [hnone]
        · rfl
      have hA : ∀ j, allOf (ts ++ [{ id := i, name := n, obsolete := ob, replacement := rp }]) j = allOf ts j := by
        intro j; simp only [allOf, hg]
        split
        · rename_i hj; subst hj; simp [hnone]
        · rfl
      have hAnn : ∀ k j, annOf k (ts ++ [{ id := i, name := n, obsolete := ob, replacement := rp }]) j = annOf k ts j := by
        intro k j; simp only [annOf, hg]
        split
        · rename_i hj; subst hj; cases k <;> simp [hnone, Term.ann]
        · rfl
      have hS : ∀ j, (getT ts j).isSome → (getT (ts ++ [{ id := i, name := n, obsolete := ob, replacement := rp }]) j).isSome := by
        intro j hj; rw [hg]; split <;> simp_all
      constructor
      · rw [List.map_append, List.nodup_append]
        refine ⟨h.nodup, by simp, ?_⟩
        intro a ha b hb
        simp at hb; subst hb
        intro hab; subst hab
        exact (getT_none_iff ts _).1 hnone ha
      · intro j hj
        rw [hg] at hj
        split at hj
        · rename_i hji; subst hji; omega
        · exact h.small j hj
      · intro j; rw [hA]; exact h.fresh j
      · intro k j; rw [hAnn]; exact h.freshAnn k j
      · intro j p hp; rw [hP] at hp; exact hS p (h.closedP j p hp)
      · intro j c hc; rw [hC] at hc; exact hS c (h.closedC j c hc)
      · intro p c; rw [hC, hP]; exact h.inverse p c
      · intro j; rw [hP]; exact h.sortedP j
      · intro j; rw [hC]; exact h.sortedC j

/-- effect of a successful `add_parent(p, c)` on the projections -/
theorem addParent_terms (ts : List Term) (p c : Nat) (j : Nat) :
    let ts' := modT (modT ts p (·.addChild c)) c (·.addParent p)
    (getT ts' j).isSome = (getT ts j).isSome ∧
    parentsOf ts' j = (if j = c ∧ (getT ts j).isSome then (insert (parentsOf ts j) p).1 else parentsOf ts j) ∧
    childrenOf ts' j = (if j = p ∧ (getT ts j).isSome then (insert (childrenOf ts j) c).1 else childrenOf ts j) ∧
    allOf ts' j = allOf ts j ∧ ∀ k, annOf k ts' j = annOf k ts j := by
  intro ts'
  have h1 := getT_modT ts p j (·.addChild c) (fun _ => rfl)
  have h2 := getT_modT (modT ts p (·.addChild c)) c j (·.addParent p) (fun _ => rfl)
  simp only [ts', parentsOf, childrenOf, allOf, annOf, h2, h1]
  cases hg : getT ts j with
  | none => simp
  | some t =>
    have hid := getT_id hg
    simp only [Option.map_some, Option.isSome_some, and_true, Option.getD_some, true_and]
    by_cases hp : t.id = p
    · by_cases hc : t.id = c
      · have hpc : p = c := by omega
        subst hpc; subst hp
        simp [Term.addChild, Term.addParent, ← hid]
        intro k; cases k <;> rfl
      · have hpc : ¬ p = c := by omega
        subst hp
        have hjc : ¬ j = c := by omega
        simp [Term.addChild, Term.addParent, ← hid, hc, hpc, hjc]
        intro k; cases k <;> rfl
    · by_cases hc : t.id = c
      · subst hc
        have hjp : ¬ j = p := by omega
        simp [Term.addChild, Term.addParent, ← hid, hp, hjp]
        intro k; cases k <;> rfl
      · have hjp : ¬ j = p := by omega
        have hjc : ¬ j = c := by omega
        simp [hp, hc, hjp, hjc]

theorem preInv_addParent (ts : List Term) (p c : Nat) (h : PreInv ts)
    (hp : (getT ts p).isSome) (hc : (getT ts c).isSome) :
    PreInv (modT (modT ts p (·.addChild c)) c (·.addParent p)) := by
  have H := addParent_terms ts p c
  constructor
  · rw [modT_ids _ c (·.addParent p) (fun _ => rfl), modT_ids _ p (·.addChild c) (fun _ => rfl)]
    exact h.nodup
  · intro j hj; rw [(H j).1] at hj; exact h.small j hj
  · intro j; rw [(H j).2.2.2.1]; exact h.fresh j
  · intro k j; rw [(H j).2.2.2.2 k]; exact h.freshAnn k j
  · intro j q hq
    rw [(H q).1]
    rw [(H j).2.1] at hq
    split at hq
    · rename_i hjc
      rcases (mem_insert _ _ _).1 hq with rfl | hq
      · exact hp
      · exact h.closedP j q hq
    · exact h.closedP j q hq
  · intro j q hq
    rw [(H q).1]
    rw [(H j).2.2.1] at hq
    split at hq
    · rcases (mem_insert _ _ _).1 hq with rfl | hq
      · exact hc
      · exact h.closedC j q hq
    · exact h.closedC j q hq
  · intro a b
    rw [(H a).2.2.1, (H b).2.1]
    by_cases ha : a = p <;> by_cases hb : b = c
    · subst ha; subst hb
      simp only [hp, hc, and_self, ↓reduceIte, mem_insert, true_or]
    · subst ha
      have : ¬ (b = c ∧ (getT ts b).isSome) := fun h => hb h.1
      simp only [hp, and_self, ↓reduceIte, this, mem_insert]
      rw [h.inverse]
      constructor
      · rintro (h' | h')
        · exact absurd h' hb
        · exact h'
      · exact Or.inr
    · subst hb
      have : ¬ (a = p ∧ (getT ts a).isSome) := fun h => ha h.1
      simp only [hc, and_self, ↓reduceIte, this, mem_insert]
      rw [h.inverse]
      constructor
      · exact Or.inr
      · rintro (h' | h')
        · exact absurd h' ha
        · exact h'
    · have h1 : ¬ (a = p ∧ (getT ts a).isSome) := fun h => ha h.1
      have h2 : ¬ (b = c ∧ (getT ts b).isSome) := fun h => hb h.1
      simp only [h1, h2, ↓reduceIte]
      exact h.inverse a b
  · intro j; rw [(H j).2.1]; split
    · exact sorted_insert _ _ (h.sortedP j)
    · exact h.sortedP j
  · intro j; rw [(H j).2.2.1]; split
    · exact sorted_insert _ _ (h.sortedC j)
    · exact h.sortedC j

/-- `add_parent` either fails and returns the builder unchanged, or both terms exist -/
theorem addParent_cases (o : Onto) (p c : Nat) :
    (o.addParent p c = .err .doesNotExist ∧ ((o.get c).isNone ∨ (o.get p).isNone)) ∨
    ((o.get c).isSome ∧ (o.get p).isSome ∧
      o.addParent p c = .ok { o with terms := modT (modT o.terms p (·.addChild c)) c (·.addParent p) }) := by
  unfold Onto.addParent
  cases hc : o.get c with
  | none => left; simp
  | some tc =>
    cases hp : o.get p with
    | none => left; simp
    | some tp => right; simp

theorem get_isSome_imp (o : Onto) (j : Nat) (h : (o.get j).isSome) : (getT o.terms j).isSome := by
  unfold Onto.get arenaGet at h
  split at h
  · simp at h
  · exact h

theorem preInv_apply (o o' : Onto) (op : BOp) (h : PreInv o.terms) (ha : applyB o op = some o') :
    PreInv o'.terms ∧ o' = { o with terms := o'.terms } := by
  cases op with
  | term n i ob rp =>
    simp only [applyB, Onto.addTerm, Option.map_eq_some_iff] at ha
    obtain ⟨ts', hts, rfl⟩ := ha
    exact ⟨preInv_newTerm _ _ n i ob rp h hts, rfl⟩
  | parent p c =>
    simp only [applyB] at ha
    rcases addParent_cases o p c with ⟨he, _⟩ | ⟨hc, hp, hok⟩
    · rw [he] at ha; simp at ha; subst ha; exact ⟨h, rfl⟩
    · rw [hok] at ha; simp at ha; subst ha
      exact ⟨preInv_addParent _ p c h (get_isSome_imp o p hp) (get_isSome_imp o c hc), rfl⟩

theorem preInv_run (ops : List BOp) (o o' : Onto) (h : PreInv o.terms) (hr : runB ops o = some o') :
    PreInv o'.terms ∧ o' = { o with terms := o'.terms } := by
  induction ops generalizing o with
  | nil => simp [runB] at hr; subst hr; exact ⟨h, rfl⟩
  | cons op ops ih =>
    simp only [runB, Option.bind_eq_some_iff] at hr
    obtain ⟨o1, h1, h2⟩ := hr
    obtain ⟨hp1, hr1⟩ := preInv_apply o o1 op h h1
    obtain ⟨hp2, hr2⟩ := ih o1 hp1 h2
    exact ⟨hp2, by rw [hr2, hr1]⟩

end Hpo
