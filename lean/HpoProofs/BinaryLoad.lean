import HpoProofs.Binary
/-! What `Onto.loadFacts` (the builder steps of `from_bytes`) keeps of the decoded term records:
release version and, per term, id / name / obsolete flag / replacement, in file order. -/
namespace Hpo
namespace Binary

/-- the fields of a term that the term RECORD carries -/
def core (t : Term) : Nat × List Char × Bool × Option Nat := (t.id, t.name, t.obsolete, t.replacement)

/-- same release version, same terms (record fields) in the same order -/
def Same (o o' : Onto) : Prop := o'.terms.map core = o.terms.map core ∧ o'.version = o.version

theorem Same.refl (o : Onto) : Same o o := ⟨rfl, rfl⟩
theorem Same.trans {a b c : Onto} (h1 : Same a b) (h2 : Same b c) : Same a c :=
  ⟨h2.1.trans h1.1, h2.2.trans h1.2⟩

theorem Res.bind_eq_ok {α β : Type} {r : Res α} {f : α → Res β} {b : β} (h : r.bind f = .ok b) :
    ∃ a, r = .ok a ∧ f a = .ok b := by
  cases r <;> simp_all [Res.bind]

theorem modT_core (ts : List Term) (i : Nat) (f : Term → Term) (hf : ∀ t, core (f t) = core t) :
    (modT ts i f).map core = ts.map core := by
  induction ts with
  | nil => rfl
  | cons t ts ih =>
    simp only [modT, List.map_cons, ih]
    split <;> simp [hf]

theorem modUnchecked_same (o o' : Onto) (i : Nat) (f : Term → Term)
    (h : o.modUnchecked i f = some o') (hf : ∀ t, core (f t) = core t) : Same o o' := by
  unfold Onto.modUnchecked at h
  split at h
  · simp at h
  · split at h <;> simp at h <;> subst h
    · exact ⟨modT_core _ _ _ hf, rfl⟩
    · exact ⟨rfl, rfl⟩

theorem addParentUnchecked_same (o o' : Onto) (p c : Nat) (h : o.addParentUnchecked p c = some o') :
    Same o o' := by
  unfold Onto.addParentUnchecked at h
  obtain ⟨o1, h1, h2⟩ := Option.bind_eq_some_iff.1 h
  exact (modUnchecked_same _ _ _ _ h1 (fun t => rfl)).trans (modUnchecked_same _ _ _ _ h2 (fun t => rfl))

theorem addParentsOf_same (t : Nat) (ps : List Nat) (o o' : Onto) (h : Onto.addParentsOf t ps o = some o') :
    Same o o' := by
  induction ps generalizing o with
  | nil => simp [Onto.addParentsOf] at h; subst h; exact Same.refl _
  | cons p ps ih =>
    simp only [Onto.addParentsOf] at h
    obtain ⟨o1, h1, h2⟩ := Option.bind_eq_some_iff.1 h
    exact (addParentUnchecked_same _ _ _ _ h1).trans (ih _ h2)

theorem addParentRecs_same (rs : List (Nat × List Nat)) (o o' : Onto) (h : Onto.addParentRecs rs o = some o') :
    Same o o' := by
  induction rs generalizing o with
  | nil => simp [Onto.addParentRecs] at h; subst h; exact Same.refl _
  | cons r rs ih =>
    obtain ⟨t, ps⟩ := r
    simp only [Onto.addParentRecs] at h
    obtain ⟨o1, h1, h2⟩ := Option.bind_eq_some_iff.1 h
    exact (addParentsOf_same _ _ _ _ h1).trans (ih _ h2)

theorem cacheFold_same (rec : Onto → Nat → Res Onto) (hrec : ∀ o i o', rec o i = .ok o' → Same o o')
    (ps : List Nat) (o : Onto) (acc : List Nat) (r : Onto × List Nat)
    (h : Onto.cacheFold rec ps o acc = .ok r) : Same o r.1 := by
  induction ps generalizing o acc with
  | nil => simp [Onto.cacheFold] at h; subst h; exact Same.refl _
  | cons p ps ih =>
    simp only [Onto.cacheFold] at h
    split at h
    · simp at h
    · rename_i tp _
      obtain ⟨o1, h1, h2⟩ := Res.bind_eq_ok h
      have s1 : Same o o1 := by
        split at h1
        · simp at h1; subst h1; exact Same.refl _
        · exact hrec _ _ _ h1
      split at h2
      · simp at h2
      · exact s1.trans (ih _ _ h2)

theorem createCache_same (fuel : Nat) (o : Onto) (i : Nat) (o' : Onto)
    (h : Onto.createCache fuel o i = .ok o') : Same o o' := by
  induction fuel generalizing o i o' with
  | zero => simp [Onto.createCache] at h
  | succ fuel ih =>
    simp only [Onto.createCache] at h
    split at h
    · simp at h
    · obtain ⟨r, h1, h2⟩ := Res.bind_eq_ok h
      have s1 := cacheFold_same _ (fun o i o' => ih o i o') _ _ _ _ h1
      split at h2
      · simp at h2
      · rename_i o2 hm
        simp at h2; subst h2
        exact s1.trans (modUnchecked_same _ _ _ _ hm (fun t => rfl))

theorem connectFold_same (fuel : Nat) (is : List Nat) (o o' : Onto)
    (h : Onto.connectFold fuel is o = .ok o') : Same o o' := by
  induction is generalizing o with
  | nil => simp [Onto.connectFold] at h; subst h; exact Same.refl _
  | cons i is ih =>
    simp only [Onto.connectFold] at h
    obtain ⟨o1, h1, h2⟩ := Res.bind_eq_ok h
    exact (createCache_same _ _ _ _ h1).trans (ih _ h2)

theorem connectAll_same (o o' : Onto) (h : o.connectAll = .ok o') : Same o o' :=
  connectFold_same _ _ _ _ h

theorem linkFold_same (rec : Onto → Nat → Res Onto) (hrec : ∀ o i o', rec o i = .ok o' → Same o o')
    (ps : List Nat) (o o' : Onto) (h : Onto.linkFold rec ps o = .ok o') : Same o o' := by
  induction ps generalizing o with
  | nil => simp [Onto.linkFold] at h; subst h; exact Same.refl _
  | cons p ps ih =>
    simp only [Onto.linkFold] at h
    obtain ⟨o1, h1, h2⟩ := Res.bind_eq_ok h
    exact (hrec _ _ _ h1).trans (ih _ h2)

theorem setAnn_core (t : Term) (k : Kind) (v : List Nat) : core (t.setAnn k v) = core t := by
  cases k <;> rfl

theorem setIc_core (t : Term) (k : Kind) (v : Nat × Nat) : core (t.setIc k v) = core t := by
  cases k <;> rfl

theorem link_same (k : Kind) (r : Nat) (fuel : Nat) (o : Onto) (t : Nat) (o' : Onto)
    (h : Onto.link k r fuel o t = .ok o') : Same o o' := by
  induction fuel generalizing o t o' with
  | zero => simp [Onto.link] at h
  | succ fuel ih =>
    simp only [Onto.link] at h
    split at h
    · simp at h
    · split at h
      · refine Same.trans ?_ (linkFold_same _ (fun o i o' => ih o i o') _ _ _ h)
        exact ⟨modT_core _ _ _ (fun x => setAnn_core x k _), rfl⟩
      · simp at h; subst h; exact Same.refl _

theorem linkAll_same (k : Kind) (r : Nat) (ts : List Nat) (o o' : Onto)
    (h : Onto.linkAll k r ts o = .ok o') : Same o o' := by
  induction ts generalizing o with
  | nil => simp [Onto.linkAll] at h; subst h; exact Same.refl _
  | cons t ts ih =>
    simp only [Onto.linkAll] at h
    obtain ⟨o1, h1, h2⟩ := Res.bind_eq_ok h
    exact (link_same _ _ _ _ _ _ h1).trans (ih _ h2)

theorem setRecs_same (o : Onto) (k : Kind) (v : List Rec) : Same o (o.setRecs k v) := by
  cases k <;> exact ⟨rfl, rfl⟩

theorem addRecsFromBytes_same (k : Kind) (rs : List Rec) (o o' : Onto)
    (h : Onto.addRecsFromBytes k rs o = .ok o') : Same o o' := by
  induction rs generalizing o with
  | nil => simp [Onto.addRecsFromBytes] at h; subst h; exact Same.refl _
  | cons r rs ih =>
    simp only [Onto.addRecsFromBytes] at h
    obtain ⟨o1, h1, h2⟩ := Res.bind_eq_ok h
    exact ((linkAll_same _ _ _ _ _ h1).trans (setRecs_same _ _ _)).trans (ih _ h2)

theorem icFold_core (k : Kind) (total : Nat) (ts ts' : List Term)
    (h : Onto.icFold k total ts = .ok ts') : ts'.map core = ts.map core := by
  induction ts generalizing ts' with
  | nil => simp [Onto.icFold] at h; subst h; rfl
  | cons t ts ih =>
    simp only [Onto.icFold] at h
    obtain ⟨v, _, h2⟩ := Res.bind_eq_ok h
    obtain ⟨ts1, h3, h4⟩ := Res.bind_eq_ok h2
    simp at h4; subst h4
    simp [ih _ h3, setIc_core]

theorem calcIcKind_same (o : Onto) (k : Kind) (o' : Onto) (h : o.calcIcKind k = .ok o') : Same o o' := by
  unfold Onto.calcIcKind at h
  obtain ⟨ts, h1, h2⟩ := Res.bind_eq_ok h
  simp at h2; subst h2
  exact ⟨icFold_core _ _ _ _ h1, rfl⟩

theorem calcIc_same (o o' : Onto) (h : o.calcIc = .ok o') : Same o o' := by
  unfold Onto.calcIc at h
  obtain ⟨o1, h1, h2⟩ := Res.bind_eq_ok h
  obtain ⟨o2, h3, h4⟩ := Res.bind_eq_ok h2
  exact ((calcIcKind_same _ _ _ h1).trans (calcIcKind_same _ _ _ h3)).trans (calcIcKind_same _ _ _ h4)

theorem buildWithDefaults_same (o o' : Onto) (h : o.buildWithDefaults = .ok o') : Same o o' := by
  unfold Onto.buildWithDefaults at h
  obtain ⟨c, _, h2⟩ := Res.bind_eq_ok h
  obtain ⟨m, _, h4⟩ := Res.bind_eq_ok h2
  simp at h4; subst h4
  exact ⟨rfl, rfl⟩

theorem getT_none_of_not_mem (ts : List Term) (i : Nat) (h : i ∉ ts.map (·.id)) : getT ts i = none := by
  induction ts with
  | nil => rfl
  | cons t ts ih =>
    simp only [List.map_cons, List.mem_cons, not_or] at h
    simp only [getT]
    rw [if_neg (fun e => h.1 e.symm)]
    exact ih h.2

theorem addTermsFold_eq (ts : List Term) (o : Onto) (hid : ∀ t ∈ ts, t.id < maxId)
    (hnd : (o.terms.map (·.id) ++ ts.map (·.id)).Nodup) :
    Onto.addTermsFold ts o = some { o with terms := o.terms ++ ts } := by
  induction ts generalizing o with
  | nil => simp [Onto.addTermsFold]
  | cons t ts ih =>
    have hlt := hid t (by simp)
    have hnm : t.id ∉ o.terms.map (·.id) := by
      intro hm
      have := List.nodup_append.1 hnd
      exact this.2.2 _ hm _ (by simp) rfl
    simp only [Onto.addTermsFold, Onto.addTerm, arenaInsert]
    rw [if_neg (by omega), getT_none_of_not_mem _ _ hnm]
    simp only [Option.map_some, Option.bind_some]
    rw [ih _ (fun x hx => hid x (by simp [hx]))]
    · simp
    · simpa [List.map_append, List.append_assoc] using hnd

/-- What `from_bytes`'s builder steps keep of the decoded term records (v2 / v3): the release version
and, in file order, id, name, obsolete flag and replacement of every term — whatever the parent,
gene and disease records are (as long as the load succeeds). -/
theorem loadFacts_terms (fv : Nat) (h1 : fv ≠ 1) (f : RawFacts) (o' : Onto)
    (hid : ∀ t ∈ f.terms, t.id < maxId) (hnd : (f.terms.map (·.id)).Nodup)
    (h : Onto.loadFacts fv f = .ok o') :
    o'.terms.map core = f.terms.map core ∧ o'.version = f.version := by
  simp only [Onto.loadFacts, h1, ↓reduceIte] at h
  rw [addTermsFold_eq _ _ hid (by simpa using hnd)] at h
  simp only [List.nil_append] at h
  split at h
  · simp at h
  · rename_i o2 hp
    have s2 := addParentRecs_same _ _ _ hp
    obtain ⟨o3, h3, h⟩ := Res.bind_eq_ok h
    obtain ⟨o4, h4, h⟩ := Res.bind_eq_ok h
    obtain ⟨o5, h5, h⟩ := Res.bind_eq_ok h
    obtain ⟨o6, h6, h⟩ := Res.bind_eq_ok h
    obtain ⟨o7, h7, h⟩ := Res.bind_eq_ok h
    have s6 : Same o5 o6 := by
      split at h6
      · exact addRecsFromBytes_same _ _ _ _ h6
      · simp at h6; subst h6; exact Same.refl _
    have := ((((((s2.trans (connectAll_same _ _ h3)).trans (addRecsFromBytes_same _ _ _ _ h4)).trans
      (addRecsFromBytes_same _ _ _ _ h5)).trans s6).trans (calcIc_same _ _ h7)).trans
      (buildWithDefaults_same _ _ h))
    exact this

theorem map_core_termFacts (ts : List Term) :
    (termFacts ts).map core = ts.map fun t => (t.id, truncName t.name, t.obsolete, t.replacement) := by
  induction ts with
  | nil => rfl
  | cons t ts ih => simp [termFacts, ih, core, termFact]

theorem map_id_termFacts (ts : List Term) : (termFacts ts).map (·.id) = ts.map (·.id) := by
  induction ts with
  | nil => rfl
  | cons t ts ih => simp [termFacts, ih, termFact]

end Binary
end Hpo
