import HpoModel.Bulk
import HpoProofs.Annotate
/-!
The one-pass form of the bulk record insertion run by the driver is the `count`-fold repetition of
the Builder call `add_gene` / `add_omim_disease` / `add_orpha_disease`.
-/
namespace Hpo
namespace Onto

theorem rangeRecs_succ (name : List Char) (first n : Nat) :
    rangeRecs name first (n + 1) = { id := first, name := name } :: rangeRecs name (first + 1) n := by
  simp only [rangeRecs, List.range_succ_eq_map, List.map_cons, List.map_map, Nat.add_zero]
  congr 1
  apply List.map_congr_left
  intro i _
  simp only [Function.comp]
  congr 1
  omega

theorem getR_none_of_all (rs : List Rec) (first count : Nat) (hc : 0 < count)
    (h : rs.all (fun r => r.id < first || first + count ≤ r.id) = true) : getR rs first = none := by
  induction rs with
  | nil => rfl
  | cons r rs ih =>
    simp only [List.all_cons, Bool.and_eq_true, Bool.or_eq_true, decide_eq_true_eq] at h
    simp only [getR]
    rw [if_neg (by omega)]
    exact ih h.2

theorem setRecs_setRecs (o : Onto) (k : Kind) (v w : List Rec) :
    (o.setRecs k v).setRecs k w = o.setRecs k w := by
  cases k <;> rfl

theorem addRecRange_fresh (name : List Char) (k : Kind) :
    ∀ (count first : Nat) (o : Onto),
      (o.recs k).all (fun r => r.id < first || first + count ≤ r.id) = true →
      addRecRange o k name first count = o.setRecs k (o.recs k ++ rangeRecs name first count) := by
  intro count
  induction count with
  | zero =>
    intro first o _
    simp only [addRecRange, rangeRecs, List.range_zero, List.map_nil, List.append_nil]
    cases k <;> rfl
  | succ n ih =>
    intro first o h
    have hg := getR_none_of_all (o.recs k) first (n + 1) (by omega) h
    have hadd : o.addRec k name first = o.setRecs k (o.recs k ++ [{ id := first, name := name }]) := by
      simp only [addRec, addR, hg]
    simp only [addRecRange]
    rw [hadd, ih (first + 1) _ ?_]
    · rw [recs_setRecs, setRecs_setRecs, rangeRecs_succ, List.append_assoc]
      rfl
    · rw [recs_setRecs, List.all_append]
      simp only [Bool.and_eq_true, List.all_cons, List.all_nil, Bool.and_true, Bool.or_eq_true,
        decide_eq_true_eq]
      refine ⟨?_, by omega⟩
      rw [List.all_eq_true] at h ⊢
      intro r hr
      have := h r hr
      simp only [Bool.or_eq_true, decide_eq_true_eq] at this ⊢
      omega

/-- **The driver's bulk insertion is the repeated Builder call.** -/
theorem addRecRangeFast_eq (o : Onto) (k : Kind) (name : List Char) (first count : Nat) :
    addRecRangeFast o k name first count = addRecRange o k name first count := by
  unfold addRecRangeFast
  split
  · rename_i h
    exact (addRecRange_fresh name k count first o h).symm
  · rfl

end Onto
end Hpo
