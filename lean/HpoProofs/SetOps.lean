import HpoProofs.Group
import HpoModel.SetOps
/-! Lemmas about the `HpoSet` model (`HpoModel/SetOps.lean`); core Lean only. -/
namespace Hpo

theorem getT_id_s {ts : List Term} {i : Nat} {t : Term} (h : getT ts i = some t) : t.id = i := by
  induction ts with
  | nil => simp [getT] at h
  | cons a ts ih =>
    simp only [getT] at h
    split at h
    · cases h; assumption
    · exact ih h

theorem getT_mem_s {ts : List Term} {i : Nat} {t : Term} (h : getT ts i = some t) : t ∈ ts := by
  induction ts with
  | nil => simp [getT] at h
  | cons a ts ih =>
    simp only [getT] at h
    split at h
    · cases h; simp
    · exact List.mem_cons_of_mem _ (ih h)

theorem Onto.get_id_s {o : Onto} {i : Nat} {t : Term} (h : o.get i = some t) : t.id = i := by
  unfold Onto.get arenaGet at h
  split at h
  · cases h
  · exact getT_id_s h

theorem Onto.get_mem_s {o : Onto} {i : Nat} {t : Term} (h : o.get i = some t) : t ∈ o.terms := by
  unfold Onto.get arenaGet at h
  split at h
  · cases h
  · exact getT_mem_s h

namespace SetOps
open Group

/-- every member of the set is a term of the ontology (what `HpoSet` documents as its precondition:
"HpoTermId must be in Ontology") -/
def Resolves (o : Onto) (S : List Nat) : Prop := ∀ x ∈ S, (o.get x).isSome = true

instance (o : Onto) (S : List Nat) : Decidable (Resolves o S) := by unfold Resolves; infer_instance

theorem Resolves.tail {o : Onto} {x : Nat} {xs : List Nat} (h : Resolves o (x :: xs)) : Resolves o xs :=
  fun y hy => h y (List.mem_cons_of_mem _ hy)

theorem Resolves.head {o : Onto} {x : Nat} {xs : List Nat} (h : Resolves o (x :: xs)) :
    ∃ t, o.get x = some t := by
  have := h x (by simp)
  cases hx : o.get x with
  | none => simp [hx] at this
  | some t => exact ⟨t, rfl⟩

theorem Resolves.get {o : Onto} {S : List Nat} (h : Resolves o S) {x : Nat} (hx : x ∈ S) :
    ∃ t, o.get x = some t := by
  have := h x hx
  cases hg : o.get x with
  | none => simp [hg] at this
  | some t => exact ⟨t, rfl⟩

/-! ### child_nodes -/

/-- no member of `S` has `x` among its ancestors -/
def NoDesc (o : Onto) (S : List Nat) (x : Nat) : Prop :=
  ∀ y ∈ S, ∀ t, o.get y = some t → x ∉ t.allParents

theorem noDescendant_ok (o : Onto) (x : Nat) (S : List Nat) (h : Resolves o S) :
    ∃ b, noDescendant o x S = .ok b ∧ (b = true ↔ NoDesc o S x) := by
  induction S with
  | nil => exact ⟨true, rfl, by simp [NoDesc]⟩
  | cons y ys ih =>
    obtain ⟨t, ht⟩ := h.head
    obtain ⟨b, hb, hiff⟩ := ih h.tail
    by_cases hc : x ∈ t.allParents
    · refine ⟨false, by simp [noDescendant, ht, Group.contains, hc], ?_⟩
      simp only [Bool.false_eq_true, false_iff]
      intro hn
      exact hn y (by simp) t ht hc
    · refine ⟨b, by simp [noDescendant, ht, Group.contains, hc, hb], ?_⟩
      rw [hiff]
      constructor
      · intro hn z hz u hu
        rcases List.mem_cons.1 hz with rfl | hz
        · rw [ht] at hu; cases hu; exact hc
        · exact hn z hz u hu
      · intro hn z hz u hu
        exact hn z (List.mem_cons_of_mem _ hz) u hu

theorem childFilter_ok (o : Onto) (S : List Nat) (h : Resolves o S) (xs : List Nat) :
    ∃ R, childFilter o S xs = .ok R ∧ ∀ x, x ∈ R ↔ x ∈ xs ∧ NoDesc o S x := by
  induction xs with
  | nil => exact ⟨[], rfl, by simp⟩
  | cons a xs ih =>
    obtain ⟨R, hR, hmem⟩ := ih
    obtain ⟨b, hb, hiff⟩ := noDescendant_ok o a S h
    cases b with
    | true =>
      refine ⟨a :: R, by simp [childFilter, hb, hR, rmap], ?_⟩
      intro x
      have ha : NoDesc o S a := hiff.1 rfl
      simp only [List.mem_cons, hmem]
      constructor
      · rintro (rfl | h1)
        · exact ⟨Or.inl rfl, ha⟩
        · exact ⟨Or.inr h1.1, h1.2⟩
      · rintro ⟨rfl | h1, h2⟩
        · exact Or.inl rfl
        · exact Or.inr ⟨h1, h2⟩
    | false =>
      refine ⟨R, by simp [childFilter, hb, hR], ?_⟩
      intro x
      have ha : ¬ NoDesc o S a := fun hn => by have := hiff.2 hn; cases this
      simp only [List.mem_cons, hmem]
      constructor
      · rintro ⟨h1, h2⟩; exact ⟨Or.inr h1, h2⟩
      · rintro ⟨rfl | h1, h2⟩
        · exact absurd h2 ha
        · exact ⟨h1, h2⟩

/-! ### the three resolving filters / maps -/

theorem modifierFilter_ok (o : Onto) (xs : List Nat) (h : Resolves o xs) :
    ∃ R, modifierFilter o xs = .ok R ∧
      ∀ x, x ∈ R ↔ x ∈ xs ∧ ∀ t, o.get x = some t → o.isModifier t = false := by
  induction xs with
  | nil => exact ⟨[], rfl, by simp⟩
  | cons a xs ih =>
    obtain ⟨t, ht⟩ := h.head
    obtain ⟨R, hR, hmem⟩ := ih h.tail
    have hid : t.id = a := Onto.get_id_s ht
    by_cases hm : o.isModifier t = true
    · refine ⟨R, by simp [modifierFilter, ht, hR, hm], ?_⟩
      intro x
      rw [hmem]
      constructor
      · rintro ⟨h1, h2⟩; exact ⟨List.mem_cons_of_mem _ h1, h2⟩
      · rintro ⟨h1, h2⟩
        rcases List.mem_cons.1 h1 with rfl | h1
        · have := h2 t ht; rw [hm] at this; cases this
        · exact ⟨h1, h2⟩
    · have hm' : o.isModifier t = false := by simpa using hm
      refine ⟨a :: R, by simp [modifierFilter, ht, hR, hm', hid], ?_⟩
      intro x
      simp only [List.mem_cons, hmem]
      constructor
      · rintro (rfl | ⟨h1, h2⟩)
        · refine ⟨Or.inl rfl, ?_⟩
          intro u hu; rw [ht] at hu; cases hu; exact hm'
        · exact ⟨Or.inr h1, h2⟩
      · rintro ⟨rfl | h1, h2⟩
        · exact Or.inl rfl
        · exact Or.inr ⟨h1, h2⟩

theorem modifierFilterMut_eq (o : Onto) (xs : List Nat) : modifierFilterMut o xs = modifierFilter o xs := by
  induction xs with
  | nil => rfl
  | cons a xs ih => simp only [modifierFilterMut, modifierFilter, ih]

theorem obsoleteFilter_ok (o : Onto) (xs : List Nat) (h : Resolves o xs) :
    ∃ R, obsoleteFilter o xs = .ok R ∧
      ∀ x, x ∈ R ↔ x ∈ xs ∧ ∀ t, o.get x = some t → t.obsolete = false := by
  induction xs with
  | nil => exact ⟨[], rfl, by simp⟩
  | cons a xs ih =>
    obtain ⟨t, ht⟩ := h.head
    obtain ⟨R, hR, hmem⟩ := ih h.tail
    by_cases hm : t.obsolete = true
    · refine ⟨R, by simp [obsoleteFilter, ht, hR, hm], ?_⟩
      intro x
      rw [hmem]
      constructor
      · rintro ⟨h1, h2⟩; exact ⟨List.mem_cons_of_mem _ h1, h2⟩
      · rintro ⟨h1, h2⟩
        rcases List.mem_cons.1 h1 with rfl | h1
        · have := h2 t ht; rw [hm] at this; cases this
        · exact ⟨h1, h2⟩
    · have hm' : t.obsolete = false := by simpa using hm
      refine ⟨a :: R, by simp [obsoleteFilter, ht, hR, hm'], ?_⟩
      intro x
      simp only [List.mem_cons, hmem]
      constructor
      · rintro (rfl | ⟨h1, h2⟩)
        · refine ⟨Or.inl rfl, ?_⟩
          intro u hu; rw [ht] at hu; cases hu; exact hm'
        · exact ⟨Or.inr h1, h2⟩
      · rintro ⟨rfl | h1, h2⟩
        · exact Or.inl rfl
        · exact Or.inr ⟨h1, h2⟩

theorem obsoleteFilterMut_eq (o : Onto) (xs : List Nat) : obsoleteFilterMut o xs = obsoleteFilter o xs := by
  induction xs with
  | nil => rfl
  | cons a xs ih => simp only [obsoleteFilterMut, obsoleteFilter, ih]

theorem replaceMap_ok (o : Onto) (xs : List Nat) (h : Resolves o xs) :
    ∃ R, replaceMap o xs = .ok R ∧
      ∀ x, x ∈ R ↔ ∃ y ∈ xs, ∃ t, o.get y = some t ∧ x = t.replacement.getD y := by
  induction xs with
  | nil => exact ⟨[], rfl, by simp⟩
  | cons a xs ih =>
    obtain ⟨t, ht⟩ := h.head
    obtain ⟨R, hR, hmem⟩ := ih h.tail
    refine ⟨t.replacement.getD a :: R, by simp [replaceMap, ht, hR], ?_⟩
    intro x
    simp only [List.mem_cons, hmem]
    constructor
    · rintro (rfl | ⟨y, hy, u, hu, rfl⟩)
      · exact ⟨a, Or.inl rfl, t, ht, rfl⟩
      · exact ⟨y, Or.inr hy, u, hu, rfl⟩
    · rintro ⟨y, rfl | hy, u, hu, rfl⟩
      · rw [ht] at hu; cases hu; exact Or.inl rfl
      · exact Or.inr ⟨y, hy, u, hu, rfl⟩

theorem replaceMapMut_eq (o : Onto) (xs : List Nat) : replaceMapMut o xs = replaceMap o xs := by
  induction xs with
  | nil => rfl
  | cons a xs ih => simp only [replaceMapMut, replaceMap, ih]

/-! ### a member that is not a term: the (non short-circuiting) loops panic -/

theorem not_resolves_cons {o : Onto} {a : Nat} {xs : List Nat} (h : ¬ Resolves o (a :: xs)) :
    o.get a = none ∨ ((∃ t, o.get a = some t) ∧ ¬ Resolves o xs) := by
  cases hg : o.get a with
  | none => exact Or.inl rfl
  | some t =>
    refine Or.inr ⟨⟨t, rfl⟩, fun hr => h ?_⟩
    intro x hx
    rcases List.mem_cons.1 hx with rfl | hx
    · simp [hg]
    · exact hr x hx

theorem obsoleteFilter_panic (o : Onto) (xs : List Nat) (h : ¬ Resolves o xs) :
    obsoleteFilter o xs = .panic := by
  induction xs with
  | nil => exact absurd (fun _ hx => by cases hx) h
  | cons a xs ih =>
    rcases not_resolves_cons h with hg | ⟨⟨t, hg⟩, hr⟩
    · simp [obsoleteFilter, hg]
    · simp [obsoleteFilter, hg, ih hr]

theorem modifierFilter_panic (o : Onto) (xs : List Nat) (h : ¬ Resolves o xs) :
    modifierFilter o xs = .panic := by
  induction xs with
  | nil => exact absurd (fun _ hx => by cases hx) h
  | cons a xs ih =>
    rcases not_resolves_cons h with hg | ⟨⟨t, hg⟩, hr⟩
    · simp [modifierFilter, hg]
    · simp [modifierFilter, hg, ih hr]

theorem replaceMap_panic (o : Onto) (xs : List Nat) (h : ¬ Resolves o xs) :
    replaceMap o xs = .panic := by
  induction xs with
  | nil => exact absurd (fun _ hx => by cases hx) h
  | cons a xs ih =>
    rcases not_resolves_cons h with hg | ⟨⟨t, hg⟩, hr⟩
    · simp [replaceMap, hg]
    · simp [replaceMap, hg, ih hr]

theorem annUnion_panic (o : Onto) (k : Kind) (xs : List Nat) (h : ¬ Resolves o xs) (acc : List Nat) :
    annUnion o k xs acc = .panic := by
  induction xs generalizing acc with
  | nil => exact absurd (fun _ hx => by cases hx) h
  | cons a xs ih =>
    rcases not_resolves_cons h with hg | ⟨⟨t, hg⟩, hr⟩
    · simp [annUnion, hg]
    · simp [annUnion, hg, ih hr]

theorem categoriesAcc_panic (o : Onto) (xs : List Nat) (h : ¬ Resolves o xs) (m : List (Nat × Nat)) :
    categoriesAcc o xs m = .panic := by
  induction xs generalizing m with
  | nil => exact absurd (fun _ hx => by cases hx) h
  | cons a xs ih =>
    rcases not_resolves_cons h with hg | ⟨⟨t, hg⟩, hr⟩
    · simp [categoriesAcc, hg]
    · simp [categoriesAcc, hg, ih hr]

/-! ### unions -/

theorem annUnion_ok (o : Onto) (k : Kind) (xs : List Nat) (h : Resolves o xs) (acc : List Nat)
    (hacc : Sorted acc) :
    ∃ R, annUnion o k xs acc = .ok R ∧ Sorted R ∧
      ∀ g, g ∈ R ↔ g ∈ acc ∨ ∃ y ∈ xs, ∃ t, o.get y = some t ∧ g ∈ t.ann k := by
  induction xs generalizing acc with
  | nil => exact ⟨acc, rfl, hacc, by simp⟩
  | cons a xs ih =>
    obtain ⟨t, ht⟩ := h.head
    obtain ⟨R, hR, hs, hmem⟩ := ih h.tail (insertAll acc (t.ann k)) (sorted_insertAll _ _ hacc)
    refine ⟨R, by simp [annUnion, ht, hR], hs, ?_⟩
    intro g
    rw [hmem, mem_insertAll]
    constructor
    · rintro ((h1 | h1) | ⟨y, hy, u, hu, hg⟩)
      · exact Or.inl h1
      · exact Or.inr ⟨a, by simp, t, ht, h1⟩
      · exact Or.inr ⟨y, List.mem_cons_of_mem _ hy, u, hu, hg⟩
    · rintro (h1 | ⟨y, hy, u, hu, hg⟩)
      · exact Or.inl (Or.inl h1)
      · rcases List.mem_cons.1 hy with rfl | hy
        · rw [ht] at hu; cases hu; exact Or.inl (Or.inr hg)
        · exact Or.inr ⟨y, hy, u, hu, hg⟩

/-! ### categories -/

theorem count_bump (m : List (Nat × Nat)) (c d : Nat) :
    count (bump m c) d = count m d + (if c = d then 1 else 0) := by
  induction m with
  | nil => simp [bump, count]
  | cons p m ih =>
    obtain ⟨k, n⟩ := p
    simp only [bump]
    by_cases hk : k = c
    · subst hk
      by_cases hd : k = d
      · subst hd; simp [count]
      · simp [count, hd]
    · by_cases hd : k = d
      · subst hd
        have : ¬ c = k := fun h => hk h.symm
        simp [hk, count, this]
      · simp [hk, count, hd, ih]

/-- number of occurrences of `d` in `cs` -/
theorem count_bumpAll (m : List (Nat × Nat)) (cs : List Nat) (d : Nat) :
    count (bumpAll m cs) d = count m d + cs.count d := by
  induction cs generalizing m with
  | nil => simp [bumpAll]
  | cons c cs ih =>
    simp only [bumpAll, ih, count_bump, List.count_cons]
    by_cases h : c = d
    · simp [h]; omega
    · simp [h]

/-- keys of the map: exactly those with a positive count -/
theorem mem_keys_bump (m : List (Nat × Nat)) (c d : Nat) :
    d ∈ (bump m c).map (·.1) ↔ d = c ∨ d ∈ m.map (·.1) := by
  induction m with
  | nil => simp [bump]
  | cons p m ih =>
    obtain ⟨k, n⟩ := p
    simp only [bump]
    by_cases hk : k = c
    · subst hk; simp
    · simp only [hk, ↓reduceIte, List.map_cons, List.mem_cons, ih]
      constructor
      · rintro (h | h | h)
        · exact Or.inr (Or.inl h)
        · exact Or.inl h
        · exact Or.inr (Or.inr h)
      · rintro (h | h | h)
        · exact Or.inr (Or.inl h)
        · exact Or.inl h
        · exact Or.inr (Or.inr h)

theorem mem_keys_bumpAll (m : List (Nat × Nat)) (cs : List Nat) (d : Nat) :
    d ∈ (bumpAll m cs).map (·.1) ↔ d ∈ cs ∨ d ∈ m.map (·.1) := by
  induction cs generalizing m with
  | nil => simp [bumpAll]
  | cons c cs ih =>
    simp only [bumpAll, ih, mem_keys_bump, List.mem_cons]
    constructor
    · rintro (h | h | h)
      · exact Or.inl (Or.inr h)
      · exact Or.inl (Or.inl h)
      · exact Or.inr h
    · rintro ((h | h) | h)
      · exact Or.inr (Or.inl h)
      · exact Or.inl h
      · exact Or.inr (Or.inr h)

theorem count_eq_one_of_nodup (l : List Nat) (a : Nat) (h : l.Nodup) (ha : a ∈ l) : l.count a = 1 := by
  induction l with
  | nil => simp at ha
  | cons b l ih =>
    rw [List.nodup_cons] at h
    rw [List.count_cons]
    rcases List.mem_cons.1 ha with rfl | ha
    · simp [List.count_eq_zero_of_not_mem h.1]
    · have : b ≠ a := fun e => h.1 (e ▸ ha)
      simp [ih h.2 ha, this]

/-- the members of `xs` whose categories contain `c` -/
def membersIn (o : Onto) (c : Nat) : List Nat → Nat
  | [] => 0
  | x :: xs =>
    (match o.get x with
      | some t => if c ∈ o.categoriesOf t then 1 else 0
      | none => 0) + membersIn o c xs

theorem categoriesAcc_ok (o : Onto) (hc : o.categories.Nodup) (xs : List Nat) (h : Resolves o xs)
    (m : List (Nat × Nat)) :
    ∃ R, categoriesAcc o xs m = .ok R ∧
      (∀ c, count R c = count m c + membersIn o c xs) ∧
      (∀ c, c ∈ R.map (·.1) ↔ c ∈ m.map (·.1) ∨ ∃ y ∈ xs, ∃ t, o.get y = some t ∧ c ∈ o.categoriesOf t) := by
  induction xs generalizing m with
  | nil => exact ⟨m, rfl, by simp [membersIn], by simp⟩
  | cons a xs ih =>
    obtain ⟨t, ht⟩ := h.head
    obtain ⟨R, hR, hcount, hkeys⟩ := ih h.tail (bumpAll m (o.categoriesOf t))
    refine ⟨R, by simp [categoriesAcc, ht, hR], ?_, ?_⟩
    · intro c
      rw [hcount, count_bumpAll]
      have hnd : (o.categoriesOf t).Nodup := by
        unfold Onto.categoriesOf
        exact hc.sublist List.filter_sublist
      simp only [membersIn, ht]
      by_cases hin : c ∈ o.categoriesOf t
      · rw [count_eq_one_of_nodup _ _ hnd hin]; simp [hin]; omega
      · rw [List.count_eq_zero_of_not_mem hin]; simp [hin]
    · intro c
      rw [hkeys, mem_keys_bumpAll]
      constructor
      · rintro ((h1 | h1) | ⟨y, hy, u, hu, hg⟩)
        · exact Or.inr ⟨a, by simp, t, ht, h1⟩
        · exact Or.inl h1
        · exact Or.inr ⟨y, List.mem_cons_of_mem _ hy, u, hu, hg⟩
      · rintro (h1 | ⟨y, hy, u, hu, hg⟩)
        · exact Or.inl (Or.inr h1)
        · rcases List.mem_cons.1 hy with rfl | hy
          · rw [ht] at hu; cases hu; exact Or.inl (Or.inl hg)
          · exact Or.inr ⟨y, hy, u, hu, hg⟩

end SetOps
end Hpo
