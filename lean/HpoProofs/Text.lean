import HpoModel.Text
import HpoProofs.TermId
/-! Laws of the string helpers of `HpoModel/Text.lean` and the renderers used by the C09 theorems
(core Lean only). -/
namespace Hpo
namespace Text

/-- fields joined by a separator character (`[]` and `[f]` have no separator) -/
def joinWith (c : Char) : List (List Char) → List Char
  | [] => []
  | [f] => f
  | f :: g :: r => f ++ c :: joinWith c (g :: r)

/-- blocks / lines joined by a separator string -/
def joinStr (sep : List Char) : List (List Char) → List Char
  | [] => []
  | [f] => f
  | f :: g :: r => f ++ sep ++ joinStr sep (g :: r)

theorem joinWith_cons_cons (c : Char) (f g : List Char) (r : List (List Char)) :
    joinWith c (f :: g :: r) = f ++ c :: joinWith c (g :: r) := rfl

/-! ### `split(char)` -/

theorem splitOnChar_ne_nil (c : Char) (s : List Char) : splitOnChar c s ≠ [] := by
  induction s with
  | nil => simp [splitOnChar]
  | cons x xs ih =>
    unfold splitOnChar
    split
    · simp
    · cases h : splitOnChar c xs with
      | nil => exact absurd h ih
      | cons a b => simp [consHead]

theorem splitOnChar_noSep (c : Char) (f : List Char) (h : c ∉ f) : splitOnChar c f = [f] := by
  induction f with
  | nil => rfl
  | cons x xs ih =>
    have hx : x ≠ c := fun e => h (by simp [e])
    have hxs : c ∉ xs := fun e => h (by simp [e])
    simp [splitOnChar, hx, ih hxs, consHead]

theorem splitOnChar_append (c : Char) (f rest : List Char) (h : c ∉ f) :
    splitOnChar c (f ++ c :: rest) = f :: splitOnChar c rest := by
  induction f with
  | nil => simp [splitOnChar]
  | cons x xs ih =>
    have hx : x ≠ c := fun e => h (by simp [e])
    have hxs : c ∉ xs := fun e => h (by simp [e])
    simp [splitOnChar, hx, ih hxs, consHead]

/-- `split(c)` inverts joining with `c` when no field contains `c` -/
theorem splitOnChar_joinWith (c : Char) (fields : List (List Char)) (hne : fields ≠ [])
    (h : ∀ f ∈ fields, c ∉ f) : splitOnChar c (joinWith c fields) = fields := by
  induction fields with
  | nil => exact absurd rfl hne
  | cons f r ih =>
    cases r with
    | nil => simpa [joinWith] using splitOnChar_noSep c f (h f (by simp))
    | cons g r' =>
      rw [joinWith_cons_cons, splitOnChar_append c f _ (h f (by simp))]
      rw [ih (by simp) (fun x hx => h x (by simp [hx]))]

/-! ### `split_once` -/

theorem splitOnce_append (c : Char) (a b : List Char) (h : c ∉ a) :
    splitOnce c (a ++ c :: b) = some (a, b) := by
  induction a with
  | nil => simp [splitOnce]
  | cons x xs ih =>
    have hx : x ≠ c := fun e => h (by simp [e])
    have hxs : c ∉ xs := fun e => h (by simp [e])
    simp [splitOnce, hx, ih hxs]

theorem splitOnce_none (c : Char) (a : List Char) (h : c ∉ a) : splitOnce c a = none := by
  induction a with
  | nil => rfl
  | cons x xs ih =>
    have hx : x ≠ c := fun e => h (by simp [e])
    have hxs : c ∉ xs := fun e => h (by simp [e])
    simp [splitOnce, hx, ih hxs]

theorem stripPrefix_append (p s : List Char) : stripPrefix p (p ++ s) = some s := by
  induction p with
  | nil => cases s <;> rfl
  | cons x xs ih => simp [stripPrefix, ih]

theorem startsWith_append (p s : List Char) : startsWith p (p ++ s) = true := by
  induction p with
  | nil => cases s <;> rfl
  | cons x xs ih => simp [startsWith, ih]

/-- `split_once(": ")` finds the first `": "`: a key without `:` is split off exactly, whatever the
value contains (further `": "` included) -/
theorem splitOnceStr_colonSp (k v : List Char) (h : ':' ∉ k) :
    splitOnceStr colonSp (k ++ colonSp ++ v) = some (k, v) := by
  induction k with
  | nil => simp [splitOnceStr, colonSp, stripPrefix]
  | cons x xs ih =>
    have hx : ¬ (':' = x) := fun e => h (by simp [← e])
    have hxs : ':' ∉ xs := fun e => h (by simp [e])
    have := ih hxs
    simp only [List.cons_append, List.append_assoc, colonSp, List.nil_append] at this ⊢
    simp [splitOnceStr, stripPrefix, hx, this]

/-! ### `splitn`, tails of extra columns -/

/-- what may follow the columns a parser looks at: nothing, or a separator and any text -/
def IsTail (c : Char) (tail : List Char) : Prop := tail = [] ∨ ∃ t, tail = c :: t

theorem splitOnChar_tail (c : Char) (f tail : List Char) (h : c ∉ f) (ht : IsTail c tail) :
    ∃ rest, splitOnChar c (f ++ tail) = f :: rest := by
  rcases ht with rfl | ⟨t, rfl⟩
  · exact ⟨[], by simpa using splitOnChar_noSep c f h⟩
  · exact ⟨_, splitOnChar_append c f t h⟩

theorem splitN_noSep (c : Char) (n : Nat) (f : List Char) (h : c ∉ f) : splitN c (n + 1) f = [f] := by
  cases n with
  | zero => cases f <;> rfl
  | succ n =>
    induction f with
    | nil => rfl
    | cons x xs ih =>
      have hx : x ≠ c := fun e => h (by simp [e])
      have hxs : c ∉ xs := fun e => h (by simp [e])
      simp [splitN, hx, ih hxs, consHead]

theorem splitN_append (c : Char) (n : Nat) (f rest : List Char) (h : c ∉ f) :
    splitN c (n + 2) (f ++ c :: rest) = f :: splitN c (n + 1) rest := by
  induction f with
  | nil => simp [splitN]
  | cons x xs ih =>
    have hx : x ≠ c := fun e => h (by simp [e])
    have hxs : c ∉ xs := fun e => h (by simp [e])
    simp [splitN, hx, ih hxs, consHead]

theorem splitN_tail (c : Char) (n : Nat) (f tail : List Char) (h : c ∉ f) (ht : IsTail c tail) :
    ∃ rest, splitN c (n + 2) (f ++ tail) = f :: rest := by
  rcases ht with rfl | ⟨t, rfl⟩
  · exact ⟨[], by simpa using splitN_noSep c (n + 1) f h⟩
  · exact ⟨_, splitN_append c n f t h⟩

/-! ### `trim` -/

/-- the text ends in a character that is not white space -/
def EndsNonWs (s : List Char) : Prop := ∃ c, s.getLast? = some c ∧ isWs c = false

theorem trimEnd_cons_of_ne_nil (c : Char) (s : List Char) (h : trimEnd s ≠ []) :
    trimEnd (c :: s) = c :: trimEnd s := by
  cases hs : trimEnd s with
  | nil => exact absurd hs h
  | cons r rs => simp [trimEnd, hs]

theorem trimEnd_append (a b : List Char) (h : EndsNonWs a) : trimEnd (a ++ b) = a ++ trimEnd b := by
  induction a with
  | nil => obtain ⟨c, hc, _⟩ := h; simp at hc
  | cons x xs ih =>
    cases xs with
    | nil =>
      obtain ⟨c, hc, hw⟩ := h
      simp at hc; subst hc
      cases hb : trimEnd b with
      | nil => simp [trimEnd, hb, hw]
      | cons r rs => simp [trimEnd, hb]
    | cons y ys =>
      have h' : EndsNonWs (y :: ys) := by
        obtain ⟨c, hc, hw⟩ := h
        exact ⟨c, by simpa [List.getLast?_cons_cons] using hc, hw⟩
      have e := ih h'
      have hne : trimEnd (y :: ys ++ b) ≠ [] := by rw [e]; simp
      show trimEnd (x :: (y :: ys ++ b)) = _
      rw [trimEnd_cons_of_ne_nil _ _ hne, e]; rfl

/-- after `trim_end`, a tail of extra columns is still a tail of extra columns -/
theorem trimEnd_tail (tail : List Char) (ht : IsTail '\t' tail) : IsTail '\t' (trimEnd tail) := by
  rcases ht with rfl | ⟨t, rfl⟩
  · left; rfl
  · cases h : trimEnd t with
    | nil => left; simp [trimEnd, h, isWs]
    | cons r rs => right; exact ⟨r :: rs, by simp [trimEnd, h]⟩

theorem trimStart_of_head (c : Char) (s : List Char) (h : isWs c = false) : trimStart (c :: s) = c :: s := by
  simp [trimStart, h]

theorem EndsNonWs_append (a b : List Char) (h : EndsNonWs b) : EndsNonWs (a ++ b) := by
  obtain ⟨c, hc, hw⟩ := h
  refine ⟨c, ?_, hw⟩
  rw [List.getLast?_append, hc]; rfl

theorem EndsNonWs_cons (x : Char) (b : List Char) (h : EndsNonWs b) : EndsNonWs (x :: b) :=
  EndsNonWs_append [x] b h

/-! ### numbers -/

theorem digitVal_none_ne (k : Nat) (c : Char) (hc : TermId.digitVal c = none) : TermId.digitChar k ≠ c := by
  intro e
  have := TermId.digitVal_digitChar k
  rw [e, hc] at this
  exact absurd this (by simp)

/-- no character without a digit value occurs in a decimal rendering -/
theorem not_mem_decimal (n : Nat) (c : Char) (hc : TermId.digitVal c = none) : c ∉ TermId.decimal n := by
  intro h
  obtain ⟨k, hk⟩ := TermId.decimal_digits n c h
  exact digitVal_none_ne k c hc hk.symm

theorem not_mem_render (n : Nat) (c : Char) (hc : TermId.digitVal c = none)
    (h1 : c ≠ 'H') (h2 : c ≠ 'P') (h3 : c ≠ ':') : c ∉ TermId.render n := by
  intro h
  simp only [TermId.render, List.cons_append, List.nil_append, List.mem_cons, List.mem_append,
    List.mem_replicate] at h
  rcases h with h | h | h | h | h
  · exact h1 h
  · exact h2 h
  · exact h3 h
  · rw [h.2] at hc; exact absurd hc (by decide)
  · exact not_mem_decimal n c hc h

theorem isWs_digitChar (k : Nat) : isWs (TermId.digitChar k) = false := by
  have h : k % 10 < 10 := Nat.mod_lt _ (by decide)
  unfold TermId.digitChar
  generalize k % 10 = m at h ⊢
  match m, h with
  | 0, _ => decide
  | 1, _ => decide
  | 2, _ => decide
  | 3, _ => decide
  | 4, _ => decide
  | 5, _ => decide
  | 6, _ => decide
  | 7, _ => decide
  | 8, _ => decide
  | 9, _ => decide

theorem decimal_getLast (n : Nat) : (TermId.decimal n).getLast? = some (TermId.digitChar n) := by
  unfold TermId.decimal
  rw [List.getLast?_reverse]
  unfold TermId.digitsRev
  split <;> rfl

theorem EndsNonWs_decimal (n : Nat) : EndsNonWs (TermId.decimal n) :=
  ⟨_, decimal_getLast n, isWs_digitChar n⟩

theorem EndsNonWs_render (n : Nat) : EndsNonWs (TermId.render n) := by
  unfold TermId.render
  exact EndsNonWs_append _ _ (EndsNonWs_decimal n)

theorem stripPlus_decimal (n : Nat) : TermId.stripPlus (TermId.decimal n) = TermId.decimal n := by
  unfold TermId.stripPlus
  split
  · rename_i r hr
    have : '+' ∈ TermId.decimal n := by rw [hr]; simp
    exact absurd this (not_mem_decimal n '+' (by decide))
  · rfl

/-- `"<n>".parse::<u32>()` -/
theorem parseU32_decimal (n : Nat) (h : n < 4294967296) : TermId.parseU32 (TermId.decimal n) = some n := by
  unfold TermId.parseU32 TermId.parseDigits
  rw [stripPlus_decimal]
  simp [TermId.decimal_ne_nil, TermId.digitsVal_decimal, h]

/-- `HpoTermId::try_from(&id.to_string())` (the statement of `C20_roundtrip`) -/
theorem parse_render (n : Nat) (h : n < 4294967296) : TermId.parse (TermId.render n) = some n := by
  unfold TermId.parse
  have hlen : ¬ TermId.byteLen (TermId.render n) < 4 := by
    unfold TermId.render
    rw [TermId.byteLen_append, TermId.byteLen_append]
    have h3 : TermId.byteLen ['H', 'P', ':'] = 3 := by decide
    have := TermId.byteLen_pos_of_ne_nil _ (TermId.decimal_ne_nil n)
    omega
  rw [if_neg hlen]
  have hdrop : TermId.dropBytes 3 (TermId.render n) =
      some (List.replicate (7 - (TermId.decimal n).length) '0' ++ TermId.decimal n) := by
    have e1 : Char.utf8Size 'H' = 1 := by decide
    have e2 : Char.utf8Size 'P' = 1 := by decide
    have e3 : Char.utf8Size ':' = 1 := by decide
    simp only [TermId.render, List.cons_append, List.nil_append, TermId.dropBytes, e1, e2, e3]
    cases (List.replicate (7 - (TermId.decimal n).length) '0' ++ TermId.decimal n) <;> simp [TermId.dropBytes]
  rw [hdrop]
  simp only [Option.bind_some]
  have hval : TermId.digitsVal (List.replicate (7 - (TermId.decimal n).length) '0' ++ TermId.decimal n) 0 = some n := by
    rw [TermId.digitsVal_zeros, TermId.digitsVal_decimal]
  have hne : List.replicate (7 - (TermId.decimal n).length) '0' ++ TermId.decimal n ≠ [] := by
    simp [TermId.decimal_ne_nil]
  have hplus : '+' ∉ List.replicate (7 - (TermId.decimal n).length) '0' ++ TermId.decimal n := by
    intro hm
    rcases List.mem_append.1 hm with hm | hm
    · exact absurd (List.mem_replicate.1 hm).2 (by decide)
    · exact not_mem_decimal n '+' (by decide) hm
  generalize List.replicate (7 - (TermId.decimal n).length) '0' ++ TermId.decimal n = rest at hval hne hplus
  have hs : TermId.stripPlus rest = rest := by
    unfold TermId.stripPlus
    split
    · rename_i r; exact absurd (by simp) hplus
    · rfl
  simp only [TermId.parseU32, hs, TermId.parseDigits, List.isEmpty_iff, hne, ↓reduceIte, hval,
    Option.bind_some, h]

/-! ### renderers of rows (specification side) -/

/-- a `genes_to_phenotype.txt` row: gene id, symbol, term id, then `tail` (nothing or more columns) -/
def renderG2P (g : Nat) (sym : List Char) (h : Nat) (tail : List Char) : List Char :=
  TermId.decimal g ++ '\t' :: (sym ++ '\t' :: (TermId.render h ++ tail))

/-- a `phenotype_to_genes.txt` row: term id, term label, gene id, symbol, then `tail` -/
def renderP2G (g : Nat) (sym : List Char) (h : Nat) (label tail : List Char) : List Char :=
  TermId.render h ++ '\t' :: (label ++ '\t' :: (TermId.decimal g ++ '\t' :: (sym ++ tail)))

/-- a `phenotype.hpoa` row: `<db>:<id>`, disease name, qualifier, term id text, then `tail` -/
def renderDiseaseRow (db id name q hpo tail : List Char) : List Char :=
  db ++ ':' :: (id ++ '\t' :: (name ++ '\t' :: (q ++ '\t' :: (hpo ++ tail))))

theorem tab_digitVal : TermId.digitVal '\t' = none := by decide

theorem parseG2P_render (g h : Nat) (sym tail : List Char) (hg : g < 4294967296) (hh : h < 4294967296)
    (hs : '\t' ∉ sym) (ht : IsTail '\t' tail) :
    parseG2P (renderG2P g sym h tail) = .ok (g, sym, h) := by
  unfold parseG2P renderG2P
  rw [splitOnChar_append _ _ _ (not_mem_decimal g '\t' tab_digitVal), splitOnChar_append _ _ _ hs]
  obtain ⟨rest, e⟩ := splitOnChar_tail '\t' (TermId.render h) tail
    (not_mem_render h '\t' tab_digitVal (by decide) (by decide) (by decide)) ht
  rw [e]
  simp [parseGeneCols, parse_render h hh, parseU32_decimal g hg]

theorem parseP2G_render (g h : Nat) (sym label tail : List Char) (hg : g < 4294967296) (hh : h < 4294967296)
    (hs : '\t' ∉ sym) (hl : '\t' ∉ label) (ht : IsTail '\t' tail) :
    parseP2G (renderP2G g sym h label tail) = .ok (g, sym, h) := by
  unfold parseP2G renderP2G
  rw [splitOnChar_append _ _ _ (not_mem_render h '\t' tab_digitVal (by decide) (by decide) (by decide)),
    splitOnChar_append _ _ _ hl, splitOnChar_append _ _ _ (not_mem_decimal g '\t' tab_digitVal)]
  obtain ⟨rest, e⟩ := splitOnChar_tail '\t' sym tail hs ht
  rw [e]
  simp [parseGeneCols, parse_render h hh, parseU32_decimal g hg]

/-- `trim` leaves a row that starts with a non-blank character and whose fourth column ends in a
non-blank character intact up to that column; what follows stays a tail of extra columns -/
theorem trim_diseaseRow (db id name q hpo tail : List Char) (c0 : Char) (db' : List Char) (hdb : db = c0 :: db')
    (h0 : isWs c0 = false) (hend : EndsNonWs hpo) (ht : IsTail '\t' tail) :
    ∃ tail', IsTail '\t' tail' ∧
      trim (renderDiseaseRow db id name q hpo tail) = renderDiseaseRow db id name q hpo tail' := by
  refine ⟨trimEnd tail, trimEnd_tail tail ht, ?_⟩
  subst hdb
  unfold trim renderDiseaseRow
  rw [List.cons_append, trimStart_of_head _ _ h0]
  have key : ∀ pre : List Char, trimEnd (pre ++ (hpo ++ tail)) = pre ++ (hpo ++ trimEnd tail) := by
    intro pre
    rw [← List.append_assoc, trimEnd_append _ _ (EndsNonWs_append pre hpo hend), List.append_assoc]
  have := key (c0 :: db' ++ ':' :: (id ++ '\t' :: (name ++ '\t' :: (q ++ ['\t']))))
  simpa [List.append_assoc] using this

theorem parseDiseaseComponents_render (db id name q hpo tail : List Char) (c0 : Char) (db' : List Char)
    (hdb : db = c0 :: db') (h0 : isWs c0 = false) (hend : EndsNonWs hpo) (ht : IsTail '\t' tail)
    (hdbc : ':' ∉ db) (hdbt : '\t' ∉ db) (hid : '\t' ∉ id) (hname : '\t' ∉ name) (hq : '\t' ∉ q)
    (hhpo : '\t' ∉ hpo) :
    parseDiseaseComponents (renderDiseaseRow db id name q hpo tail) =
      if q = kNot then .ok none
      else match TermId.parse hpo with
        | none => .err .parseInt
        | some h => .ok (some (id, name, h)) := by
  obtain ⟨tail', ht', e⟩ := trim_diseaseRow db id name q hpo tail c0 db' hdb h0 hend ht
  unfold parseDiseaseComponents
  rw [e]
  unfold renderDiseaseRow
  have hcol1 : '\t' ∉ db ++ ':' :: id := by
    intro hm
    rcases List.mem_append.1 hm with hm | hm
    · exact hdbt hm
    · rcases List.mem_cons.1 hm with hm | hm
      · exact absurd hm (by decide)
      · exact hid hm
  have e1 : db ++ ':' :: (id ++ '\t' :: (name ++ '\t' :: (q ++ '\t' :: (hpo ++ tail')))) =
      (db ++ ':' :: id) ++ '\t' :: (name ++ '\t' :: (q ++ '\t' :: (hpo ++ tail'))) := by simp
  rw [e1, splitN_append _ 3 _ _ hcol1, splitN_append _ 2 _ _ hname, splitN_append _ 1 _ _ hq]
  obtain ⟨rest, e2⟩ := splitN_tail '\t' 0 hpo tail' hhpo ht'
  rw [e2]
  simp only [splitOnce_append ':' db id hdbc]
  by_cases hn : q = kNot
  · simp [hn]
  · simp only [hn, if_false]
    cases TermId.parse hpo <;> rfl

/-! ### `lines` -/

theorem stripCr_noCr (l : List Char) (h : '\r' ∉ l) : stripCr l = l := by
  induction l with
  | nil => rfl
  | cons x xs ih =>
    have hx : x ≠ '\r' := fun e => h (by simp [e])
    have hxs : '\r' ∉ xs := fun e => h (by simp [e])
    cases xs with
    | nil => simp [stripCr, hx]
    | cons y ys => simp [stripCr, ih hxs]

theorem linesOf_id (ls : List (List Char)) (h : ∀ l ∈ ls, '\r' ∉ l ∧ l ≠ []) : linesOf ls = ls := by
  induction ls with
  | nil => rfl
  | cons l r ih =>
    cases r with
    | nil =>
      have := (h l (by simp)).2
      simp [linesOf, this]
    | cons m r' =>
      simp only [linesOf]
      rw [stripCr_noCr l (h l (by simp)).1, ih (fun x hx => h x (by simp [hx]))]

/-- `lines()` returns exactly the lines that were joined with `\n` (non-empty, without `\n`, `\r`) -/
theorem lines_joinWith (ls : List (List Char)) (hne : ls ≠ [])
    (h : ∀ l ∈ ls, '\n' ∉ l ∧ '\r' ∉ l ∧ l ≠ []) : lines (joinWith '\n' ls) = ls := by
  unfold lines
  rw [splitOnChar_joinWith '\n' ls hne (fun l hl => (h l hl).1)]
  exact linesOf_id ls (fun l hl => (h l hl).2)

/-- a well-formed line: no line break inside, not empty -/
def LineOk (l : List Char) : Prop := '\n' ∉ l ∧ '\r' ∉ l ∧ l ≠ []

theorem linesOf_snoc_nil (ls : List (List Char)) (h : ∀ l ∈ ls, '\r' ∉ l) : linesOf (ls ++ [[]]) = ls := by
  induction ls with
  | nil => rfl
  | cons l r ih =>
    have hr := ih (fun x hx => h x (by simp [hx]))
    cases r with
    | nil => simp [linesOf, stripCr_noCr l (h l (by simp))]
    | cons m r' =>
      simp only [List.cons_append, linesOf] at hr ⊢
      rw [stripCr_noCr l (h l (by simp)), hr]

theorem joinWith_snoc_nil (c : Char) (ls : List (List Char)) (hne : ls ≠ []) :
    joinWith c (ls ++ [[]]) = joinWith c ls ++ [c] := by
  induction ls with
  | nil => exact absurd rfl hne
  | cons l r ih =>
    cases r with
    | nil => simp [joinWith]
    | cons m r' =>
      have := ih (by simp)
      simp only [List.cons_append, joinWith] at this ⊢
      rw [this]; simp

/-- how a row file may end: after the last row, or with one line feed after it -/
def RowsEnd {α : Type} (rows : List α) (ending : List Char) : Prop :=
  ending = [] ∨ (ending = ['\n'] ∧ rows ≠ [])

/-- `lines()` of rows joined by `\n` returns the rows -/
theorem lines_rows (rows : List (List Char)) (ending : List Char) (h : ∀ l ∈ rows, LineOk l)
    (hend : RowsEnd rows ending) : lines (joinWith '\n' rows ++ ending) = rows := by
  rcases hend with rfl | ⟨rfl, hne⟩
  · cases rows with
    | nil => rfl
    | cons r rs => simpa using lines_joinWith (r :: rs) (by simp) h
  · rw [← joinWith_snoc_nil '\n' rows hne]
    unfold lines
    rw [splitOnChar_joinWith '\n' (rows ++ [[]]) (by simp) (by
      intro f hf
      rcases List.mem_append.1 hf with hf | hf
      · exact (h f hf).1
      · simp at hf; subst hf; simp)]
    exact linesOf_snoc_nil rows (fun l hl => (h l hl).2.1)

/-! ### `[Term]` stanzas -/

def kIsa : List Char := ['i', 's', '_', 'a']

/-- a `key: value` line -/
def kvLine (k v : List Char) : List Char := k ++ colonSp ++ v

/-- `is_a: HP:0000001 ! label` -/
def isaLine (p : Nat × List Char) : List Char :=
  isaPrefix ++ (TermId.render p.1 ++ ' ' :: '!' :: ' ' :: p.2)

/-- a key the loader does not look at (alt_id, def, comment, synonym, xref, created_by, …) -/
def Neutral (k : List Char) : Prop :=
  ':' ∉ k ∧ k ≠ kId ∧ k ≠ kName ∧ k ≠ kObsolete ∧ k ≠ kReplaced ∧ k ≠ kIsa

/-- the loader-relevant tags after the `is_a` lines -/
def tailPairs (obs : Bool) (repl : Option Nat) (extras2 : List (List Char × List Char)) :
    List (List Char × List Char) :=
  (if obs then [(kObsolete, kTrue)] else []) ++
    ((match repl with
      | some r => [(kReplaced, TermId.render r)]
      | none => []) ++ extras2)

/-- the lines of a JAX `[Term]` stanza: id, name, other tags, one `is_a` line per parent (with its
label), `is_obsolete: true`, `replaced_by`, more other tags -/
def stanzaLines (id : Nat) (name : List Char) (obs : Bool) (repl : Option Nat)
    (parents : List (Nat × List Char)) (extras1 extras2 : List (List Char × List Char)) : List (List Char) :=
  (((kId, TermId.render id) :: (kName, name) :: extras1).map fun e => kvLine e.1 e.2)
    ++ (parents.map isaLine ++ (tailPairs obs repl extras2).map fun e => kvLine e.1 e.2)

def renderStanza (id : Nat) (name : List Char) (obs : Bool) (repl : Option Nat)
    (parents : List (Nat × List Char)) (extras1 extras2 : List (List Char × List Char)) : List Char :=
  termPrefix ++ joinWith '\n' (stanzaLines id name obs repl parents extras1 extras2)

theorem scanFields_append (a b : List (List Char)) (f : Fields) :
    scanFields (a ++ b) f = (scanFields a f).bind (scanFields b) := by
  induction a generalizing f with
  | nil => rfl
  | cons l ls ih =>
    simp only [List.cons_append, scanFields]
    cases splitOnceStr colonSp l with
    | none => rfl
    | some p => exact ih _

theorem scanFields_kv (k v : List Char) (hk : ':' ∉ k) (ls : List (List Char)) (f : Fields) :
    scanFields (kvLine k v :: ls) f = scanFields ls (f.set k v) := by
  simp only [scanFields, kvLine, splitOnceStr_colonSp k v hk]

theorem set_neutral (f : Fields) (k v : List Char) (h : Neutral k) : f.set k v = f := by
  obtain ⟨_, h1, h2, h3, h4, _⟩ := h
  simp [Fields.set, h1, h2, h3, h4]

theorem scanFields_neutral (es : List (List Char × List Char)) (h : ∀ e ∈ es, Neutral e.1)
    (ls : List (List Char)) (f : Fields) :
    scanFields ((es.map fun e => kvLine e.1 e.2) ++ ls) f = scanFields ls f := by
  induction es with
  | nil => rfl
  | cons e r ih =>
    simp only [List.map_cons, List.cons_append]
    rw [scanFields_kv _ _ (h e (by simp)).1, set_neutral f _ _ (h e (by simp))]
    exact ih (fun x hx => h x (by simp [hx]))

theorem isaLine_eq (p : Nat × List Char) :
    isaLine p = kvLine kIsa (TermId.render p.1 ++ ' ' :: '!' :: ' ' :: p.2) := by
  simp [isaLine, kvLine, isaPrefix, kIsa, colonSp]

theorem scanFields_isa (ps : List (Nat × List Char)) (ls : List (List Char)) (f : Fields) :
    scanFields (ps.map isaLine ++ ls) f = scanFields ls f := by
  induction ps with
  | nil => rfl
  | cons p r ih =>
    simp only [List.map_cons, List.cons_append]
    rw [isaLine_eq, scanFields_kv _ _ (by decide)]
    have : f.set kIsa (TermId.render p.1 ++ ' ' :: '!' :: ' ' :: p.2) = f := by
      simp [Fields.set, kIsa, kId, kName, kObsolete, kReplaced]
    rw [this]; exact ih

/-- a `key: value` line is an `is_a: ` line only if its key is `is_a` -/
theorem stripPrefix_isa_kv (k v : List Char) (hc : ':' ∉ k) (hk : k ≠ kIsa) :
    stripPrefix isaPrefix (kvLine k v) = none := by
  have gen : ∀ (p k : List Char), ':' ∉ p → ':' ∉ k → k ≠ p →
      stripPrefix (p ++ colonSp) (k ++ colonSp ++ v) = none := by
    intro p
    induction p with
    | nil =>
      intro k _ hk hne
      cases k with
      | nil => exact absurd rfl hne
      | cons b k' =>
        have : ¬ (':' = b) := fun e => hk (by simp [← e])
        simp [stripPrefix, colonSp, this]
    | cons a p' ih =>
      intro k hp hk hne
      cases k with
      | nil =>
        have : ¬ (a = ':') := fun e => hp (by simp [e])
        simp [stripPrefix, colonSp, this]
      | cons b k' =>
        by_cases hab : a = b
        · subst hab
          have := ih k' (fun e => hp (by simp [e])) (fun e => hk (by simp [e])) (fun e => hne (by simp [e]))
          simpa [stripPrefix] using this
        · simp [stripPrefix, hab]
  have := gen kIsa k (by decide) hc hk
  simpa [kvLine, isaPrefix, kIsa, colonSp] using this

theorem isaParents_skip (es : List (List Char × List Char)) (h : ∀ e ∈ es, ':' ∉ e.1 ∧ e.1 ≠ kIsa)
    (ls : List (List Char)) :
    isaParents ((es.map fun e => kvLine e.1 e.2) ++ ls) = isaParents ls := by
  induction es with
  | nil => rfl
  | cons e r ih =>
    simp only [List.map_cons, List.cons_append, isaParents]
    rw [stripPrefix_isa_kv _ _ (h e (by simp)).1 (h e (by simp)).2]
    exact ih (fun x hx => h x (by simp [hx]))

theorem space_digitVal : TermId.digitVal ' ' = none := by decide

theorem isaParents_isa (ps : List (Nat × List Char)) (h : ∀ p ∈ ps, p.1 < 4294967296)
    (ls : List (List Char)) :
    isaParents (ps.map isaLine ++ ls) = (isaParents ls).bind fun r => .ok (ps.map (·.1) ++ r) := by
  induction ps with
  | nil => simp only [List.map_nil, List.nil_append]; cases isaParents ls <;> rfl
  | cons p r ih =>
    simp only [List.map_cons, List.cons_append, isaParents]
    rw [show isaLine p = isaPrefix ++ (TermId.render p.1 ++ ' ' :: ('!' :: ' ' :: p.2)) from rfl,
      stripPrefix_append]
    simp only []
    rw [splitOnce_append ' ' _ _ (not_mem_render p.1 ' ' space_digitVal (by decide) (by decide) (by decide))]
    simp only [parse_render p.1 (h p (by simp))]
    rw [ih (fun x hx => h x (by simp [hx]))]
    cases isaParents ls <;> rfl

theorem LineOk_kv (k v : List Char) (hk : LineOk k) (hv : '\n' ∉ v ∧ '\r' ∉ v) : LineOk (kvLine k v) := by
  obtain ⟨h1, h2, h3⟩ := hk
  refine ⟨?_, ?_, ?_⟩
  · simp [kvLine, colonSp, h1, hv.1]
  · simp [kvLine, colonSp, h2, hv.2]
  · simp [kvLine, h3]

theorem lineOk_kId : LineOk kId := ⟨by decide, by decide, by decide⟩
theorem lineOk_kName : LineOk kName := ⟨by decide, by decide, by decide⟩
theorem lineOk_kObsolete : LineOk kObsolete := ⟨by decide, by decide, by decide⟩
theorem lineOk_kReplaced : LineOk kReplaced := ⟨by decide, by decide, by decide⟩
theorem lineOk_kIsa : LineOk kIsa := ⟨by decide, by decide, by decide⟩
theorem isaOk_kId : ':' ∉ kId ∧ kId ≠ kIsa := ⟨by decide, by decide⟩
theorem isaOk_kName : ':' ∉ kName ∧ kName ≠ kIsa := ⟨by decide, by decide⟩
theorem isaOk_kObsolete : ':' ∉ kObsolete ∧ kObsolete ≠ kIsa := ⟨by decide, by decide⟩
theorem isaOk_kReplaced : ':' ∉ kReplaced ∧ kReplaced ≠ kIsa := ⟨by decide, by decide⟩

theorem nl_digitVal : TermId.digitVal '\n' = none := by decide
theorem cr_digitVal : TermId.digitVal '\r' = none := by decide

theorem render_noBreak (n : Nat) : '\n' ∉ TermId.render n ∧ '\r' ∉ TermId.render n :=
  ⟨not_mem_render n '\n' nl_digitVal (by decide) (by decide) (by decide),
   not_mem_render n '\r' cr_digitVal (by decide) (by decide) (by decide)⟩

theorem LineOk_isa (p : Nat × List Char) (h : '\n' ∉ p.2 ∧ '\r' ∉ p.2) : LineOk (isaLine p) := by
  rw [isaLine_eq]
  refine LineOk_kv _ _ lineOk_kIsa ⟨?_, ?_⟩
  · simp [(render_noBreak p.1).1, h.1]
  · simp [(render_noBreak p.1).2, h.2]

/-- the side conditions on the free text of a stanza: no line breaks in names, labels, other tags;
the other tags have keys the loader ignores -/
structure StanzaOk (name : List Char) (parents : List (Nat × List Char))
    (extras1 extras2 : List (List Char × List Char)) : Prop where
  name : '\n' ∉ name ∧ '\r' ∉ name
  labels : ∀ p ∈ parents, '\n' ∉ p.2 ∧ '\r' ∉ p.2
  extras : ∀ e ∈ extras1 ++ extras2, Neutral e.1 ∧ LineOk e.1 ∧ '\n' ∉ e.2 ∧ '\r' ∉ e.2

theorem stanzaLines_ok (id : Nat) (name : List Char) (obs : Bool) (repl : Option Nat)
    (parents : List (Nat × List Char)) (extras1 extras2 : List (List Char × List Char))
    (hok : StanzaOk name parents extras1 extras2) :
    ∀ l ∈ stanzaLines id name obs repl parents extras1 extras2, LineOk l := by
  intro l hl
  have hex : ∀ e, e ∈ extras1 ∨ e ∈ extras2 → LineOk (kvLine e.1 e.2) := by
    intro e he
    have := hok.extras e (List.mem_append.2 he)
    exact LineOk_kv _ _ this.2.1 this.2.2
  simp only [stanzaLines, tailPairs, List.mem_append, List.mem_map, List.mem_cons] at hl
  rcases hl with ⟨e, (rfl | rfl | he), rfl⟩ | ⟨p, hp, rfl⟩ | ⟨e, (he | he | he), rfl⟩
  · exact LineOk_kv _ _ lineOk_kId (render_noBreak id)
  · exact LineOk_kv _ _ lineOk_kName hok.name
  · exact hex e (Or.inl he)
  · exact LineOk_isa p (hok.labels p hp)
  · cases obs <;> simp at he
    subst he; exact LineOk_kv _ _ lineOk_kObsolete ⟨by decide, by decide⟩
  · cases repl <;> simp at he
    subst he; exact LineOk_kv _ _ lineOk_kReplaced (render_noBreak _)
  · exact hex e (Or.inr he)

theorem isaParents_pairs_nil (es : List (List Char × List Char)) (h : ∀ e ∈ es, ':' ∉ e.1 ∧ e.1 ≠ kIsa) :
    isaParents (es.map fun e => kvLine e.1 e.2) = .ok [] := by
  have := isaParents_skip es h []
  simpa [isaParents] using this

theorem neutral_isa (k : List Char) (h : Neutral k) : ':' ∉ k ∧ k ≠ kIsa := ⟨h.1, h.2.2.2.2.2⟩

/-- `parse_block` on a rendered `[Term]` stanza returns the term (id, name, obsolete flag,
replacement) and the parent ids in line order -/
theorem parseBlock_stanza (id : Nat) (name : List Char) (obs : Bool) (repl : Option Nat)
    (parents : List (Nat × List Char)) (extras1 extras2 : List (List Char × List Char))
    (hid : id < 4294967296) (hrepl : ∀ r, repl = some r → r < 4294967296)
    (hpar : ∀ p ∈ parents, p.1 < 4294967296) (hok : StanzaOk name parents extras1 extras2)
    (ending : List Char) (hend : ending = [] ∨ ending = ['\n']) :
    parseBlock (renderStanza id name obs repl parents extras1 extras2 ++ ending) =
      .ok (.term { id := id, name := name, obsolete := obs, replacement := repl } (parents.map (·.1))) := by
  have hlines : lines (joinWith '\n' (stanzaLines id name obs repl parents extras1 extras2) ++ ending) =
      stanzaLines id name obs repl parents extras1 extras2 :=
    lines_rows _ ending (stanzaLines_ok id name obs repl parents extras1 extras2 hok) (by
      rcases hend with h | h
      · exact Or.inl h
      · exact Or.inr ⟨h, by simp [stanzaLines]⟩)
  have hn1 : ∀ e ∈ extras1, Neutral e.1 := fun e he => (hok.extras e (by simp [he])).1
  have hn2 : ∀ e ∈ extras2, Neutral e.1 := fun e he => (hok.extras e (by simp [he])).1
  -- the four variables after the scan
  have hscan : scanFields (stanzaLines id name obs repl parents extras1 extras2) {} =
      .ok { id := some (TermId.render id), name := some name,
            obsolete := if obs then some kTrue else none,
            replaced := repl.map TermId.render } := by
    unfold stanzaLines
    simp only [List.map_cons, List.cons_append]
    rw [scanFields_kv _ _ isaOk_kId.1, scanFields_kv _ _ isaOk_kName.1,
      scanFields_neutral extras1 hn1, scanFields_isa]
    unfold tailPairs
    have e2 : ∀ f : Fields, scanFields (extras2.map fun e => kvLine e.1 e.2) f = .ok f := by
      intro f
      have := scanFields_neutral extras2 hn2 [] f
      simpa [scanFields] using this
    cases obs <;> cases repl <;>
      simp [scanFields_kv, e2, Fields.set, kId, kName, kObsolete, kReplaced]
  have hterm : termFromObo (stanzaLines id name obs repl parents extras1 extras2) =
      .ok (some { id := id, name := name, obsolete := obs, replacement := repl }) := by
    unfold termFromObo
    rw [hscan]
    cases repl with
    | none => cases obs <;> simp [Res.bind, fieldsTerm, parse_render id hid, kTrue]
    | some r => cases obs <;> simp [Res.bind, fieldsTerm, parse_render id hid, parse_render r (hrepl r rfl), kTrue]
  have hisa : isaParents (stanzaLines id name obs repl parents extras1 extras2) = .ok (parents.map (·.1)) := by
    unfold stanzaLines
    rw [isaParents_skip _ (by
      intro e he
      rcases List.mem_cons.1 he with rfl | he
      · exact isaOk_kId
      rcases List.mem_cons.1 he with rfl | he
      · exact isaOk_kName
      · exact neutral_isa _ (hn1 e he))]
    rw [isaParents_isa parents hpar, isaParents_pairs_nil _ (by
      intro e he
      simp only [tailPairs, List.mem_append] at he
      rcases he with he | he | he
      · cases obs <;> simp at he
        subst he; exact isaOk_kObsolete
      · cases repl <;> simp at he
        subst he; exact isaOk_kReplaced
      · exact neutral_isa _ (hn2 e he))]
    simp [Res.bind]
  unfold parseBlock renderStanza
  rw [List.append_assoc, stripPrefix_append]
  simp only [hlines, hterm, hisa, Res.bind]

/-! ### other blocks, the header block -/

theorem parseBlock_other (b : List Char) (h1 : stripPrefix termPrefix b = none)
    (h2 : startsWith formatPrefix b = false) : parseBlock b = .ok .other := by
  simp [parseBlock, h1, h2]

theorem utf8Size_digitChar (k : Nat) : (TermId.digitChar k).utf8Size = 1 := by
  have h : k % 10 < 10 := Nat.mod_lt _ (by decide)
  unfold TermId.digitChar
  generalize k % 10 = m at h ⊢
  match m, h with
  | 0, _ => decide
  | 1, _ => decide
  | 2, _ => decide
  | 3, _ => decide
  | 4, _ => decide
  | 5, _ => decide
  | 6, _ => decide
  | 7, _ => decide
  | 8, _ => decide
  | 9, _ => decide

/-- `YYYY-MM-DD` from its eight digits -/
def dateText (y1 y2 y3 y4 m1 m2 d1 d2 : Nat) : List Char :=
  [TermId.digitChar y1, TermId.digitChar y2, TermId.digitChar y3, TermId.digitChar y4, '-',
   TermId.digitChar m1, TermId.digitChar m2, '-', TermId.digitChar d1, TermId.digitChar d2]

def versionLine (y1 y2 y3 y4 m1 m2 d1 d2 : Nat) : List Char :=
  versionPrefix ++ dateText y1 y2 y3 y4 m1 m2 d1 d2

theorem digitsVal_cons_digit (a : Nat) (ha : a < 10) (rest : List Char) (acc : Nat) :
    TermId.digitsVal (TermId.digitChar a :: rest) acc = TermId.digitsVal rest (acc * 10 + a) := by
  simp [TermId.digitsVal, TermId.digitVal_digitChar, Nat.mod_eq_of_lt ha]

theorem stripPlus_digit (a : Nat) (rest : List Char) :
    TermId.stripPlus (TermId.digitChar a :: rest) = TermId.digitChar a :: rest := by
  unfold TermId.stripPlus
  split
  · rename_i r hr
    have : TermId.digitChar a = '+' := by injection hr
    exact absurd this (TermId.digitChar_ne_plus a)
  · rfl

theorem parseUnsigned_4 (bound a b c d : Nat) (ha : a < 10) (hb : b < 10) (hc : c < 10) (hd : d < 10)
    (h : 1000 * a + 100 * b + 10 * c + d < bound) :
    parseUnsigned bound [TermId.digitChar a, TermId.digitChar b, TermId.digitChar c, TermId.digitChar d]
      = some (1000 * a + 100 * b + 10 * c + d) := by
  unfold parseUnsigned
  rw [stripPlus_digit]
  rw [digitsVal_cons_digit _ ha, digitsVal_cons_digit _ hb, digitsVal_cons_digit _ hc,
    digitsVal_cons_digit _ hd]
  have e : (((0 * 10 + a) * 10 + b) * 10 + c) * 10 + d = 1000 * a + 100 * b + 10 * c + d := by omega
  simp only [List.isEmpty_cons, Bool.false_eq_true, if_false, TermId.digitsVal, e, if_pos h]

theorem parseUnsigned_2 (bound a b : Nat) (ha : a < 10) (hb : b < 10) (h : 10 * a + b < bound) :
    parseUnsigned bound [TermId.digitChar a, TermId.digitChar b] = some (10 * a + b) := by
  unfold parseUnsigned
  rw [stripPlus_digit]
  rw [digitsVal_cons_digit _ ha, digitsVal_cons_digit _ hb]
  have e : (0 * 10 + a) * 10 + b = 10 * a + b := by omega
  simp only [List.isEmpty_cons, Bool.false_eq_true, if_false, TermId.digitsVal, e, if_pos h]

/-- the `data-version: hp/releases/YYYY-MM-DD` line yields (YYYY, MM, DD) -/
theorem versionOfLine_date (y1 y2 y3 y4 m1 m2 d1 d2 : Nat) (hy1 : y1 < 10) (hy2 : y2 < 10)
    (hy3 : y3 < 10) (hy4 : y4 < 10) (hm1 : m1 < 10) (hm2 : m2 < 10) (hd1 : d1 < 10) (hd2 : d2 < 10) :
    versionOfLine (versionLine y1 y2 y3 y4 m1 m2 d1 d2) =
      .ok (some (1000 * y1 + 100 * y2 + 10 * y3 + y4, 10 * m1 + m2, 10 * d1 + d2)) := by
  unfold versionOfLine versionLine
  rw [stripPrefix_append]
  have hdash : Char.utf8Size '-' = 1 := by decide
  have hlen : TermId.byteLen (dateText y1 y2 y3 y4 m1 m2 d1 d2) = 10 := by
    simp [TermId.byteLen, dateText, utf8Size_digitChar, hdash]
  have s1 : sliceBytes 0 4 (dateText y1 y2 y3 y4 m1 m2 d1 d2) =
      some [TermId.digitChar y1, TermId.digitChar y2, TermId.digitChar y3, TermId.digitChar y4] := by
    simp [sliceBytes, dateText, TermId.dropBytes, takeBytes, utf8Size_digitChar]
  have s2 : sliceBytes 5 7 (dateText y1 y2 y3 y4 m1 m2 d1 d2) =
      some [TermId.digitChar m1, TermId.digitChar m2] := by
    simp [sliceBytes, dateText, TermId.dropBytes, takeBytes, utf8Size_digitChar, hdash]
  have s3 : sliceBytes 8 10 (dateText y1 y2 y3 y4 m1 m2 d1 d2) =
      some [TermId.digitChar d1, TermId.digitChar d2] := by
    simp [sliceBytes, dateText, TermId.dropBytes, takeBytes, utf8Size_digitChar, hdash]
  simp only [hlen, if_true, s1, s2, s3]
  rw [parseUnsigned_4 65536 y1 y2 y3 y4 hy1 hy2 hy3 hy4 (by omega),
    parseUnsigned_2 256 m1 m2 hm1 hm2 (by omega), parseUnsigned_2 256 d1 d2 hd1 hd2 (by omega)]
  rfl

theorem versionFromLines_skip (pre : List (List Char)) (h : ∀ l ∈ pre, stripPrefix versionPrefix l = none)
    (ls : List (List Char)) : versionFromLines (pre ++ ls) = versionFromLines ls := by
  induction pre with
  | nil => rfl
  | cons l r ih =>
    simp only [List.cons_append, versionFromLines, versionOfLine, h l (by simp)]
    exact ih (fun x hx => h x (by simp [hx]))

/-- the header block: `format-version: 1.2`, other header lines, the data-version line, more lines -/
def headerLines (pre post : List (List Char)) (y1 y2 y3 y4 m1 m2 d1 d2 : Nat) : List (List Char) :=
  (formatPrefix :: pre) ++ versionLine y1 y2 y3 y4 m1 m2 d1 d2 :: post

theorem joinWith_cons_startsWith (c : Char) (f : List Char) (r : List (List Char)) :
    startsWith f (joinWith c (f :: r)) = true := by
  cases r with
  | nil => simpa [joinWith] using startsWith_append f []
  | cons g r' => rw [joinWith_cons_cons]; exact startsWith_append f _

theorem joinWith_cons_stripPrefix_none (c : Char) (p f : List Char) (r : List (List Char)) (x y : Char)
    (p' f' : List Char) (hp : p = x :: p') (hf : f = y :: f') (hxy : x ≠ y) :
    stripPrefix p (joinWith c (f :: r)) = none := by
  subst hp hf
  cases r with
  | nil => simp [joinWith, stripPrefix, hxy]
  | cons g r' => rw [joinWith_cons_cons]; simp [stripPrefix, hxy]

theorem joinWith_cons_exists (c : Char) (f : List Char) (r : List (List Char)) :
    ∃ s, joinWith c (f :: r) = f ++ s := by
  cases r with
  | nil => exact ⟨[], by simp [joinWith]⟩
  | cons g r' => exact ⟨_, joinWith_cons_cons c f g r'⟩

theorem parseBlock_header (pre post : List (List Char)) (y1 y2 y3 y4 m1 m2 d1 d2 : Nat)
    (hy1 : y1 < 10) (hy2 : y2 < 10) (hy3 : y3 < 10) (hy4 : y4 < 10) (hm1 : m1 < 10) (hm2 : m2 < 10)
    (hd1 : d1 < 10) (hd2 : d2 < 10)
    (hpre : ∀ l ∈ pre, stripPrefix versionPrefix l = none)
    (hok : ∀ l ∈ pre ++ post, LineOk l) (ending : List Char) (hend : ending = [] ∨ ending = ['\n']) :
    parseBlock (joinWith '\n' (headerLines pre post y1 y2 y3 y4 m1 m2 d1 d2) ++ ending) =
      .ok (.header (1000 * y1 + 100 * y2 + 10 * y3 + y4, 10 * m1 + m2, 10 * d1 + d2)) := by
  have hvl : LineOk (versionLine y1 y2 y3 y4 m1 m2 d1 d2) := by
    have hd : ∀ k, TermId.digitChar k ≠ '\n' ∧ TermId.digitChar k ≠ '\r' := fun k =>
      ⟨digitVal_none_ne k '\n' nl_digitVal, digitVal_none_ne k '\r' cr_digitVal⟩
    refine ⟨?_, ?_, by simp [versionLine, versionPrefix]⟩
    · simp [versionLine, versionPrefix, dateText, fun k => ((hd k).1).symm]
    · simp [versionLine, versionPrefix, dateText, fun k => ((hd k).2).symm]
  have hlines : lines (joinWith '\n' (headerLines pre post y1 y2 y3 y4 m1 m2 d1 d2) ++ ending) =
      headerLines pre post y1 y2 y3 y4 m1 m2 d1 d2 := by
    refine lines_rows _ ending ?_ (by
      rcases hend with h | h
      · exact Or.inl h
      · exact Or.inr ⟨h, by simp [headerLines]⟩)
    intro l hl
    simp only [headerLines, List.cons_append, List.mem_cons, List.mem_append] at hl
    rcases hl with rfl | hl | rfl | hl
    · exact ⟨by decide, by decide, by decide⟩
    · exact hok l (by simp [hl])
    · exact hvl
    · exact hok l (by simp [hl])
  unfold parseBlock
  obtain ⟨t, ht⟩ := joinWith_cons_exists '\n' formatPrefix (pre ++ versionLine y1 y2 y3 y4 m1 m2 d1 d2 :: post)
  have hform : joinWith '\n' (headerLines pre post y1 y2 y3 y4 m1 m2 d1 d2) ++ ending =
      formatPrefix ++ (t ++ ending) := by
    unfold headerLines
    rw [List.cons_append, ht, List.append_assoc]
  have h1 : stripPrefix termPrefix (joinWith '\n' (headerLines pre post y1 y2 y3 y4 m1 m2 d1 d2) ++ ending) = none := by
    rw [hform]; simp [termPrefix, formatPrefix, stripPrefix]
  have h2 : startsWith formatPrefix (joinWith '\n' (headerLines pre post y1 y2 y3 y4 m1 m2 d1 d2) ++ ending) = true := by
    rw [hform]; exact startsWith_append _ _
  rw [h1]
  simp only [h2, if_true, hlines]
  have hv : versionFromLines (headerLines pre post y1 y2 y3 y4 m1 m2 d1 d2) =
      .ok (some (1000 * y1 + 100 * y2 + 10 * y3 + y4, 10 * m1 + m2, 10 * d1 + d2)) := by
    unfold headerLines
    rw [versionFromLines_skip (formatPrefix :: pre) (by
      intro l hl
      rcases List.mem_cons.1 hl with rfl | hl
      · decide
      · exact hpre l hl)]
    simp only [versionFromLines, versionOfLine_date y1 y2 y3 y4 m1 m2 d1 d2 hy1 hy2 hy3 hy4 hm1 hm2 hd1 hd2]
  rw [hv]; rfl

/-! ### `split("\n\n")`, whole obo files -/

/-- no blank line inside, no line break at the end: what a block between blank lines looks like -/
def BlockOk : List Char → Prop
  | [] => True
  | [c] => c ≠ '\n'
  | c :: d :: r => ¬ (c = '\n' ∧ d = '\n') ∧ BlockOk (d :: r)

theorem splitOnStrGo_cons_false (pat : List Char) (c : Char) (cs : List Char)
    (h : startsWith pat (c :: cs) = false) :
    splitOnStrGo pat 0 (c :: cs) = consHead c (splitOnStrGo pat 0 cs) := by
  rw [splitOnStrGo]; simp [h]

theorem splitOnStrGo_block (b rest : List Char) (h : BlockOk b) :
    splitOnStrGo blankLine 0 (b ++ '\n' :: '\n' :: rest) = b :: splitOnStrGo blankLine 0 rest := by
  induction b with
  | nil => simp [splitOnStrGo, blankLine, startsWith]
  | cons c r ih =>
    cases r with
    | nil =>
      have hc : ¬ ('\n' = c) := fun e => h e.symm
      have := ih (by simp [BlockOk])
      simp only [List.nil_append] at this
      simp [splitOnStrGo, blankLine, startsWith, hc, consHead] at this ⊢
    | cons d r' =>
      obtain ⟨h1, h2⟩ := h
      have hs : startsWith blankLine (c :: (d :: r' ++ '\n' :: '\n' :: rest)) = false := by
        by_cases hc : '\n' = c
        · have hd : ¬ ('\n' = d) := fun e => h1 ⟨hc.symm, e.symm⟩
          simp [blankLine, startsWith, hd]
        · simp [blankLine, startsWith, hc]
      show splitOnStrGo blankLine 0 (c :: (d :: r' ++ '\n' :: '\n' :: rest)) = _
      rw [splitOnStrGo_cons_false _ _ _ hs, ih h2]; rfl

theorem splitOnStrGo_last (b : List Char) (h : BlockOk b) : splitOnStrGo blankLine 0 b = [b] := by
  induction b with
  | nil => rfl
  | cons c r ih =>
    cases r with
    | nil => simp [splitOnStrGo, blankLine, startsWith, consHead]
    | cons d r' =>
      obtain ⟨h1, h2⟩ := h
      have hs : startsWith blankLine (c :: d :: r') = false := by
        by_cases hc : '\n' = c
        · have hd : ¬ ('\n' = d) := fun e => h1 ⟨hc.symm, e.symm⟩
          simp [blankLine, startsWith, hd]
        · simp [blankLine, startsWith, hc]
      rw [splitOnStrGo_cons_false _ _ _ hs, ih h2]; rfl

theorem splitOnStrGo_last_nl (b : List Char) (h : BlockOk b) :
    splitOnStrGo blankLine 0 (b ++ ['\n']) = [b ++ ['\n']] := by
  induction b with
  | nil => simp [splitOnStrGo, blankLine, startsWith, consHead]
  | cons c r ih =>
    cases r with
    | nil =>
      have hc : ¬ ('\n' = c) := fun e => h e.symm
      have hs : startsWith blankLine (c :: ['\n']) = false := by simp [blankLine, startsWith, hc]
      show splitOnStrGo blankLine 0 (c :: ['\n']) = _
      rw [splitOnStrGo_cons_false _ _ _ hs]
      simp [splitOnStrGo, blankLine, startsWith, consHead]
    | cons d r' =>
      obtain ⟨h1, h2⟩ := h
      have hs : startsWith blankLine (c :: (d :: r' ++ ['\n'])) = false := by
        by_cases hc : '\n' = c
        · have hd : ¬ ('\n' = d) := fun e => h1 ⟨hc.symm, e.symm⟩
          simp [blankLine, startsWith, hd]
        · simp [blankLine, startsWith, hc]
      show splitOnStrGo blankLine 0 (c :: (d :: r' ++ ['\n'])) = _
      rw [splitOnStrGo_cons_false _ _ _ hs, ih h2]; rfl

/-- the same with a last block that only has to come back as one piece (it may end in a line feed) -/
theorem splitOnStr_joinStr_last (init : List (List Char)) (x : List Char)
    (h : ∀ b ∈ init, BlockOk b) (hx : splitOnStrGo blankLine 0 x = [x]) :
    splitOnStr blankLine (joinStr blankLine (init ++ [x])) = init ++ [x] := by
  unfold splitOnStr
  induction init with
  | nil => simpa [joinStr] using hx
  | cons b r ih =>
    have hb := h b (by simp)
    have hr := ih (fun y hy => h y (by simp [hy]))
    have : ∃ g r', r ++ [x] = g :: r' := by cases r <;> simp
    obtain ⟨g, r', e⟩ := this
    rw [List.cons_append, e]
    show splitOnStrGo blankLine 0 (b ++ blankLine ++ joinStr blankLine (g :: r')) = _
    have e2 : b ++ blankLine ++ joinStr blankLine (g :: r') = b ++ '\n' :: '\n' :: joinStr blankLine (g :: r') := by
      simp [blankLine]
    rw [e2, splitOnStrGo_block b _ hb, ← e, hr]

theorem joinStr_last_append (sep : List Char) (init : List (List Char)) (x e : List Char) :
    joinStr sep (init ++ [x ++ e]) = joinStr sep (init ++ [x]) ++ e := by
  induction init with
  | nil => simp [joinStr]
  | cons b r ih =>
    have h1 : ∃ g r', r ++ [x ++ e] = g :: r' := by cases r <;> simp
    have h2 : ∃ g r', r ++ [x] = g :: r' := by cases r <;> simp
    obtain ⟨g1, r1, e1⟩ := h1
    obtain ⟨g2, r2, e2⟩ := h2
    rw [List.cons_append, List.cons_append, e1, e2]
    show b ++ sep ++ joinStr sep (g1 :: r1) = b ++ sep ++ joinStr sep (g2 :: r2) ++ e
    rw [← e1, ← e2, ih]; simp

/-- `split("\n\n")` returns exactly the blocks that were joined with a blank line -/
theorem splitOnStr_joinStr (blocks : List (List Char)) (hne : blocks ≠ [])
    (h : ∀ b ∈ blocks, BlockOk b) : splitOnStr blankLine (joinStr blankLine blocks) = blocks := by
  unfold splitOnStr
  induction blocks with
  | nil => exact absurd rfl hne
  | cons b r ih =>
    cases r with
    | nil => simpa [joinStr] using splitOnStrGo_last b (h b (by simp))
    | cons g r' =>
      show splitOnStrGo blankLine 0 (b ++ blankLine ++ joinStr blankLine (g :: r')) = _
      have : b ++ blankLine ++ joinStr blankLine (g :: r') = b ++ '\n' :: '\n' :: joinStr blankLine (g :: r') := by
        simp [blankLine]
      rw [this, splitOnStrGo_block b _ (h b (by simp)), ih (by simp) (fun x hx => h x (by simp [hx]))]

theorem BlockOk_line (f : List Char) (h : '\n' ∉ f) : BlockOk f := by
  induction f with
  | nil => trivial
  | cons c r ih =>
    have hc : c ≠ '\n' := fun e => h (by simp [e])
    cases r with
    | nil => exact hc
    | cons d r' => exact ⟨fun e => hc e.1, ih (fun e => h (by simp [e]))⟩

theorem BlockOk_append_line (f x : List Char) (hf : '\n' ∉ f) (hfne : f ≠ []) (hx : BlockOk x)
    (hxh : ∀ r, x ≠ '\n' :: r) (hxne : x ≠ []) : BlockOk (f ++ '\n' :: x) := by
  induction f with
  | nil => exact absurd rfl hfne
  | cons c r ih =>
    have hc : c ≠ '\n' := fun e => hf (by simp [e])
    cases r with
    | nil =>
      cases x with
      | nil => exact absurd rfl hxne
      | cons y ys =>
        have hy : y ≠ '\n' := fun e => hxh ys (by rw [e])
        exact ⟨fun e => hc e.1, fun e => hy e.2, hx⟩
    | cons d r' =>
      exact ⟨fun e => hc e.1, ih (fun e => hf (by simp [e])) (by simp)⟩

/-- lines (non-empty, without `\n`) joined with `\n` form a block -/
theorem BlockOk_joinWith (ls : List (List Char)) (hne : ls ≠ []) (h : ∀ l ∈ ls, '\n' ∉ l ∧ l ≠ []) :
    BlockOk (joinWith '\n' ls) ∧ (∀ r, joinWith '\n' ls ≠ '\n' :: r) ∧ joinWith '\n' ls ≠ [] := by
  induction ls with
  | nil => exact absurd rfl hne
  | cons f r ih =>
    have hf := h f (by simp)
    have hhead : ∀ t : List Char, ∀ r', f ++ t ≠ '\n' :: r' := by
      intro t r' e
      cases f with
      | nil => exact hf.2 rfl
      | cons c cs =>
        have : c = '\n' := by simpa using (List.cons.inj e).1
        exact hf.1 (by simp [this])
    cases r with
    | nil =>
      refine ⟨by simpa [joinWith] using BlockOk_line f hf.1, ?_, by simpa [joinWith] using hf.2⟩
      intro r' e; exact hhead [] r' (by simpa [joinWith] using e)
    | cons g r' =>
      obtain ⟨i1, i2, i3⟩ := ih (by simp) (fun x hx => h x (by simp [hx]))
      rw [joinWith_cons_cons]
      exact ⟨BlockOk_append_line f _ hf.1 hf.2 i1 i2 i3, fun r'' => hhead _ r'', by simp [hf.2]⟩

theorem readBlocks_results (items : List (List Char × Block))
    (h : ∀ p ∈ items, parseBlock p.1 = .ok p.2) (o : Obo) :
    readBlocks (items.map (·.1)) o = .ok ((items.map (·.2)).foldl Obo.push o) := by
  induction items generalizing o with
  | nil => rfl
  | cons p r ih =>
    simp only [List.map_cons, readBlocks, h p (by simp), Res.bind, List.foldl_cons]
    exact ih (fun x hx => h x (by simp [hx])) _

theorem readObo_pairs (pairs : List (List Char × Block)) (hne : pairs ≠ [])
    (h : ∀ p ∈ pairs, BlockOk p.1 ∧ parseBlock p.1 = .ok p.2) :
    readObo (joinStr blankLine (pairs.map (·.1))) = .ok ((pairs.map (·.2)).foldl Obo.push {}) := by
  unfold readObo
  rw [splitOnStr_joinStr _ (by simpa using hne) (by
    intro b hb
    obtain ⟨p, hp, rfl⟩ := List.mem_map.1 hb
    exact (h p hp).1)]
  exact readBlocks_results pairs (fun p hp => (h p hp).2) {}

theorem readObo_pairs_last (init : List (List Char × Block)) (last : List Char × Block) (e : List Char)
    (he : e = [] ∨ e = ['\n'])
    (h : ∀ p ∈ init, BlockOk p.1 ∧ parseBlock p.1 = .ok p.2)
    (hl : BlockOk last.1 ∧ parseBlock (last.1 ++ e) = .ok last.2) :
    readObo (joinStr blankLine (init.map (·.1) ++ [last.1]) ++ e) =
      .ok (((init ++ [last]).map (·.2)).foldl Obo.push {}) := by
  unfold readObo
  have hx : splitOnStrGo blankLine 0 (last.1 ++ e) = [last.1 ++ e] := by
    rcases he with rfl | rfl
    · simpa using splitOnStrGo_last last.1 hl.1
    · exact splitOnStrGo_last_nl last.1 hl.1
  rw [← joinStr_last_append, splitOnStr_joinStr_last _ _ (by
    intro b hb
    obtain ⟨p, hp, rfl⟩ := List.mem_map.1 hb
    exact (h p hp).1) hx]
  have := readBlocks_results (init ++ [(last.1 ++ e, last.2)]) (by
    intro p hp
    rcases List.mem_append.1 hp with hp | hp
    · exact (h p hp).2
    · simp at hp; subst hp; exact hl.2) {}
  simpa using this

theorem joinStr_snoc_nil (sep : List Char) (bs : List (List Char)) (hne : bs ≠ []) :
    joinStr sep (bs ++ [[]]) = joinStr sep bs ++ sep := by
  induction bs with
  | nil => exact absurd rfl hne
  | cons b r ih =>
    cases r with
    | nil => simp [joinStr]
    | cons g r' =>
      have := ih (by simp)
      simp only [List.cons_append, joinStr] at this ⊢
      rw [this]; simp

/-- a block of an obo file after the header -/
inductive Item where
  | stanza (id : Nat) (name : List Char) (obs : Bool) (repl : Option Nat)
      (parents : List (Nat × List Char)) (extras1 extras2 : List (List Char × List Char))
  /-- any other stanza: first line `tag` (e.g. `[Typedef]`), then further lines -/
  | other (tag : List Char) (ls : List (List Char))

def Item.render : Item → List Char
  | .stanza id name obs repl parents e1 e2 => renderStanza id name obs repl parents e1 e2
  | .other tag ls => joinWith '\n' (tag :: ls)

def Item.result : Item → Block
  | .stanza id name obs repl parents _ _ =>
    .term { id := id, name := name, obsolete := obs, replacement := repl } (parents.map (·.1))
  | .other _ _ => .other

def Item.Ok : Item → Prop
  | .stanza id name _ repl parents e1 e2 =>
    id < 4294967296 ∧ (∀ r, repl = some r → r < 4294967296) ∧ (∀ p ∈ parents, p.1 < 4294967296) ∧
      StanzaOk name parents e1 e2
  | .other tag ls =>
    (∀ l ∈ tag :: ls, LineOk l) ∧ (∀ s, stripPrefix termPrefix (tag ++ s) = none) ∧
      (∀ s, startsWith formatPrefix (tag ++ s) = false)

/-- the term stanzas of a file, in file order -/
def itemsTerms : List Item → List (Term × List Nat)
  | [] => []
  | .stanza id name obs repl parents _ _ :: r =>
    ({ id := id, name := name, obsolete := obs, replacement := repl }, parents.map (·.1)) :: itemsTerms r
  | .other _ _ :: r => itemsTerms r

theorem foldl_push_items (items : List Item) (o : Obo) :
    (items.map Item.result).foldl Obo.push o = { o with terms := o.terms ++ itemsTerms items } := by
  induction items generalizing o with
  | nil => simp [itemsTerms]
  | cons i r ih =>
    cases i with
    | stanza id name obs repl parents e1 e2 =>
      simp [Item.result, Obo.push, ih, itemsTerms]
    | other tag ls => simp [Item.result, Obo.push, ih, itemsTerms]

def tagTerm : List Char := ['[', 'T', 'e', 'r', 'm', ']']

theorem renderStanza_eq (id : Nat) (name : List Char) (obs : Bool) (repl : Option Nat)
    (parents : List (Nat × List Char)) (e1 e2 : List (List Char × List Char)) :
    renderStanza id name obs repl parents e1 e2 =
      joinWith '\n' (tagTerm :: stanzaLines id name obs repl parents e1 e2) := by
  simp [renderStanza, stanzaLines, joinWith_cons_cons, tagTerm, termPrefix]

theorem Item.block_ok (i : Item) (h : i.Ok) :
    BlockOk i.render ∧ ∀ e, e = [] ∨ e = ['\n'] → parseBlock (i.render ++ e) = .ok i.result := by
  cases i with
  | stanza id name obs repl parents e1 e2 =>
    obtain ⟨h1, h2, h3, h4⟩ := h
    refine ⟨?_, fun e he => parseBlock_stanza id name obs repl parents e1 e2 h1 h2 h3 h4 e he⟩
    simp only [Item.render]
    rw [renderStanza_eq]
    refine (BlockOk_joinWith _ (by simp) ?_).1
    intro l hl
    rcases List.mem_cons.1 hl with rfl | hl
    · exact ⟨by decide, by decide⟩
    · have := stanzaLines_ok id name obs repl parents e1 e2 h4 l hl
      exact ⟨this.1, this.2.2⟩
  | other tag ls =>
    obtain ⟨h1, h2, h3⟩ := h
    refine ⟨(BlockOk_joinWith _ (by simp) (fun l hl => ⟨(h1 l hl).1, (h1 l hl).2.2⟩)).1, ?_⟩
    intro e _
    obtain ⟨s, hs⟩ := joinWith_cons_exists '\n' tag ls
    simp only [Item.render, Item.result, hs, List.append_assoc]
    exact parseBlock_other _ (h2 _) (h3 _)

/-- A whole rendered `hp.obo`: header block, then `[Term]` stanzas and other stanzas in any order,
separated by blank lines, ending right after the last block, with a line feed, or with a line feed
and a blank line. The loader sees exactly the term stanzas (in file order) and the release version. -/
theorem readObo_file (pre post : List (List Char)) (y1 y2 y3 y4 m1 m2 d1 d2 : Nat)
    (hy1 : y1 < 10) (hy2 : y2 < 10) (hy3 : y3 < 10) (hy4 : y4 < 10) (hm1 : m1 < 10) (hm2 : m2 < 10)
    (hd1 : d1 < 10) (hd2 : d2 < 10)
    (hpre : ∀ l ∈ pre, stripPrefix versionPrefix l = none) (hok : ∀ l ∈ pre ++ post, LineOk l)
    (items : List Item) (hitems : ∀ i ∈ items, i.Ok) (ending : List Char)
    (hend : ending = [] ∨ ending = ['\n'] ∨ ending = blankLine) :
    readObo (joinStr blankLine
        (joinWith '\n' (headerLines pre post y1 y2 y3 y4 m1 m2 d1 d2) :: items.map Item.render) ++ ending) =
      .ok { terms := itemsTerms items,
            version := (1000 * y1 + 100 * y2 + 10 * y3 + y4, 10 * m1 + m2, 10 * d1 + d2) } := by
  have hhdr := parseBlock_header pre post y1 y2 y3 y4 m1 m2 d1 d2 hy1 hy2 hy3 hy4 hm1 hm2 hd1 hd2 hpre hok
  have hhok : BlockOk (joinWith '\n' (headerLines pre post y1 y2 y3 y4 m1 m2 d1 d2)) := by
    refine (BlockOk_joinWith _ (by simp [headerLines]) ?_).1
    intro l hl
    simp only [headerLines, List.cons_append, List.mem_cons, List.mem_append] at hl
    rcases hl with rfl | hl | rfl | hl
    · exact ⟨by decide, by decide⟩
    · have := hok l (by simp [hl]); exact ⟨this.1, this.2.2⟩
    · refine ⟨?_, by simp [versionLine, versionPrefix]⟩
      have hd : ∀ k, ¬ ('\n' = TermId.digitChar k) := fun k e => digitVal_none_ne k '\n' nl_digitVal e.symm
      simp [versionLine, versionPrefix, dateText, hd]
    · have := hok l (by simp [hl]); exact ⟨this.1, this.2.2⟩
  let v : Nat × Nat × Nat := (1000 * y1 + 100 * y2 + 10 * y3 + y4, 10 * m1 + m2, 10 * d1 + d2)
  let hp : List Char × Block := (joinWith '\n' (headerLines pre post y1 y2 y3 y4 m1 m2 d1 d2), Block.header v)
  let base : List (List Char × Block) := hp :: items.map (fun i => (i.render, i.result))
  have hbase : ∀ p ∈ base, BlockOk p.1 ∧ parseBlock p.1 = .ok p.2 := by
    intro p hp
    rcases List.mem_cons.1 hp with rfl | hp
    · exact ⟨hhok, by simpa using hhdr [] (Or.inl rfl)⟩
    · obtain ⟨i, hi, rfl⟩ := List.mem_map.1 hp
      exact ⟨(i.block_ok (hitems i hi)).1, by simpa using (i.block_ok (hitems i hi)).2 [] (Or.inl rfl)⟩
  have hfst : base.map (·.1) =
      joinWith '\n' (headerLines pre post y1 y2 y3 y4 m1 m2 d1 d2) :: items.map Item.render := by
    simp [base, hp, List.map_map, Function.comp_def]
  have hsnd : base.map (·.2) = Block.header v :: items.map Item.result := by
    simp [base, hp, List.map_map, Function.comp_def]
  rcases hend with rfl | rfl | rfl
  · have := readObo_pairs base (by simp [base]) hbase
    rw [hfst, hsnd] at this
    simp only [List.append_nil]
    rw [this, List.foldl_cons, foldl_push_items]
    simp [Obo.push, v]
  · -- single line feed after the last block
    rcases List.eq_nil_or_concat items with h0 | ⟨its, it, h0⟩
    · subst h0
      have := readObo_pairs_last [] hp ['\n'] (Or.inr rfl) (by simp)
        ⟨hhok, hhdr ['\n'] (Or.inr rfl)⟩
      simpa [hp, Obo.push, itemsTerms, v] using this
    · rw [List.concat_eq_append] at h0
      subst h0
      have hit := hitems it (by simp)
      have := readObo_pairs_last (hp :: its.map (fun i => (i.render, i.result))) (it.render, it.result) ['\n']
        (Or.inr rfl) (by
          intro p hp'
          exact hbase p (by
            rcases List.mem_cons.1 hp' with rfl | hp'
            · simp [base]
            · simp only [base, List.map_append, List.mem_cons, List.mem_append]
              exact Or.inr (Or.inl hp')))
        ⟨(it.block_ok hit).1, (it.block_ok hit).2 ['\n'] (Or.inr rfl)⟩
      have e1 : (hp :: its.map (fun i => (i.render, i.result))).map (·.1) ++ [it.render] =
          joinWith '\n' (headerLines pre post y1 y2 y3 y4 m1 m2 d1 d2) :: (its ++ [it]).map Item.render := by
        simp [hp, List.map_map, Function.comp_def]
      have e2 : ((hp :: its.map (fun i => (i.render, i.result))) ++ [(it.render, it.result)]).map (·.2) =
          Block.header v :: (its ++ [it]).map Item.result := by
        simp [hp, List.map_map, Function.comp_def]
      rw [e1, e2] at this
      rw [this, List.foldl_cons, foldl_push_items]
      simp [Obo.push, v]
  · have := readObo_pairs (base ++ [([], Block.other)]) (by simp) (by
      intro p hp
      rcases List.mem_append.1 hp with hp | hp
      · exact hbase p hp
      · simp at hp; subst hp
        exact ⟨trivial, parseBlock_other _ (by decide) (by decide)⟩)
    rw [List.map_append, List.map_append, hfst, hsnd] at this
    simp only [List.map_cons, List.map_nil] at this
    rw [joinStr_snoc_nil _ _ (by simp)] at this
    rw [this, List.foldl_append, List.foldl_cons, List.foldl_cons, foldl_push_items]
    simp [Obo.push, v]

/-! ### whole row files -/

/-- free text of a row: no column separator, no line break -/
def NoSep (s : List Char) : Prop := '\t' ∉ s ∧ '\n' ∉ s ∧ '\r' ∉ s

/-- a gene-term link as a gene file states it: gene id, symbol, term id; the term label (only in
phenotype_to_genes.txt) and the further columns are free text -/
structure GRow where
  g : Nat
  sym : List Char
  h : Nat
  label : List Char
  tail : List Char

def GRow.render (tr : Bool) (r : GRow) : List Char :=
  if tr then renderP2G r.g r.sym r.h r.label r.tail else renderG2P r.g r.sym r.h r.tail

structure GRow.Ok (r : GRow) : Prop where
  g : r.g < 4294967296
  h : r.h < 4294967296
  sym : NoSep r.sym
  label : NoSep r.label
  tail : IsTail '\t' r.tail ∧ '\n' ∉ r.tail ∧ '\r' ∉ r.tail

/-- the Builder calls a gene file stands for, in file order -/
def annotateGenes : List GRow → Onto → Res Onto
  | [], o => .ok o
  | r :: rs, o => (o.annotate .gene r.g r.sym r.h).bind (annotateGenes rs)

theorem decimal_noBreak (n : Nat) : '\n' ∉ TermId.decimal n ∧ '\r' ∉ TermId.decimal n :=
  ⟨not_mem_decimal n '\n' nl_digitVal, not_mem_decimal n '\r' cr_digitVal⟩

theorem GRow.lineOk (tr : Bool) (r : GRow) (h : r.Ok) : LineOk (r.render tr) := by
  have a := decimal_noBreak r.g
  have b := render_noBreak r.h
  cases tr
  · refine ⟨?_, ?_, ?_⟩
    · simp [GRow.render, renderG2P, a.1, b.1, h.sym.2.1, h.tail.2.1]
    · simp [GRow.render, renderG2P, a.2, b.2, h.sym.2.2, h.tail.2.2]
    · simp [GRow.render, renderG2P]
  · refine ⟨?_, ?_, ?_⟩
    · simp [GRow.render, renderP2G, a.1, b.1, h.sym.2.1, h.label.2.1, h.tail.2.1]
    · simp [GRow.render, renderP2G, a.2, b.2, h.sym.2.2, h.label.2.2, h.tail.2.2]
    · simp [GRow.render, renderP2G]

theorem geneRows_render (tr : Bool) (rows : List GRow) (h : ∀ r ∈ rows, r.Ok) (o : Onto) :
    geneRows tr (rows.map (GRow.render tr)) o = annotateGenes rows o := by
  induction rows generalizing o with
  | nil => rfl
  | cons r rs ih =>
    have hr := h r (by simp)
    have e : parseGeneRow tr (r.render tr) = .ok (r.g, r.sym, r.h) := by
      cases tr
      · simpa [parseGeneRow, GRow.render] using parseG2P_render r.g r.h r.sym r.tail hr.g hr.h hr.sym.1 hr.tail.1
      · simpa [parseGeneRow, GRow.render] using
          parseP2G_render r.g r.h r.sym r.label r.tail hr.g hr.h hr.sym.1 hr.label.1 hr.tail.1
    simp only [List.map_cons, geneRows, annotateGenes, e, Res.bind]
    cases o.annotate Kind.gene r.g r.sym r.h with
    | ok o' => exact ih (fun x hx => h x (by simp [hx])) o'
    | err e => rfl
    | panic => rfl
    | diverge => rfl

/-- a whole gene file: header line, rows (any order — `rows` is any list), optional final line feed -/
theorem geneFile_render (tr : Bool) (hdr : List Char) (rows : List GRow) (ending : List Char)
    (hnl : '\n' ∉ hdr)
    (hh : startsWith ['#'] hdr = true ∨ startsWith hdrNcbi hdr = true ∨ startsWith hdrHpo hdr = true)
    (h : ∀ r ∈ rows, r.Ok) (hend : RowsEnd rows ending) :
    removeHeader (hdr ++ '\n' :: (joinWith '\n' (rows.map (GRow.render tr)) ++ ending)) =
      .ok (joinWith '\n' (rows.map (GRow.render tr)) ++ ending) ∧
    ∀ o, geneRows tr (lines (joinWith '\n' (rows.map (GRow.render tr)) ++ ending)) o = annotateGenes rows o := by
  constructor
  · unfold removeHeader
    rw [splitOnce_append '\n' hdr _ hnl]
    rcases hh with h | h | h <;> simp [h]
  · intro o
    rw [lines_rows _ ending (by
      intro l hl
      obtain ⟨r, hr, rfl⟩ := List.mem_map.1 hl
      exact r.lineOk tr (h r hr)) (by
      rcases hend with h1 | ⟨h1, h2⟩
      · exact Or.inl h1
      · exact Or.inr ⟨h1, by simpa using h2⟩)]
    exact geneRows_render tr rows h o

/-! disease rows -/

def dbText (orpha : Bool) : List Char := if orpha then pOrpha else pOmim
def dbKind (orpha : Bool) : Kind := if orpha then .orpha else .omim

/-- a line of phenotype.hpoa -/
inductive DRow where
  /-- an OMIM / ORPHA row with a qualifier other than `NOT` -/
  | link (orpha : Bool) (d : Nat) (name q : List Char) (h : Nat) (tail : List Char)
  /-- a `NOT` row: any id text, any term text -/
  | excluded (orpha : Bool) (id name hpo tail : List Char)
  /-- `#` comment, column header, row of another database, … -/
  | ignored (line : List Char)

def DRow.render : DRow → List Char
  | .link orpha d name q h tail => renderDiseaseRow (dbText orpha) (TermId.decimal d) name q (TermId.render h) tail
  | .excluded orpha id name hpo tail => renderDiseaseRow (dbText orpha) id name kNot hpo tail
  | .ignored line => line

def TailOk (tail : List Char) : Prop := IsTail '\t' tail ∧ '\n' ∉ tail ∧ '\r' ∉ tail

def DRow.Ok : DRow → Prop
  | .link _ d name q h tail =>
    d < 4294967296 ∧ h < 4294967296 ∧ NoSep name ∧ NoSep q ∧ q ≠ kNot ∧ TailOk tail
  | .excluded _ id name hpo tail => NoSep id ∧ NoSep name ∧ NoSep hpo ∧ EndsNonWs hpo ∧ TailOk tail
  | .ignored line => startsWith pOmim line = false ∧ startsWith pOrpha line = false ∧ LineOk line

/-- the Builder calls phenotype.hpoa stands for, in file order -/
def annotateDiseases : List DRow → Onto → Res Onto
  | [], o => .ok o
  | .link orpha d name _ h _ :: rs, o => (o.annotate (dbKind orpha) d name h).bind (annotateDiseases rs)
  | .excluded _ _ _ _ _ :: rs, o => annotateDiseases rs o
  | .ignored _ :: rs, o => annotateDiseases rs o

theorem parseDiseaseRow_db (orpha : Bool) (id name q hpo tail : List Char) (hend : EndsNonWs hpo)
    (ht : IsTail '\t' tail) (hid : '\t' ∉ id) (hname : '\t' ∉ name) (hq : '\t' ∉ q) (hhpo : '\t' ∉ hpo) :
    parseDiseaseRow (renderDiseaseRow (dbText orpha) id name q hpo tail) =
      if q = kNot then .ok none
      else match TermId.parse hpo with
        | none => .err .parseInt
        | some h => .ok (some (dbKind orpha, id, name, h)) := by
  cases orpha
  · have e := parseDiseaseComponents_render pOmim id name q hpo tail 'O' ['M', 'I', 'M'] rfl (by decide)
      hend ht (by decide) (by decide) hid hname hq hhpo
    have hs : startsWith pOmim (renderDiseaseRow pOmim id name q hpo tail) = true := startsWith_append _ _
    simp only [dbText, dbKind, Bool.false_eq_true, if_false, parseDiseaseRow, hs, if_true, e]
    by_cases hn : q = kNot
    · simp [hn, Res.bind]
    · simp only [hn, if_false]
      cases TermId.parse hpo <;> simp [Res.bind]
  · have e := parseDiseaseComponents_render pOrpha id name q hpo tail 'O' ['R', 'P', 'H', 'A'] rfl (by decide)
      hend ht (by decide) (by decide) hid hname hq hhpo
    have hs : startsWith pOrpha (renderDiseaseRow pOrpha id name q hpo tail) = true := startsWith_append _ _
    have hn' : startsWith pOmim (renderDiseaseRow pOrpha id name q hpo tail) = false := by
      simp [renderDiseaseRow, pOrpha, pOmim, startsWith]
    simp only [dbText, dbKind, if_true, parseDiseaseRow, hs, hn', Bool.false_eq_true, if_false, e]
    by_cases hn : q = kNot
    · simp [hn, Res.bind]
    · simp only [hn, if_false]
      cases TermId.parse hpo <;> simp [Res.bind]

theorem diseaseRows_cons (row : DRow) (h : row.Ok) (ls : List (List Char)) (o : Onto) :
    diseaseRows (row.render :: ls) o =
      match row with
      | .link orpha d name _ hh _ => (o.annotate (dbKind orpha) d name hh).bind (diseaseRows ls)
      | _ => diseaseRows ls o := by
  cases row with
  | link orpha d name q hh tail =>
    obtain ⟨h1, h2, h3, h4, h5, h6⟩ := h
    have e := parseDiseaseRow_db orpha (TermId.decimal d) name q (TermId.render hh) tail (EndsNonWs_render hh)
      h6.1 (not_mem_decimal d '\t' tab_digitVal) h3.1 h4.1
      (not_mem_render hh '\t' tab_digitVal (by decide) (by decide) (by decide))
    simp only [DRow.render, diseaseRows, e, h5, if_false, parse_render hh h2, Res.bind, parseU32_decimal d h1]
  | excluded orpha id name hpo tail =>
    obtain ⟨h1, h2, h3, h4, h5⟩ := h
    have e := parseDiseaseRow_db orpha id name kNot hpo tail h4 h5.1 h1.1 h2.1 (by decide) h3.1
    simp only [DRow.render, diseaseRows, e, if_true, Res.bind]
  | ignored line =>
    simp [DRow.render, diseaseRows, parseDiseaseRow, h.1, h.2.1, Res.bind]

theorem diseaseRows_render (rows : List DRow) (h : ∀ r ∈ rows, r.Ok) (o : Onto) :
    diseaseRows (rows.map DRow.render) o = annotateDiseases rows o := by
  induction rows generalizing o with
  | nil => rfl
  | cons r rs ih =>
    have hrs := fun o' => ih (fun x hx => h x (by simp [hx])) o'
    rw [List.map_cons, diseaseRows_cons r (h r (by simp))]
    cases r with
    | link orpha d name q hh tail =>
      simp only [annotateDiseases]
      cases o.annotate (dbKind orpha) d name hh with
      | ok o' => exact hrs o'
      | err e => rfl
      | panic => rfl
      | diverge => rfl
    | excluded orpha id name hpo tail => exact hrs o
    | ignored line => exact hrs o

theorem DRow.lineOk (r : DRow) (h : r.Ok) : LineOk r.render := by
  cases r with
  | link orpha d name q hh tail =>
    obtain ⟨_, _, h3, h4, _, h6⟩ := h
    have a := decimal_noBreak d
    have b := render_noBreak hh
    cases orpha <;> refine ⟨?_, ?_, ?_⟩ <;>
      simp [DRow.render, renderDiseaseRow, dbText, pOmim, pOrpha, a.1, a.2, b.1, b.2, h3.2.1, h3.2.2, h4.2.1,
        h4.2.2, h6.2.1, h6.2.2]
  | excluded orpha id name hpo tail =>
    obtain ⟨h1, h2, h3, _, h5⟩ := h
    cases orpha <;> refine ⟨?_, ?_, ?_⟩ <;>
      simp [DRow.render, renderDiseaseRow, dbText, pOmim, pOrpha, kNot, h1.2.1, h1.2.2, h2.2.1, h2.2.2, h3.2.1,
        h3.2.2, h5.2.1, h5.2.2]
  | ignored line => exact h.2.2

/-- a whole phenotype.hpoa: comment block, column header and rows are all `DRow`s, in any order -/
theorem hpoaFile_render (rows : List DRow) (ending : List Char) (h : ∀ r ∈ rows, r.Ok)
    (hend : RowsEnd rows ending) (o : Onto) :
    diseaseRows (lines (joinWith '\n' (rows.map DRow.render) ++ ending)) o = annotateDiseases rows o := by
  rw [lines_rows _ ending (by
    intro l hl
    obtain ⟨r, hr, rfl⟩ := List.mem_map.1 hl
    exact r.lineOk (h r hr)) (by
    rcases hend with h1 | ⟨h1, h2⟩
    · exact Or.inl h1
    · exact Or.inr ⟨h1, by simpa using h2⟩)]
  exact diseaseRows_render rows h o

/-! ### the whole load -/

/-- The Builder-model program that three rendered files stand for: `add_term` per stanza,
`add_parent_unchecked` per `is_a`, `connect_all_terms`, `annotate_gene` per gene row,
`annotate_omim_disease` / `annotate_orpha_disease` per disease row that is not excluded,
`calculate_information_content`, `build_with_defaults` — all in file order. -/
def buildFromFacts (terms : List (Term × List Nat)) (v : Nat × Nat × Nat) (grows : List GRow)
    (drows : List DRow) : Res Onto :=
  match oboBuild { terms := terms, version := v } with
  | none => .panic
  | some o1 =>
    o1.connectAll.bind fun o2 =>
      (annotateGenes grows o2).bind fun o3 =>
        (annotateDiseases drows o3).bind fun o4 =>
          o4.calcIc.bind fun o5 => o5.buildWithDefaults

theorem loadJax_render (tr : Bool)
    (pre post : List (List Char)) (y1 y2 y3 y4 m1 m2 d1 d2 : Nat)
    (hy1 : y1 < 10) (hy2 : y2 < 10) (hy3 : y3 < 10) (hy4 : y4 < 10) (hm1 : m1 < 10) (hm2 : m2 < 10)
    (hd1 : d1 < 10) (hd2 : d2 < 10)
    (hpre : ∀ l ∈ pre, stripPrefix versionPrefix l = none) (hok : ∀ l ∈ pre ++ post, LineOk l)
    (items : List Item) (hitems : ∀ i ∈ items, i.Ok) (oboEnd : List Char)
    (hoboEnd : oboEnd = [] ∨ oboEnd = ['\n'] ∨ oboEnd = blankLine)
    (hdr : List Char) (grows : List GRow) (geneEnd : List Char) (hnl : '\n' ∉ hdr)
    (hh : startsWith ['#'] hdr = true ∨ startsWith hdrNcbi hdr = true ∨ startsWith hdrHpo hdr = true)
    (hg : ∀ r ∈ grows, r.Ok) (hgeneEnd : RowsEnd grows geneEnd)
    (drows : List DRow) (hpoaEnd : List Char) (hd : ∀ r ∈ drows, r.Ok) (hhpoaEnd : RowsEnd drows hpoaEnd) :
    loadJax tr
      (joinStr blankLine
        (joinWith '\n' (headerLines pre post y1 y2 y3 y4 m1 m2 d1 d2) :: items.map Item.render) ++ oboEnd)
      (hdr ++ '\n' :: (joinWith '\n' (grows.map (GRow.render tr)) ++ geneEnd))
      (joinWith '\n' (drows.map DRow.render) ++ hpoaEnd) =
    buildFromFacts (itemsTerms items)
      (1000 * y1 + 100 * y2 + 10 * y3 + y4, 10 * m1 + m2, 10 * d1 + d2) grows drows := by
  unfold loadJax buildFromFacts
  rw [readObo_file pre post y1 y2 y3 y4 m1 m2 d1 d2 hy1 hy2 hy3 hy4 hm1 hm2 hd1 hd2 hpre hok items hitems
    oboEnd hoboEnd]
  obtain ⟨g1, g2⟩ := geneFile_render tr hdr grows geneEnd hnl hh hg hgeneEnd
  simp only [Res.bind, g1]
  cases oboBuild _ with
  | none => rfl
  | some o1 =>
    simp only []
    cases o1.connectAll with
    | ok o2 =>
      simp only [g2 o2]
      cases annotateGenes grows o2 with
      | ok o3 => simp only [hpoaFile_render drows hpoaEnd hd hhpoaEnd o3]
      | err e => rfl
      | panic => rfl
      | diverge => rfl
    | err e => rfl
    | panic => rfl
    | diverge => rfl

end Text
end Hpo
