import HpoModel.Text
import HpoProofs.TermId
/-! Laws of the string helpers of `HpoModel/Text.lean` and the renderers used by the C09 theorems
(core Lean only). -/
namespace Hpo
namespace Text

/-- fields joined by a separator character (`[]` and `[f]` have no separator) -/
def joinWith (c : Char) : List (List Char) → List Char
  | [] => []
  | [f] => f
  | f :: g :: r => f ++ c :: joinWith c (g :: r)

/-- blocks / lines joined by a separator string -/
def joinStr (sep : List Char) : List (List Char) → List Char
  | [] => []
  | [f] => f
  | f :: g :: r => f ++ sep ++ joinStr sep (g :: r)

theorem joinWith_cons_cons (c : Char) (f g : List Char) (r : List (List Char)) :
    joinWith c (f :: g :: r) = f ++ c :: joinWith c (g :: r) := rfl

/-! ### `split(char)` -/

theorem splitOnChar_ne_nil (c : Char) (s : List Char) : splitOnChar c s ≠ [] := by
  induction s with
  | nil => simp [splitOnChar]
  | cons x xs ih =>
    unfold splitOnChar
    split
    · simp
    · cases h : splitOnChar c xs with
      | nil => exact absurd h ih
      | cons a b => simp [consHead]

theorem splitOnChar_noSep (c : Char) (f : List Char) (h : c ∉ f) : splitOnChar c f = [f] := by
  induction f with
  | nil => rfl
  | cons x xs ih =>
    have hx : x ≠ c := fun e => h (by simp [e])
    have hxs : c ∉ xs := fun e => h (by simp [e])
    simp [splitOnChar, hx, ih hxs, consHead]

theorem splitOnChar_append (c : Char) (f rest : List Char) (h : c ∉ f) :
    splitOnChar c (f ++ c :: rest) = f :: splitOnChar c rest := by
  induction f with
  | nil => simp [splitOnChar]
  | cons x xs ih =>
    have hx : x ≠ c := fun e => h (by simp [e])
    have hxs : c ∉ xs := fun e => h (by simp [e])
    simp [splitOnChar, hx, ih hxs, consHead]

/-- `split(c)` inverts joining with `c` when no field contains `c` -/
theorem splitOnChar_joinWith (c : Char) (fields : List (List Char)) (hne : fields ≠ [])
    (h : ∀ f ∈ fields, c ∉ f) : splitOnChar c (joinWith c fields) = fields := by
  induction fields with
  | nil => exact absurd rfl hne
  | cons f r ih =>
    cases r with
    | nil => simpa [joinWith] using splitOnChar_noSep c f (h f (by simp))
    | cons g r' =>
      rw [joinWith_cons_cons, splitOnChar_append c f _ (h f (by simp))]
      rw [ih (by simp) (fun x hx => h x (by simp [hx]))]

/-! ### `split_once` -/

theorem splitOnce_append (c : Char) (a b : List Char) (h : c ∉ a) :
    splitOnce c (a ++ c :: b) = some (a, b) := by
  induction a with
  | nil => simp [splitOnce]
  | cons x xs ih =>
    have hx : x ≠ c := fun e => h (by simp [e])
    have hxs : c ∉ xs := fun e => h (by simp [e])
    simp [splitOnce, hx, ih hxs]

theorem splitOnce_none (c : Char) (a : List Char) (h : c ∉ a) : splitOnce c a = none := by
  induction a with
  | nil => rfl
  | cons x xs ih =>
    have hx : x ≠ c := fun e => h (by simp [e])
    have hxs : c ∉ xs := fun e => h (by simp [e])
    simp [splitOnce, hx, ih hxs]

theorem stripPrefix_append (p s : List Char) : stripPrefix p (p ++ s) = some s := by
  induction p with
  | nil => cases s <;> rfl
  | cons x xs ih => simp [stripPrefix, ih]

theorem startsWith_append (p s : List Char) : startsWith p (p ++ s) = true := by
  induction p with
  | nil => cases s <;> rfl
  | cons x xs ih => simp [startsWith, ih]

/-- `split_once(": ")` finds the first `": "`: a key without `:` is split off exactly, whatever the
value contains (further `": "` included) -/
theorem splitOnceStr_colonSp (k v : List Char) (h : ':' ∉ k) :
    splitOnceStr colonSp (k ++ colonSp ++ v) = some (k, v) := by
  induction k with
  | nil => simp [splitOnceStr, colonSp, stripPrefix]
  | cons x xs ih =>
    have hx : ¬ (':' = x) := fun e => h (by simp [← e])
    have hxs : ':' ∉ xs := fun e => h (by simp [e])
    have := ih hxs
    simp only [List.cons_append, List.append_assoc, colonSp, List.nil_append] at this ⊢
    simp [splitOnceStr, stripPrefix, hx, this]

/-! ### `splitn`, tails of extra columns -/

/-- what may follow the columns a parser looks at: nothing, or a separator and any text -/
def IsTail (c : Char) (tail : List Char) : Prop := tail = [] ∨ ∃ t, tail = c :: t

theorem splitOnChar_tail (c : Char) (f tail : List Char) (h : c ∉ f) (ht : IsTail c tail) :
    ∃ rest, splitOnChar c (f ++ tail) = f :: rest := by
  rcases ht with rfl | ⟨t, rfl⟩
  · exact ⟨[], by simpa using splitOnChar_noSep c f h⟩
  · exact ⟨_, splitOnChar_append c f t h⟩

theorem splitN_noSep (c : Char) (n : Nat) (f : List Char) (h : c ∉ f) : splitN c (n + 1) f = [f] := by
  cases n with
  | zero => cases f <;> rfl
  | succ n =>
    induction f with
    | nil => rfl
    | cons x xs ih =>
      have hx : x ≠ c := fun e => h (by simp [e])
      have hxs : c ∉ xs := fun e => h (by simp [e])
      simp [splitN, hx, ih hxs, consHead]

theorem splitN_append (c : Char) (n : Nat) (f rest : List Char) (h : c ∉ f) :
    splitN c (n + 2) (f ++ c :: rest) = f :: splitN c (n + 1) rest := by
  induction f with
  | nil => simp [splitN]
  | cons x xs ih =>
    have hx : x ≠ c := fun e => h (by simp [e])
    have hxs : c ∉ xs := fun e => h (by simp [e])
    simp [splitN, hx, ih hxs, consHead]

theorem splitN_tail (c : Char) (n : Nat) (f tail : List Char) (h : c ∉ f) (ht : IsTail c tail) :
    ∃ rest, splitN c (n + 2) (f ++ tail) = f :: rest := by
  rcases ht with rfl | ⟨t, rfl⟩
  · exact ⟨[], by simpa using splitN_noSep c (n + 1) f h⟩
  · exact ⟨_, splitN_append c n f t h⟩

/-! ### `trim` -/

/-- the text ends in a character that is not white space -/
def EndsNonWs (s : List Char) : Prop := ∃ c, s.getLast? = some c ∧ isWs c = false

theorem trimEnd_cons_of_ne_nil (c : Char) (s : List Char) (h : trimEnd s ≠ []) :
    trimEnd (c :: s) = c :: trimEnd s := by
  cases hs : trimEnd s with
  | nil => exact absurd hs h
  | cons r rs => simp [trimEnd, hs]

theorem trimEnd_append (a b : List Char) (h : EndsNonWs a) : trimEnd (a ++ b) = a ++ trimEnd b := by
  induction a with
  | nil => obtain ⟨c, hc, _⟩ := h; simp at hc
  | cons x xs ih =>
    cases xs with
    | nil =>
      obtain ⟨c, hc, hw⟩ := h
      simp at hc; subst hc
      cases hb : trimEnd b with
      | nil => simp [trimEnd, hb, hw]
      | cons r rs => simp [trimEnd, hb]
    | cons y ys =>
      have h' : EndsNonWs (y :: ys) := by
        obtain ⟨c, hc, hw⟩ := h
        exact ⟨c, by simpa [List.getLast?_cons_cons] using hc, hw⟩
      have e := ih h'
      have hne : trimEnd (y :: ys ++ b) ≠ [] := by rw [e]; simp
      show trimEnd (x :: (y :: ys ++ b)) = _
      rw [trimEnd_cons_of_ne_nil _ _ hne, e]; rfl

/-- after `trim_end`, a tail of extra columns is still a tail of extra columns -/
theorem trimEnd_tail (tail : List Char) (ht : IsTail '\t' tail) : IsTail '\t' (trimEnd tail) := by
  rcases ht with rfl | ⟨t, rfl⟩
  · left; rfl
  · cases h : trimEnd t with
    | nil => left; simp [trimEnd, h, isWs]
    | cons r rs => right; exact ⟨r :: rs, by simp [trimEnd, h]⟩

theorem trimStart_of_head (c : Char) (s : List Char) (h : isWs c = false) : trimStart (c :: s) = c :: s := by
  simp [trimStart, h]

theorem EndsNonWs_append (a b : List Char) (h : EndsNonWs b) : EndsNonWs (a ++ b) := by
  obtain ⟨c, hc, hw⟩ := h
  refine ⟨c, ?_, hw⟩
  rw [List.getLast?_append, hc]; rfl

theorem EndsNonWs_cons (x : Char) (b : List Char) (h : EndsNonWs b) : EndsNonWs (x :: b) :=
  EndsNonWs_append [x] b h

/-! ### numbers -/

theorem digitVal_none_ne (k : Nat) (c : Char) (hc : TermId.digitVal c = none) : TermId.digitChar k ≠ c := by
  intro e
  have := TermId.digitVal_digitChar k
  rw [e, hc] at this
  exact absurd this (by simp)

/-- no character without a digit value occurs in a decimal rendering -/
theorem not_mem_decimal (n : Nat) (c : Char) (hc : TermId.digitVal c = none) : c ∉ TermId.decimal n := by
  intro h
  obtain ⟨k, hk⟩ := TermId.decimal_digits n c h
  exact digitVal_none_ne k c hc hk.symm

theorem not_mem_render (n : Nat) (c : Char) (hc : TermId.digitVal c = none)
    (h1 : c ≠ 'H') (h2 : c ≠ 'P') (h3 : c ≠ ':') : c ∉ TermId.render n := by
  intro h
  simp only [TermId.render, List.cons_append, List.nil_append, List.mem_cons, List.mem_append,
    List.mem_replicate] at h
  rcases h with h | h | h | h | h
  · exact h1 h
  · exact h2 h
  · exact h3 h
  · rw [h.2] at hc; exact absurd hc (by decide)
  · exact not_mem_decimal n c hc h

theorem isWs_digitChar (k : Nat) : isWs (TermId.digitChar k) = false := by
  have h : k % 10 < 10 := Nat.mod_lt _ (by decide)
  unfold TermId.digitChar
  generalize k % 10 = m at h ⊢
  match m, h with
  | 0, _ => decide
  | 1, _ => decide
  | 2, _ => decide
  | 3, _ => decide
  | 4, _ => decide
  | 5, _ => decide
  | 6, _ => decide
  | 7, _ => decide
  | 8, _ => decide
  | 9, _ => decide

theorem decimal_getLast (n : Nat) : (TermId.decimal n).getLast? = some (TermId.digitChar n) := by
  unfold TermId.decimal
  rw [List.getLast?_reverse]
  unfold TermId.digitsRev
  split <;> rfl

theorem EndsNonWs_decimal (n : Nat) : EndsNonWs (TermId.decimal n) :=
  ⟨_, decimal_getLast n, isWs_digitChar n⟩

theorem EndsNonWs_render (n : Nat) : EndsNonWs (TermId.render n) := by
  unfold TermId.render
  exact EndsNonWs_append _ _ (EndsNonWs_decimal n)

theorem stripPlus_decimal (n : Nat) : TermId.stripPlus (TermId.decimal n) = TermId.decimal n := by
  unfold TermId.stripPlus
  split
  · rename_i r hr
    have : '+' ∈ TermId.decimal n := by rw [hr]; simp
    exact absurd this (not_mem_decimal n '+' (by decide))
  · rfl

/-- `"<n>".parse::<u32>()` -/
theorem parseU32_decimal (n : Nat) (h : n < 4294967296) : TermId.parseU32 (TermId.decimal n) = some n := by
  unfold TermId.parseU32 TermId.parseDigits
  rw [stripPlus_decimal]
  simp [TermId.decimal_ne_nil, TermId.digitsVal_decimal, h]

/-- `HpoTermId::try_from(&id.to_string())` (the statement of `C20_roundtrip`) -/
theorem parse_render (n : Nat) (h : n < 4294967296) : TermId.parse (TermId.render n) = some n := by
  unfold TermId.parse
  have hlen : ¬ TermId.byteLen (TermId.render n) < 4 := by
    unfold TermId.render
    rw [TermId.byteLen_append, TermId.byteLen_append]
    have h3 : TermId.byteLen ['H', 'P', ':'] = 3 := by decide
    have := TermId.byteLen_pos_of_ne_nil _ (TermId.decimal_ne_nil n)
    omega
  rw [if_neg hlen]
  have hdrop : TermId.dropBytes 3 (TermId.render n) =
      some (List.replicate (7 - (TermId.decimal n).length) '0' ++ TermId.decimal n) := by
    have e1 : Char.utf8Size 'H' = 1 := by decide
    have e2 : Char.utf8Size 'P' = 1 := by decide
    have e3 : Char.utf8Size ':' = 1 := by decide
    simp only [TermId.render, List.cons_append, List.nil_append, TermId.dropBytes, e1, e2, e3]
    cases (List.replicate (7 - (TermId.decimal n).length) '0' ++ TermId.decimal n) <;> simp [TermId.dropBytes]
  rw [hdrop]
  simp only [Option.bind_some]
  have hval : TermId.digitsVal (List.replicate (7 - (TermId.decimal n).length) '0' ++ TermId.decimal n) 0 = some n := by
    rw [TermId.digitsVal_zeros, TermId.digitsVal_decimal]
  have hne : List.replicate (7 - (TermId.decimal n).length) '0' ++ TermId.decimal n ≠ [] := by
    simp [TermId.decimal_ne_nil]
  have hplus : '+' ∉ List.replicate (7 - (TermId.decimal n).length) '0' ++ TermId.decimal n := by
    intro hm
    rcases List.mem_append.1 hm with hm | hm
    · exact absurd (List.mem_replicate.1 hm).2 (by decide)
    · exact not_mem_decimal n '+' (by decide) hm
  generalize List.replicate (7 - (TermId.decimal n).length) '0' ++ TermId.decimal n = rest at hval hne hplus
  have hs : TermId.stripPlus rest = rest := by
    unfold TermId.stripPlus
    split
    · rename_i r; exact absurd (by simp) hplus
    · rfl
  simp only [TermId.parseU32, hs, TermId.parseDigits, List.isEmpty_iff, hne, ↓reduceIte, hval,
    Option.bind_some, h]

/-! ### renderers of rows (specification side) -/

/-- a `genes_to_phenotype.txt` row: gene id, symbol, term id, then `tail` (nothing or more columns) -/
def renderG2P (g : Nat) (sym : List Char) (h : Nat) (tail : List Char) : List Char :=
  TermId.decimal g ++ '\t' :: (sym ++ '\t' :: (TermId.render h ++ tail))

/-- a `phenotype_to_genes.txt` row: term id, term label, gene id, symbol, then `tail` -/
def renderP2G (g : Nat) (sym : List Char) (h : Nat) (label tail : List Char) : List Char :=
  TermId.render h ++ '\t' :: (label ++ '\t' :: (TermId.decimal g ++ '\t' :: (sym ++ tail)))

/-- a `phenotype.hpoa` row: `<db>:<id>`, disease name, qualifier, term id text, then `tail` -/
def renderDiseaseRow (db id name q hpo tail : List Char) : List Char :=
  db ++ ':' :: (id ++ '\t' :: (name ++ '\t' :: (q ++ '\t' :: (hpo ++ tail))))

theorem tab_digitVal : TermId.digitVal '\t' = none := by decide

theorem parseG2P_render (g h : Nat) (sym tail : List Char) (hg : g < 4294967296) (hh : h < 4294967296)
    (hs : '\t' ∉ sym) (ht : IsTail '\t' tail) :
    parseG2P (renderG2P g sym h tail) = .ok (g, sym, h) := by
  unfold parseG2P renderG2P
  rw [splitOnChar_append _ _ _ (not_mem_decimal g '\t' tab_digitVal), splitOnChar_append _ _ _ hs]
  obtain ⟨rest, e⟩ := splitOnChar_tail '\t' (TermId.render h) tail
    (not_mem_render h '\t' tab_digitVal (by decide) (by decide) (by decide)) ht
  rw [e]
  simp [parseGeneCols, parse_render h hh, parseU32_decimal g hg]

theorem parseP2G_render (g h : Nat) (sym label tail : List Char) (hg : g < 4294967296) (hh : h < 4294967296)
    (hs : '\t' ∉ sym) (hl : '\t' ∉ label) (ht : IsTail '\t' tail) :
    parseP2G (renderP2G g sym h label tail) = .ok (g, sym, h) := by
  unfold parseP2G renderP2G
  rw [splitOnChar_append _ _ _ (not_mem_render h '\t' tab_digitVal (by decide) (by decide) (by decide)),
    splitOnChar_append _ _ _ hl, splitOnChar_append _ _ _ (not_mem_decimal g '\t' tab_digitVal)]
  obtain ⟨rest, e⟩ := splitOnChar_tail '\t' sym tail hs ht
  rw [e]
  simp [parseGeneCols, parse_render h hh, parseU32_decimal g hg]

/-- `trim` leaves a row that starts with a non-blank character and whose fourth column ends in a
non-blank character intact up to that column; what follows stays a tail of extra columns -/
theorem trim_diseaseRow (db id name q hpo tail : List Char) (c0 : Char) (db' : List Char) (hdb : db = c0 :: db')
    (h0 : isWs c0 = false) (hend : EndsNonWs hpo) (ht : IsTail '\t' tail) :
    ∃ tail', IsTail '\t' tail' ∧
      trim (renderDiseaseRow db id name q hpo tail) = renderDiseaseRow db id name q hpo tail' := by
  refine ⟨trimEnd tail, trimEnd_tail tail ht, ?_⟩
  subst hdb
  unfold trim renderDiseaseRow
  rw [List.cons_append, trimStart_of_head _ _ h0]
  have key : ∀ pre : List Char, trimEnd (pre ++ (hpo ++ tail)) = pre ++ (hpo ++ trimEnd tail) := by
    intro pre
    rw [← List.append_assoc, trimEnd_append _ _ (EndsNonWs_append pre hpo hend), List.append_assoc]
  have := key (c0 :: db' ++ ':' :: (id ++ '\t' :: (name ++ '\t' :: (q ++ ['\t']))))
  simpa [List.append_assoc] using this

theorem parseDiseaseComponents_render (db id name q hpo tail : List Char) (c0 : Char) (db' : List Char)
    (hdb : db = c0 :: db') (h0 : isWs c0 = false) (hend : EndsNonWs hpo) (ht : IsTail '\t' tail)
    (hdbc : ':' ∉ db) (hdbt : '\t' ∉ db) (hid : '\t' ∉ id) (hname : '\t' ∉ name) (hq : '\t' ∉ q)
    (hhpo : '\t' ∉ hpo) :
    parseDiseaseComponents (renderDiseaseRow db id name q hpo tail) =
      if q = kNot then .ok none
      else match TermId.parse hpo with
        | none => .err .parseInt
        | some h => .ok (some (id, name, h)) := by
  obtain ⟨tail', ht', e⟩ := trim_diseaseRow db id name q hpo tail c0 db' hdb h0 hend ht
  unfold parseDiseaseComponents
  rw [e]
  unfold renderDiseaseRow
  have hcol1 : '\t' ∉ db ++ ':' :: id := by
    intro hm
    rcases List.mem_append.1 hm with hm | hm
    · exact hdbt hm
    · rcases List.mem_cons.1 hm with hm | hm
      · exact absurd hm (by decide)
      · exact hid hm
  have e1 : db ++ ':' :: (id ++ '\t' :: (name ++ '\t' :: (q ++ '\t' :: (hpo ++ tail')))) =
      (db ++ ':' :: id) ++ '\t' :: (name ++ '\t' :: (q ++ '\t' :: (hpo ++ tail'))) := by simp
  rw [e1, splitN_append _ 3 _ _ hcol1, splitN_append _ 2 _ _ hname, splitN_append _ 1 _ _ hq]
  obtain ⟨rest, e2⟩ := splitN_tail '\t' 0 hpo tail' hhpo ht'
  rw [e2]
  simp only [splitOnce_append ':' db id hdbc]
  by_cases hn : q = kNot
  · simp [hn]
  · simp only [hn, if_false]
    cases TermId.parse hpo <;> rfl

end Text
end Hpo
