import HpoModel.Matrix
/-! Index laws of the matrix iterators (`HpoModel/Matrix.lean`), for any element type and any
shape `r × c` (core Lean only). -/
namespace Hpo
namespace Matrix

variable {F : Type}

/-! ### rows -/

/-- the row loop started at row `i` yields the consecutive slices `data[i'*c .. i'*c + c)` -/
theorem rowsGo_eq (r c : Nat) (data : List F) (hlen : data.length = r * c) (hc : 0 < c) :
    ∀ (n i fuel : Nat), i + n = r → n < fuel →
      rowsGo ⟨r, c, data⟩ fuel (i * c) =
        some ((List.range' i n).map fun i' => (data.drop (i' * c)).take c) := by
  intro n
  induction n with
  | zero =>
    intro i fuel hi hf
    obtain ⟨f, rfl⟩ : ∃ f, fuel = f + 1 := ⟨fuel - 1, by omega⟩
    have : i = r := by omega
    subst this
    simp [rowsGo]
  | succ n ih =>
    intro i fuel hi hf
    obtain ⟨f, rfl⟩ : ∃ f, fuel = f + 1 := ⟨fuel - 1, by omega⟩
    have hir : i < r := by omega
    have h1 : i * c < r * c := Nat.mul_lt_mul_of_pos_right hir hc
    have h2 : i * c + c ≤ data.length := by
      rw [hlen]
      have : (i + 1) * c ≤ r * c := Nat.mul_le_mul_right c hir
      rw [Nat.add_mul, Nat.one_mul] at this
      exact this
    have h3 : i * c + c = (i + 1) * c := by rw [Nat.add_mul, Nat.one_mul]
    have := ih (i + 1) f (by omega) (by omega)
    simp only [rowsGo]
    rw [if_neg (by simpa using h1), if_neg (by simpa using h2)]
    rw [h3, this]
    simp [List.range'_succ]

theorem rowList_eq (r c : Nat) (data : List F) (hlen : data.length = r * c) (hc : 0 < c) :
    rowList ⟨r, c, data⟩ = some ((List.range r).map fun i => (data.drop (i * c)).take c) := by
  have := rowsGo_eq r c data hlen hc r 0 (r * c + 1) (by omega) (by
    have : r ≤ r * c := Nat.le_mul_of_pos_right r hc
    omega)
  simp only [Nat.zero_mul] at this
  simp only [rowList, this, List.range_eq_range']

theorem rowList_zero_cols (r : Nat) (data : List F) : rowList ⟨r, 0, data⟩ = some [] := by
  simp [rowList, rowsGo]

theorem slice_getElem? (data : List F) (k c j : Nat) (hj : j < c) :
    ((data.drop k).take c)[j]? = data[k + j]? := by
  rw [List.getElem?_take, if_pos hj, List.getElem?_drop]

/-! ### columns -/

/-- `skip(k).step_by(c)`: element `i` is element `k + i*c` of the underlying list -/
theorem stepGo_getElem? (c : Nat) (hc : 0 < c) :
    ∀ (l : List F) (k i : Nat), (stepGo c k l)[i]? = l[k + i * c]? := by
  intro l
  induction l with
  | nil => intro k i; simp [stepGo]
  | cons x xs ih =>
    intro k i
    cases k with
    | zero =>
      cases i with
      | zero => simp [stepGo]
      | succ i =>
        simp only [stepGo, List.getElem?_cons_succ, ih]
        have : 0 + (i + 1) * c = (c - 1 + i * c) + 1 := by
          rw [Nat.add_mul, Nat.one_mul]; omega
        rw [this, List.getElem?_cons_succ]
    | succ k =>
      simp only [stepGo, ih]
      have : k + 1 + i * c = (k + i * c) + 1 := by omega
      rw [this, List.getElem?_cons_succ]

theorem colsGo_eq (m : Matrix F) : ∀ (n j : Nat),
    colsGo m n j = (List.range' j n).map fun j' => stepGo m.cols j' m.data := by
  intro n
  induction n with
  | zero => intro j; simp [colsGo]
  | succ n ih => intro j; simp [colsGo, ih, List.range'_succ]

theorem colList_eq (m : Matrix F) :
    colList m = (List.range m.cols).map fun j => stepGo m.cols j m.data := by
  simp [colList, colsGo_eq, List.range_eq_range']

theorem isSome_getElem?_iff (l : List F) (i : Nat) : (l[i]?).isSome = true ↔ i < l.length := by
  rcases Nat.lt_or_ge i l.length with h | h
  · simp [h]
  · simp [List.getElem?_eq_none h]; omega

/-- a list whose `i`-th element exists exactly for `i < n` has length `n` -/
theorem length_of_getElem?_isSome (l : List F) (n : Nat)
    (h : ∀ i, (l[i]?).isSome = true ↔ i < n) : l.length = n := by
  have h1 : ¬ (l.length < n) := by
    intro hlt
    have := (h l.length).2 hlt
    simp at this
  have h2 : ¬ (n < l.length) := by
    intro hlt
    have := (h n).1 (by simp [List.getElem?_eq_getElem hlt])
    omega
  omega

end Matrix
end Hpo
