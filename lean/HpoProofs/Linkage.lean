import HpoModel.Linkage
import Mathlib.Data.Finset.Card
import Mathlib.Algebra.BigOperators.Group.Finset.Basic
import Mathlib.Order.Interval.Finset.Nat
import Mathlib.Data.List.Nodup
import Mathlib.Tactic.Linarith
/-!
Helper lemmas for C17: the distance matrix as a keyed list, liveness of `sets` entries, the
relation `Step` between the states before and after one merge (shared by `arithmetic_cluster` and
`cluster_set_unions`), and the invariant carried through the loop.
-/
set_option linter.unusedSimpArgs false
set_option linter.unusedVariables false
namespace Hpo
namespace Linkage
variable {F : Type}

/-! ### distance matrix -/

def keysOf (dm : DM F) : List (Nat × Nat) := dm.map (·.1)

theorem mem_keys_of_mem {dm : DM F} {e : (Nat × Nat) × F} (h : e ∈ dm) : e.1 ∈ keysOf dm :=
  List.mem_map.2 ⟨e, h, rfl⟩

theorem dmGet_isSome_iff (dm : DM F) (k : Nat × Nat) : (dmGet dm k).isSome ↔ k ∈ keysOf dm := by
  fun_induction dmGet dm k <;> grind [keysOf]

theorem dmGet_mem (dm : DM F) (k : Nat × Nat) (v : F) (h : dmGet dm k = some v) : (k, v) ∈ dm := by
  fun_induction dmGet dm k <;> grind

theorem dmGet_of_mem (dm : DM F) (hn : (keysOf dm).Nodup) (k : Nat × Nat) (v : F) (h : (k, v) ∈ dm) :
    dmGet dm k = some v := by
  induction dm with
  | nil => cases h
  | cons e rest ih =>
    obtain ⟨k', v'⟩ := e
    simp only [keysOf, List.map_cons, List.nodup_cons] at hn
    rcases List.mem_cons.1 h with heq | hmem
    · cases heq; simp [dmGet]
    · have hne : k' ≠ k := by
        intro he; subst he
        exact hn.1 (List.mem_map.2 ⟨(k', v), hmem, rfl⟩)
      simp only [dmGet, hne, if_false]
      exact ih hn.2 hmem

theorem keys_dmInsert (dm : DM F) (k : Nat × Nat) (v : F) :
    keysOf (dmInsert dm k v) = if k ∈ keysOf dm then keysOf dm else keysOf dm ++ [k] := by
  fun_induction dmInsert dm k v <;> grind [keysOf]

theorem mem_keys_dmInsert (dm : DM F) (k : Nat × Nat) (v : F) (q : Nat × Nat) :
    q ∈ keysOf (dmInsert dm k v) ↔ q = k ∨ q ∈ keysOf dm := by
  rw [keys_dmInsert]; split <;> grind

theorem nodup_keys_dmInsert (dm : DM F) (k : Nat × Nat) (v : F) (h : (keysOf dm).Nodup) :
    (keysOf (dmInsert dm k v)).Nodup := by
  rw [keys_dmInsert]
  split
  · exact h
  · rename_i hk
    exact List.Nodup.append h (List.nodup_singleton k) (by simpa using hk)

theorem dmGet_dmInsert (dm : DM F) (k : Nat × Nat) (v : F) (q : Nat × Nat) :
    dmGet (dmInsert dm k v) q = if k = q then some v else dmGet dm q := by
  fun_induction dmInsert dm k v <;> grind [dmGet]

theorem mem_dmRetain (a b : Nat) (dm : DM F) (e : (Nat × Nat) × F) :
    e ∈ dmRetain a b dm ↔ e ∈ dm ∧ e.1.1 ≠ a ∧ e.1.1 ≠ b ∧ e.1.2 ≠ a ∧ e.1.2 ≠ b := by
  fun_induction dmRetain a b dm <;> grind

theorem mem_keys_dmRetain (a b : Nat) (dm : DM F) (q : Nat × Nat) :
    q ∈ keysOf (dmRetain a b dm) ↔ q ∈ keysOf dm ∧ q.1 ≠ a ∧ q.1 ≠ b ∧ q.2 ≠ a ∧ q.2 ≠ b := by
  fun_induction dmRetain a b dm <;> grind [keysOf]

theorem dmRetain_sublist (a b : Nat) (dm : DM F) : (dmRetain a b dm).Sublist dm := by
  fun_induction dmRetain a b dm <;> grind

theorem nodup_keys_dmRetain (a b : Nat) (dm : DM F) (h : (keysOf dm).Nodup) :
    (keysOf (dmRetain a b dm)).Nodup :=
  List.Nodup.sublist ((dmRetain_sublist a b dm).map _) h

theorem dmGet_dmRetain (a b : Nat) (dm : DM F) (q : Nat × Nat) :
    dmGet (dmRetain a b dm) q =
      if q.1 ≠ a ∧ q.1 ≠ b ∧ q.2 ≠ a ∧ q.2 ≠ b then dmGet dm q else none := by
  fun_induction dmRetain a b dm <;> grind [dmGet]

/-! ### closest pair -/

theorem closestGo_mem (lt : F → F → Bool) (best : (Nat × Nat) × F) (dm : DM F) :
    closestGo lt best dm = best ∨ closestGo lt best dm ∈ dm := by
  fun_induction closestGo lt best dm <;> grind

theorem closest_mem (lt : F → F → Bool) (dm : DM F) (e : (Nat × Nat) × F)
    (h : closest lt dm = some e) : e ∈ dm := by
  cases dm with
  | nil => simp [closest] at h
  | cons x rest =>
    simp only [closest, Option.some.injEq] at h
    have := closestGo_mem lt x rest
    grind

theorem closest_isSome (lt : F → F → Bool) (dm : DM F) (h : dm ≠ []) : (closest lt dm).isSome := by
  cases dm with
  | nil => exact absurd rfl h
  | cons x rest => simp [closest]

/-! ### liveness of `sets` entries -/

def isLive (sets : List (Option (List Nat))) (i : Nat) : Bool :=
  match sets[i]? with
  | some (some _) => true
  | _ => false

theorem isLive_lt {sets : List (Option (List Nat))} {i : Nat} (h : isLive sets i = true) :
    i < sets.length := by
  unfold isLive at h
  by_contra hc
  have : sets[i]? = none := List.getElem?_eq_none (by omega)
  simp [this] at h

theorem isLive_nil (i : Nat) : isLive [] i = false := by simp [isLive]

theorem isLive_cons_zero (x : Option (List Nat)) (r : List (Option (List Nat))) :
    isLive (x :: r) 0 = x.isSome := by
  cases x <;> simp [isLive]

theorem isLive_cons_succ (x : Option (List Nat)) (r : List (Option (List Nat))) (p : Nat) :
    isLive (x :: r) (p + 1) = isLive r p := by
  simp [isLive]

theorem length_takeTwo (sets : List (Option (List Nat))) (a b : Nat) :
    (takeTwo sets a b).length = sets.length := by
  simp [takeTwo]

theorem isLive_takeTwo (sets : List (Option (List Nat))) (a b i : Nat) :
    isLive (takeTwo sets a b) i = (isLive sets i && (i != a) && (i != b)) := by
  unfold isLive takeTwo
  by_cases hb : b = i
  · subst hb
    by_cases hl : b < sets.length
    · simp [List.getElem?_set, hl]
    · have : sets[b]? = none := List.getElem?_eq_none (by omega)
      simp [List.getElem?_set, hl, this]
  · by_cases ha : a = i
    · subst ha
      by_cases hl : a < sets.length
      · simp [List.getElem?_set, hl, hb]
      · have : sets[a]? = none := List.getElem?_eq_none (by omega)
        simp [List.getElem?_set, hl, this, hb]
    · have h1 : (i != a) = true := by simp; omega
      have h2 : (i != b) = true := by simp; omega
      simp [List.getElem?_set, ha, hb, h1, h2]

theorem isLive_append (l : List (Option (List Nat))) (x : Option (List Nat)) (i : Nat) :
    isLive (l ++ [x]) i = (isLive l i || (i == l.length && x.isSome)) := by
  unfold isLive
  by_cases h : i < l.length
  · have : (i == l.length) = false := by simp; omega
    simp [List.getElem?_append_left h, this]
  · by_cases h2 : i = l.length
    · subst h2
      have : l[l.length]? = none := List.getElem?_eq_none (by omega)
      cases x <;> simp [this]
    · have h3 : (l ++ [x])[i]? = none := List.getElem?_eq_none (by simp; omega)
      have h4 : l[i]? = none := List.getElem?_eq_none (by omega)
      have : (i == l.length) = false := by simp; omega
      simp [h3, h4, this]

theorem isLive_join {sets : List (Option (List Nat))} {a : Nat} (h : isLive sets a = true) :
    ((sets[a]?).join).isSome = true := by
  unfold isLive at h
  split at h
  · rename_i x hx; simp [hx]
  · cases h

/-! ### the row loops -/

/-- `arithmetic_cluster`'s inner loop: it does not panic when both old distances of every live
index exist, and adds exactly the keys `(idx, new)` of the live indices other than `a`, `b` -/
theorem arithRow_spec (comb : F → F → F) (a b new : Nat) (rest : List (Option (List Nat)))
    (idx : Nat) (dm : DM F)
    (h : ∀ p, isLive rest p = true → idx + p ≠ a → idx + p ≠ b →
      keyOf (idx + p) a ∈ keysOf dm ∧ keyOf (idx + p) b ∈ keysOf dm) :
    ∃ dm', arithRow comb a b new rest idx dm = some dm' ∧
      (∀ q, q ∈ keysOf dm' ↔ q ∈ keysOf dm ∨
        ∃ p, isLive rest p = true ∧ idx + p ≠ a ∧ idx + p ≠ b ∧ q = (idx + p, new)) ∧
      ((keysOf dm).Nodup → (keysOf dm').Nodup) := by
  induction rest generalizing idx dm with
  | nil =>
    refine ⟨dm, by simp [arithRow], ?_, id⟩
    intro q; simp [isLive_nil]
  | cons s r ih =>
    have htail : ∀ dm1 : DM F, (∀ q, q ∈ keysOf dm → q ∈ keysOf dm1) →
        ∀ p, isLive r p = true → idx + 1 + p ≠ a → idx + 1 + p ≠ b →
          keyOf (idx + 1 + p) a ∈ keysOf dm1 ∧ keyOf (idx + 1 + p) b ∈ keysOf dm1 := by
      intro dm1 hsub p hp ha hb
      have e : idx + 1 + p = idx + (p + 1) := by omega
      rw [e] at ha hb ⊢
      have := h (p + 1) (by rw [isLive_cons_succ]; exact hp) ha hb
      exact ⟨hsub _ this.1, hsub _ this.2⟩
    -- the positions of the tail, re-indexed
    have hshift : ∀ (q : Nat × Nat),
        (∃ p, isLive r p = true ∧ idx + 1 + p ≠ a ∧ idx + 1 + p ≠ b ∧ q = (idx + 1 + p, new)) ↔
        (∃ p, isLive (s :: r) (p + 1) = true ∧ idx + (p + 1) ≠ a ∧ idx + (p + 1) ≠ b ∧
          q = (idx + (p + 1), new)) := by
      intro q
      constructor
      · rintro ⟨p, h1, h2, h3, h4⟩
        refine ⟨p, by rw [isLive_cons_succ]; exact h1, by omega, by omega, ?_⟩
        rw [h4]; congr 1; omega
      · rintro ⟨p, h1, h2, h3, h4⟩
        refine ⟨p, by rw [isLive_cons_succ] at h1; exact h1, by omega, by omega, ?_⟩
        rw [h4]; congr 1; omega
    have hsplit : ∀ (q : Nat × Nat) (P : Prop),
        (P ↔ (isLive (s :: r) 0 = true ∧ idx + 0 ≠ a ∧ idx + 0 ≠ b ∧ q = (idx + 0, new))) →
        ((P ∨ ∃ p, isLive (s :: r) (p + 1) = true ∧ idx + (p + 1) ≠ a ∧ idx + (p + 1) ≠ b ∧
            q = (idx + (p + 1), new)) ↔
          ∃ p, isLive (s :: r) p = true ∧ idx + p ≠ a ∧ idx + p ≠ b ∧ q = (idx + p, new)) := by
      intro q P hP
      constructor
      · rintro (h0 | ⟨p, hp⟩)
        · exact ⟨0, hP.1 h0⟩
        · exact ⟨p + 1, hp⟩
      · rintro ⟨p, hp⟩
        cases p with
        | zero => exact Or.inl (hP.2 hp)
        | succ p => exact Or.inr ⟨p, hp⟩
    by_cases hab : idx = a ∨ idx = b
    · -- `continue`
      obtain ⟨dm', h1, h2, h3⟩ := ih (idx + 1) dm (htail dm (fun _ hq => hq))
      refine ⟨dm', by simp [arithRow, hab, h1], ?_, h3⟩
      intro q
      rw [h2 q, hshift q]
      rw [← hsplit q False (by constructor <;> [exact False.elim; (rintro ⟨_, h2, h3, _⟩; omega)])]
      simp
    · cases s with
      | none =>
        obtain ⟨dm', h1, h2, h3⟩ := ih (idx + 1) dm (htail dm (fun _ hq => hq))
        refine ⟨dm', by simp [arithRow, hab, h1], ?_, h3⟩
        intro q
        rw [h2 q, hshift q]
        rw [← hsplit q False (by
          constructor
          · exact False.elim
          · rintro ⟨h1, _⟩; rw [isLive_cons_zero] at h1; cases h1)]
        simp
      | some x =>
        have h0 := h 0 (by rw [isLive_cons_zero]; rfl) (by omega) (by omega)
        simp only [Nat.add_zero] at h0
        obtain ⟨v1, hv1⟩ := Option.isSome_iff_exists.1 ((dmGet_isSome_iff dm _).2 h0.1)
        obtain ⟨v2, hv2⟩ := Option.isSome_iff_exists.1 ((dmGet_isSome_iff dm _).2 h0.2)
        obtain ⟨dm', h1, h2, h3⟩ := ih (idx + 1) (dmInsert dm (idx, new) (comb v1 v2))
          (htail _ (fun q hq => (mem_keys_dmInsert dm _ _ q).2 (Or.inr hq)))
        refine ⟨dm', by simp [arithRow, hab, hv1, hv2, h1], ?_,
          fun hn => h3 (nodup_keys_dmInsert dm _ _ hn)⟩
        intro q
        rw [h2 q, hshift q, mem_keys_dmInsert, or_assoc]
        rw [← hsplit q (q = (idx, new)) (by
          constructor
          · intro hq; exact ⟨by rw [isLive_cons_zero]; rfl, by omega, by omega, by simpa using hq⟩
          · rintro ⟨_, _, _, hq⟩; simpa using hq)]
        tauto

/-- number of `Some` entries -/
def someCount (l : List (Option (List Nat))) : Nat := l.countP (·.isSome)

theorem length_rowPairs {α : Type} (x : α) (l : List (Option α)) :
    (rowPairs x l).length = l.countP (·.isSome) := by
  fun_induction rowPairs x l <;> simp_all

theorem combosLast_append_some {α : Type} (l : List (Option α)) (m : α) :
    combosLast (l ++ [some m]) = rowPairs m (l ++ [some m]) := by
  simp [combosLast]

/-- `cluster_set_unions`'s inner loop: it does not panic when the callback returned at least one
distance per live entry, and adds exactly the keys `(idx, last)` of the live indices -/
theorem unionRow_spec (last : Nat) (rest : List (Option (List Nat))) (idx : Nat) (ds : List F)
    (dm : DM F) (h : someCount rest ≤ ds.length) :
    ∃ dm', unionRow last rest idx ds dm = some dm' ∧
      (∀ q, q ∈ keysOf dm' ↔ q ∈ keysOf dm ∨ ∃ p, isLive rest p = true ∧ q = (idx + p, last)) ∧
      ((keysOf dm).Nodup → (keysOf dm').Nodup) := by
  induction rest generalizing idx ds dm with
  | nil =>
    refine ⟨dm, by simp [unionRow], ?_, id⟩
    intro q; simp [isLive_nil]
  | cons s r ih =>
    have hshift : ∀ (q : Nat × Nat),
        (∃ p, isLive r p = true ∧ q = (idx + 1 + p, last)) ↔
        (∃ p, isLive (s :: r) (p + 1) = true ∧ q = (idx + (p + 1), last)) := by
      intro q
      constructor
      · rintro ⟨p, h1, h4⟩
        refine ⟨p, by rw [isLive_cons_succ]; exact h1, ?_⟩
        rw [h4]; congr 1; omega
      · rintro ⟨p, h1, h4⟩
        refine ⟨p, by rw [isLive_cons_succ] at h1; exact h1, ?_⟩
        rw [h4]; congr 1; omega
    have hsplit : ∀ (q : Nat × Nat) (P : Prop),
        (P ↔ (isLive (s :: r) 0 = true ∧ q = (idx + 0, last))) →
        ((P ∨ ∃ p, isLive (s :: r) (p + 1) = true ∧ q = (idx + (p + 1), last)) ↔
          ∃ p, isLive (s :: r) p = true ∧ q = (idx + p, last)) := by
      intro q P hP
      constructor
      · rintro (h0 | ⟨p, hp⟩)
        · exact ⟨0, hP.1 h0⟩
        · exact ⟨p + 1, hp⟩
      · rintro ⟨p, hp⟩
        cases p with
        | zero => exact Or.inl (hP.2 hp)
        | succ p => exact Or.inr ⟨p, hp⟩
    cases s with
    | none =>
      have hc : someCount r ≤ ds.length := by simpa [someCount] using h
      obtain ⟨dm', h1, h2, h3⟩ := ih (idx + 1) ds dm hc
      refine ⟨dm', by simp [unionRow, h1], ?_, h3⟩
      intro q
      rw [h2 q, hshift q]
      rw [← hsplit q False (by
        constructor
        · exact False.elim
        · rintro ⟨h1, _⟩; rw [isLive_cons_zero] at h1; cases h1)]
      simp
    | some x =>
      cases ds with
      | nil => simp [someCount] at h
      | cons v ds =>
        have hc : someCount r ≤ ds.length := by simpa [someCount] using h
        obtain ⟨dm', h1, h2, h3⟩ := ih (idx + 1) ds (dmInsert dm (idx, last) v) hc
        refine ⟨dm', by simp [unionRow, h1], ?_, fun hn => h3 (nodup_keys_dmInsert dm _ _ hn)⟩
        intro q
        rw [h2 q, hshift q, mem_keys_dmInsert, or_assoc]
        rw [← hsplit q (q = (idx, last)) (by
          constructor
          · intro hq; exact ⟨by rw [isLive_cons_zero]; rfl, by simpa using hq⟩
          · rintro ⟨_, hq⟩; simpa using hq)]
        tauto

/-! ### one merge -/

/-- the keys of the distance matrix are exactly the pairs `i < j` of live entries, each once -/
def KeysOK (s : State F) : Prop :=
  (keysOf s.dm).Nodup ∧
  ∀ q : Nat × Nat, q ∈ keysOf s.dm ↔
    (q.1 < q.2 ∧ isLive s.sets q.1 = true ∧ isLive s.sets q.2 = true)

/-- What one iteration of either loop does to the bookkeeping: the closest pair `(a, b)` is
recorded as a new cluster, `a` and `b` die, the new entry (index = old length) is live, and the
matrix loses every key touching `a` or `b` and gains one key per remaining live entry. -/
def Step (lt : F → F → Bool) (s s' : State F) : Prop :=
  ∃ a b d c, closest lt s.dm = some ((a, b), d) ∧ mkCluster s.n s.clusters a b d = some c ∧
    s'.clusters = s.clusters ++ [c] ∧ s'.n = s.n ∧ s'.sets.length = s.sets.length + 1 ∧
    (∀ i, isLive s'.sets i =
      ((isLive s.sets i && (i != a) && (i != b)) || (i == s.sets.length))) ∧
    (∀ q, q ∈ keysOf s'.dm ↔ ((q ∈ keysOf s.dm ∧ q.1 ≠ a ∧ q.1 ≠ b ∧ q.2 ≠ a ∧ q.2 ≠ b) ∨
        ∃ i, isLive s.sets i = true ∧ i ≠ a ∧ i ≠ b ∧ q = (i, s.sets.length))) ∧
    (keysOf s'.dm).Nodup

theorem mkCluster_isSome (n : Nat) (cl : List (Cluster F)) (a b : Nat) (d : F)
    (ha : a < n + cl.length) (hb : b < n + cl.length) : ∃ c, mkCluster n cl a b d = some c := by
  have h1 : ∃ x, sizeOf n cl a = some x := by
    unfold sizeOf
    split
    · exact ⟨1, rfl⟩
    · have : a - n < cl.length := by omega
      exact ⟨cl[a - n].size, by simp [List.getElem?_eq_getElem this]⟩
  have h2 : ∃ x, sizeOf n cl b = some x := by
    unfold sizeOf
    split
    · exact ⟨1, rfl⟩
    · have : b - n < cl.length := by omega
      exact ⟨cl[b - n].size, by simp [List.getElem?_eq_getElem this]⟩
  obtain ⟨x, hx⟩ := h1
  obtain ⟨y, hy⟩ := h2
  exact ⟨{ lhs := a, rhs := b, dist := d, size := x + y }, by simp [mkCluster, hx, hy]⟩

theorem keyOf_mem (s : State F) (hk : KeysOK s) (i c : Nat) (hi : isLive s.sets i = true)
    (hc : isLive s.sets c = true) (hne : i ≠ c) : keyOf i c ∈ keysOf s.dm := by
  unfold keyOf
  split
  · exact (hk.2 _).2 ⟨by simpa, hi, hc⟩
  · exact (hk.2 _).2 ⟨by simp; omega, hc, hi⟩

theorem arithStep_step (lt : F → F → Bool) (comb : F → F → F) (s : State F) (hk : KeysOK s)
    (hl : s.sets.length = s.n + s.clusters.length) (hne : s.dm ≠ []) :
    ∃ s', arithStep lt comb s = some s' ∧ Step lt s s' := by
  obtain ⟨e, he⟩ := Option.isSome_iff_exists.1 (closest_isSome lt s.dm hne)
  obtain ⟨⟨a, b⟩, d⟩ := e
  have hmem := closest_mem lt s.dm _ he
  obtain ⟨hab, hla, hlb⟩ := (hk.2 (a, b)).1 (mem_keys_of_mem hmem)
  simp only at hab hla hlb
  have ha := isLive_lt hla
  have hb := isLive_lt hlb
  obtain ⟨c, hc⟩ := mkCluster_isSome s.n s.clusters a b d (by omega) (by omega)
  obtain ⟨dm1, hr1, hr2, hr3⟩ := arithRow_spec comb a b s.sets.length (takeTwo s.sets a b) 0 s.dm
    (by
      intro p hp hpa hpb
      rw [isLive_takeTwo] at hp
      simp only [Nat.zero_add] at hpa hpb ⊢
      have hp' : isLive s.sets p = true := by
        cases h : isLive s.sets p <;> simp [h] at hp ⊢
      exact ⟨keyOf_mem s hk p a hp' hla hpa, keyOf_mem s hk p b hp' hlb hpb⟩)
  have hstep : arithStep lt comb s = some { s with
      sets := takeTwo s.sets a b ++ [(s.sets[a]?).join]
      dm := dmRetain a b dm1
      clusters := s.clusters ++ [c] } := by
    simp only [arithStep, he, hc, ha, hb, and_self, if_true, hr1]
  refine ⟨_, hstep, ?_⟩
  refine ⟨a, b, d, c, he, hc, rfl, rfl, by simp [length_takeTwo], ?_, ?_, ?_⟩
  · intro i
    simp only [isLive_append, isLive_takeTwo, length_takeTwo, isLive_join hla, Bool.and_true]
  · intro q
    simp only
    rw [mem_keys_dmRetain, hr2 q]
    constructor
    · rintro ⟨h1 | ⟨p, hp, hpa, hpb, hq⟩, h2⟩
      · exact Or.inl ⟨h1, h2⟩
      · rw [isLive_takeTwo] at hp
        simp only [Nat.zero_add] at hpa hpb hq
        refine Or.inr ⟨p, ?_, hpa, hpb, hq⟩
        cases h : isLive s.sets p <;> simp [h] at hp ⊢
    · rintro (⟨h1, h2⟩ | ⟨i, hi, hia, hib, hq⟩)
      · exact ⟨Or.inl h1, h2⟩
      · refine ⟨Or.inr ⟨i, ?_, by omega, by omega, by simpa using hq⟩, ?_⟩
        · rw [isLive_takeTwo]; simp [hi, hia, hib]
        · subst hq; simp only; omega
  · exact nodup_keys_dmRetain a b dm1 (hr3 hk.1)

theorem someCount_le_rowPairs (l : List (Option (List Nat))) (m : List Nat) :
    someCount l ≤ (rowPairs m (l ++ [some m])).length := by
  rw [length_rowPairs]; simp [someCount]

theorem unionStep_step (lt : F → F → Bool) (dist : List Nat → List Nat → F) (s : State F)
    (hk : KeysOK s) (hl : s.sets.length = s.n + s.clusters.length) (hne : s.dm ≠ []) :
    ∃ s', unionStep lt dist s = some s' ∧ Step lt s s' := by
  obtain ⟨e, he⟩ := Option.isSome_iff_exists.1 (closest_isSome lt s.dm hne)
  obtain ⟨⟨a, b⟩, d⟩ := e
  have hmem := closest_mem lt s.dm _ he
  obtain ⟨hab, hla, hlb⟩ := (hk.2 (a, b)).1 (mem_keys_of_mem hmem)
  simp only at hab hla hlb
  have ha := isLive_lt hla
  have hb := isLive_lt hlb
  obtain ⟨c, hc⟩ := mkCluster_isSome s.n s.clusters a b d (by omega) (by omega)
  obtain ⟨x, hx⟩ := Option.isSome_iff_exists.1 (isLive_join hla)
  obtain ⟨y, hy⟩ := Option.isSome_iff_exists.1 (isLive_join hlb)
  have hm : mergeSets s.sets a b = some (Group.insertAll x y) := by simp [mergeSets, hx, hy]
  obtain ⟨dm1, hr1, hr2, hr3⟩ := unionRow_spec s.sets.length (takeTwo s.sets a b) 0
    ((combosLast (takeTwo s.sets a b ++ [some (Group.insertAll x y)])).map fun p => dist p.1 p.2)
    (dmRetain a b s.dm)
    (by rw [List.length_map, combosLast_append_some]; exact someCount_le_rowPairs _ _)
  have hne' : a ≠ b := by omega
  have hstep : unionStep lt dist s = some { s with
      sets := takeTwo s.sets a b ++ [some (Group.insertAll x y)]
      dm := dm1
      clusters := s.clusters ++ [c]
      log := s.log ++ [combosLast (takeTwo s.sets a b ++ [some (Group.insertAll x y)])] } := by
    simp only [unionStep, he, hc, ha, hb, hne', ne_eq, not_false_eq_true, and_self,
      if_true, hm, hr1]
  refine ⟨_, hstep, ?_⟩
  refine ⟨a, b, d, c, he, hc, rfl, rfl, by simp [length_takeTwo], ?_, ?_, ?_⟩
  · intro i
    simp only [isLive_append, isLive_takeTwo, length_takeTwo, Option.isSome_some, Bool.and_true]
  · intro q
    simp only
    rw [hr2 q, mem_keys_dmRetain]
    constructor
    · rintro (h1 | ⟨p, hp, hq⟩)
      · exact Or.inl h1
      · rw [isLive_takeTwo] at hp
        simp only [Nat.zero_add] at hq
        have hp' : isLive s.sets p = true ∧ p ≠ a ∧ p ≠ b := by
          cases h : isLive s.sets p <;> simp [h] at hp ⊢
          exact hp
        exact Or.inr ⟨p, hp'.1, hp'.2.1, hp'.2.2, hq⟩
    · rintro (h1 | ⟨i, hi, hia, hib, hq⟩)
      · exact Or.inl h1
      · refine Or.inr ⟨i, ?_, by simpa using hq⟩
        rw [isLive_takeTwo]; simp [hi, hia, hib]
  · exact hr3 (nodup_keys_dmRetain a b s.dm hk.1)

/-! ### the invariant -/

def liveSet (sets : List (Option (List Nat))) : Finset Nat :=
  (Finset.range sets.length).filter (fun i => isLive sets i = true)

theorem mem_liveSet (sets : List (Option (List Nat))) (i : Nat) :
    i ∈ liveSet sets ↔ isLive sets i = true := by
  simp only [liveSet, Finset.mem_filter, Finset.mem_range]
  exact ⟨fun h => h.2, fun h => ⟨isLive_lt h, h⟩⟩

/-- merged indices in merge order: `lhs₀, rhs₀, lhs₁, rhs₁, …` -/
def mergedIdx : List (Cluster F) → List Nat
  | [] => []
  | c :: cs => c.lhs :: c.rhs :: mergedIdx cs

theorem mergedIdx_append (l : List (Cluster F)) (c : Cluster F) :
    mergedIdx (l ++ [c]) = mergedIdx l ++ [c.lhs, c.rhs] := by
  induction l with
  | nil => simp [mergedIdx]
  | cons x r ih => simp [mergedIdx, ih]

/-- size of the entry `idx` (1 for an input, the recorded size for a cluster) -/
def sz (n : Nat) (cl : List (Cluster F)) (idx : Nat) : Nat := (sizeOf n cl idx).getD 0

theorem mkCluster_fields {n : Nat} {cl : List (Cluster F)} {a b : Nat} {d : F} {c : Cluster F}
    (h : mkCluster n cl a b d = some c) :
    c.lhs = a ∧ c.rhs = b ∧ c.dist = d ∧ c.size = sz n cl a + sz n cl b := by
  unfold mkCluster at h
  split at h
  · rename_i sa sb h1 h2
    cases h
    simp [sz, h1, h2]
  · cases h

theorem sz_append (n : Nat) (cl : List (Cluster F)) (c : Cluster F) (i : Nat)
    (h : i < n + cl.length) : sz n (cl ++ [c]) i = sz n cl i := by
  unfold sz sizeOf
  split
  · rfl
  · have : i - n < cl.length := by omega
    rw [List.getElem?_append_left this]

theorem sz_new (n : Nat) (cl : List (Cluster F)) (c : Cluster F) :
    sz n (cl ++ [c]) (n + cl.length) = c.size := by
  unfold sz sizeOf
  have : ¬ n + cl.length < n := by omega
  simp [this]

structure Inv (s : State F) : Prop where
  len : s.sets.length = s.n + s.clusters.length
  keys : KeysOK s
  merged_nodup : (mergedIdx s.clusters).Nodup
  merged_iff : ∀ i, i ∈ mergedIdx s.clusters ↔ (i < s.sets.length ∧ isLive s.sets i = false)
  card : (liveSet s.sets).card + s.clusters.length = s.n
  nonempty : 0 < s.n → (liveSet s.sets).Nonempty
  lastlive : 0 < s.clusters.length → isLive s.sets (s.sets.length - 1) = true
  addr : ∀ k (h : k < s.clusters.length),
    s.clusters[k].lhs < s.clusters[k].rhs ∧ s.clusters[k].rhs < s.n + k
  sizes : ∀ k (h : k < s.clusters.length),
    mkCluster s.n (s.clusters.take k) s.clusters[k].lhs s.clusters[k].rhs s.clusters[k].dist
      = some s.clusters[k]
  sumsize : ∑ i ∈ liveSet s.sets, sz s.n s.clusters i = s.n

theorem liveSet_step {s s' : State F} {a b : Nat}
    (hlive : ∀ i, isLive s'.sets i =
      ((isLive s.sets i && (i != a) && (i != b)) || (i == s.sets.length))) :
    liveSet s'.sets = insert s.sets.length (((liveSet s.sets).erase a).erase b) := by
  ext i
  simp only [mem_liveSet, hlive i, Finset.mem_insert, Finset.mem_erase]
  cases h : isLive s.sets i <;> simp [h] <;> tauto

theorem Inv.step {lt : F → F → Bool} {s s' : State F} (hi : Inv s) (hs : Step lt s s') : Inv s' := by
  obtain ⟨a, b, d, c, hcl, hmk, hcs, hn, hlen, hlive, hkeys, hnd⟩ := hs
  obtain ⟨hca, hcb, hcd, hcsz⟩ := mkCluster_fields hmk
  have hmem := closest_mem lt s.dm _ hcl
  obtain ⟨hab, hla, hlb⟩ := (hi.keys.2 (a, b)).1 (mem_keys_of_mem hmem)
  simp only at hab hla hlb
  have ha := isLive_lt hla
  have hb := isLive_lt hlb
  have hLS := liveSet_step (s := s) (s' := s') hlive
  have haL : a ∈ liveSet s.sets := (mem_liveSet _ _).2 hla
  have hbL : b ∈ (liveSet s.sets).erase a :=
    Finset.mem_erase.2 ⟨by omega, (mem_liveSet _ _).2 hlb⟩
  have hnew : s.sets.length ∉ ((liveSet s.sets).erase a).erase b := by
    intro h
    have := (Finset.mem_erase.1 (Finset.mem_erase.1 h).2).2
    have := isLive_lt ((mem_liveSet _ _).1 this)
    omega
  have hlen' : s'.clusters.length = s.clusters.length + 1 := by rw [hcs]; simp
  refine ⟨?_, ⟨hnd, ?_⟩, ?_, ?_, ?_, ?_, ?_, ?_, ?_, ?_⟩
  · rw [hlen, hn, hlen', hi.len]; omega
  · -- keys = pairs of live entries
    intro q
    rw [hkeys q, hi.keys.2 q, hlive q.1, hlive q.2]
    constructor
    · rintro (⟨⟨h1, h2, h3⟩, h4, h5, h6, h7⟩ | ⟨i, hil, hia, hib, hq⟩)
      · refine ⟨h1, ?_, ?_⟩ <;> simp [h2, h3, h4, h5, h6, h7]
      · subst hq
        have := isLive_lt hil
        refine ⟨this, ?_, ?_⟩ <;> simp [hil, hia, hib]
    · rintro ⟨h1, h2, h3⟩
      by_cases hq2 : q.2 = s.sets.length
      · right
        have hq1 : q.1 ≠ s.sets.length := by omega
        have : (q.1 == s.sets.length) = false := by simpa using hq1
        simp only [this, Bool.or_false, Bool.and_eq_true, bne_iff_ne, ne_eq] at h2
        exact ⟨q.1, h2.1.1, h2.1.2, h2.2, by rw [← hq2]⟩
      · left
        have e2 : (q.2 == s.sets.length) = false := by simpa using hq2
        simp only [e2, Bool.or_false, Bool.and_eq_true, bne_iff_ne, ne_eq] at h3
        have hq1 : q.1 ≠ s.sets.length := by have := isLive_lt h3.1.1; omega
        have e1 : (q.1 == s.sets.length) = false := by simpa using hq1
        simp only [e1, Bool.or_false, Bool.and_eq_true, bne_iff_ne, ne_eq] at h2
        exact ⟨⟨h1, h2.1.1, h3.1.1⟩, h2.1.2, h2.2, h3.1.2, h3.2⟩
  · -- merged indices stay duplicate free
    rw [hcs, mergedIdx_append, hca, hcb]
    apply List.Nodup.append hi.merged_nodup
    · simp; omega
    · intro x hx1 hx2
      have := ((hi.merged_iff x).1 hx1).2
      simp only [List.mem_cons, List.mem_singleton, List.not_mem_nil, or_false] at hx2
      rcases hx2 with rfl | rfl
      · rw [hla] at this; cases this
      · rw [hlb] at this; cases this
  · intro i
    rw [hcs, mergedIdx_append, hca, hcb, List.mem_append, hi.merged_iff i, hlen, hlive i]
    simp only [List.mem_cons, List.mem_singleton, List.not_mem_nil, or_false]
    by_cases hil : i = s.sets.length
    · subst hil; simp; omega
    · have e : (i == s.sets.length) = false := by simpa using hil
      simp only [e, Bool.or_false]
      constructor
      · rintro (⟨h1, h2⟩ | rfl | rfl)
        · exact ⟨by omega, by simp [h2]⟩
        · exact ⟨by omega, by simp⟩
        · exact ⟨by omega, by simp⟩
      · rintro ⟨h1, h2⟩
        by_cases hia : i = a
        · exact Or.inr (Or.inl hia)
        · by_cases hib : i = b
          · exact Or.inr (Or.inr hib)
          · left
            refine ⟨by omega, ?_⟩
            cases h : isLive s.sets i <;> simp [h, hia, hib] at h2 ⊢
  · rw [hLS, Finset.card_insert_of_notMem hnew, Finset.card_erase_of_mem hbL,
      Finset.card_erase_of_mem haL, hlen', hn]
    have := hi.card
    have h2 : 2 ≤ (liveSet s.sets).card := by
      have : ({a, b} : Finset Nat) ⊆ liveSet s.sets := by
        intro x hx
        simp only [Finset.mem_insert, Finset.mem_singleton] at hx
        rcases hx with rfl | rfl
        · exact haL
        · exact (mem_liveSet _ _).2 hlb
      have hc := Finset.card_le_card this
      rw [Finset.card_pair (by omega)] at hc
      exact hc
    omega
  · intro _
    exact ⟨s.sets.length, by rw [hLS]; exact Finset.mem_insert_self _ _⟩
  · intro _
    rw [hlen, hlive]; simp
  · intro k hk
    rw [hlen'] at hk
    simp only [hcs, hn]
    by_cases hk' : k < s.clusters.length
    · rw [List.getElem_append_left hk']
      exact hi.addr k hk'
    · have : k = s.clusters.length := by omega
      subst this
      rw [List.getElem_append_right (by omega)]
      simp only [Nat.sub_self, List.getElem_cons_zero, hca, hcb]
      exact ⟨hab, by rw [← hi.len]; exact hb⟩
  · intro k hk
    rw [hlen'] at hk
    simp only [hcs, hn]
    by_cases hk' : k < s.clusters.length
    · rw [List.getElem_append_left hk', List.take_append_of_le_length (by omega)]
      exact hi.sizes k hk'
    · have : k = s.clusters.length := by omega
      subst this
      rw [List.getElem_append_right (by omega)]
      simp only [Nat.sub_self, List.getElem_cons_zero, List.take_left', hca, hcb, hcd]
      exact hmk
  · rw [hLS, Finset.sum_insert hnew, hn, hcs]
    have e0 : sz s.n (s.clusters ++ [c]) s.sets.length = c.size := by
      rw [hi.len]; exact sz_new _ _ _
    have e1 : ∑ x ∈ ((liveSet s.sets).erase a).erase b, sz s.n (s.clusters ++ [c]) x
        = ∑ x ∈ ((liveSet s.sets).erase a).erase b, sz s.n s.clusters x := by
      apply Finset.sum_congr rfl
      intro x hx
      have := (Finset.mem_erase.1 (Finset.mem_erase.1 hx).2).2
      have := isLive_lt ((mem_liveSet _ _).1 this)
      exact sz_append _ _ _ _ (by rw [← hi.len]; exact this)
    rw [e0, e1, hcsz]
    have h1 := Finset.add_sum_erase (liveSet s.sets) (sz s.n s.clusters) haL
    have h2 := Finset.add_sum_erase ((liveSet s.sets).erase a) (sz s.n s.clusters) hbL
    have := hi.sumsize
    omega

/-! ### the initial state -/

/-- all ordered pairs of a list in lexicographic order of positions -/
def pairsLex {α : Type} : List α → List (α × α)
  | [] => []
  | x :: r => r.map (fun y => (x, y)) ++ pairsLex r

theorem rowPairs_map_some {α : Type} (x : α) (r : List α) :
    rowPairs x (r.map some) = r.map (fun y => (x, y)) := by
  induction r with
  | nil => simp [rowPairs]
  | cons y r ih => simp [rowPairs, ih]

theorem combos_map_some {α : Type} (l : List α) : combos (l.map some) = pairsLex l := by
  induction l with
  | nil => simp [combos, pairsLex]
  | cons x r ih => simp [combos, pairsLex, ih, rowPairs_map_some]

theorem length_pairsLex_map {α β : Type} (f : α → β) (l : List α) :
    (pairsLex (l.map f)).length = (pairsLex l).length := by
  induction l with
  | nil => simp [pairsLex]
  | cons x r ih => simp [pairsLex, ih]

theorem length_pairsLex_of_length {α β : Type} (l : List α) (l' : List β) (h : l.length = l'.length) :
    (pairsLex l).length = (pairsLex l').length := by
  induction l generalizing l' with
  | nil => cases l' <;> simp_all [pairsLex]
  | cons x r ih =>
    cases l' with
    | nil => simp at h
    | cons y r' =>
      simp only [List.length_cons, Nat.add_right_cancel_iff] at h
      simp [pairsLex, ih r' h, h]

theorem mem_pairsLex_range' (s k : Nat) (q : Nat × Nat) :
    q ∈ pairsLex (List.range' s k) ↔ s ≤ q.1 ∧ q.1 < q.2 ∧ q.2 < s + k := by
  induction k generalizing s with
  | zero => simp [pairsLex]; omega
  | succ k ih =>
    rw [List.range'_succ, pairsLex, List.mem_append, ih (s + 1)]
    simp only [List.mem_map, List.mem_range'_1]
    constructor
    · rintro (⟨y, hy, rfl⟩ | h)
      · simp only; omega
      · omega
    · intro h
      by_cases h1 : q.1 = s
      · left; exact ⟨q.2, by omega, by rw [← h1]⟩
      · right; omega

theorem nodup_pairsLex_range' (s k : Nat) : (pairsLex (List.range' s k)).Nodup := by
  induction k generalizing s with
  | zero => simp [pairsLex]
  | succ k ih =>
    rw [List.range'_succ, pairsLex]
    apply List.Nodup.append
    · apply List.Nodup.map _ List.nodup_range'
      intro x y h; simpa using h
    · exact ih (s + 1)
    · intro q h1 h2
      obtain ⟨y, _, rfl⟩ := List.mem_map.1 h1
      have := (mem_pairsLex_range' (s + 1) k _).1 h2
      simp only at this; omega

theorem indexPairs_eq (n : Nat) : indexPairs n = pairsLex (List.range n) := by
  rw [indexPairs, combos_map_some]

theorem mem_indexPairs (n : Nat) (q : Nat × Nat) : q ∈ indexPairs n ↔ q.1 < q.2 ∧ q.2 < n := by
  rw [indexPairs_eq, List.range_eq_range', mem_pairsLex_range']; omega

theorem nodup_indexPairs (n : Nat) : (indexPairs n).Nodup := by
  rw [indexPairs_eq, List.range_eq_range']; exact nodup_pairsLex_range' 0 n

theorem zipInsert_keys (dm : DM F) (ks : List (Nat × Nat)) (vs : List F) (h : ks.length ≤ vs.length) :
    (∀ q, q ∈ keysOf (zipInsert dm ks vs) ↔ q ∈ keysOf dm ∨ q ∈ ks) ∧
    ((keysOf dm).Nodup → (keysOf (zipInsert dm ks vs)).Nodup) := by
  induction ks generalizing dm vs with
  | nil => simp [zipInsert]
  | cons k ks ih =>
    cases vs with
    | nil => simp at h
    | cons v vs =>
      have := ih (dmInsert dm k v) vs (by simpa using h)
      simp only [zipInsert]
      refine ⟨?_, fun hn => this.2 (nodup_keys_dmInsert dm k v hn)⟩
      intro q
      rw [this.1 q, mem_keys_dmInsert]
      simp only [List.mem_cons]
      tauto

theorem isLive_map_some (l : List (List Nat)) (i : Nat) :
    isLive (l.map some) i = decide (i < l.length) := by
  unfold isLive
  by_cases h : i < l.length
  · simp [h]
  · have : (l.map some)[i]? = none := List.getElem?_eq_none (by simp; omega)
    simp [this, h]

theorem inv_init (d : List Nat → List Nat → F) (members : List (List Nat)) : Inv (init d members) := by
  have hlive : ∀ i, isLive (init d members).sets i = decide (i < members.length) :=
    fun i => isLive_map_some members i
  have hLS : liveSet (init d members).sets = Finset.range members.length := by
    ext i; rw [mem_liveSet, hlive]; simp
  have hk := zipInsert_keys ([] : DM F) (indexPairs members.length)
    ((combos (members.map some)).map fun p => d p.1 p.2)
    (by
      rw [List.length_map, combos_map_some, indexPairs_eq]
      exact Nat.le_of_eq (length_pairsLex_of_length _ _ (by simp)))
  refine ⟨by simp [init], ⟨?_, ?_⟩, by simp [init, mergedIdx], ?_, ?_, ?_, ?_, ?_, ?_, ?_⟩
  · have := hk.2 (by simp [keysOf])
    simpa [init] using this
  · intro q
    have := hk.1 q
    simp only [keysOf, List.map_nil, List.not_mem_nil, false_or] at this
    rw [hlive, hlive]
    simp only [init, keysOf] at this ⊢
    rw [this, mem_indexPairs]
    simp only [decide_eq_true_eq]
    omega
  · intro i
    rw [hlive]
    simp [init, mergedIdx]
  · rw [hLS]; simp [init]
  · intro h
    rw [hLS]
    exact ⟨0, by simpa [init] using h⟩
  · intro h; simp [init] at h
  · intro k h; simp [init] at h
  · intro k h; simp [init] at h
  · rw [hLS]
    have : ∀ i ∈ Finset.range members.length, sz (init d members).n (init d members).clusters i = 1 := by
      intro i hi
      have := Finset.mem_range.1 hi
      simp [sz, sizeOf, init, this]
    rw [Finset.sum_congr rfl this]
    simp [init]

/-! ### the loop -/

theorem run_spec (lt : F → F → Bool) (step : State F → Option (State F))
    (hstep : ∀ s, Inv s → s.dm ≠ [] → ∃ s', step s = some s' ∧ Step lt s s')
    (hlog : ∀ s s', step s = some s' → ∃ l, s'.log = s.log ++ l)
    (fuel : Nat) (s : State F) (hi : Inv s) (hf : (liveSet s.sets).card < fuel) :
    ∃ sf, run step fuel s = some sf ∧ Inv sf ∧ sf.dm = [] ∧ sf.n = s.n ∧
      (∃ l, sf.log = s.log ++ l) ∧ (∃ l, sf.clusters = s.clusters ++ l) := by
  induction fuel generalizing s with
  | zero => omega
  | succ fuel ih =>
    by_cases he : s.dm = []
    · exact ⟨s, by simp [run, he], hi, he, rfl, ⟨[], by simp⟩, ⟨[], by simp⟩⟩
    · obtain ⟨s', hs', hst⟩ := hstep s hi he
      have hi' := hi.step hst
      have hn : s'.n = s.n := by obtain ⟨_, _, _, _, _, _, _, hn, _⟩ := hst; exact hn
      have hc : s'.clusters.length = s.clusters.length + 1 := by
        obtain ⟨_, _, _, c, _, _, hcs, _⟩ := hst; rw [hcs]; simp
      have hcard : (liveSet s'.sets).card < fuel := by
        have h1 := hi.card; have h2 := hi'.card; omega
      obtain ⟨sf, h1, h2, h3, h4, ⟨l1, h5⟩, ⟨l2, h6⟩⟩ := ih s' hi' hcard
      obtain ⟨l0, hl0⟩ := hlog s s' hs'
      obtain ⟨_, _, _, c, _, _, hcs, _⟩ := hst
      have hne : s.dm.isEmpty = false := by
        cases hd : s.dm with
        | nil => exact absurd hd he
        | cons _ _ => rfl
      refine ⟨sf, by simp [run, hne, hs', h1], h2, h3, by rw [h4, hn],
        ⟨l0 ++ l1, by rw [h5, hl0, List.append_assoc]⟩,
        ⟨[c] ++ l2, by rw [h6, hcs, List.append_assoc]⟩⟩

theorem arithStep_log (lt : F → F → Bool) (comb : F → F → F) (s s' : State F)
    (h : arithStep lt comb s = some s') : ∃ l, s'.log = s.log ++ l := by
  refine ⟨[], ?_⟩
  unfold arithStep at h
  split at h
  · cases h
  · split at h
    · cases h
    · split at h
      · split at h
        · cases h
        · cases h; simp
      · cases h

theorem unionStep_log (lt : F → F → Bool) (d : List Nat → List Nat → F) (s s' : State F)
    (h : unionStep lt d s = some s') : ∃ l, s'.log = s.log ++ l := by
  unfold unionStep at h
  split at h
  · cases h
  · split at h
    · cases h
    · split at h
      · split at h
        · cases h
        · split at h
          · cases h
          · cases h; exact ⟨_, rfl⟩
      · cases h

theorem stepOf_step (m : Method) (lt : F → F → Bool) (mean : F → F → F)
    (d : List Nat → List Nat → F) (s : State F) (hi : Inv s) (hne : s.dm ≠ []) :
    ∃ s', stepOf m lt mean d s = some s' ∧ Step lt s s' := by
  cases m
  · exact unionStep_step lt d s hi.keys hi.len hne
  · exact arithStep_step lt _ s hi.keys hi.len hne
  · exact arithStep_step lt _ s hi.keys hi.len hne
  · exact arithStep_step lt _ s hi.keys hi.len hne

theorem stepOf_log (m : Method) (lt : F → F → Bool) (mean : F → F → F)
    (d : List Nat → List Nat → F) (s s' : State F) (h : stepOf m lt mean d s = some s') :
    ∃ l, s'.log = s.log ++ l := by
  cases m
  · exact unionStep_log lt d s s' h
  · exact arithStep_log lt _ s s' h
  · exact arithStep_log lt _ s s' h
  · exact arithStep_log lt _ s s' h

/-- the clustering never panics and never runs out of fuel; its final state satisfies the
invariant with an empty distance matrix -/
theorem cluster_spec (m : Method) (lt : F → F → Bool) (mean : F → F → F)
    (d : List Nat → List Nat → F) (members : List (List Nat)) :
    ∃ sf, cluster m lt mean d members = some sf ∧ Inv sf ∧ sf.dm = [] ∧ sf.n = members.length ∧
      sf.log.head? = some (pairsLex members) := by
  have hi := inv_init d members
  have hcard : (liveSet (init d members).sets).card < members.length + 1 := by
    have := hi.card; simp only [init, List.length_nil, Nat.add_zero] at this ⊢; omega
  obtain ⟨sf, h1, h2, h3, h4, ⟨l, h5⟩, _⟩ := run_spec lt (stepOf m lt mean d)
    (fun s hs hne => stepOf_step m lt mean d s hs hne) (stepOf_log m lt mean d)
    (members.length + 1) (init d members) hi hcard
  refine ⟨sf, h1, h2, h3, by rw [h4]; rfl, ?_⟩
  rw [h5]; simp [init, combos_map_some]

/-! ### consequences for a final state -/

theorem final_card (s : State F) (hi : Inv s) (he : s.dm = []) : (liveSet s.sets).card ≤ 1 := by
  apply Finset.card_le_one.2
  intro a ha b hb
  by_contra hne
  have ha' := (mem_liveSet _ _).1 ha
  have hb' := (mem_liveSet _ _).1 hb
  have : ∀ q : Nat × Nat, ¬ (q.1 < q.2 ∧ isLive s.sets q.1 = true ∧ isLive s.sets q.2 = true) := by
    intro q hq
    have := (hi.keys.2 q).2 hq
    rw [he] at this; simp [keysOf] at this
  rcases Nat.lt_or_gt_of_ne hne with h | h
  · exact this (a, b) ⟨h, ha', hb'⟩
  · exact this (b, a) ⟨h, hb', ha'⟩

theorem final_count (s : State F) (hi : Inv s) (he : s.dm = []) :
    s.clusters.length = s.n - 1 := by
  have h1 := final_card s hi he
  have h2 := hi.card
  by_cases hn : 0 < s.n
  · have := Finset.card_pos.2 (hi.nonempty hn); omega
  · omega

/-- the single live entry of a final state with at least one merge is the last one -/
theorem final_live (s : State F) (hi : Inv s) (he : s.dm = []) (hm : 0 < s.clusters.length) (i : Nat) :
    isLive s.sets i = true ↔ i = s.sets.length - 1 := by
  have hl := hi.lastlive hm
  constructor
  · intro h
    have := Finset.card_le_one.1 (final_card s hi he) i ((mem_liveSet _ _).2 h) _
      ((mem_liveSet _ _).2 hl)
    exact this
  · rintro rfl; exact hl

theorem sz_take (n : Nat) (cl : List (Cluster F)) (k i : Nat) (h : i < n + k) :
    sz n (cl.take k) i = sz n cl i := by
  unfold sz sizeOf
  split
  · rfl
  · have : i - n < k := by omega
    rw [List.getElem?_take_of_lt this]

theorem indicies_eq (n : Nat) (cl : List (Cluster F)) :
    indicies n cl = (mergedIdx cl).filter (fun i => decide (i < n)) := by
  induction cl with
  | nil => simp [indicies, mergedIdx]
  | cons c cs ih =>
    simp only [indicies, mergedIdx, ih, List.filter_cons]
    by_cases h1 : c.lhs < n <;> by_cases h2 : c.rhs < n <;> simp [h1, h2]

/-- everything the property says about the bookkeeping of a final state with `n ≥ 2` inputs -/
theorem final_bookkeeping (s : State F) (hi : Inv s) (he : s.dm = []) (hn : 2 ≤ s.n) :
    (∀ i, i ∈ mergedIdx s.clusters ↔ i < 2 * s.n - 2) ∧ (mergedIdx s.clusters).Nodup ∧
    sz s.n s.clusters (2 * s.n - 2) = s.n := by
  have hc := final_count s hi he
  have hm : 0 < s.clusters.length := by omega
  have hlen : s.sets.length = 2 * s.n - 1 := by rw [hi.len, hc]; omega
  have hlive := final_live s hi he hm
  refine ⟨?_, hi.merged_nodup, ?_⟩
  · intro i
    rw [hi.merged_iff i]
    constructor
    · rintro ⟨h1, h2⟩
      have : i ≠ s.sets.length - 1 := by
        intro h; rw [(hlive i).2 h] at h2; cases h2
      omega
    · intro h
      refine ⟨by omega, ?_⟩
      cases hl : isLive s.sets i
      · rfl
      · have := (hlive i).1 hl; omega
  · have hLS : liveSet s.sets = {2 * s.n - 2} := by
      ext i
      rw [mem_liveSet, hlive i, Finset.mem_singleton, hlen]
      omega
    have := hi.sumsize
    rw [hLS, Finset.sum_singleton] at this
    exact this

/-! ### the state before every merge; the closest pair -/

/-- the states in which the loop found a non-empty matrix, i.e. `trace[k]` is the state right
before the `k`-th merge -/
def trace (step : State F → Option (State F)) : Nat → State F → List (State F)
  | 0, _ => []
  | fuel + 1, s =>
    if s.dm.isEmpty then []
    else
      match step s with
      | none => []
      | some s' => s :: trace step fuel s'

theorem trace_spec (lt : F → F → Bool) (step : State F → Option (State F))
    (hstep : ∀ s, Inv s → s.dm ≠ [] → ∃ s', step s = some s' ∧ Step lt s s')
    (hlog : ∀ s s', step s = some s' → ∃ l, s'.log = s.log ++ l)
    (fuel : Nat) (s sf : State F) (hi : Inv s) (hf : (liveSet s.sets).card < fuel)
    (hrun : run step fuel s = some sf) (k : Nat) (sk : State F)
    (hk : (trace step fuel s)[k]? = some sk) :
    Inv sk ∧ sk.n = s.n ∧ sk.clusters = sf.clusters.take (s.clusters.length + k) ∧
    ∃ c, sf.clusters[s.clusters.length + k]? = some c ∧
      closest lt sk.dm = some ((c.lhs, c.rhs), c.dist) := by
  induction fuel generalizing s k with
  | zero => omega
  | succ fuel ih =>
    by_cases he : s.dm = []
    · simp [trace, he] at hk
    · obtain ⟨s', hs', hst⟩ := hstep s hi he
      have hne : s.dm.isEmpty = false := by
        cases hd : s.dm with
        | nil => exact absurd hd he
        | cons _ _ => rfl
      have hi' := hi.step hst
      have hcard : (liveSet s'.sets).card < fuel := by
        have hc : s'.clusters.length = s.clusters.length + 1 := by
          obtain ⟨_, _, _, c, _, _, hcs, _⟩ := hst; rw [hcs]; simp
        have hn : s'.n = s.n := by obtain ⟨_, _, _, _, _, _, _, hn, _⟩ := hst; exact hn
        have h1 := hi.card; have h2 := hi'.card; omega
      have hrun' : run step fuel s' = some sf := by simpa [run, hne, hs'] using hrun
      obtain ⟨sf', r1, _, _, _, _, ⟨l2, r6⟩⟩ := run_spec lt step hstep hlog fuel s' hi' hcard
      rw [hrun'] at r1; cases r1
      have htr : trace step (fuel + 1) s = s :: trace step fuel s' := by simp [trace, hne, hs']
      obtain ⟨a, b, d, c, hcl, hmk, hcs, hn, _⟩ := hst
      obtain ⟨hca, hcb, hcd, _⟩ := mkCluster_fields hmk
      rw [htr] at hk
      cases k with
      | zero =>
        simp only [List.getElem?_cons_zero, Option.some.injEq] at hk
        subst hk
        refine ⟨hi, rfl, ?_, c, ?_, ?_⟩
        · rw [r6, hcs, List.append_assoc, Nat.add_zero, List.take_left' rfl]
        · rw [r6, hcs, List.append_assoc, Nat.add_zero]
          rw [List.getElem?_append_right (by omega)]; simp
        · rw [hca, hcb, hcd]; exact hcl
      | succ k =>
        simp only [List.getElem?_cons_succ] at hk
        have := ih s' hi' hcard hrun' k hk
        have e : s'.clusters.length + k = s.clusters.length + (k + 1) := by rw [hcs]; simp; omega
        rw [e, hn] at this
        exact this

theorem length_trace (lt : F → F → Bool) (step : State F → Option (State F))
    (hstep : ∀ s, Inv s → s.dm ≠ [] → ∃ s', step s = some s' ∧ Step lt s s')
    (hlog : ∀ s s', step s = some s' → ∃ l, s'.log = s.log ++ l)
    (fuel : Nat) (s sf : State F) (hi : Inv s) (hf : (liveSet s.sets).card < fuel)
    (hrun : run step fuel s = some sf) :
    s.clusters.length + (trace step fuel s).length = sf.clusters.length := by
  induction fuel generalizing s with
  | zero => omega
  | succ fuel ih =>
    by_cases he : s.dm = []
    · have : sf = s := by simpa [run, he] using hrun.symm
      subst this; simp [trace, he]
    · obtain ⟨s', hs', hst⟩ := hstep s hi he
      have hne : s.dm.isEmpty = false := by
        cases hd : s.dm with
        | nil => exact absurd hd he
        | cons _ _ => rfl
      have hi' := hi.step hst
      have hc : s'.clusters.length = s.clusters.length + 1 := by
        obtain ⟨_, _, _, c, _, _, hcs, _⟩ := hst; rw [hcs]; simp
      have hcard : (liveSet s'.sets).card < fuel := by
        have hn : s'.n = s.n := by obtain ⟨_, _, _, _, _, _, _, hn, _⟩ := hst; exact hn
        have h1 := hi.card; have h2 := hi'.card; omega
      have hrun' : run step fuel s' = some sf := by simpa [run, hne, hs'] using hrun
      have := ih s' hi' hcard hrun'
      simp only [trace, hne, hs', List.length_cons]
      have e : (if false = true then ([] : List (State F)) else s :: trace step fuel s').length
          = (trace step fuel s').length + 1 := by simp
      simp only [Bool.false_eq_true, if_false, List.length_cons] at e ⊢
      omega

theorem closestGo_min [LinearOrder F] (lt : F → F → Bool) (hlt : ∀ a b, lt a b = true ↔ a < b)
    (best : (Nat × Nat) × F) (dm : DM F) :
    (closestGo lt best dm).2 ≤ best.2 ∧ ∀ e ∈ dm, (closestGo lt best dm).2 ≤ e.2 := by
  induction dm generalizing best with
  | nil => simp [closestGo]
  | cons x rest ih =>
    simp only [closestGo]
    have := ih (if lt x.2 best.2 then x else best)
    by_cases h : lt x.2 best.2 = true
    · have hx := (hlt _ _).1 h
      simp only [h, if_true] at this ⊢
      refine ⟨le_trans this.1 (le_of_lt hx), ?_⟩
      intro e he
      rcases List.mem_cons.1 he with rfl | he
      · exact this.1
      · exact this.2 e he
    · have hx : ¬ x.2 < best.2 := fun hc => h ((hlt _ _).2 hc)
      simp only [h] at this ⊢
      refine ⟨this.1, ?_⟩
      intro e he
      rcases List.mem_cons.1 he with rfl | he
      · exact le_trans this.1 (not_lt.1 hx)
      · exact this.2 e he

/-- `closest_clusters` returns an entry of the matrix with the least distance -/
theorem closest_min [LinearOrder F] (lt : F → F → Bool) (hlt : ∀ a b, lt a b = true ↔ a < b)
    (dm : DM F) (e : (Nat × Nat) × F) (h : closest lt dm = some e) :
    e ∈ dm ∧ ∀ e' ∈ dm, e.2 ≤ e'.2 := by
  refine ⟨closest_mem lt dm e h, ?_⟩
  cases dm with
  | nil => simp [closest] at h
  | cons x rest =>
    simp only [closest, Option.some.injEq] at h
    subst h
    have := closestGo_min lt hlt x rest
    intro e' he'
    rcases List.mem_cons.1 he' with rfl | he'
    · exact this.1
    · exact this.2 e' he'

/-! ### distance update of `arithmetic_cluster` (values) -/

theorem keyOf_snd_lt (i c new : Nat) (hi : i < new) (hc : c < new) : (keyOf i c).2 ≠ new := by
  unfold keyOf; split <;> simp <;> omega

/-- values written by the inner loop of `arithmetic_cluster`: every other key keeps its value and
the key `(idx, new)` of a live index gets `comb` of its two old distances -/
theorem arithRow_vals (comb : F → F → F) (a b new : Nat) (ha : a < new) (hb : b < new)
    (rest : List (Option (List Nat))) (idx : Nat) (dm dm' : DM F)
    (hlen : idx + rest.length ≤ new)
    (h : arithRow comb a b new rest idx dm = some dm') :
    (∀ q : Nat × Nat, (q.2 ≠ new ∨ q.1 < idx) → dmGet dm' q = dmGet dm q) ∧
    (∀ p, isLive rest p = true → idx + p ≠ a → idx + p ≠ b →
      ∃ v1 v2, dmGet dm (keyOf (idx + p) a) = some v1 ∧ dmGet dm (keyOf (idx + p) b) = some v2 ∧
        dmGet dm' (idx + p, new) = some (comb v1 v2)) := by
  induction rest generalizing idx dm with
  | nil =>
    simp only [arithRow, Option.some.injEq] at h
    subst h
    exact ⟨fun _ _ => rfl, fun p hp => by simp [isLive_nil] at hp⟩
  | cons s r ih =>
    have hlen' : idx + 1 + r.length ≤ new := by simp at hlen; omega
    have tailcase : ∀ dm1 : DM F, arithRow comb a b new r (idx + 1) dm1 = some dm' →
        (∀ q : Nat × Nat, (q.2 ≠ new ∨ q.1 < idx + 1) → dmGet dm1 q = dmGet dm q ∨
          (q = (idx, new) ∧ s.isSome ∧ idx ≠ a ∧ idx ≠ b)) →
        (∀ q : Nat × Nat, (q.2 ≠ new ∨ q.1 < idx) → dmGet dm' q = dmGet dm q) ∧
        (∀ p, isLive (s :: r) (p + 1) = true → idx + (p + 1) ≠ a → idx + (p + 1) ≠ b →
          ∃ v1 v2, dmGet dm (keyOf (idx + (p + 1)) a) = some v1 ∧
            dmGet dm (keyOf (idx + (p + 1)) b) = some v2 ∧
            dmGet dm' (idx + (p + 1), new) = some (comb v1 v2)) := by
      intro dm1 h1 hsame
      obtain ⟨i1, i2⟩ := ih (idx + 1) dm1 hlen' h1
      constructor
      · intro q hq
        have hq' : q.2 ≠ new ∨ q.1 < idx + 1 := by omega
        rw [i1 q hq']
        rcases hsame q hq' with h | ⟨rfl, _⟩
        · exact h
        · simp at hq
      · intro p hp hpa hpb
        rw [isLive_cons_succ] at hp
        have e : idx + (p + 1) = idx + 1 + p := by omega
        rw [e] at hpa hpb ⊢
        obtain ⟨v1, v2, g1, g2, g3⟩ := i2 p hp hpa hpb
        have hp' := isLive_lt hp
        have k1 : (keyOf (idx + 1 + p) a).2 ≠ new := keyOf_snd_lt _ _ _ (by omega) ha
        have k2 : (keyOf (idx + 1 + p) b).2 ≠ new := keyOf_snd_lt _ _ _ (by omega) hb
        refine ⟨v1, v2, ?_, ?_, g3⟩
        · rcases hsame _ (Or.inl k1) with h | ⟨h, _⟩
          · rw [← h]; exact g1
          · rw [h] at k1; simp at k1
        · rcases hsame _ (Or.inl k2) with h | ⟨h, _⟩
          · rw [← h]; exact g2
          · rw [h] at k2; simp at k2
    have headfree : ∀ P : Nat → Prop, (∀ p, isLive (s :: r) (p + 1) = true → idx + (p + 1) ≠ a →
        idx + (p + 1) ≠ b → P (p + 1)) →
        (isLive (s :: r) 0 = true → idx + 0 ≠ a → idx + 0 ≠ b → P 0) →
        ∀ p, isLive (s :: r) p = true → idx + p ≠ a → idx + p ≠ b → P p := by
      intro P h1 h0 p
      cases p with
      | zero => exact h0
      | succ p => exact h1 p
    by_cases hab : idx = a ∨ idx = b
    · simp only [arithRow, hab, if_true] at h
      obtain ⟨t1, t2⟩ := tailcase dm h (fun q _ => Or.inl rfl)
      refine ⟨t1, headfree _ t2 ?_⟩
      intro _ h2 h3; omega
    · cases s with
      | none =>
        simp only [arithRow, hab, if_false] at h
        obtain ⟨t1, t2⟩ := tailcase dm h (fun q _ => Or.inl rfl)
        refine ⟨t1, headfree _ t2 ?_⟩
        intro h1; rw [isLive_cons_zero] at h1; cases h1
      | some x =>
        simp only [arithRow, hab, if_false] at h
        split at h
        · rename_i v1 v2 hv1 hv2
          obtain ⟨t1, t2⟩ := tailcase _ h (by
            intro q _
            rw [dmGet_dmInsert]
            by_cases hq : (idx, new) = q
            · right; exact ⟨hq.symm, rfl, by omega, by omega⟩
            · left; simp [hq])
          refine ⟨t1, headfree _ t2 ?_⟩
          intro _ _ _
          obtain ⟨i1, _⟩ := ih (idx + 1) _ hlen' h
          refine ⟨v1, v2, by simpa using hv1, by simpa using hv2, ?_⟩
          rw [Nat.add_zero, i1 (idx, new) (Or.inr (by simp)), dmGet_dmInsert]
          simp
        · cases h

theorem arithStep_update (lt : F → F → Bool) (comb : F → F → F) (s s' : State F)
    (h : arithStep lt comb s = some s') :
    ∃ a b d, closest lt s.dm = some ((a, b), d) ∧
      (∀ i, isLive s.sets i = true → i ≠ a → i ≠ b →
        ∃ v1 v2, dmGet s.dm (keyOf i a) = some v1 ∧ dmGet s.dm (keyOf i b) = some v2 ∧
          dmGet s'.dm (i, s.sets.length) = some (comb v1 v2)) ∧
      (∀ q : Nat × Nat, q.1 ≠ a → q.1 ≠ b → q.2 ≠ a → q.2 ≠ b → q.2 ≠ s.sets.length →
        dmGet s'.dm q = dmGet s.dm q) := by
  unfold arithStep at h
  split at h
  · cases h
  · rename_i e he
    split at h
    · cases h
    · rename_i c hc
      split at h
      · rename_i hlt
        split at h
        · cases h
        · rename_i dm1 hr
          cases h
          obtain ⟨⟨a, b⟩, d⟩ := e
          simp only at hlt hr ⊢
          obtain ⟨v1, v2⟩ := arithRow_vals comb a b s.sets.length hlt.1 hlt.2
            (takeTwo s.sets a b) 0 s.dm dm1 (by simp [length_takeTwo]) hr
          refine ⟨a, b, d, he, ?_, ?_⟩
          · intro i hi hia hib
            have hil := isLive_lt hi
            obtain ⟨w1, w2, g1, g2, g3⟩ := v2 i (by rw [isLive_takeTwo]; simp [hi, hia, hib])
              (by omega) (by omega)
            simp only [Nat.zero_add] at g1 g2 g3
            refine ⟨w1, w2, g1, g2, ?_⟩
            rw [dmGet_dmRetain]
            have : (i, s.sets.length).1 ≠ a ∧ (i, s.sets.length).1 ≠ b ∧
                (i, s.sets.length).2 ≠ a ∧ (i, s.sets.length).2 ≠ b := by
              simp only; omega
            rw [if_pos this]; exact g3
          · intro q h1 h2 h3 h4 h5
            rw [dmGet_dmRetain, if_pos ⟨h1, h2, h3, h4⟩]
            exact v1 q (Or.inl h5)
      · cases h

end Linkage
end Hpo
