import HpoModel.HypergeomFast
import HpoProofs.Hypergeom
/-!
The linear-time tail of the hypergeometric distribution run by the driver (`HpoModel/HypergeomFast.lean`)
is the model's `tailNum` / `sfModel` / `pvalue` — for all arguments, no side conditions.
-/
namespace Hpo
namespace Hypergeom

/-- the downward step of the second binomial: `C(M,n−j) ↦ C(M,n−(j+1))` as long as `n−j ≤ M` -/
theorem downStep_eq (M n j : ℕ) (h : n - j ≤ M) :
    downStep M (n - j) (chooseMul M (n - j)) = chooseMul M (n - (j + 1)) := by
  unfold downStep
  split
  · rename_i h0
    have : n - (j + 1) = n - j := by omega
    rw [this]
  · rename_i h0
    obtain ⟨r, hr⟩ : ∃ r, n - j = r + 1 := ⟨n - j - 1, by omega⟩
    have h1 : n - (j + 1) = r := by omega
    rw [h1, hr, chooseMul_eq, chooseMul_eq]
    apply Nat.div_eq_of_eq_mul_left (by omega)
    have : M - (r + 1) + 1 = M - r := by omega
    rw [this]
    exact Nat.choose_succ_right_eq M r

/-- loop invariant: with the two running binomials exact, the loop adds the `cnt` terms from `j` on -/
theorem tailLoop_eq (K M n : ℕ) : ∀ (c j acc : ℕ), n - j ≤ M →
    tailLoop K M n c j (chooseMul K j) (chooseMul M (n - j)) acc = acc + tailNum K M n c j := by
  intro c
  induction c with
  | zero => intro j acc _; simp [tailLoop, tailNum]
  | succ c ih =>
    intro j acc h
    have hK : chooseMul K j * (K - j) / (j + 1) = chooseMul K (j + 1) := rfl
    rw [tailLoop, hK, downStep_eq M n j h, ih (j + 1) _ (by omega), tailNum, Nat.add_assoc]

/-- **The linear-time tail is the model's tail** (all arguments). -/
theorem tailNumFast_eq (K M n : ℕ) : ∀ (c i : ℕ), tailNumFast K M n c i = tailNum K M n c i := by
  intro c
  induction c with
  | zero => intro i; simp [tailNumFast, tailNum]
  | succ c ih =>
    intro i
    rw [tailNumFast]
    split
    · rename_i h
      rw [ih, tailNum, chooseMul_eq M, Nat.choose_eq_zero_of_lt h, Nat.mul_zero, Nat.zero_add]
    · rename_i h
      rw [tailLoop_eq K M n (c + 1) i 0 (by omega), Nat.zero_add]

/-- **`sf` with the linear-time tail is the model's `sf`** (all arguments). -/
theorem sfModelFast_eq (N K n x : ℕ) : sfModelFast N K n x = sfModel N K n x := by
  unfold sfModelFast sfModel
  rw [tailNumFast_eq]

/-- **The p-value the driver prints is the model's p-value.** -/
theorem pvalueFast_eq (N n : ℕ) (e : Enr) : pvalueFast N n e = pvalue N n e := by
  unfold pvalueFast pvalue
  rw [sfModelFast_eq]

end Hypergeom
end Hpo
