import HpoProofs.Path
/-! Helper lemmas for C14 (sub-ontologies) -- core Lean only. -/
namespace Hpo
open Onto

theorem Res.bind_eq_ok {α β : Type} {r : Res α} {f : α → Res β} {b : β} :
    r.bind f = .ok b ↔ ∃ a, r = .ok a ∧ f a = .ok b := by
  cases r <;> simp [Res.bind]

/-- the chain `sub_ontology` keeps for a leaf: `path_to_ancestor(leaf, root)` -/
def Onto.chosenPath (o : Onto) (root : Nat) (l : Term) : List Nat :=
  match pathToAnc o.fuel o l root with
  | .ok (some p) => p
  | _ => []

theorem ChainPath.split {par : Nat → List Nat} : ∀ {p : List Nat} {t a x : Nat},
    ChainPath par t p a → x ∈ p → ∃ n m, Chain par t x n ∧ Chain par x a m ∧ n + m = p.length
  | [], _, _, _, _, hx => by simp at hx
  | y :: ys, t, a, x, h, hx => by
    simp only [ChainPath] at h
    rcases List.mem_cons.1 hx with rfl | hx
    · exact ⟨1, ys.length, Chain.step h.1 (Chain.refl _), h.2.chain, by simp; omega⟩
    · obtain ⟨n, m, h1, h2, he⟩ := ChainPath.split h.2 hx
      exact ⟨n + 1, m, Chain.step h.1 h1, h2, by simp; omega⟩

theorem ChainPath.mem_resolves {o : Onto} {rank : Nat → Nat} (wf : PathWF o rank) {p : List Nat} {t a x : Nat}
    (h : ChainPath o.par t p a) (hx : x ∈ p) (ht : ∃ tt, o.get t = some tt) : ∃ tx, o.get x = some tx := by
  obtain ⟨n, _, h1, _, _⟩ := h.split hx
  exact wf.chain_resolves h1 ht

/-- the collection loop of `sub_ontology` -/
theorem collectLeaves_spec {o : Onto} {rank : Nat → Nat} (wf : PathWF o rank) (root : Nat) :
    ∀ (leaves : List Term) (acc : List Nat), (∀ l ∈ leaves, o.get l.id = some l) →
    ((∃ l ∈ leaves, ¬ Reach o.par l.id root) → collectLeaves o root leaves acc = .err .notImplemented) ∧
    ((∀ l ∈ leaves, Reach o.par l.id root) → ∃ ids, collectLeaves o root leaves acc = .ok ids ∧
      (Group.Sorted acc → Group.Sorted ids) ∧
      ∀ x, x ∈ ids ↔ x ∈ acc ∨ ∃ l ∈ leaves, x = l.id ∨ x ∈ o.chosenPath root l)
  | [], acc, _ => ⟨by simp, fun _ => ⟨acc, rfl, id, by simp⟩⟩
  | l :: ls, acc, hres => by
    have hl := hres l List.mem_cons_self
    obtain ⟨r, hr, hs⟩ := pathToAnc_spec wf root o.fuel l.id l hl (wf.rank_fuel _ _ hl)
    have ih := fun acc' => collectLeaves_spec wf root ls acc' (fun q hq => hres q (List.mem_cons_of_mem _ hq))
    cases r with
    | none =>
      have hnr : ¬ Reach o.par l.id root := hs
      refine ⟨fun _ => by simp [collectLeaves, hr], fun h => absurd (h l List.mem_cons_self) hnr⟩
    | some p =>
      have hch : o.chosenPath root l = p := by simp [Onto.chosenPath, hr]
      constructor
      · rintro ⟨q, hq, hnq⟩
        rcases List.mem_cons.1 hq with rfl | hq
        · exact absurd ⟨p.length, hs.1.chain⟩ hnq
        · simp only [collectLeaves, hr]
          exact (ih _).1 ⟨q, hq, hnq⟩
      · intro hall
        obtain ⟨ids, hids, hsort, hmem⟩ := (ih (Group.insertAll (Group.addId acc l.id) p)).2
          (fun q hq => hall q (List.mem_cons_of_mem _ hq))
        refine ⟨ids, by simp [collectLeaves, hr, hids], ?_, ?_⟩
        · intro hacc
          exact hsort (Group.sorted_insertAll _ _ (Group.sorted_addId _ _ hacc))
        · intro x
          rw [hmem x, Group.mem_insertAll, Group.mem_addId]
          constructor
          · rintro ((( rfl | h) | h) | ⟨q, hq, h⟩)
            · exact Or.inr ⟨l, List.mem_cons_self, Or.inl rfl⟩
            · exact Or.inl h
            · exact Or.inr ⟨l, List.mem_cons_self, Or.inr (hch ▸ h)⟩
            · exact Or.inr ⟨q, List.mem_cons_of_mem _ hq, h⟩
          · rintro (h | ⟨q, hq, h⟩)
            · exact Or.inl (Or.inl (Or.inr h))
            · rcases List.mem_cons.1 hq with rfl | hq
              · rcases h with rfl | h
                · exact Or.inl (Or.inl (Or.inl rfl))
                · exact Or.inl (Or.inr (hch ▸ h))
              · exact Or.inr ⟨q, hq, h⟩

/-- the chain kept for a leaf below root is a shortest chain of parent links from the leaf to root -/
theorem chosenPath_spec {o : Onto} {rank : Nat → Nat} (wf : PathWF o rank) {root : Nat} {l : Term}
    (hl : o.get l.id = some l) (hr : Reach o.par l.id root) :
    ChainPath o.par l.id (o.chosenPath root l) root ∧
    Shortest o.par l.id root (o.chosenPath root l).length := by
  obtain ⟨r, hr', hs⟩ := pathToAnc_spec wf root o.fuel l.id l hl (wf.rank_fuel _ _ hl)
  obtain ⟨p, rfl, hc, hsh⟩ := hs.of_reach hr
  have : o.chosenPath root l = p := by simp [Onto.chosenPath, hr']
  rw [this]; exact ⟨hc, hsh⟩


/-! ### frame: what the later builder stages leave untouched -/

/-- the fields of a term that only `add_term` / `add_parent` write -/
def Term.core (t : Term) : Nat × List Char × Bool × Option Nat × List Nat × List Nat :=
  (t.id, t.name, t.obsolete, t.replacement, t.parents, t.children)

def Frame (o o' : Onto) : Prop := o'.terms.map Term.core = o.terms.map Term.core

theorem Frame.refl (o : Onto) : Frame o o := rfl
theorem Frame.trans {a b c : Onto} (h1 : Frame a b) (h2 : Frame b c) : Frame a c := by
  unfold Frame at *; rw [h2, h1]

theorem modT_core {f : Term → Term} (hf : ∀ t, (f t).core = t.core) (i : Nat) :
    ∀ ts : List Term, (modT ts i f).map Term.core = ts.map Term.core
  | [] => rfl
  | t :: ts => by
    simp only [modT, List.map_cons, modT_core hf i ts]
    split <;> simp [hf]

theorem modUnchecked_frame {o o' : Onto} {i : Nat} {f : Term → Term} (hf : ∀ t, (f t).core = t.core)
    (h : o.modUnchecked i f = some o') :
    Frame o o' ∧ o'.genes = o.genes ∧ o'.omim = o.omim ∧ o'.orpha = o.orpha := by
  unfold modUnchecked at h
  split at h
  · cases h
  · split at h <;> cases h
    · exact ⟨modT_core hf i _, rfl, rfl, rfl⟩
    · exact ⟨rfl, rfl, rfl, rfl⟩

theorem cacheFold_frame {rec : Onto → Nat → Res Onto}
    (hrec : ∀ o i o', rec o i = .ok o' → Frame o o') :
    ∀ (ps : List Nat) (o : Onto) (acc : List Nat) (r : Onto × List Nat),
    cacheFold rec ps o acc = .ok r → Frame o r.1
  | [], o, acc, r, h => by simp only [cacheFold] at h; cases h; exact Frame.refl _
  | p :: ps, o, acc, r, h => by
    simp only [cacheFold] at h
    split at h
    · cases h
    · rename_i tp _
      obtain ⟨o1, h1, h2⟩ := Res.bind_eq_ok.1 h
      have f1 : Frame o o1 := by
        split at h1
        · cases h1; exact Frame.refl _
        · exact hrec _ _ _ h1
      split at h2
      · cases h2
      · exact f1.trans (cacheFold_frame hrec ps o1 _ r h2)

theorem createCache_frame : ∀ (fuel : Nat) (o : Onto) (i : Nat) (o' : Onto),
    createCache fuel o i = .ok o' → Frame o o'
  | 0, _, _, _, h => by simp [createCache] at h
  | fuel + 1, o, i, o', h => by
    simp only [createCache] at h
    split at h
    · cases h
    · obtain ⟨r, h1, h2⟩ := Res.bind_eq_ok.1 h
      have f1 := cacheFold_frame (createCache_frame fuel) _ _ _ _ h1
      split at h2
      · cases h2
      · rename_i o2 hm
        cases h2
        refine f1.trans (modUnchecked_frame ?_ hm).1
        intro t; rfl

theorem connectFold_frame (fuel : Nat) : ∀ (is : List Nat) (o o' : Onto),
    connectFold fuel is o = .ok o' → Frame o o'
  | [], o, o', h => by simp only [connectFold] at h; cases h; exact Frame.refl _
  | i :: is, o, o', h => by
    simp only [connectFold] at h
    obtain ⟨o1, h1, h2⟩ := Res.bind_eq_ok.1 h
    exact (createCache_frame _ _ _ _ h1).trans (connectFold_frame fuel is o1 o' h2)

theorem connectAll_frame {o o' : Onto} (h : o.connectAll = .ok o') : Frame o o' :=
  connectFold_frame _ _ _ _ h


/-- frame + the three record maps untouched -/
def FrameR (o o' : Onto) : Prop :=
  Frame o o' ∧ o'.genes = o.genes ∧ o'.omim = o.omim ∧ o'.orpha = o.orpha

theorem FrameR.refl (o : Onto) : FrameR o o := ⟨rfl, rfl, rfl, rfl⟩
theorem FrameR.trans {a b c : Onto} (h1 : FrameR a b) (h2 : FrameR b c) : FrameR a c :=
  ⟨h1.1.trans h2.1, h2.2.1.trans h1.2.1, h2.2.2.1.trans h1.2.2.1, h2.2.2.2.trans h1.2.2.2⟩

theorem setAnn_core (t : Term) (k : Kind) (v : List Nat) : (t.setAnn k v).core = t.core := by
  cases k <;> rfl

theorem setIc_core (t : Term) (k : Kind) (v : Nat × Nat) : (t.setIc k v).core = t.core := by
  cases k <;> rfl

theorem linkFold_frame {rec : Onto → Nat → Res Onto}
    (hrec : ∀ o i o', rec o i = .ok o' → FrameR o o') :
    ∀ (ps : List Nat) (o o' : Onto), linkFold rec ps o = .ok o' → FrameR o o'
  | [], o, o', h => by simp only [linkFold] at h; cases h; exact FrameR.refl _
  | p :: ps, o, o', h => by
    simp only [linkFold] at h
    obtain ⟨o1, h1, h2⟩ := Res.bind_eq_ok.1 h
    exact (hrec _ _ _ h1).trans (linkFold_frame hrec ps o1 o' h2)

theorem link_frame (k : Kind) (r : Nat) : ∀ (fuel : Nat) (o : Onto) (t : Nat) (o' : Onto),
    link k r fuel o t = .ok o' → FrameR o o'
  | 0, _, _, _, h => by simp [link] at h
  | fuel + 1, o, t, o', h => by
    simp only [link] at h
    split at h
    · cases h
    · split at h
      · refine FrameR.trans ?_ (linkFold_frame (link_frame k r fuel) _ _ _ h)
        exact ⟨modT_core (fun x => setAnn_core x k _) t _, rfl, rfl, rfl⟩
      · cases h; exact FrameR.refl _

theorem setRecs_terms (o : Onto) (k : Kind) (v : List Rec) : (o.setRecs k v).terms = o.terms := by
  cases k <;> rfl

theorem recs_setRecs_p (o : Onto) (k : Kind) (v : List Rec) : (o.setRecs k v).recs k = v := by
  cases k <;> rfl

theorem recs_setRecs_ne_p (o : Onto) {k k' : Kind} (h : k' ≠ k) (v : List Rec) :
    (o.setRecs k v).recs k' = o.recs k' := by
  cases k <;> cases k' <;> first | rfl | exact absurd rfl h

theorem FrameR.recs {o o' : Onto} (h : FrameR o o') (k : Kind) : o'.recs k = o.recs k := by
  cases k
  · exact h.2.1
  · exact h.2.2.1
  · exact h.2.2.2

/-- one `annotate_*` call: the record is created if new and gets the term; terms keep their core -/
theorem annotate_ok {o o' : Onto} {k : Kind} {rid : Nat} {name : List Char} {t : Nat}
    (h : o.annotate k rid name t = .ok o') :
    Frame o o' ∧
    o'.recs k = modR (addR (o.recs k) { id := rid, name := name }) rid
      (fun r => { r with hpos := (Group.insert r.hpos t).1 }) ∧
    ∀ k', k' ≠ k → o'.recs k' = o.recs k' := by
  simp only [annotate] at h
  split at h
  · cases h
  · have fr := link_frame _ _ _ _ _ _ h
    refine ⟨?_, ?_, ?_⟩
    · have := fr.1
      unfold Frame at *
      rw [this, addTermToRec, setRecs_terms, addRec, setRecs_terms]
    · rw [fr.recs k, addTermToRec, recs_setRecs_p, addRec, recs_setRecs_p]
    · intro k' hk
      rw [fr.recs k', addTermToRec, recs_setRecs_ne_p _ hk, addRec, recs_setRecs_ne_p _ hk]

theorem icFold_core (k : Kind) (total : Nat) : ∀ (ts ts' : List Term),
    icFold k total ts = .ok ts' → ts'.map Term.core = ts.map Term.core
  | [], ts', h => by simp only [icFold] at h; cases h; rfl
  | t :: ts, ts', h => by
    simp only [icFold] at h
    obtain ⟨v, _, h2⟩ := Res.bind_eq_ok.1 h
    obtain ⟨r, h3, h4⟩ := Res.bind_eq_ok.1 h2
    cases h4
    simp [icFold_core k total ts r h3, setIc_core]

theorem calcIcKind_frame {o o' : Onto} {k : Kind} (h : o.calcIcKind k = .ok o') : FrameR o o' := by
  simp only [calcIcKind] at h
  obtain ⟨ts, h1, h2⟩ := Res.bind_eq_ok.1 h
  cases h2
  exact ⟨icFold_core _ _ _ _ h1, rfl, rfl, rfl⟩

theorem calcIc_frame {o o' : Onto} (h : o.calcIc = .ok o') : FrameR o o' := by
  simp only [calcIc] at h
  obtain ⟨o1, h1, h2⟩ := Res.bind_eq_ok.1 h
  obtain ⟨o2, h3, h4⟩ := Res.bind_eq_ok.1 h2
  exact (calcIcKind_frame h1).trans ((calcIcKind_frame h3).trans (calcIcKind_frame h4))


/-! ### copying the terms -/

theorem getT_append_p (ts : List Term) (t : Term) (x : Nat) :
    getT (ts ++ [t]) x = match getT ts x with
      | some u => some u
      | none => if t.id = x then some t else none := by
  induction ts with
  | nil => simp [getT]
  | cons u us ih =>
    simp only [List.cons_append, getT]
    split
    · rfl
    · exact ih

/-- `for &term in &terms { builder.add_term(copy) }` on distinct ids appends the copies -/
theorem copyTerms_spec (o : Onto) : ∀ (ids : List Nat) (b b' : Onto),
    copyTerms o ids b = some b' → (∀ i ∈ ids, (o.srcTerm i).id = i) → ids.Nodup →
    (∀ i ∈ ids, getT b.terms i = none) →
    b'.terms = b.terms ++ ids.map (fun i => copyTerm (o.srcTerm i)) ∧ (∀ i ∈ ids, i < maxId) ∧
    b'.genes = b.genes ∧ b'.omim = b.omim ∧ b'.orpha = b.orpha ∧ b'.slot0 = b.slot0
  | [], b, b', h, _, _, _ => by simp only [copyTerms] at h; cases h; simp
  | i :: is, b, b', h, hid, hnd, hfresh => by
    simp only [copyTerms, Option.bind_eq_some_iff] at h
    obtain ⟨b1, h1, h2⟩ := h
    have hi : (copyTerm (o.srcTerm i)).id = i := hid i List.mem_cons_self
    simp only [addTerm, arenaInsert, Option.map_eq_some_iff] at h1
    obtain ⟨ts, hts, rfl⟩ := h1
    split at hts
    · cases hts
    · rename_i hlt
      rw [hi, hfresh i List.mem_cons_self] at hts
      cases hts
      have hnd' := List.nodup_cons.1 hnd
      obtain ⟨e1, e2, e3⟩ := copyTerms_spec o is _ b' h2 (fun j hj => hid j (List.mem_cons_of_mem _ hj)) hnd'.2
        (by
          intro j hj
          simp only [getT_append_p, hfresh j (List.mem_cons_of_mem _ hj), hi]
          have : i ≠ j := fun e => hnd'.1 (e ▸ hj)
          simp [this])
      refine ⟨by simp [e1], ?_, e3⟩
      intro j hj
      rcases List.mem_cons.1 hj with rfl | hj
      · rw [hi] at hlt; omega
      · exact e2 j hj

theorem getT_map_of_id {g : Nat → Term} (hg : ∀ i, (g i).id = i) (x : Nat) :
    ∀ ids : List Nat, getT (ids.map g) x = if x ∈ ids then some (g x) else none
  | [] => by simp [getT]
  | i :: is => by
    simp only [List.map_cons, getT, hg, getT_map_of_id hg x is, List.mem_cons]
    by_cases h : i = x
    · subst h; simp
    · have : ¬ x = i := fun e => h e.symm
      simp [h, this]

/-! ### the induced parent links -/

theorem getT_modT_p {f : Term → Term} (hf : ∀ t, (f t).id = t.id) (i x : Nat) :
    ∀ ts : List Term, getT (modT ts i f) x = if x = i then (getT ts x).map f else getT ts x
  | [] => by simp [getT, modT]
  | t :: ts => by
    simp only [modT, getT]
    by_cases hti : t.id = i
    · simp only [hti, if_true, hf]
      by_cases hx : i = x
      · subst hx; simp
      · have : ¬ x = i := fun e => hx e.symm
        simp [hx, this, getT_modT_p hf i x ts]
    · simp only [hti, if_false]
      by_cases htx : t.id = x
      · have : ¬ x = i := fun e => hti (htx.trans e)
        simp [htx, this]
      · simp [htx, getT_modT_p hf i x ts]

/-- names and flags agree -/
def Term.Same (t t' : Term) : Prop :=
  t'.id = t.id ∧ t'.name = t.name ∧ t'.obsolete = t.obsolete ∧ t'.replacement = t.replacement

/-- `ts'` is `ts` with the parent → child links `P` added (on both ends) -/
def LinkRel (P : Nat → Nat → Prop) (ts ts' : List Term) : Prop :=
  ∀ x, match getT ts x, getT ts' x with
    | some t, some t' => t.Same t' ∧ (∀ y, y ∈ t'.parents ↔ y ∈ t.parents ∨ P y x) ∧
        (∀ y, y ∈ t'.children ↔ y ∈ t.children ∨ P x y)
    | none, none => True
    | _, _ => False

theorem LinkRel.refl (ts : List Term) : LinkRel (fun _ _ => False) ts ts := by
  intro x; cases getT ts x <;> simp [Term.Same]

theorem LinkRel.trans {P Q R : Nat → Nat → Prop} {a b c : List Term} (h1 : LinkRel P a b) (h2 : LinkRel Q b c)
    (hR : ∀ p x, R p x ↔ P p x ∨ Q p x) : LinkRel R a c := by
  intro x
  have e1 := h1 x
  have e2 := h2 x
  cases ha : getT a x <;> cases hb : getT b x <;> cases hc : getT c x <;>
    simp only [ha, hb, hc] at e1 e2 ⊢ <;> try trivial
  obtain ⟨s1, p1, c1⟩ := e1
  obtain ⟨s2, p2, c2⟩ := e2
  refine ⟨⟨s2.1.trans s1.1, s2.2.1.trans s1.2.1, s2.2.2.1.trans s1.2.2.1, s2.2.2.2.trans s1.2.2.2⟩, ?_, ?_⟩
  · intro y; rw [p2, p1, hR]; simp [or_assoc]
  · intro y; rw [c2, c1, hR]; simp [or_assoc]

theorem LinkRel.congr {P Q : Nat → Nat → Prop} {a b : List Term} (h : LinkRel P a b)
    (hQ : ∀ p x, Q p x ↔ P p x) : LinkRel Q a b :=
  (LinkRel.trans h (LinkRel.refl b) (R := Q) (by intro p x; rw [hQ]; simp))

/-- `add_parent_unchecked(p, c)` on terms: exactly the link `p → c` is added -/
theorem addParentUnchecked_rel {b b' : Onto} {p c : Nat} (h : b.addParentUnchecked p c = some b') :
    LinkRel (fun y x => y = p ∧ x = c) b.terms b'.terms ∧
    b'.genes = b.genes ∧ b'.omim = b.omim ∧ b'.orpha = b.orpha := by
  simp only [addParentUnchecked, Option.bind_eq_some_iff] at h
  obtain ⟨b1, h1, h2⟩ := h
  have key : ∀ (o o' : Onto) (i : Nat) (f : Term → Term), (∀ t, (f t).id = t.id) →
      o.modUnchecked i f = some o' →
      (∀ x, getT o'.terms x = if x = i then (getT o.terms x).map f else getT o.terms x) ∧
      o'.genes = o.genes ∧ o'.omim = o.omim ∧ o'.orpha = o.orpha := by
    intro o o' i f hf hm
    unfold modUnchecked at hm
    split at hm
    · cases hm
    · split at hm <;> cases hm
      · exact ⟨fun x => getT_modT_p hf i x _, rfl, rfl, rfl⟩
      · rename_i hnone
        refine ⟨fun x => ?_, rfl, rfl, rfl⟩
        by_cases hx : x = i
        · subst hx; simp [hnone]
        · simp [hx]
  obtain ⟨g1, r1⟩ := key _ _ _ (·.addChild c) (fun _ => rfl) h1
  obtain ⟨g2, r2⟩ := key _ _ _ (·.addParent p) (fun _ => rfl) h2
  refine ⟨?_, r2.1.trans r1.1, r2.2.1.trans r1.2.1, r2.2.2.trans r1.2.2⟩
  intro x
  rw [g2 x, g1 x]
  cases hg : getT b.terms x with
  | none => by_cases h1 : x = c <;> by_cases h2 : x = p <;> simp [h1, h2]
  | some t =>
    by_cases hc : x = c
    · subst hc
      by_cases hp : x = p
      · subst hp
        simp [Term.Same, Term.addParent, Term.addChild, Group.mem_insert, or_comm]
      · have hp' : ¬ p = x := fun e => hp e.symm
        simp [hp, Term.Same, Term.addParent, Group.mem_insert, or_comm]
    · by_cases hp : x = p
      · subst hp
        have hc' : ¬ c = x := fun e => hc e.symm
        simp [hc, Term.Same, Term.addChild, Group.mem_insert, or_comm]
      · simp [hc, hp, Term.Same]

theorem linkParentsOf_rel (ids : List Nat) (c : Nat) : ∀ (ps : List Nat) (b b' : Onto),
    linkParentsOf ids c ps b = some b' →
    LinkRel (fun y x => x = c ∧ y ∈ ps ∧ y ∈ ids) b.terms b'.terms ∧
    b'.genes = b.genes ∧ b'.omim = b.omim ∧ b'.orpha = b.orpha
  | [], b, b', h => by
    simp only [linkParentsOf] at h; cases h
    exact ⟨(LinkRel.refl _).congr (by simp), rfl, rfl, rfl⟩
  | p :: ps, b, b', h => by
    simp only [linkParentsOf] at h
    split at h
    · rename_i hin
      simp only [Option.bind_eq_some_iff] at h
      obtain ⟨b1, h1, h2⟩ := h
      obtain ⟨l1, r1⟩ := addParentUnchecked_rel h1
      obtain ⟨l2, r2⟩ := linkParentsOf_rel ids c ps b1 b' h2
      refine ⟨LinkRel.trans l1 l2 ?_, r2.1.trans r1.1, r2.2.1.trans r1.2.1, r2.2.2.trans r1.2.2⟩
      intro y x
      have hin' : p ∈ ids := (Group.contains_iff _ _).1 hin
      simp only [List.mem_cons]
      constructor
      · rintro ⟨rfl, rfl | hy, hi⟩
        · exact Or.inl ⟨rfl, rfl⟩
        · exact Or.inr ⟨rfl, hy, hi⟩
      · rintro (⟨rfl, rfl⟩ | ⟨rfl, hy, hi⟩)
        · exact ⟨rfl, Or.inl rfl, hin'⟩
        · exact ⟨rfl, Or.inr hy, hi⟩
    · rename_i hin
      obtain ⟨l2, r2⟩ := linkParentsOf_rel ids c ps b b' h
      refine ⟨l2.congr ?_, r2⟩
      intro y x
      have hin' : p ∉ ids := fun e => hin ((Group.contains_iff _ _).2 e)
      simp only [List.mem_cons]
      constructor
      · rintro ⟨rfl, rfl | hy, hi⟩
        · exact absurd hi hin'
        · exact ⟨rfl, hy, hi⟩
      · rintro ⟨rfl, hy, hi⟩
        exact ⟨rfl, Or.inr hy, hi⟩

theorem linkInduced_rel (o : Onto) (ids : List Nat) : ∀ (is : List Nat) (b b' : Onto),
    linkInduced o ids is b = some b' →
    LinkRel (fun y x => x ∈ is ∧ y ∈ (o.srcTerm x).parents ∧ y ∈ ids) b.terms b'.terms ∧
    b'.genes = b.genes ∧ b'.omim = b.omim ∧ b'.orpha = b.orpha
  | [], b, b', h => by
    simp only [linkInduced] at h; cases h
    exact ⟨(LinkRel.refl _).congr (by simp), rfl, rfl, rfl⟩
  | i :: is, b, b', h => by
    simp only [linkInduced, Option.bind_eq_some_iff] at h
    obtain ⟨b1, h1, h2⟩ := h
    obtain ⟨l1, r1⟩ := linkParentsOf_rel ids i _ b b1 h1
    obtain ⟨l2, r2⟩ := linkInduced_rel o ids is b1 b' h2
    refine ⟨LinkRel.trans l1 l2 ?_, r2.1.trans r1.1, r2.2.1.trans r1.2.1, r2.2.2.trans r1.2.2⟩
    intro y x
    simp only [List.mem_cons]
    constructor
    · rintro ⟨rfl | hx, hy, hi⟩
      · exact Or.inl ⟨rfl, hy, hi⟩
      · exact Or.inr ⟨hx, hy, hi⟩
    · rintro (⟨rfl, hy, hi⟩ | ⟨hx, hy, hi⟩)
      · exact ⟨Or.inl rfl, hy, hi⟩
      · exact ⟨Or.inr hx, hy, hi⟩


theorem getT_of_map_core : ∀ (ts ts' : List Term), ts'.map Term.core = ts.map Term.core → ∀ x,
    match getT ts x, getT ts' x with
    | some t, some t' => t'.core = t.core
    | none, none => True
    | _, _ => False
  | [], [], _, x => by simp [getT]
  | [], _ :: _, h, _ => by simp at h
  | _ :: _, [], h, _ => by simp at h
  | t :: ts, t' :: ts', h, x => by
    simp only [List.map_cons, List.cons.injEq] at h
    have hid : t'.id = t.id := congrArg (·.1) h.1
    simp only [getT, hid]
    by_cases hx : t.id = x
    · simp only [hx, if_true]; exact h.1
    · simp only [hx, if_false]; exact getT_of_map_core ts ts' h.2 x

theorem annotateAll_frame (k : Kind) (r : Rec) : ∀ (ts : List Nat) (b b' : Onto),
    annotateAll k r ts b = .ok b' → Frame b b'
  | [], b, b', h => by simp only [annotateAll] at h; cases h; exact Frame.refl _
  | t :: ts, b, b', h => by
    simp only [annotateAll] at h
    obtain ⟨b1, h1, h2⟩ := Res.bind_eq_ok.1 h
    exact (annotate_ok h1).1.trans (annotateAll_frame k r ts b1 b' h2)

theorem copyRecs_frame (k : Kind) (ids phen : List Nat) : ∀ (rs : List Rec) (b b' : Onto),
    copyRecs k ids phen rs b = .ok b' → Frame b b'
  | [], b, b', h => by simp only [copyRecs] at h; cases h; exact Frame.refl _
  | r :: rs, b, b', h => by
    simp only [copyRecs] at h
    split at h
    · exact copyRecs_frame k ids phen rs b b' h
    · obtain ⟨b1, h1, h2⟩ := Res.bind_eq_ok.1 h
      exact (annotateAll_frame k r _ b b1 h1).trans (copyRecs_frame k ids phen rs b1 b' h2)

/-- the term part of a sub-ontology built from the id set `ids` -/
theorem subOntologyOf_terms {o o' : Onto} {phen : Onto → Term → Bool} {ids : List Nat}
    (h : subOntologyOf o phen ids = .ok o') (hnd : ids.Nodup) (hid : ∀ i ∈ ids, (o.srcTerm i).id = i) :
    (∀ x, x ∉ ids → o'.get x = none) ∧
    (∀ x, x ∈ ids → ∃ t', o'.get x = some t' ∧ (o.srcTerm x).Same t' ∧
      (∀ y, y ∈ t'.parents ↔ y ∈ (o.srcTerm x).parents ∧ y ∈ ids) ∧
      (∀ y, y ∈ t'.children ↔ y ∈ ids ∧ x ∈ (o.srcTerm y).parents)) := by
  unfold subOntologyOf at h
  split at h
  · cases h
  · rename_i b1 hb1
    split at h
    · cases h
    · rename_i b2 hb2
      obtain ⟨b3, h3, h⟩ := Res.bind_eq_ok.1 h
      obtain ⟨b4, h4, h⟩ := Res.bind_eq_ok.1 h
      obtain ⟨b5, h5, h⟩ := Res.bind_eq_ok.1 h
      obtain ⟨b6, h6, h⟩ := Res.bind_eq_ok.1 h
      obtain ⟨b7, h7, h⟩ := Res.bind_eq_ok.1 h
      cases h
      have fr : Frame b2 b7 :=
        (connectAll_frame h3).trans ((copyRecs_frame _ _ _ _ _ _ h4).trans
          ((copyRecs_frame _ _ _ _ _ _ h5).trans ((copyRecs_frame _ _ _ _ _ _ h6).trans (calcIc_frame h7).1)))
      obtain ⟨e1, hlt, _⟩ := copyTerms_spec o ids {} b1 hb1 hid hnd (by intro i _; rfl)
      have e1' : b1.terms = ids.map (fun i => copyTerm (o.srcTerm i)) := by simpa using e1
      have hg1 : ∀ x, getT b1.terms x = if x ∈ ids then some (copyTerm (o.srcTerm x)) else none := by
        intro x
        by_cases hx : x ∈ ids
        · rw [e1']
          -- only ids of `ids` matter: replace the map by one that is the identity on ids everywhere
          have : ∀ l : List Nat, (∀ i ∈ l, (o.srcTerm i).id = i) →
              getT (l.map (fun i => copyTerm (o.srcTerm i))) x = if x ∈ l then some (copyTerm (o.srcTerm x)) else none := by
            intro l
            induction l with
            | nil => simp [getT]
            | cons i is ih =>
              intro hl
              have hi : (copyTerm (o.srcTerm i)).id = i := hl i List.mem_cons_self
              simp only [List.map_cons, getT, hi, List.mem_cons, ih (fun j hj => hl j (List.mem_cons_of_mem _ hj))]
              by_cases hix : i = x
              · subst hix; simp
              · have : ¬ x = i := fun e => hix e.symm
                simp [hix, this]
          exact this ids hid
        · rw [e1']
          simp only [hx, if_false]
          have : ∀ l : List Nat, (∀ i ∈ l, (o.srcTerm i).id = i) → x ∉ l →
              getT (l.map (fun i => copyTerm (o.srcTerm i))) x = none := by
            intro l
            induction l with
            | nil => simp [getT]
            | cons i is ih =>
              intro hl hxl
              have hi : (copyTerm (o.srcTerm i)).id = i := hl i List.mem_cons_self
              simp only [List.mem_cons, not_or] at hxl
              have : ¬ i = x := fun e => hxl.1 e.symm
              simp only [List.map_cons, getT, hi, this, if_false]
              exact ih (fun j hj => hl j (List.mem_cons_of_mem _ hj)) hxl.2
          exact this ids hid hx
      obtain ⟨lr, _⟩ := linkInduced_rel o ids ids b1 b2 hb2
      have hget : ∀ x, (b7.buildMinimal).get x = if x ≥ maxId then none else getT b7.terms x := by
        intro x; simp [Onto.get, arenaGet, buildMinimal]
      constructor
      · intro x hx
        rw [hget]
        split
        · rfl
        · have l := lr x
          have f := getT_of_map_core _ _ fr x
          rw [hg1 x] at l
          simp only [hx, if_false] at l
          cases h2 : getT b2.terms x with
          | some t2 => rw [h2] at l; exact absurd l (by simp)
          | none =>
            rw [h2] at f
            cases h7' : getT b7.terms x with
            | none => rfl
            | some t7 => rw [h7'] at f; exact absurd f (by simp)
      · intro x hx
        rw [hget]
        have hxlt := hlt x hx
        have : ¬ x ≥ maxId := by omega
        simp only [this, if_false]
        have l := lr x
        have f := getT_of_map_core _ _ fr x
        rw [hg1 x] at l
        simp only [hx, if_true] at l
        cases h2 : getT b2.terms x with
        | none => rw [h2] at l; exact absurd l (by simp)
        | some t2 =>
          rw [h2] at l f
          cases h7' : getT b7.terms x with
          | none => rw [h7'] at f; exact absurd f (by simp)
          | some t7 =>
            rw [h7'] at f
            simp only at l f
            obtain ⟨⟨s1, s2, s3, s4⟩, lp, lc⟩ := l
            simp only [Term.core, Prod.mk.injEq] at f
            obtain ⟨f1, f2, f3, f4, f5, f6⟩ := f
            refine ⟨t7, rfl, ⟨?_, ?_, ?_, ?_⟩, ?_, ?_⟩
            · rw [f1, s1]; rfl
            · rw [f2, s2]; rfl
            · rw [f3, s3]; rfl
            · rw [f4, s4]; rfl
            · intro y; rw [f5, lp]; simp [copyTerm, hx]
            · intro y; rw [f6, lc]; simp [copyTerm, hx]


theorem srcTerm_of_get {o : Onto} {i : Nat} {t : Term} (h : o.get i = some t) : o.srcTerm i = t := by
  unfold Onto.get arenaGet at h
  split at h
  · cases h
  · simp [srcTerm, h]

/-- everything the theorems of C14 need about a successful call, in one place -/
structure SubFacts (o : Onto) (root : Nat) (leaves : List Term) (o' : Onto) (ids : List Nat) : Prop where
  below : ∀ l ∈ leaves, Reach o.par l.id root
  sorted : Group.Sorted ids
  mem : ∀ x, x ∈ ids ↔ ∃ l ∈ leaves, x = l.id ∨ x ∈ o.chosenPath root l
  resolves : ∀ x ∈ ids, ∃ t, o.get x = some t
  absent : ∀ x, x ∉ ids → o'.get x = none
  present : ∀ x, x ∈ ids → ∃ t t', o.get x = some t ∧ o'.get x = some t' ∧ t.Same t' ∧
      (∀ y, y ∈ t'.parents ↔ y ∈ t.parents ∧ y ∈ ids) ∧
      (∀ y, y ∈ t'.children ↔ y ∈ ids ∧ x ∈ o.par y)
  of : subOntologyOf o isPhenotype ids = .ok o'

theorem subOntology_facts {o : Onto} {rank : Nat → Nat} (wf : PathWF o rank) {root : Term} {leaves : List Term}
    (hl : ∀ l ∈ leaves, o.get l.id = some l) {o' : Onto}
    (h : o.subOntology root leaves = .ok o') : ∃ ids, SubFacts o root.id leaves o' ids := by
  simp only [subOntology, subOntologyWith] at h
  obtain ⟨ids, hc, hof⟩ := Res.bind_eq_ok.1 h
  have spec := collectLeaves_spec wf root.id leaves [] hl
  have below : ∀ l ∈ leaves, Reach o.par l.id root.id := by
    intro l hlm
    apply Classical.byContradiction
    intro hn
    have := spec.1 ⟨l, hlm, hn⟩
    rw [this] at hc
    cases hc
  obtain ⟨ids', hc', hsort, hmem⟩ := spec.2 below
  rw [hc'] at hc
  cases hc
  have mem : ∀ x, x ∈ ids ↔ ∃ l ∈ leaves, x = l.id ∨ x ∈ o.chosenPath root.id l := by
    intro x; rw [hmem x]; simp
  have resolves : ∀ x ∈ ids, ∃ t, o.get x = some t := by
    intro x hx
    obtain ⟨l, hlm, rfl | hp⟩ := (mem x).1 hx
    · exact ⟨l, hl l hlm⟩
    · exact (chosenPath_spec wf (hl l hlm) (below l hlm)).1.mem_resolves wf hp ⟨l, hl l hlm⟩
  have hid : ∀ i ∈ ids, (o.srcTerm i).id = i := by
    intro i hi
    obtain ⟨t, ht⟩ := resolves i hi
    rw [srcTerm_of_get ht]; exact Onto.get_id_p ht
  have sorted := hsort Group.sorted_nil
  obtain ⟨habs, hpres⟩ := subOntologyOf_terms hof sorted.nodup hid
  refine ⟨ids, below, sorted, mem, resolves, habs, ?_, hof⟩
  intro x hx
  obtain ⟨t, ht⟩ := resolves x hx
  obtain ⟨t', ht', hs, hp, hch⟩ := hpres x hx
  rw [srcTerm_of_get ht] at hs hp
  refine ⟨t, t', ht, ht', hs, hp, ?_⟩
  intro y
  rw [hch y]
  constructor
  · rintro ⟨hy, hxy⟩
    obtain ⟨ty, hty⟩ := resolves y hy
    rw [srcTerm_of_get hty] at hxy
    exact ⟨hy, by rw [Onto.par_eq hty]; exact hxy⟩
  · rintro ⟨hy, hxy⟩
    obtain ⟨ty, hty⟩ := resolves y hy
    rw [srcTerm_of_get hty]
    exact ⟨hy, by rw [Onto.par_eq hty] at hxy; exact hxy⟩

theorem SubFacts.mem_iff {o o' : Onto} {root : Nat} {leaves : List Term} {ids : List Nat}
    (f : SubFacts o root leaves o' ids) (x : Nat) : x ∈ ids ↔ (o'.get x).isSome := by
  constructor
  · intro hx
    obtain ⟨_, t', _, ht', _⟩ := f.present x hx
    simp [ht']
  · intro hx
    apply Classical.byContradiction
    intro hn
    rw [f.absent x hn] at hx
    cases hx

/-- the parent function of the result is the induced one -/
theorem SubFacts.par_iff {o o' : Onto} {root : Nat} {leaves : List Term} {ids : List Nat}
    (f : SubFacts o root leaves o' ids) (x y : Nat) : y ∈ o'.par x ↔ x ∈ ids ∧ y ∈ ids ∧ y ∈ o.par x := by
  by_cases hx : x ∈ ids
  · obtain ⟨t, t', ht, ht', _, hp, _⟩ := f.present x hx
    rw [Onto.par_eq ht', Onto.par_eq ht, hp y]
    constructor
    · rintro ⟨a, b⟩; exact ⟨hx, b, a⟩
    · rintro ⟨_, b, a⟩; exact ⟨a, b⟩
  · have : o'.par x = [] := by simp [Onto.par, f.absent x hx]
    rw [this]
    constructor
    · intro h; cases h
    · rintro ⟨h, _⟩; exact absurd h hx

theorem SubFacts.chain_sub {o o' : Onto} {root : Nat} {leaves : List Term} {ids : List Nat}
    (f : SubFacts o root leaves o' ids) {t a n : Nat} (h : Chain o'.par t a n) : Chain o.par t a n := by
  induction h with
  | refl t => exact Chain.refl _
  | step hp _ ih => exact Chain.step ((f.par_iff _ _).1 hp).2.2 ih

theorem SubFacts.chainPath {o o' : Onto} {root : Nat} {leaves : List Term} {ids : List Nat}
    (f : SubFacts o root leaves o' ids) : ∀ {p : List Nat} {t a : Nat},
    ChainPath o.par t p a → t ∈ ids → (∀ z ∈ p, z ∈ ids) → ChainPath o'.par t p a
  | [], _, _, h, _, _ => h
  | x :: xs, t, a, h, ht, hp => by
    simp only [ChainPath] at h ⊢
    have hx := hp x List.mem_cons_self
    exact ⟨(f.par_iff _ _).2 ⟨ht, hx, h.1⟩,
      SubFacts.chainPath f h.2 hx (fun z hz => hp z (List.mem_cons_of_mem _ hz))⟩



/-! ### the record maps -/

theorem getR_eq_none_p {rs : List Rec} {i : Nat} : getR rs i = none ↔ ∀ u ∈ rs, u.id ≠ i := by
  induction rs with
  | nil => simp [getR]
  | cons u us ih =>
    simp only [getR, List.mem_cons, forall_eq_or_imp]
    by_cases h : u.id = i
    · simp [h]
    · simp [h, ih]

theorem getR_append_p (rs : List Rec) (r : Rec) (i : Nat) :
    getR (rs ++ [r]) i = match getR rs i with
      | some u => some u
      | none => if r.id = i then some r else none := by
  induction rs with
  | nil => simp [getR]
  | cons u us ih =>
    simp only [List.cons_append, getR]
    split
    · rfl
    · exact ih

theorem modR_append_last {rs : List Rec} {r0 : Rec} (f : Rec → Rec) (h : getR rs r0.id = none) :
    modR (rs ++ [r0]) r0.id f = rs ++ [f r0] := by
  induction rs with
  | nil => simp [modR]
  | cons u us ih =>
    have hu := getR_eq_none_p.1 h
    have h1 : u.id ≠ r0.id := hu u List.mem_cons_self
    have h2 : getR us r0.id = none := getR_eq_none_p.2 (fun v hv => hu v (List.mem_cons_of_mem _ hv))
    simp [modR, h1, ih h2]

theorem annotateAll_recs (k : Kind) (r : Rec) : ∀ (ts : List Nat) (b b' : Onto) (rs0 : List Rec) (r0 : Rec),
    annotateAll k r ts b = .ok b' → b.recs k = rs0 ++ [r0] → r0.id = r.id → getR rs0 r.id = none →
    b'.recs k = rs0 ++ [{ r0 with hpos := Group.insertAll r0.hpos ts }] ∧ ∀ k', k' ≠ k → b'.recs k' = b.recs k'
  | [], b, b', rs0, r0, h, hb, _, _ => by
    simp only [annotateAll] at h; cases h
    exact ⟨by simp [hb, Group.insertAll], fun _ _ => rfl⟩
  | t :: ts, b, b', rs0, r0, h, hb, hid, hfresh => by
    simp only [annotateAll] at h
    obtain ⟨b1, h1, h2⟩ := Res.bind_eq_ok.1 h
    obtain ⟨_, e1, e2⟩ := annotate_ok h1
    have hget : getR (rs0 ++ [r0]) r.id = some r0 := by
      rw [getR_append_p, hfresh]; simp [hid]
    have e1' : b1.recs k = rs0 ++ [{ r0 with hpos := (Group.insert r0.hpos t).1 }] := by
      rw [e1, hb]
      simp only [addR, hget]
      rw [← hid]
      exact modR_append_last _ (hid ▸ hfresh)
    obtain ⟨e3, e4⟩ := annotateAll_recs k r ts b1 b' rs0 _ h2 e1' hid hfresh
    refine ⟨?_, fun k' hk => (e4 k' hk).trans (e2 k' hk)⟩
    rw [e3]; simp [Group.insertAll]

theorem annotateAll_fresh (k : Kind) (r : Rec) (t : Nat) (ts : List Nat) (b b' : Onto)
    (h : annotateAll k r (t :: ts) b = .ok b') (hfresh : getR (b.recs k) r.id = none) :
    b'.recs k = b.recs k ++ [{ id := r.id, name := r.name, hpos := Group.insertAll [] (t :: ts) }] ∧
    ∀ k', k' ≠ k → b'.recs k' = b.recs k' := by
  simp only [annotateAll] at h
  obtain ⟨b1, h1, h2⟩ := Res.bind_eq_ok.1 h
  obtain ⟨_, e1, e2⟩ := annotate_ok h1
  have e1' : b1.recs k = b.recs k ++ [{ id := r.id, name := r.name, hpos := [t] }] := by
    rw [e1]
    simp only [addR, hfresh]
    have := modR_append_last (rs := b.recs k) (r0 := { id := r.id, name := r.name })
      (fun r => { r with hpos := (Group.insert r.hpos t).1 }) hfresh
    simpa [Group.insert] using this
  obtain ⟨e3, e4⟩ := annotateAll_recs k r ts b1 b' _ _ h2 e1' rfl hfresh
  refine ⟨?_, fun k' hk => (e4 k' hk).trans (e2 k' hk)⟩
  rw [e3]; simp [Group.insertAll, Group.insert]

/-- the record `sub_ontology` creates for a source record (if any) -/
def keepRec (ids ph : List Nat) (r : Rec) : Option Rec :=
  if (Group.bitand r.hpos ph).isEmpty then none
  else match Group.bitand r.hpos ids with
    | [] => none
    | t :: ts => some { id := r.id, name := r.name, hpos := Group.insertAll [] (t :: ts) }

theorem keepRec_id {ids ph : List Nat} {r r' : Rec} (h : keepRec ids ph r = some r') : r'.id = r.id := by
  unfold keepRec at h
  split at h
  · cases h
  · split at h <;> cases h; rfl

theorem copyRecs_recs (k : Kind) (ids ph : List Nat) : ∀ (rs : List Rec) (b b' : Onto),
    copyRecs k ids ph rs b = .ok b' → (rs.map (·.id)).Nodup → (∀ r ∈ rs, getR (b.recs k) r.id = none) →
    b'.recs k = b.recs k ++ rs.filterMap (keepRec ids ph) ∧ ∀ k', k' ≠ k → b'.recs k' = b.recs k'
  | [], b, b', h, _, _ => by simp only [copyRecs] at h; cases h; simp
  | r :: rs, b, b', h, hnd, hfresh => by
    simp only [List.map_cons, List.nodup_cons] at hnd
    simp only [copyRecs] at h
    have hf' : ∀ q ∈ rs, getR (b.recs k) q.id = none := fun q hq => hfresh q (List.mem_cons_of_mem _ hq)
    split at h
    · rename_i hemp
      obtain ⟨e1, e2⟩ := copyRecs_recs k ids ph rs b b' h hnd.2 hf'
      refine ⟨?_, e2⟩
      rw [e1]; simp [keepRec, hemp]
    · rename_i hemp
      obtain ⟨b1, h1, h2⟩ := Res.bind_eq_ok.1 h
      cases hts : Group.bitand r.hpos ids with
      | nil =>
        rw [hts] at h1
        simp only [annotateAll] at h1; cases h1
        obtain ⟨e1, e2⟩ := copyRecs_recs k ids ph rs b b' h2 hnd.2 hf'
        refine ⟨?_, e2⟩
        rw [e1]; simp [keepRec, hemp, hts]
      | cons t ts =>
        rw [hts] at h1
        obtain ⟨a1, a2⟩ := annotateAll_fresh k r t ts b b1 h1 (hfresh r List.mem_cons_self)
        have hf1 : ∀ q ∈ rs, getR (b1.recs k) q.id = none := by
          intro q hq
          rw [a1, getR_append_p, hf' q hq]
          have : r.id ≠ q.id := fun e => hnd.1 (List.mem_map.2 ⟨q, hq, e.symm⟩)
          simp [this]
        obtain ⟨e1, e2⟩ := copyRecs_recs k ids ph rs b1 b' h2 hnd.2 hf1
        refine ⟨?_, fun k' hk => (e2 k' hk).trans (a2 k' hk)⟩
        rw [e1, a1]; simp [keepRec, hemp, hts]



/-- the three record maps are untouched -/
def RecsEq (o o' : Onto) : Prop := o'.genes = o.genes ∧ o'.omim = o.omim ∧ o'.orpha = o.orpha

theorem RecsEq.refl (o : Onto) : RecsEq o o := ⟨rfl, rfl, rfl⟩
theorem RecsEq.trans {a b c : Onto} (h1 : RecsEq a b) (h2 : RecsEq b c) : RecsEq a c :=
  ⟨h2.1.trans h1.1, h2.2.1.trans h1.2.1, h2.2.2.trans h1.2.2⟩
theorem RecsEq.recs {o o' : Onto} (h : RecsEq o o') (k : Kind) : o'.recs k = o.recs k := by
  cases k
  · exact h.1
  · exact h.2.1
  · exact h.2.2

theorem cacheFold_recs {rec : Onto → Nat → Res Onto}
    (hrec : ∀ o i o', rec o i = .ok o' → RecsEq o o') :
    ∀ (ps : List Nat) (o : Onto) (acc : List Nat) (r : Onto × List Nat),
    cacheFold rec ps o acc = .ok r → RecsEq o r.1
  | [], o, acc, r, h => by simp only [cacheFold] at h; cases h; exact RecsEq.refl _
  | p :: ps, o, acc, r, h => by
    simp only [cacheFold] at h
    split at h
    · cases h
    · obtain ⟨o1, h1, h2⟩ := Res.bind_eq_ok.1 h
      have f1 : RecsEq o o1 := by
        split at h1
        · cases h1; exact RecsEq.refl _
        · exact hrec _ _ _ h1
      split at h2
      · cases h2
      · exact f1.trans (cacheFold_recs hrec ps o1 _ r h2)

theorem createCache_recs : ∀ (fuel : Nat) (o : Onto) (i : Nat) (o' : Onto),
    createCache fuel o i = .ok o' → RecsEq o o'
  | 0, _, _, _, h => by simp [createCache] at h
  | fuel + 1, o, i, o', h => by
    simp only [createCache] at h
    split at h
    · cases h
    · obtain ⟨r, h1, h2⟩ := Res.bind_eq_ok.1 h
      have f1 := cacheFold_recs (createCache_recs fuel) _ _ _ _ h1
      split at h2
      · cases h2
      · rename_i o2 hm
        cases h2
        refine f1.trans (modUnchecked_frame ?_ hm).2
        intro t; rfl

theorem connectFold_recs (fuel : Nat) : ∀ (is : List Nat) (o o' : Onto),
    connectFold fuel is o = .ok o' → RecsEq o o'
  | [], o, o', h => by simp only [connectFold] at h; cases h; exact RecsEq.refl _
  | i :: is, o, o', h => by
    simp only [connectFold] at h
    obtain ⟨o1, h1, h2⟩ := Res.bind_eq_ok.1 h
    exact (createCache_recs _ _ _ _ h1).trans (connectFold_recs fuel is o1 o' h2)

/-- the records of a sub-ontology built from the id set `ids` -/
theorem subOntologyOf_recs {o o' : Onto} {phen : Onto → Term → Bool} {ids : List Nat}
    (h : subOntologyOf o phen ids = .ok o') (hnd : ids.Nodup) (hid : ∀ i ∈ ids, (o.srcTerm i).id = i)
    (hrecs : ∀ k, ((o.recs k).map (·.id)).Nodup) (k : Kind) :
    o'.recs k = (o.recs k).filterMap (keepRec ids (phenotypeIds o phen ids)) := by
  unfold subOntologyOf at h
  split at h
  · cases h
  · rename_i b1 hb1
    split at h
    · cases h
    · rename_i b2 hb2
      obtain ⟨b3, h3, h⟩ := Res.bind_eq_ok.1 h
      obtain ⟨b4, h4, h⟩ := Res.bind_eq_ok.1 h
      obtain ⟨b5, h5, h⟩ := Res.bind_eq_ok.1 h
      obtain ⟨b6, h6, h⟩ := Res.bind_eq_ok.1 h
      obtain ⟨b7, h7, h⟩ := Res.bind_eq_ok.1 h
      cases h
      obtain ⟨_, _, g1, g2, g3, _⟩ := copyTerms_spec o ids {} b1 hb1 hid hnd (by intro i _; rfl)
      obtain ⟨_, l1, l2, l3⟩ := linkInduced_rel o ids ids b1 b2 hb2
      have c3 : RecsEq b2 b3 := connectFold_recs _ _ _ _ h3
      have e3 : ∀ k, b3.recs k = [] := by
        intro k
        rw [c3.recs k]
        cases k
        · exact l1.trans g1
        · exact l2.trans g2
        · exact l3.trans g3
      have fresh : ∀ (b : Onto) k, b.recs k = [] → ∀ r ∈ o.recs k, getR (b.recs k) r.id = none := by
        intro b k hb r _; rw [hb]; rfl
      obtain ⟨a4, o4⟩ := copyRecs_recs .gene ids _ _ b3 b4 h4 (hrecs .gene) (fresh b3 .gene (e3 .gene))
      have e4o : b4.recs .omim = [] := (o4 .omim (by decide)).trans (e3 .omim)
      have e4r : b4.recs .orpha = [] := (o4 .orpha (by decide)).trans (e3 .orpha)
      obtain ⟨a5, o5⟩ := copyRecs_recs .omim ids _ _ b4 b5 h5 (hrecs .omim) (fresh b4 .omim e4o)
      have e5r : b5.recs .orpha = [] := (o5 .orpha (by decide)).trans e4r
      obtain ⟨a6, o6⟩ := copyRecs_recs .orpha ids _ _ b5 b6 h6 (hrecs .orpha) (fresh b5 .orpha e5r)
      have f7 := calcIc_frame h7
      have hfin : (b7.buildMinimal).recs k = b6.recs k := by
        have : (b7.buildMinimal).recs k = b7.recs k := by cases k <;> rfl
        rw [this, f7.recs k]
      rw [hfin]
      cases k
      · rw [o6 .gene (by decide), o5 .gene (by decide), a4, e3 .gene]; rfl
      · rw [o6 .omim (by decide), a5, e4o]; rfl
      · rw [a6, e5r]; rfl


theorem keepRec_some {ids ph : List Nat} {r r' : Rec} (h : keepRec ids ph r = some r') :
    r'.id = r.id ∧ r'.name = r.name ∧ r'.hpos = Group.insertAll [] (Group.bitand r.hpos ids) ∧
    (Group.bitand r.hpos ph).isEmpty = false := by
  unfold keepRec at h
  split at h
  · cases h
  · rename_i hemp
    split at h
    · cases h
    · rename_i t ts hts
      cases h
      exact ⟨rfl, rfl, by rw [hts], by simpa using hemp⟩

theorem keepRec_isSome {ids ph : List Nat} (hsub : ∀ x ∈ ph, x ∈ ids) {r : Rec}
    (h : (Group.bitand r.hpos ph).isEmpty = false) : ∃ r', keepRec ids ph r = some r' := by
  unfold keepRec
  simp only [h, Bool.false_eq_true, if_false]
  cases hb : Group.bitand r.hpos ph with
  | nil => rw [hb] at h; cases h
  | cons d ds =>
    have hd : d ∈ Group.bitand r.hpos ph := by rw [hb]; exact List.mem_cons_self
    obtain ⟨h1, h2⟩ := (Group.mem_bitand _ _ _).1 hd
    have : d ∈ Group.bitand r.hpos ids := (Group.mem_bitand _ _ _).2 ⟨h1, hsub d h2⟩
    cases hts : Group.bitand r.hpos ids with
    | nil => rw [hts] at this; cases this
    | cons t ts => exact ⟨_, rfl⟩

theorem eq_of_nodup_map_id : ∀ {rs : List Rec}, (rs.map (·.id)).Nodup → ∀ {a b : Rec}, a ∈ rs → b ∈ rs →
    a.id = b.id → a = b
  | [], _, _, _, ha, _, _ => by cases ha
  | r :: rs, hnd, a, b, ha, hb, he => by
    simp only [List.map_cons, List.nodup_cons] at hnd
    rcases List.mem_cons.1 ha with hae | ha'
    · rcases List.mem_cons.1 hb with hbe | hb'
      · rw [hae, hbe]
      · have : r.id ∈ rs.map (·.id) := List.mem_map.2 ⟨b, hb', by rw [← he, hae]⟩
        exact absurd this hnd.1
    · rcases List.mem_cons.1 hb with hbe | hb'
      · have : r.id ∈ rs.map (·.id) := List.mem_map.2 ⟨a, ha', by rw [he, hbe]⟩
        exact absurd this hnd.1
      · exact eq_of_nodup_map_id hnd.2 ha' hb' he

/-! ### a small ontology with a modifier root (non-vacuity and the pre-fix counterexample)

`1` (root) has the children `5` (a modifier root) and `118`; `200` is a child of `118`.
Gene `7` is annotated only to the modifier root `5`, gene `8` to `5` and to the phenotype term `200`. -/

def modTerms : List Term :=
  [ { id := 1, name := ['A'], children := [5, 118], genes := [7, 8] },
    { id := 5, name := ['M'], parents := [1], allParents := [1], genes := [7, 8] },
    { id := 118, name := ['P'], parents := [1], allParents := [1], children := [200], genes := [8] },
    { id := 200, name := ['x'], parents := [118], allParents := [1, 118], genes := [8], obsolete := true,
      replacement := some 118 } ]

def modOnto : Onto :=
  { terms := modTerms, modifier := [5], categories := [5],
    genes := [{ id := 7, name := ['G'], hpos := [5] }, { id := 8, name := ['H'], hpos := [5, 200] }] }

def modRank (i : Nat) : Nat := if i = 1 then 0 else if i = 200 then 2 else 1

theorem modOnto_wf : PathWF modOnto modRank := pathWF_of_check (by decide)

end Hpo
