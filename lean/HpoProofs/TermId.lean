import HpoModel.TermId
/-! Lemmas for the term-id conversions (core Lean only). -/
namespace Hpo
namespace TermId

theorem digitVal_digitChar (n : Nat) : digitVal (digitChar n) = some (n % 10) := by
  have h : n % 10 < 10 := Nat.mod_lt _ (by decide)
  unfold digitChar
  generalize n % 10 = m at h ⊢
  match m, h with
  | 0, _ => decide
  | 1, _ => decide
  | 2, _ => decide
  | 3, _ => decide
  | 4, _ => decide
  | 5, _ => decide
  | 6, _ => decide
  | 7, _ => decide
  | 8, _ => decide
  | 9, _ => decide

theorem digitChar_ne_plus (n : Nat) : digitChar n ≠ '+' := by
  have h : n % 10 < 10 := Nat.mod_lt _ (by decide)
  unfold digitChar
  generalize n % 10 = m at h ⊢
  match m, h with
  | 0, _ => decide
  | 1, _ => decide
  | 2, _ => decide
  | 3, _ => decide
  | 4, _ => decide
  | 5, _ => decide
  | 6, _ => decide
  | 7, _ => decide
  | 8, _ => decide
  | 9, _ => decide

theorem digitsVal_append (l r : List Char) (acc : Nat) :
    digitsVal (l ++ r) acc = (digitsVal l acc).bind (digitsVal r) := by
  induction l generalizing acc with
  | nil => simp [digitsVal]
  | cons c l ih =>
    simp only [List.cons_append, digitsVal]
    cases digitVal c with
    | none => simp
    | some d => simp [ih]

theorem digitsVal_digitsRev (fuel n : Nat) (h : n < fuel) :
    digitsVal (digitsRev fuel n).reverse 0 = some n := by
  induction fuel generalizing n with
  | zero => omega
  | succ f ih =>
    unfold digitsRev
    split
    · rename_i hn
      simp [digitsVal, digitVal_digitChar]; omega
    · rename_i hn
      have hlt : n / 10 < f := by omega
      rw [List.reverse_cons, digitsVal_append, ih _ hlt]
      simp [digitsVal, digitVal_digitChar]; omega

theorem digitsVal_decimal (n : Nat) : digitsVal (decimal n) 0 = some n :=
  digitsVal_digitsRev (n + 1) n (Nat.lt_succ_self n)

theorem digitsVal_zeros (k : Nat) (l : List Char) :
    digitsVal (List.replicate k '0' ++ l) 0 = digitsVal l 0 := by
  induction k with
  | zero => simp
  | succ k ih =>
    simp only [List.replicate_succ, List.cons_append, digitsVal]
    have : digitVal '0' = some 0 := by decide
    simp [this, ih]

theorem digitsRev_ne_nil (fuel n : Nat) (h : 0 < fuel) : digitsRev fuel n ≠ [] := by
  cases fuel with
  | zero => omega
  | succ f => unfold digitsRev; split <;> simp

theorem decimal_ne_nil (n : Nat) : decimal n ≠ [] := by
  unfold decimal
  simp [digitsRev_ne_nil (n + 1) n (Nat.succ_pos n)]

/-- all characters of the decimal rendering are digit characters -/
theorem digitsRev_digits (fuel n : Nat) : ∀ c ∈ digitsRev fuel n, ∃ k, c = digitChar k := by
  induction fuel generalizing n with
  | zero => simp [digitsRev]
  | succ f ih =>
    unfold digitsRev
    split
    · intro c hc; simp at hc; exact ⟨n, hc⟩
    · intro c hc
      rcases List.mem_cons.1 hc with rfl | hc
      · exact ⟨n, rfl⟩
      · exact ih _ c hc

theorem decimal_digits (n : Nat) : ∀ c ∈ decimal n, ∃ k, c = digitChar k := by
  intro c hc
  unfold decimal at hc
  exact digitsRev_digits _ _ c (List.mem_reverse.1 hc)

theorem digitsRev_length (fuel n : Nat) (h : n < fuel) (k : Nat) (hk : n < 10 ^ (k + 1)) :
    (digitsRev fuel n).length ≤ k + 1 := by
  induction fuel generalizing n k with
  | zero => omega
  | succ f ih =>
    unfold digitsRev
    split
    · simp
    · rename_i hn
      cases k with
      | zero => simp at hk; omega
      | succ k =>
        have : n / 10 < 10 ^ (k + 1) := by
          rw [Nat.div_lt_iff_lt_mul (by decide)]
          calc n < 10 ^ (k + 1 + 1) := hk
            _ = 10 ^ (k + 1) * 10 := by rw [Nat.pow_succ]
        have := ih (n / 10) (by omega) k this
        simp; omega

theorem decimal_length_le (n k : Nat) (hk : n < 10 ^ (k + 1)) : (decimal n).length ≤ k + 1 := by
  unfold decimal
  rw [List.length_reverse]
  exact digitsRev_length _ _ (Nat.lt_succ_self n) k hk

theorem byteLen_pos_of_ne_nil (l : List Char) (h : l ≠ []) : 0 < byteLen l := by
  cases l with
  | nil => exact absurd rfl h
  | cons c l =>
    simp only [byteLen, List.map_cons, List.sum_cons]
    have := c.utf8Size_pos
    omega

theorem byteLen_append (l r : List Char) : byteLen (l ++ r) = byteLen l + byteLen r := by
  simp [byteLen, List.sum_append]

end TermId
end Hpo
