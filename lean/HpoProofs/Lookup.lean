import HpoProofs.Arena
import HpoProofs.BuilderInv
import HpoModel.Lookup
/-! Helper definitions and lemmas for C10: bulk insertion into the arena, the representation
relation of the two-vector arena, substring search. -/
namespace Hpo.C10
open Hpo

/-- inserting a sequence of terms; `none` = a panic (some id ≥ 10^7) -/
def insertAll : List Term → List Term → Option (List Term)
  | [], ts => some ts
  | x :: xs, ts => (arenaInsert ts x).bind (insertAll xs)

theorem arenaInsert_get (ts ts' : List Term) (x : Term) (h : arenaInsert ts x = some ts') (id : Nat) :
    x.id < maxId ∧
    getT ts' id = match getT ts id with
      | some t => some t
      | none => if x.id = id then some x else none := by
  unfold arenaInsert at h
  split at h
  · simp at h
  · rename_i hlt
    refine ⟨by omega, ?_⟩
    split at h
    · rename_i t ht
      simp at h; subst h
      cases hg : getT ts id with
      | some _ => rfl
      | none =>
        have : ¬ x.id = id := by intro e; rw [e] at ht; rw [ht] at hg; cases hg
        simp [this]
    · simp at h; subst h; exact getT_append ts x id

/-- 1-based slot of the first term with the id, 0 if absent -/
def slotOf : List Term → Nat → Nat
  | [], _ => 0
  | t :: ts, i => if t.id = i then 1 else (match slotOf ts i with
    | 0 => 0
    | n + 1 => n + 2)

/-- representation relation between the code's layout and the abstract arena -/
structure Rel (M : Nat) (a : Arena2) (ts : List Term) : Prop where
  terms : a.terms = placeholder :: ts
  size : a.ids.length = M
  table : ∀ id, id < M → a.ids[id]? = some (slotOf ts id)

theorem slotOf_zero_iff (ts : List Term) (i : Nat) : slotOf ts i = 0 ↔ getT ts i = none := by
  induction ts with
  | nil => simp [slotOf, getT]
  | cons t ts ih =>
    simp only [slotOf, getT]
    split
    · simp
    · rw [← ih]
      cases slotOf ts i <;> simp

theorem slotOf_le (ts : List Term) (i : Nat) : slotOf ts i ≤ ts.length := by
  induction ts with
  | nil => simp [slotOf]
  | cons t ts ih =>
    simp only [slotOf, List.length_cons]
    split
    · omega
    · cases h : slotOf ts i with
      | zero => simp
      | succ n => simp only; rw [h] at ih; omega

theorem get_slot (ts : List Term) (i : Nat) (p : Term) (h : slotOf ts i ≠ 0) :
    (p :: ts)[slotOf ts i]? = getT ts i := by
  induction ts with
  | nil => simp [slotOf] at h
  | cons t ts ih =>
    by_cases hti : t.id = i
    · simp [slotOf, getT, hti]
    · simp only [slotOf, getT, hti, ↓reduceIte] at h ⊢
      cases hs : slotOf ts i with
      | zero => rw [hs] at h; exact absurd rfl h
      | succ n =>
        simp only
        have := ih (by rw [hs]; simp)
        rw [hs] at this
        simpa using this

theorem slotOf_append (ts : List Term) (t : Term) (i : Nat) :
    slotOf (ts ++ [t]) i =
      if slotOf ts i ≠ 0 then slotOf ts i else if t.id = i then ts.length + 1 else 0 := by
  induction ts with
  | nil => simp [slotOf]
  | cons u ts ih =>
    by_cases hui : u.id = i
    · simp [slotOf, hui]
    · simp only [List.cons_append, slotOf, hui, ↓reduceIte, List.length_cons]
      rw [ih]
      cases hs : slotOf ts i with
      | zero =>
        by_cases hti : t.id = i
        · simp [hti]
        · simp [hti]
      | succ n => simp

theorem isInfix_iff (q l : List Char) : isInfix q l = true ↔ ∃ s t, l = s ++ q ++ t := by
  induction l with
  | nil =>
    simp only [isInfix, List.isEmpty_iff]
    constructor
    · intro h; exact ⟨[], [], by simp [h]⟩
    · rintro ⟨s, t, h⟩
      have := congrArg List.length h
      simp at this
      exact List.eq_nil_of_length_eq_zero (by omega)
  | cons c cs ih =>
    simp only [isInfix, Bool.or_eq_true, ih, List.isPrefixOf_iff_prefix]
    constructor
    · rintro (⟨t, ht⟩ | ⟨s, t, h⟩)
      · exact ⟨[], t, by simp [ht]⟩
      · exact ⟨c :: s, t, by simp [h]⟩
    · rintro ⟨s, t, h⟩
      cases s with
      | nil => left; exact ⟨t, by simpa using h.symm⟩
      | cons d s =>
        right
        simp only [List.cons_append, List.cons.injEq] at h
        exact ⟨s, t, by simpa using h.2⟩

end Hpo.C10
