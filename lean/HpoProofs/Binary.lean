import HpoModel.Binary
/-! Lemmas for the byte-level model: framing (`u32be`, `sec`), record-level inverses, the generic
record walk (core Lean only). -/
namespace Hpo
namespace Binary
open Proto (utf8 utf8Decode)

/-! ### primitives -/

@[simp] theorem geLen_eq (bs : Bytes) (n : Nat) : geLen bs n = decide (n ≤ bs.length) := by
  fun_induction geLen bs n <;> simp_all

theorem be32_u32be (n : Nat) (h : n < 4294967296) :
    be32 (UInt8.ofNat (n / 16777216)) (UInt8.ofNat (n / 65536)) (UInt8.ofNat (n / 256)) (UInt8.ofNat n) = n := by
  simp only [be32, UInt8.toNat_ofNat']
  omega

theorem be32_lt (a b c d : UInt8) : be32 a b c d < 4294967296 := by
  have := a.toNat_lt; have := b.toNat_lt; have := c.toNat_lt; have := d.toNat_lt
  simp only [be32]; omega

@[simp] theorem u32be_length (n : Nat) : (u32be n).length = 4 := rfl

theorem u32be_append (n : Nat) (r : Bytes) :
    u32be n ++ r = UInt8.ofNat (n / 16777216) :: UInt8.ofNat (n / 65536) :: UInt8.ofNat (n / 256) :: UInt8.ofNat n :: r := rfl

theorem utf8_roundtrip (cs : List Char) : utf8Decode (utf8 cs) = some cs := by
  simp only [utf8Decode, utf8]
  have := @List.utf8Decode?_utf8Encode cs
  simp only [List.utf8Encode] at this
  rw [this]; simp

@[simp] theorem idsBytes_length (is : List Nat) : (idsBytes is).length = 4 * is.length := by
  induction is with
  | nil => rfl
  | cons i is ih => simp [idsBytes, ih]; omega

theorem readIds_idsBytes (is : List Nat) (rest : Bytes) (h : ∀ i ∈ is, i < 4294967296) :
    readIds is.length (idsBytes is ++ rest) = is := by
  induction is with
  | nil => rfl
  | cons i is ih =>
    simp only [idsBytes, u32be, List.cons_append, List.nil_append, List.length_cons, readIds]
    rw [be32_u32be i (h i (by simp)), ih (fun j hj => h j (by simp [hj]))]

/-! ### encodability of records -/

/-- a term record is encodable: id inside the id table, name at most 255 bytes, replacement (if
any) a non-zero u32 (0 is the encoding of "none": finding K3) -/
def TermOK (t : Term) : Prop :=
  t.id < maxId ∧ (utf8 t.name).length ≤ 255 ∧ ∀ r, t.replacement = some r → 0 < r ∧ r < 4294967296

/-- what a v2 / v3 term record carries -/
def cleanTerm (t : Term) : Term :=
  { id := t.id, name := t.name, obsolete := t.obsolete, replacement := t.replacement }

/-- what a v1 term record carries -/
def plainTerm (t : Term) : Term := { id := t.id, name := t.name }

/-- what format version `fv` carries of a term -/
def projTerm (fv : Nat) (t : Term) : Term := if fv = 1 then plainTerm t else cleanTerm t

def GeneOK (r : Rec) : Prop :=
  r.id < 4294967296 ∧ (utf8 r.name).length ≤ 255 ∧ r.hpos.length < 1000000000 ∧ ∀ i ∈ r.hpos, i < 4294967296

def DiseaseOK (r : Rec) : Prop :=
  r.id < 4294967296 ∧ (utf8 r.name).length < 100000000 ∧ r.hpos.length < 1000000000 ∧ ∀ i ∈ r.hpos, i < 4294967296

def ParentsOK (p : Nat × List Nat) : Prop :=
  p.1 < 4294967296 ∧ p.2.length < 1000000000 ∧ ∀ i ∈ p.2, i < 4294967296

theorem maxId_lt : maxId < 4294967296 := by decide

/-! ### record-level inverses -/

theorem ofNat_toNat_small (n : Nat) (h : n ≤ 255) : (UInt8.ofNat n).toNat = n := by
  simp only [UInt8.toNat_ofNat']; omega

theorem decTermV2_enc (fv : Nat) (hfv : fv ≠ 1) (t : Term) (h : TermOK t) (rest : Bytes) :
    decTermV2 (encTerm fv t ++ rest) = .ok (cleanTerm t) := by
  obtain ⟨hid, hname, hrepl⟩ := h
  have hid' : t.id < 4294967296 := Nat.lt_trans hid maxId_lt
  simp only [encTerm, hfv, if_false, u32be, List.cons_append, List.nil_append, List.append_assoc, decTermV2]
  rw [ofNat_toNat_small _ hname, be32_u32be _ hid']
  rw [List.take_left' rfl, List.drop_left' rfl, utf8_roundtrip]
  have hlen : (utf8 t.name).length + 5 ≤ (utf8 t.name ++ ((if t.obsolete = true then (1 : UInt8) else 0) ::
      UInt8.ofNat (t.replacement.getD 0 / 16777216) :: UInt8.ofNat (t.replacement.getD 0 / 65536) ::
      UInt8.ofNat (t.replacement.getD 0 / 256) :: UInt8.ofNat (t.replacement.getD 0) :: rest)).length := by
    simp only [List.length_append, List.length_cons]; omega
  simp only [geLen_eq, hlen, decide_true, Bool.not_true, Bool.false_eq_true, if_false]
  have hr : t.replacement.getD 0 < 4294967296 := by
    cases hrp : t.replacement with
    | none => simp
    | some r => simpa using (hrepl r hrp).2
  rw [be32_u32be _ hr]
  simp only [cleanTerm]
  congr 2
  · cases t.obsolete <;> simp
  · cases hrp : t.replacement with
    | none => simp
    | some r => have := (hrepl r hrp).1; simp; omega

theorem decTermV1_enc (t : Term) (h : TermOK t) (rest : Bytes) :
    decTermV1 (encTerm 1 t ++ rest) = .ok (plainTerm t) := by
  obtain ⟨hid, hname, _⟩ := h
  have hid' : t.id < 4294967296 := Nat.lt_trans hid maxId_lt
  simp only [encTerm, ↓reduceIte, u32be, List.cons_append, List.nil_append]
  simp only [decTermV1]
  rw [ofNat_toNat_small _ hname, be32_u32be _ hid', be32_u32be _ (by omega)]
  have e : (utf8 t.name).length + 9 - 9 = (utf8 t.name).length := by omega
  rw [e, List.take_left' rfl, utf8_roundtrip]
  simp [plainTerm]

theorem decTerm_enc (fv : Nat) (t : Term) (h : TermOK t) (rest : Bytes) :
    decTerm fv (encTerm fv t ++ rest) = .ok (projTerm fv t) := by
  by_cases hfv : fv = 1
  · subst hfv; simp [decTerm, projTerm, decTermV1_enc t h rest]
  · simp [decTerm, projTerm, hfv, decTermV2_enc fv hfv t h rest]

theorem encTerm_length (fv : Nat) (t : Term) :
    (encTerm fv t).length = (utf8 t.name).length + (if fv = 1 then 9 else 14) := by
  by_cases hfv : fv = 1 <;> simp [encTerm, hfv] <;> omega

theorem decGene_enc (r : Rec) (h : GeneOK r) : decGene (encGene r) = .ok r := by
  obtain ⟨hid, hname, hn, hids⟩ := h
  simp only [encGene, u32be, List.cons_append, List.nil_append]
  simp only [decGene]
  simp only [List.length_cons, List.length_append, idsBytes_length]
  rw [ofNat_toNat_small _ hname, be32_u32be _ hid, be32_u32be _ (by omega)]
  rw [List.take_left' rfl, List.drop_left' rfl, utf8_roundtrip]
  simp only [geLen_eq, List.length_append, List.length_cons, idsBytes_length]
  rw [be32_u32be _ (by omega)]
  have := readIds_idsBytes r.hpos [] hids
  simp only [List.append_nil] at this
  rw [this]
  have h1 : 4 ≤ (utf8 r.name).length + (4 * r.hpos.length + 1 + 1 + 1 + 1) := by omega
  have h2 : (utf8 r.name).length + 4 ≤ (utf8 r.name).length + (4 * r.hpos.length + 1 + 1 + 1 + 1) := by omega
  have h3 : (utf8 r.name).length + (4 * r.hpos.length + 1 + 1 + 1 + 1) + 1 + 1 + 1 + 1 + 1 + 1 + 1 + 1 + 1 =
      13 + (utf8 r.name).length + 4 * r.hpos.length := by omega
  simp [h1, h2, h3]

theorem decDisease_enc (r : Rec) (h : DiseaseOK r) : decDisease (encDisease r) = .ok r := by
  obtain ⟨hid, hname, hn, hids⟩ := h
  simp only [encDisease, u32be, List.cons_append, List.nil_append]
  simp only [decDisease]
  simp only [List.length_cons, List.length_append, idsBytes_length]
  rw [be32_u32be _ hid, be32_u32be _ (by omega), be32_u32be _ (by omega)]
  rw [List.take_left' rfl, List.drop_left' rfl, utf8_roundtrip]
  simp only [geLen_eq, List.length_append, List.length_cons, idsBytes_length]
  rw [be32_u32be _ (by omega)]
  have := readIds_idsBytes r.hpos [] hids
  simp only [List.append_nil] at this
  rw [this]
  have h1 : 4 ≤ (utf8 r.name).length + (4 * r.hpos.length + 1 + 1 + 1 + 1) := by omega
  have h2 : (utf8 r.name).length + 4 ≤ (utf8 r.name).length + (4 * r.hpos.length + 1 + 1 + 1 + 1) := by omega
  have h3 : (utf8 r.name).length + (4 * r.hpos.length + 1 + 1 + 1 + 1) + 1 + 1 + 1 + 1 + 1 + 1 + 1 + 1 + 1 + 1 + 1 + 1 =
      16 + (utf8 r.name).length + 4 * r.hpos.length := by omega
  simp [h1, h2, h3]

theorem encGene_length (r : Rec) : (encGene r).length = 13 + (utf8 r.name).length + 4 * r.hpos.length := by
  simp [encGene]; omega

theorem encDisease_length (r : Rec) : (encDisease r).length = 16 + (utf8 r.name).length + 4 * r.hpos.length := by
  simp [encDisease]; omega

theorem encParents_length (p : Nat × List Nat) : (encParents p).length = 8 + 4 * p.2.length := by
  simp [encParents]; omega

/-! ### steps of the walks -/

theorem stepTerm_enc (fv : Nat) (t : Term) (h : TermOK t) (rest : Bytes) :
    stepTerm fv (encTerm fv t ++ rest) = .ok (projTerm fv t, (encTerm fv t).length - 1) := by
  have hd := decTerm_enc fv t h rest
  have hL := encTerm_length fv t
  have hname := h.2.1
  have hid : (projTerm fv t).id < maxId := by
    unfold projTerm; split <;> exact h.1
  have hlen : (encTerm fv t).length < 4294967296 := by rw [hL]; split <;> omega
  have hpos : 0 < (encTerm fv t).length := by rw [hL]; split <;> omega
  -- the record starts with its own length
  have hshape : ∃ e r, encTerm fv t ++ rest = UInt8.ofNat ((encTerm fv t).length / 16777216) ::
      UInt8.ofNat ((encTerm fv t).length / 65536) :: UInt8.ofNat ((encTerm fv t).length / 256) ::
      UInt8.ofNat (encTerm fv t).length :: e :: r := by
    rw [hL]
    by_cases hfv : fv = 1
    · subst hfv
      simp only [encTerm, ↓reduceIte, u32be, List.cons_append, List.nil_append]
      exact ⟨_, _, rfl⟩
    · simp only [encTerm, hfv, ↓reduceIte, u32be, List.cons_append, List.nil_append]
      exact ⟨_, _, rfl⟩
  obtain ⟨e, r, hs⟩ := hshape
  have hge : (encTerm fv t).length ≤ (encTerm fv t ++ rest).length := by simp
  rw [hs] at hd hge
  rw [hs]
  simp only [stepTerm]
  rw [be32_u32be _ hlen, hd]
  simp only [geLen_eq, hge, decide_true, Bool.not_true, Bool.false_eq_true, ↓reduceIte]
  have h1 : ¬ (projTerm fv t).id ≥ maxId := by omega
  have h2 : ¬ (encTerm fv t).length = 0 := by omega
  simp only [h1, h2, ↓reduceIte]

theorem stepParents_enc (p : Nat × List Nat) (h : ParentsOK p) (rest : Bytes) :
    stepParents (encParents p ++ rest) = .ok (p, (encParents p).length - 1) := by
  obtain ⟨hid, hn, hids⟩ := h
  rw [encParents_length]
  simp only [encParents, u32be, List.cons_append, List.nil_append]
  simp only [stepParents]
  rw [be32_u32be _ hid, be32_u32be _ (by omega), readIds_idsBytes _ _ hids]
  simp only [geLen_eq, List.length_append, idsBytes_length]
  have h1 : 4 * p.2.length ≤ 4 * p.2.length + rest.length := by omega
  have h2 : 7 + 4 * p.2.length = 8 + 4 * p.2.length - 1 := by omega
  simp only [h1, decide_true, Bool.not_true, Bool.false_eq_true, ↓reduceIte, h2]

theorem stepRec_enc (dec : Bytes → Res Rec) (enc : Rec → Bytes) (r : Rec) (rest : Bytes)
    (hdec : dec (enc r) = .ok r) (hlen : (enc r).length < 4294967296)
    (hshape : ∃ tl, enc r = u32be (enc r).length ++ tl) :
    stepRec dec (enc r ++ rest) = .ok (r, (enc r).length - 1) := by
  obtain ⟨tl, hs⟩ := hshape
  have hpos : 0 < (enc r).length := by rw [hs]; simp; omega
  have htake : (enc r ++ rest).take (enc r).length = enc r := List.take_left' rfl
  have hge : (enc r).length ≤ (enc r ++ rest).length := by simp
  generalize hL : (enc r).length = L at *
  rw [hs] at htake hge hdec ⊢
  simp only [u32be, List.cons_append, List.nil_append] at htake hge hdec ⊢
  simp only [stepRec]
  rw [be32_u32be _ hlen, htake, hdec]
  have h2 : ¬ L = 0 := by omega
  simp only [geLen_eq, hge, decide_true, Bool.not_true, Bool.false_eq_true, ↓reduceIte, h2]

/-! ### the generic walk -/

theorem walk_nil {α : Type} (step : Bytes → Res (α × Nat)) : walk step [] = .ok [] := by
  rw [walk]; simp

theorem walk_cons {α : Type} (step : Bytes → Res (α × Nat)) (e rest : Bytes) (x : α)
    (hne : 0 < e.length) (hstep : step (e ++ rest) = .ok (x, e.length - 1)) :
    walk step (e ++ rest) = (walk step rest).bind fun xs => .ok (x :: xs) := by
  rw [walk]
  have : e ++ rest ≠ [] := by
    cases e with
    | nil => simp at hne
    | cons a e' => simp
  simp only [this, dite_false, hstep]
  have e1 : e.length - 1 + 1 = e.length := by omega
  rw [e1, List.drop_left' rfl]

theorem walk_encList {α β : Type} (step : Bytes → Res (β × Nat)) (enc : α → Bytes) (proj : α → β)
    (xs : List α)
    (h : ∀ x ∈ xs, 0 < (enc x).length ∧ ∀ rest, step (enc x ++ rest) = .ok (proj x, (enc x).length - 1)) :
    walk step (encList enc xs) = .ok (xs.map proj) := by
  induction xs with
  | nil => simp [encList, walk_nil]
  | cons x xs ih =>
    have hx := h x (by simp)
    simp only [encList]
    rw [walk_cons step (enc x) (encList enc xs) (proj x) hx.1 (hx.2 _), ih (fun y hy => h y (by simp [hy]))]
    simp [Res.bind]

theorem decodeTerms_enc (fv : Nat) (ts : List Term) (h : ∀ t ∈ ts, TermOK t) :
    decodeTerms fv (encTerms fv ts) = .ok (ts.map (projTerm fv)) := by
  apply walk_encList
  intro t ht
  refine ⟨?_, fun rest => stepTerm_enc fv t (h t ht) rest⟩
  rw [encTerm_length]; split <;> omega

theorem decodeParents_enc (ps : List (Nat × List Nat)) (h : ∀ p ∈ ps, ParentsOK p) :
    decodeParents (encParentRecs ps) = .ok ps := by
  have := walk_encList stepParents encParents id ps (fun p hp =>
    ⟨by rw [encParents_length]; omega, fun rest => stepParents_enc p (h p hp) rest⟩)
  simpa [decodeParents, encParentRecs] using this

theorem decodeGenes_enc (rs : List Rec) (h : ∀ r ∈ rs, GeneOK r) :
    decodeRecs decGene (encRecs encGene rs) = .ok rs := by
  have := walk_encList (stepRec decGene) encGene id rs (fun r hr => by
    have hr' := h r hr
    have hL := encGene_length r
    refine ⟨by omega, fun rest => stepRec_enc decGene encGene r rest (decGene_enc r hr') ?_ ?_⟩
    · obtain ⟨_, h2, h3, _⟩ := hr'; omega
    · rw [hL]; exact ⟨_, rfl⟩)
  simpa [decodeRecs, encRecs] using this

theorem decodeDiseases_enc (rs : List Rec) (h : ∀ r ∈ rs, DiseaseOK r) :
    decodeRecs decDisease (encRecs encDisease rs) = .ok rs := by
  have := walk_encList (stepRec decDisease) encDisease id rs (fun r hr => by
    have hr' := h r hr
    have hL := encDisease_length r
    refine ⟨by omega, fun rest => stepRec_enc decDisease encDisease r rest (decDisease_enc r hr') ?_ ?_⟩
    · obtain ⟨_, h2, h3, _⟩ := hr'; omega
    · rw [hL]; exact ⟨_, rfl⟩)
  simpa [decodeRecs, encRecs] using this

/-! ### section framing -/

theorem takeSection_sec (x rest : Bytes) (h : x.length < 4294967296) :
    takeSection (sec x ++ rest) = .ok (x, rest) := by
  simp only [sec, u32be, List.cons_append, List.nil_append]
  simp only [takeSection]
  rw [be32_u32be _ h, List.take_left' rfl, List.drop_left' rfl]
  simp

@[simp] theorem sec_length (x : Bytes) : (sec x).length = 4 + x.length := by
  simp [sec, Nat.add_comm]

/-! ### whole files -/

/-- encodability of a set of records in format version `fv` (everything the layouts have a fixed
width for fits; section payloads are below 2^32 bytes) -/
structure FactsOK (fv : Nat) (f : RawFacts) : Prop where
  ver : f.version.1 < 65536 ∧ f.version.2.1 < 256 ∧ f.version.2.2 < 256
  terms : ∀ t ∈ f.terms, TermOK t
  parents : ∀ p ∈ f.parents, ParentsOK p
  genes : ∀ r ∈ f.genes, GeneOK r
  omim : ∀ r ∈ f.omim, DiseaseOK r
  orpha : ∀ r ∈ f.orpha, DiseaseOK r
  termsLen : (encTerms fv f.terms).length < 4294967296
  parentsLen : (encParentRecs f.parents).length < 4294967296
  genesLen : (encRecs encGene f.genes).length < 4294967296
  omimLen : (encRecs encDisease f.omim).length < 4294967296
  orphaLen : (encRecs encDisease f.orpha).length < 4294967296

/-- what a file of format version `fv` carries of the records: v1 no release version, obsolete
flags, replacements, ORPHA section; v2 no ORPHA section -/
def projFacts (fv : Nat) (f : RawFacts) : RawFacts :=
  { version := if fv = 1 then (0, 0, 0) else f.version
    terms := f.terms.map (projTerm fv)
    parents := f.parents
    genes := f.genes
    omim := f.omim
    orpha := if fv > 2 then f.orpha else [] }

/-- the release version field of v2 / v3 -/
def verBytes (v : Nat × Nat × Nat) : Bytes :=
  [UInt8.ofNat (v.1 / 256), UInt8.ofNat v.1, UInt8.ofNat v.2.1, UInt8.ofNat v.2.2]

theorem hpoVersion_enc (fv : Nat) (h1 : fv ≠ 1) (v : Nat × Nat × Nat)
    (hv : v.1 < 65536 ∧ v.2.1 < 256 ∧ v.2.2 < 256) (rest : Bytes) :
    hpoVersion fv (verBytes v ++ rest) = .ok (v, rest) := by
  obtain ⟨a, b, c⟩ := hv
  simp only [verBytes, List.cons_append, List.nil_append]
  simp only [hpoVersion, h1, ↓reduceIte, UInt8.toNat_ofNat']
  have e1 : v.1 / 256 % 2 ^ 8 * 256 + v.1 % 2 ^ 8 = v.1 := by omega
  have e2 : v.2.1 % 2 ^ 8 = v.2.1 := by omega
  have e3 : v.2.2 % 2 ^ 8 = v.2.2 := by omega
  rw [e1, e2, e3]

/-- the data after magic + version byte (all of the file for v1) -/
def encBody (fv : Nat) (f : RawFacts) : Bytes :=
  (if fv = 1 then [] else verBytes f.version) ++ encSections fv f

/-- decoding the sections of an encoded file followed by arbitrary bytes `tail`: all records come
back; `tail` is what the final length check sees -/
theorem decodeRaw_enc (fv : Nat) (f : RawFacts) (h : FactsOK fv f)
    (tail : Bytes) :
    decodeRaw fv (encBody fv f ++ tail) = finish (projFacts fv f) tail := by
  have hv : hpoVersion fv (encBody fv f ++ tail) =
      .ok ((if fv = 1 then (0, 0, 0) else f.version), encSections fv f ++ tail) := by
    by_cases h1 : fv = 1
    · simp [encBody, h1, hpoVersion]
    · simp only [encBody, h1, ↓reduceIte, List.append_assoc]
      exact hpoVersion_enc fv h1 f.version h.ver _
  simp only [decodeRaw, decodeSections, hv, Res.bind]
  simp only [encSections, List.append_assoc]
  rw [takeSection_sec _ _ h.termsLen]
  simp only [decodeTerms_enc fv f.terms h.terms]
  rw [takeSection_sec _ _ h.parentsLen]
  simp only [decodeParents_enc f.parents h.parents]
  rw [takeSection_sec _ _ h.genesLen]
  simp only [decodeGenes_enc f.genes h.genes]
  rw [takeSection_sec _ _ h.omimLen]
  simp only [decodeDiseases_enc f.omim h.omim]
  by_cases h3 : fv > 2
  · simp only [h3, ↓reduceIte, orphaSection, Res.bind]
    rw [takeSection_sec _ _ h.orphaLen]
    simp only [decodeDiseases_enc f.orpha h.orpha, projFacts, h3, ↓reduceIte]
  · simp only [h3, ↓reduceIte, orphaSection, List.nil_append, projFacts]

/-! ### the format version -/

theorem version_magic (v : UInt8) (rest : Bytes) (h : rest ≠ []) :
    version (magic ++ v :: rest) =
      if v = 3 then .ok (3, rest) else if v = 2 then .ok (2, rest) else .err .notImplemented := by
  cases rest with
  | nil => exact absurd rfl h
  | cons a r => simp [version, magic]

theorem version_short (p : Bytes) (h : p.length < 5) : version p = .err .parseBinary := by
  have : ¬ 5 ≤ p.length := by omega
  simp [version, this]

theorem version_v1 (p full : Bytes) (hp : p <+: full) (hlen : 5 ≤ p.length) (hm : full.take 3 ≠ magic) :
    version p = .ok (1, p) := by
  obtain ⟨t, rfl⟩ := hp
  rcases p with _ | ⟨a, _ | ⟨b, _ | ⟨c, _ | ⟨d, _ | ⟨e, q⟩⟩⟩⟩⟩ <;> simp at hlen
  simp only [List.cons_append, List.take_succ_cons, List.take_zero] at hm
  simp [version, hm]

theorem take3_ne_magic (n : Nat) (y : Bytes) (h : n < 0x48504f00) : (u32be n ++ y).take 3 ≠ magic := by
  simp only [u32be, List.cons_append, List.take_succ_cons, List.take_zero, magic]
  intro hh
  simp only [List.cons.injEq, and_true] at hh
  obtain ⟨h1, h2, h3⟩ := hh
  have h1 := congrArg UInt8.toNat h1
  have h2 := congrArg UInt8.toNat h2
  have h3 := congrArg UInt8.toNat h3
  simp only [UInt8.toNat_ofNat'] at h1 h2 h3
  have e1 : (72 : UInt8).toNat = 72 := rfl
  have e2 : (80 : UInt8).toNat = 80 := rfl
  have e3 : (79 : UInt8).toNat = 79 := rfl
  omega

/-! ### proper prefixes -/

theorem prefix_append_cases {α : Type} (p a b : List α) (h : p <+: a ++ b) :
    (p.length < a.length ∧ p <+: a) ∨ ∃ p', p = a ++ p' ∧ p' <+: b := by
  obtain ⟨t, ht⟩ := h
  rcases List.append_eq_append_iff.1 ht with ⟨a', ha, hb⟩ | ⟨c', hp, hb⟩
  · -- a = p ++ a'
    by_cases hnil : a' = []
    · subst hnil
      right
      refine ⟨[], by simpa using ha.symm, List.nil_prefix⟩
    · left
      subst ha
      refine ⟨?_, List.prefix_append _ _⟩
      have : 0 < a'.length := List.length_pos_iff.2 hnil
      simp; omega
  · right
    exact ⟨c', hp, ⟨t, hb.symm⟩⟩

/-- a section whose header or payload is cut: the slice of `from_bytes` is out of range -/
theorem takeSection_short (p y : Bytes) (n : Nat) (hn : n < 4294967296) (hp : p <+: u32be n ++ y)
    (hlen : p.length < 4 + n) : takeSection p = .panic := by
  obtain ⟨t, ht⟩ := hp
  rcases p with _ | ⟨a, _ | ⟨b, _ | ⟨c, _ | ⟨d, q⟩⟩⟩⟩
  · simp [takeSection]
  · simp [takeSection]
  · simp [takeSection]
  · simp [takeSection]
  · simp only [u32be, List.cons_append, List.nil_append, List.cons.injEq] at ht
    obtain ⟨rfl, rfl, rfl, rfl, _⟩ := ht
    simp only [takeSection]
    rw [be32_u32be _ hn]
    have : ¬ n ≤ q.length := by simp at hlen; omega
    simp [this]

/-- a proper prefix of `sec x ++ rest`: the slice panics, or the section is complete and what is
left is a proper prefix of `rest` -/
theorem takeSection_prefix (p x rest : Bytes) (hx : x.length < 4294967296) (hp : p <+: sec x ++ rest)
    (hne : p ≠ sec x ++ rest) :
    takeSection p = .panic ∨ ∃ p', p = sec x ++ p' ∧ p' <+: rest ∧ p' ≠ rest := by
  rcases prefix_append_cases p (sec x) rest hp with ⟨hl, hpre⟩ | ⟨p', rfl, hp'⟩
  · left
    have : p <+: u32be x.length ++ x := hpre
    apply takeSection_short p x x.length hx this
    simpa using hl
  · right
    refine ⟨p', rfl, hp', ?_⟩
    intro h; exact hne (by rw [h])

theorem hpoVersion_short (fv : Nat) (h1 : fv ≠ 1) (p : Bytes) (h : p.length < 4) :
    ¬ (hpoVersion fv p).isOk := by
  rcases p with _ | ⟨a, _ | ⟨b, _ | ⟨c, _ | ⟨d, q⟩⟩⟩⟩ <;> simp [hpoVersion, h1, Res.isOk] at h ⊢
  omega

theorem not_ok_bind {α β : Type} (r : Res α) (k : α → Res β) (h : r.isOk = false) :
    (r.bind k).isOk = false := by
  cases r <;> simp_all [Res.bind, Res.isOk]

/-- every proper prefix of the sections of an encoded file is rejected: a cut header or payload
makes a slice panic; a complete section leaves a proper prefix of the remaining sections -/
theorem decodeSections_prefix (fv : Nat) (ver : Nat × Nat × Nat) (f : RawFacts) (h : FactsOK fv f)
    (p : Bytes) (hp : p <+: encSections fv f) (hne : p ≠ encSections fv f) :
    (decodeSections fv ver p).isOk = false := by
  simp only [encSections] at hp hne
  rcases takeSection_prefix p _ _ h.termsLen hp hne with hpan | ⟨p1, rfl, hp1, hne1⟩
  · simp [decodeSections, hpan, Res.bind, Res.isOk]
  simp only [decodeSections]
  rw [takeSection_sec _ _ h.termsLen]
  simp only [Res.bind, decodeTerms_enc fv f.terms h.terms]
  rcases takeSection_prefix p1 _ _ h.parentsLen hp1 hne1 with hpan | ⟨p2, rfl, hp2, hne2⟩
  · simp [hpan, Res.isOk]
  rw [takeSection_sec _ _ h.parentsLen]
  simp only [decodeParents_enc f.parents h.parents]
  rcases takeSection_prefix p2 _ _ h.genesLen hp2 hne2 with hpan | ⟨p3, rfl, hp3, hne3⟩
  · simp [hpan, Res.isOk]
  rw [takeSection_sec _ _ h.genesLen]
  simp only [decodeGenes_enc f.genes h.genes]
  rcases takeSection_prefix p3 _ _ h.omimLen hp3 hne3 with hpan | ⟨p4, rfl, hp4, hne4⟩
  · simp [hpan, Res.isOk]
  rw [takeSection_sec _ _ h.omimLen]
  simp only [decodeDiseases_enc f.omim h.omim]
  by_cases h3 : fv > 2
  · simp only [h3, ↓reduceIte] at hp4 hne4
    rw [← List.append_nil (sec (encRecs encDisease f.orpha))] at hp4 hne4
    rcases takeSection_prefix p4 _ _ h.orphaLen hp4 hne4 with hpan | ⟨p5, rfl, hp5, hne5⟩
    · simp [orphaSection, h3, hpan, Res.bind, Res.isOk]
    · exact absurd (List.prefix_nil.1 hp5) hne5
  · simp only [h3, ↓reduceIte] at hp4 hne4
    exact absurd (List.prefix_nil.1 hp4) hne4

theorem decodeRaw_prefix (fv : Nat) (f : RawFacts) (h : FactsOK fv f)
    (p : Bytes) (hp : p <+: encBody fv f) (hne : p ≠ encBody fv f) :
    (decodeRaw fv p).isOk = false := by
  by_cases h1 : fv = 1
  · simp only [encBody, h1, ↓reduceIte, List.nil_append] at hp hne
    subst h1
    simp only [decodeRaw, hpoVersion, ↓reduceIte, Res.bind]
    exact decodeSections_prefix 1 _ f h p hp hne
  · simp only [encBody, h1, ↓reduceIte] at hp hne
    rcases prefix_append_cases p _ _ hp with ⟨hl, _⟩ | ⟨p', rfl, hp'⟩
    · have := hpoVersion_short fv h1 p (by simpa [verBytes] using hl)
      exact not_ok_bind _ _ (by simpa using this)
    · simp only [decodeRaw, hpoVersion_enc fv h1 f.version h.ver p', Res.bind]
      apply decodeSections_prefix fv _ f h p' hp'
      intro e; exact hne (by rw [e])

/-! ### `decodeBytes` on encoded files -/

/-- a set of records is encodable as a file of format version `fv`. For v1 (no magic) the file must
not START like a v2 / v3 file: its first bytes are the length of the terms section, so that length
has to stay below 0x48504f00 (1.2 GB) -/
structure FileOK (fv : Nat) (f : RawFacts) : Prop where
  fv123 : fv = 1 ∨ fv = 2 ∨ fv = 3
  facts : FactsOK fv f
  noMagic : fv = 1 → (encTerms 1 f.terms).length < 0x48504f00

theorem encodeRaw_eq (fv : Nat) (f : RawFacts) :
    encodeRaw fv f = (if fv = 1 then [] else magic ++ [UInt8.ofNat fv]) ++ encBody fv f := by
  by_cases h1 : fv = 1
  · subst h1; simp [encodeRaw, encBody]
  · simp [encodeRaw, encBody, encHeader, verBytes, magic, h1]

theorem encSections_length_ge (fv : Nat) (f : RawFacts) : 16 ≤ (encSections fv f).length := by
  simp only [encSections, List.length_append, sec_length]; omega

theorem version_encodeRaw (fv : Nat) (f : RawFacts) (h : FileOK fv f) (tail : Bytes) :
    version (encodeRaw fv f ++ tail) = .ok (fv, encBody fv f ++ tail) := by
  rw [encodeRaw_eq]
  rcases h.fv123 with h1 | h2 | h3
  · subst h1
    simp only [↓reduceIte, List.nil_append]
    apply version_v1 _ _ (List.prefix_refl _)
    · have := encSections_length_ge 1 f
      simp only [encBody, ↓reduceIte, List.nil_append, List.length_append]; omega
    · simp only [encBody, ↓reduceIte, List.nil_append, encSections, sec, List.append_assoc]
      exact take3_ne_magic _ _ (h.noMagic rfl)
  · subst h2
    have hne : encBody 2 f ++ tail ≠ [] := by simp [encBody, verBytes]
    have := version_magic 2 (encBody 2 f ++ tail) hne
    simpa using this
  · subst h3
    have hne : encBody 3 f ++ tail ≠ [] := by simp [encBody, verBytes]
    have := version_magic 3 (encBody 3 f ++ tail) hne
    simpa using this

theorem decodeBytes_enc_tail (fv : Nat) (f : RawFacts) (h : FileOK fv f) (tail : Bytes) :
    decodeBytes (encodeRaw fv f ++ tail) = (finish (projFacts fv f) tail).bind (Onto.loadFacts fv) := by
  simp only [decodeBytes, version_encodeRaw fv f h tail, Res.bind, decodeRaw_enc fv f h.facts tail]

theorem decodeBytes_prefix (fv : Nat) (f : RawFacts) (h : FileOK fv f) (p : Bytes)
    (hp : p <+: encodeRaw fv f) (hne : p ≠ encodeRaw fv f) : (decodeBytes p).isOk = false := by
  by_cases hshort : p.length < 5
  · simp [decodeBytes, version_short p hshort, Res.bind, Res.isOk]
  have hv := version_encodeRaw fv f h []
  rw [encodeRaw_eq] at hp hne
  rcases h.fv123 with h1 | h23
  · subst h1
    simp only [↓reduceIte, List.nil_append] at hp hne
    have hm : (encBody 1 f).take 3 ≠ magic := by
      simp only [encBody, ↓reduceIte, List.nil_append, encSections, sec, List.append_assoc]
      exact take3_ne_magic _ _ (h.noMagic rfl)
    simp only [decodeBytes, version_v1 p _ hp (by omega) hm, Res.bind]
    exact not_ok_bind _ _ (decodeRaw_prefix 1 f h.facts p hp hne)
  · have h1 : fv ≠ 1 := by omega
    simp only [h1, ↓reduceIte] at hp hne
    rcases prefix_append_cases p _ _ hp with ⟨hl, _⟩ | ⟨p', rfl, hp'⟩
    · simp [magic] at hl; omega
    · have hp'ne : p' ≠ [] := by
        intro e; subst e; simp [magic] at hshort
      have hver : version ((magic ++ [UInt8.ofNat fv]) ++ p') = .ok (fv, p') := by
        have := version_magic (UInt8.ofNat fv) p' hp'ne
        rcases h23 with h2 | h3
        · subst h2; simpa using this
        · subst h3; simpa using this
      simp only [decodeBytes, hver, Res.bind]
      apply not_ok_bind
      apply decodeRaw_prefix fv f h.facts p' hp'
      intro e; exact hne (by rw [e])

/-- magic present and a version byte other than 2, 3 -/
theorem decodeBytes_version_byte (v : UInt8) (rest : Bytes) (hr : rest ≠ []) (h2 : v ≠ 2) (h3 : v ≠ 3) :
    decodeBytes (magic ++ v :: rest) = .err .notImplemented := by
  simp [decodeBytes, version_magic v rest hr, h2, h3, Res.bind]

/-! ### record order (hash-map iteration order) -/

theorem encList_length_perm {α : Type} (enc : α → Bytes) {xs ys : List α} (h : xs.Perm ys) :
    (encList enc xs).length = (encList enc ys).length := by
  induction h with
  | nil => rfl
  | cons x _ ih => simp [encList, ih]
  | swap x y l => simp [encList]; omega
  | trans _ _ ih1 ih2 => exact ih1.trans ih2

/-- the same records, every section in another order -/
structure FactsPerm (f g : RawFacts) : Prop where
  version : f.version = g.version
  terms : f.terms.Perm g.terms
  parents : f.parents.Perm g.parents
  genes : f.genes.Perm g.genes
  omim : f.omim.Perm g.omim
  orpha : f.orpha.Perm g.orpha

theorem FileOK.perm {fv : Nat} {f g : RawFacts} (hp : FactsPerm f g) (h : FileOK fv f) : FileOK fv g := by
  obtain ⟨h123, hf, hm⟩ := h
  refine ⟨h123, ?_, ?_⟩
  · exact {
      ver := hp.version ▸ hf.ver
      terms := fun t ht => hf.terms t (hp.terms.mem_iff.2 ht)
      parents := fun t ht => hf.parents t (hp.parents.mem_iff.2 ht)
      genes := fun t ht => hf.genes t (hp.genes.mem_iff.2 ht)
      omim := fun t ht => hf.omim t (hp.omim.mem_iff.2 ht)
      orpha := fun t ht => hf.orpha t (hp.orpha.mem_iff.2 ht)
      termsLen := by
        have := encList_length_perm (encTerm fv) hp.terms
        simp only [encTerms] at *; rw [← this]; exact hf.termsLen
      parentsLen := by
        have := encList_length_perm encParents hp.parents
        simp only [encParentRecs] at *; rw [← this]; exact hf.parentsLen
      genesLen := by
        have := encList_length_perm encGene hp.genes
        simp only [encRecs] at *; rw [← this]; exact hf.genesLen
      omimLen := by
        have := encList_length_perm encDisease hp.omim
        simp only [encRecs] at *; rw [← this]; exact hf.omimLen
      orphaLen := by
        have := encList_length_perm encDisease hp.orpha
        simp only [encRecs] at *; rw [← this]; exact hf.orphaLen }
  · intro h1
    have := encList_length_perm (encTerm 1) hp.terms
    simp only [encTerms] at *; rw [← this]; exact hm h1

theorem projFacts_perm (fv : Nat) {f g : RawFacts} (hp : FactsPerm f g) :
    FactsPerm (projFacts fv f) (projFacts fv g) := by
  refine ⟨?_, ?_, hp.parents, hp.genes, hp.omim, ?_⟩
  · simp [projFacts, hp.version]
  · exact hp.terms.map _
  · simp only [projFacts]; split
    · exact hp.orpha
    · exact List.Perm.refl _

/-! ### name truncation of `as_bytes` -/

theorem utf8_cons (c : Char) (cs : List Char) : utf8 (c :: cs) = String.utf8EncodeChar c ++ utf8 cs := by
  simp [utf8]

theorem utf8_takeFit_le (n : Nat) (cs : List Char) : (utf8 (takeFit n cs)).length ≤ n := by
  induction cs generalizing n with
  | nil => simp [takeFit, utf8]
  | cons c cs ih =>
    simp only [takeFit]
    split
    · rw [utf8_cons, List.length_append]
      have := ih (n - (String.utf8EncodeChar c).length)
      omega
    · simp [utf8]

theorem takeFit_prefix (n : Nat) (cs : List Char) : takeFit n cs <+: cs := by
  induction cs generalizing n with
  | nil => simp [takeFit]
  | cons c cs ih =>
    simp only [takeFit]
    split
    · exact List.prefix_cons_inj c |>.2 (ih _)
    · exact List.nil_prefix

theorem takeFit_eq_self (n : Nat) (cs : List Char) (h : (utf8 cs).length ≤ n) : takeFit n cs = cs := by
  induction cs generalizing n with
  | nil => simp [takeFit]
  | cons c cs ih =>
    rw [utf8_cons, List.length_append] at h
    simp only [takeFit]
    rw [if_pos (by omega), ih _ (by omega)]

/-- `takeFit` keeps the LONGEST prefix that fits -/
theorem takeFit_maximal (n : Nat) (cs p : List Char) (hp : p <+: cs) (hfit : (utf8 p).length ≤ n) :
    p <+: takeFit n cs := by
  induction cs generalizing n p with
  | nil => simp at hp; subst hp; exact List.nil_prefix
  | cons c cs ih =>
    cases p with
    | nil => exact List.nil_prefix
    | cons a p' =>
      obtain ⟨rfl, hp'⟩ := List.cons_prefix_cons.1 hp
      rw [utf8_cons, List.length_append] at hfit
      simp only [takeFit]
      rw [if_pos (by omega)]
      exact (List.prefix_cons_inj a).2 (ih _ p' hp' (by omega))

theorem truncName_le (cs : List Char) : (utf8 (truncName cs)).length ≤ 255 := utf8_takeFit_le 255 cs

/-! ### `as_bytes`: encodability of an ontology -/

/-- what `Ontology::as_bytes` needs of the ontology (NO bound on name lengths: over-long term and
gene names are cut) -/
structure EncOK (o : Onto) : Prop where
  ver : o.version.1 < 65536 ∧ o.version.2.1 < 256 ∧ o.version.2.2 < 256
  terms : ∀ t ∈ o.terms, t.id < maxId ∧ (∀ r, t.replacement = some r → 0 < r ∧ r < 4294967296) ∧
    t.parents.length < 1000000000 ∧ ∀ i ∈ t.parents, i < 4294967296
  genes : ∀ r ∈ o.genes, r.id < 4294967296 ∧ r.hpos.length < 1000000000 ∧ ∀ i ∈ r.hpos, i < 4294967296
  omim : ∀ r ∈ o.omim, DiseaseOK r
  orpha : ∀ r ∈ o.orpha, DiseaseOK r
  termsLen : (encTerms 3 (factsOf o).terms).length < 4294967296
  parentsLen : (encParentRecs (factsOf o).parents).length < 4294967296
  genesLen : (encRecs encGene (factsOf o).genes).length < 4294967296
  omimLen : (encRecs encDisease o.omim).length < 4294967296
  orphaLen : (encRecs encDisease o.orpha).length < 4294967296

theorem mem_termFacts {x : Term} {ts : List Term} : x ∈ termFacts ts ↔ ∃ t ∈ ts, x = termFact t := by
  induction ts with
  | nil => simp [termFacts]
  | cons t ts ih => simp [termFacts, ih]

theorem mem_parentFacts {x : Nat × List Nat} {ts : List Term} :
    x ∈ parentFacts ts ↔ ∃ t ∈ ts, x = (t.id, t.parents) := by
  induction ts with
  | nil => simp [parentFacts]
  | cons t ts ih => simp [parentFacts, ih]

theorem mem_geneFacts {x : Rec} {rs : List Rec} :
    x ∈ geneFacts rs ↔ ∃ r ∈ rs, x = { r with name := truncName r.name } := by
  induction rs with
  | nil => simp [geneFacts]
  | cons r rs ih => simp [geneFacts, ih]

theorem map_clean_termFacts (ts : List Term) : (termFacts ts).map cleanTerm = termFacts ts := by
  induction ts with
  | nil => rfl
  | cons t ts ih => simp [termFacts, ih, cleanTerm, termFact]

theorem projFacts_factsOf (o : Onto) : projFacts 3 (factsOf o) = factsOf o := by
  have e : projTerm 3 = cleanTerm := by funext t; simp [projTerm]
  simp [projFacts, factsOf, e, map_clean_termFacts]

theorem FileOK_factsOf (o : Onto) (h : EncOK o) : FileOK 3 (factsOf o) := by
  refine ⟨Or.inr (Or.inr rfl), ?_, by simp⟩
  exact {
    ver := h.ver
    terms := by
      intro x hx
      obtain ⟨t, ht, rfl⟩ := mem_termFacts.1 hx
      obtain ⟨h1, h2, _⟩ := h.terms t ht
      exact ⟨h1, truncName_le _, h2⟩
    parents := by
      intro x hx
      obtain ⟨t, ht, rfl⟩ := mem_parentFacts.1 hx
      obtain ⟨h1, _, h3, h4⟩ := h.terms t ht
      exact ⟨Nat.lt_trans h1 maxId_lt, h3, h4⟩
    genes := by
      intro x hx
      obtain ⟨r, hr, rfl⟩ := mem_geneFacts.1 hx
      obtain ⟨h1, h2, h3⟩ := h.genes r hr
      exact ⟨h1, truncName_le _, h2, h3⟩
    omim := h.omim
    orpha := h.orpha
    termsLen := h.termsLen
    parentsLen := h.parentsLen
    genesLen := h.genesLen
    omimLen := h.omimLen
    orphaLen := h.orphaLen }

end Binary
end Hpo
