import HpoProofs.AOps
/-!
Fact-level characterisation of the record maps after an annotation history: which records exist,
their names (under "one name per record id") and that nothing but annotation fields of terms
changes.  Used by C16 to show that permuted annotation histories give equal lookups.
-/
namespace Hpo
open Group

/-- the call creates (or touches) record `r` of kind `k`, given which terms exist -/
def AOp.touches (ex : Nat → Prop) (k : Kind) (r : Nat) : AOp → Prop
  | .addRec k' _ i => k' = k ∧ i = r
  | .annotate k' rid _ t => k' = k ∧ rid = r ∧ ex t

/-- the name a call supplies for record `r` of kind `k` (if it concerns that record) -/
def AOp.nameFor (k : Kind) (r : Nat) : AOp → Option (List Char)
  | .addRec k' n i => if k' = k ∧ i = r then some n else none
  | .annotate k' rid n _ => if k' = k ∧ rid = r then some n else none

/-- "one name per record id": every call concerning record `(k, r)` supplies `nameOf k r` -/
def NamesFunctional (nameOf : Kind → Nat → List Char) (ops : List AOp) : Prop :=
  ∀ op ∈ ops, ∀ k r n, op.nameFor k r = some n → n = nameOf k r

/-- all fields of a term except the three annotation sets -/
def coreOf (t : Term) :=
  (t.id, t.name, t.parents, t.allParents, t.children, t.icGene, t.icOmim, t.icOrpha, t.obsolete, t.replacement)

theorem coreOf_setAnn (t : Term) (k : Kind) (v : List Nat) : coreOf (t.setAnn k v) = coreOf t := by
  cases k <;> rfl

theorem term_ext_ann (t u : Term) (h : coreOf t = coreOf u) (hg : t.genes = u.genes)
    (ho : t.omim = u.omim) (hr : t.orpha = u.orpha) : t = u := by
  cases t; cases u
  simp only [coreOf, Prod.mk.injEq] at h
  simp_all

theorem rec_ext (a b : Rec) (h1 : a.id = b.id) (h2 : a.name = b.name) (h3 : a.hpos = b.hpos) : a = b := by
  cases a; cases b; simp_all

section
variable (anc : Nat → List Nat) (ex : Nat → Prop)

/-- one call: the terms keep their core, their ids and their number -/
theorem applyA_core (rank : Nat → Nat) (hc : AncClosure anc ex rank) (o : Onto) (h : AnnInv anc ex o)
    (hf : ∀ j, rank j < o.terms.length + 2) (op : AOp) :
    AnnInv anc ex (applyA o op) ∧ (applyA o op).terms.length = o.terms.length ∧
    (∀ j, (getT (applyA o op).terms j).map coreOf = (getT o.terms j).map coreOf) := by
  cases op with
  | addRec k n i =>
    have ht : (o.addRec k n i).terms = o.terms := by simp [Onto.addRec, terms_setRecs]
    refine ⟨annInv_addRec anc ex o k n i h, ?_, ?_⟩
    · show (o.addRec k n i).terms.length = _; rw [ht]
    · intro j; show (getT (o.addRec k n i).terms j).map coreOf = _; rw [ht]
  | annotate k rid n t =>
    rcases annInv_annotate anc ex rank hc o k rid n t h hf with ⟨he, _⟩ | ⟨hext, o', hok, hinv', hlen, _, _⟩
    · have e : applyA o (.annotate k rid n t) = o := by simp only [applyA, he]
      rw [e]; exact ⟨h, rfl, fun _ => rfl⟩
    · have e : applyA o (.annotate k rid n t) = o' := by simp only [applyA, hok]
      rw [e]
      refine ⟨hinv', hlen, ?_⟩
      -- re-run the link lemma to obtain the frame of the terms
      unfold Onto.annotate at hok
      cases hg : o.get t with
      | none => simp [hg] at hok
      | some tm =>
        simp only [hg] at hok
        have hst1 : LState anc ex k (o.addTermToRec k n rid t).terms := by
          rw [terms_addTermToRec]; exact h.lstate anc ex k
        have hup : UpClosedAbove anc k (o.addTermToRec k n rid t).terms rid t := by
          rw [terms_addTermToRec]; intro x _ hx y hy
          exact h.upclosed anc ex rank hc k x rid hx y hy
        obtain ⟨o'', hl, p⟩ := link_post anc ex k rid rank hc (o.addTermToRec k n rid t).linkFuel
          (o.addTermToRec k n rid t) t
          (by simp only [Onto.linkFuel, terms_addTermToRec]; exact hf t) hext hst1 hup
        rw [hl] at hok; cases hok
        intro j
        rw [p.upd.2 j, terms_addTermToRec]
        cases getT o.terms j with
        | none => rfl
        | some u => simp [coreOf_setAnn]

theorem getR_addR_or (rs : List Rec) (r : Rec) (j : Nat) :
    getR (addR rs r) j = (getR rs j).or (if r.id = j then some r else none) := by
  rw [getR_addR]; cases getR rs j <;> rfl

/-- existence and names of records after one call -/
theorem applyA_recs (rank : Nat → Nat) (hc : AncClosure anc ex rank) (o : Onto) (h : AnnInv anc ex o)
    (hf : ∀ j, rank j < o.terms.length + 2) (op : AOp) (k : Kind) (r : Nat) :
    ((getR ((applyA o op).recs k) r).isSome ↔ (getR (o.recs k) r).isSome ∨ op.touches ex k r) ∧
    (∀ x, getR ((applyA o op).recs k) r = some x →
      (∃ y, getR (o.recs k) r = some y ∧ x.name = y.name) ∨
      (getR (o.recs k) r = none ∧ op.nameFor k r = some x.name)) := by
  have addRec_get : ∀ (o : Onto) (k' : Kind) (n : List Char) (i : Nat),
      getR ((o.addRec k' n i).recs k) r =
        if k' = k then (getR (o.recs k) r).or (if i = r then some { id := i, name := n } else none)
        else getR (o.recs k) r := by
    intro o k' n i
    by_cases hk : k' = k
    · subst hk
      simp only [Onto.addRec, recs_setRecs, getR_addR_or, ↓reduceIte]
    · have hk' : k ≠ k' := fun e => hk e.symm
      simp only [Onto.addRec, recs_setRecs_ne _ _ _ _ hk', hk, ↓reduceIte]
  cases op with
  | addRec k' n i =>
    simp only [applyA, addRec_get, AOp.touches, AOp.nameFor]
    by_cases hk : k' = k
    · subst hk
      cases hg : getR (o.recs k') r with
      | some y => simp
      | none =>
        by_cases hi : i = r
        · subst hi; simp
        · simp [hi]
    · cases hg : getR (o.recs k) r <;> simp [hk]
  | annotate k' rid n t =>
    rcases annInv_annotate anc ex rank hc o k' rid n t h hf with ⟨he, hne⟩ | ⟨hext, o', hok, _, _, hrecs, _⟩
    · simp only [applyA, he, AOp.touches, AOp.nameFor, hne, and_false, or_false]
      cases hg : getR (o.recs k) r <;> simp
    · simp only [applyA, hok, hrecs, AOp.touches, AOp.nameFor, hext, and_true]
      unfold Onto.addTermToRec
      by_cases hk : k' = k
      · subst hk
        rw [recs_setRecs, getR_modR ((o.addRec k' n rid).recs k') rid r
          (fun x => { x with hpos := (Group.insert x.hpos t).1 }) (fun _ => rfl), addRec_get]
        simp only [↓reduceIte, true_and]
        cases hg : getR (o.recs k') r with
        | some y =>
          simp only [Option.some_or, Option.map_some, Option.isSome_some, true_or, true_iff,
            Option.some.injEq]
          refine ⟨trivial, ?_⟩
          intro x hx; left
          refine ⟨y, rfl, ?_⟩
          rw [← hx]; split <;> rfl
        | none =>
          by_cases hi : rid = r
          · subst hi; simp
          · simp [hi]
      · have hk' : k ≠ k' := fun e => hk e.symm
        rw [recs_setRecs_ne _ _ _ _ hk', addRec_get]
        cases hg : getR (o.recs k) r <;> simp [hk]

/-- after a whole history: which records exist, and (under "one name per record") their names -/
theorem runA_recs (rank : Nat → Nat) (hc : AncClosure anc ex rank) (nameOf : Kind → Nat → List Char)
    (ops : List AOp) (hn : NamesFunctional nameOf ops) :
    ∀ (o : Onto), AnnInv anc ex o → (∀ j, rank j < o.terms.length + 2) →
      (∀ k r x, getR (o.recs k) r = some x → x.name = nameOf k r) →
      AnnInv anc ex (runA ops o) ∧ (runA ops o).terms.length = o.terms.length ∧
      (∀ j, (getT (runA ops o).terms j).map coreOf = (getT o.terms j).map coreOf) ∧
      (∀ k r, (getR ((runA ops o).recs k) r).isSome ↔
        (getR (o.recs k) r).isSome ∨ ∃ op ∈ ops, op.touches ex k r) ∧
      (∀ k r x, getR ((runA ops o).recs k) r = some x → x.name = nameOf k r) := by
  induction ops with
  | nil =>
    intro o h _ hnm
    exact ⟨h, rfl, fun _ => rfl, by simp [runA], hnm⟩
  | cons op ops ih =>
    intro o h hf hnm
    obtain ⟨hinv1, hlen1, hcore1⟩ := applyA_core anc ex rank hc o h hf op
    have hnm1 : ∀ k r x, getR ((applyA o op).recs k) r = some x → x.name = nameOf k r := by
      intro k r x hx
      rcases (applyA_recs anc ex rank hc o h hf op k r).2 x hx with ⟨y, hy, hxy⟩ | ⟨_, hname⟩
      · rw [hxy]; exact hnm k r y hy
      · exact hn op (by simp) k r x.name hname
    obtain ⟨i1, i2, i3, i4, i5⟩ := ih (fun op' hop => hn op' (by simp [hop])) (applyA o op) hinv1
      (by rw [hlen1]; exact hf) hnm1
    simp only [runA, List.foldl_cons] at i1 i2 i3 i4 i5 ⊢
    refine ⟨i1, i2.trans hlen1, fun j => (i3 j).trans (hcore1 j), ?_, i5⟩
    intro k r
    rw [i4 k r, (applyA_recs anc ex rank hc o h hf op k r).1]
    simp only [List.mem_cons, exists_eq_or_imp]
    constructor
    · rintro ((h1 | h1) | h1)
      · exact Or.inl h1
      · exact Or.inr (Or.inl h1)
      · exact Or.inr (Or.inr h1)
    · rintro (h1 | h1 | h1)
      · exact Or.inl (Or.inl h1)
      · exact Or.inl (Or.inr h1)
      · exact Or.inr h1

end
/-- record ids of a kind are unique for every call history -/
theorem recIds_nodup (ops : List AOp) (o : Onto)
    (h : ∀ k, ((o.recs k).map (·.id)).Nodup)
    (anc : Nat → List Nat) (ex : Nat → Prop) (rank : Nat → Nat) (hc : AncClosure anc ex rank)
    (hinv : AnnInv anc ex o) (hf : ∀ j, rank j < o.terms.length + 2) :
    ∀ k, (((runA ops o).recs k).map (·.id)).Nodup := by
  induction ops generalizing o with
  | nil => exact h
  | cons op ops ih =>
    simp only [runA, List.foldl_cons]
    have addR_nodup : ∀ (rs : List Rec) (r : Rec), (rs.map (·.id)).Nodup → ((addR rs r).map (·.id)).Nodup := by
      intro rs r hn
      unfold addR
      cases hg : getR rs r.id with
      | some _ => exact hn
      | none =>
        simp only
        rw [List.map_append, List.nodup_append]
        refine ⟨hn, by simp, ?_⟩
        intro a ha b hb
        simp at hb; subst hb
        intro hab; subst hab
        have := (getR_isSome_iff rs r.id).2 ha
        simp [hg] at this
    have modR_ids : ∀ (rs : List Rec) (i : Nat) (f : Rec → Rec), (∀ r, (f r).id = r.id) →
        (modR rs i f).map (·.id) = rs.map (·.id) := by
      intro rs i f hf'
      induction rs with
      | nil => rfl
      | cons r rs ih' => simp only [modR, List.map_cons, ih']; split <;> simp [hf']
    cases op with
    | addRec k n i =>
      have ht : (o.addRec k n i).terms = o.terms := by simp [Onto.addRec, terms_setRecs]
      apply ih (o.addRec k n i) _ (annInv_addRec anc ex o k n i hinv) (by rw [ht]; exact hf)
      intro k'
      by_cases hk : k' = k
      · subst hk; simp only [Onto.addRec, recs_setRecs]; exact addR_nodup _ _ (h k')
      · simp only [Onto.addRec, recs_setRecs_ne _ _ _ _ hk]; exact h k'
    | annotate k rid n t =>
      rcases annInv_annotate anc ex rank hc o k rid n t hinv hf with ⟨he, _⟩ | ⟨_, o', hok, hinv', hlen, hrecs, _⟩
      · simp only [applyA, he]; exact ih o h hinv hf
      · simp only [applyA, hok]
        apply ih o' _ hinv' (by rw [hlen]; exact hf)
        intro k'
        rw [hrecs]
        by_cases hk : k' = k
        · subst hk
          simp only [Onto.addTermToRec, recs_setRecs, Onto.addRec]
          rw [modR_ids (addR (o.recs k') { id := rid, name := n }) rid
            (fun r => { r with hpos := (Group.insert r.hpos t).1 }) (fun _ => rfl)]
          exact addR_nodup _ _ (h k')
        · simp only [Onto.addTermToRec, Onto.addRec, recs_setRecs_ne _ _ _ _ hk]; exact h k'


end Hpo
