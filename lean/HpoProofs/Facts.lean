import HpoProofs.BuilderInv
/-!
Fact-level characterisation of the term-level builder state: after `new_term` for a list of term
facts followed by `add_parent` for a list of edge facts (the typestate order), every observable
field of every term is a function of the *sets* of facts — independent of their order.
-/
namespace Hpo
open Group

/-- a term fact: what `new_term` (or a binary / obo term record) supplies -/
structure TermFact where
  name : List Char
  id : Nat
  obsolete : Bool := false
  replacement : Option Nat := none
deriving Repr, DecidableEq

def TermFact.op (f : TermFact) : BOp := .term f.name f.id f.obsolete f.replacement
def TermFact.term (f : TermFact) : Term :=
  { id := f.id, name := f.name, obsolete := f.obsolete, replacement := f.replacement }

/-- an is_a fact `(parent, child)` -/
abbrev EdgeFact := Nat × Nat
def edgeOp (e : EdgeFact) : BOp := .parent e.1 e.2

theorem runB_append (a b : List BOp) (o : Onto) :
    runB (a ++ b) o = (runB a o).bind (runB b) := by
  induction a generalizing o with
  | nil => simp [runB]
  | cons x xs ih =>
    simp only [List.cons_append, runB]
    cases applyB o x with
    | none => rfl
    | some o' => simp [ih]

/-! ### phase 1: terms -/

/-- state after the term phase: lookups return the first fact with the id, all relations empty -/
theorem terms_phase (fs : List TermFact) (o : Onto) (h : runB (fs.map TermFact.op) {} = some o) :
    (∀ j, getT o.terms j = (fs.find? (fun f => f.id = j)).map TermFact.term) ∧
    (∀ f ∈ fs, f.id < maxId) := by
  have key : ∀ (fs : List TermFact) (o0 o : Onto), runB (fs.map TermFact.op) o0 = some o →
      (∀ j, getT o.terms j = (getT o0.terms j).or ((fs.find? (fun f => f.id = j)).map TermFact.term)) ∧
      (∀ f ∈ fs, f.id < maxId) := by
    intro fs
    induction fs with
    | nil =>
      intro o0 o h; simp [runB] at h; subst h
      exact ⟨fun j => by cases getT o0.terms j <;> simp, by simp⟩
    | cons f fs ih =>
      intro o0 o h
      simp only [List.map_cons, runB, Option.bind_eq_some_iff] at h
      obtain ⟨o1, h1, h2⟩ := h
      obtain ⟨ih1, ih2⟩ := ih o1 o h2
      simp only [applyB, TermFact.op, Onto.addTerm, Option.map_eq_some_iff] at h1
      obtain ⟨ts1, hins, rfl⟩ := h1
      -- effect of one arenaInsert
      have hg : f.id < maxId ∧ ∀ j, getT ts1 j =
          (getT o0.terms j).or (if f.id = j then some f.term else none) := by
        unfold arenaInsert at hins
        simp only at hins
        split at hins
        · simp at hins
        · rename_i hlt
          refine ⟨by omega, ?_⟩
          intro j
          split at hins
          · rename_i t ht
            simp at hins; subst hins
            cases hgj : getT o0.terms j with
            | some _ => rfl
            | none =>
              have : ¬ f.id = j := by intro e; rw [e] at ht; rw [ht] at hgj; cases hgj
              simp [this]
          · simp at hins; subst hins
            have := getT_append o0.terms f.term j
            rw [show ({ id := f.id, name := f.name, obsolete := f.obsolete, replacement := f.replacement } : Term) = f.term from rfl]
            rw [this]
            cases getT o0.terms j <;> simp [TermFact.term] <;> rfl
      refine ⟨?_, ?_⟩
      · intro j
        rw [ih1 j, hg.2 j]
        cases getT o0.terms j with
        | some t => rfl
        | none =>
          simp only [List.find?_cons, Option.none_or]
          by_cases hx : f.id = j <;> simp [hx]
      · intro x hx
        rcases List.mem_cons.1 hx with rfl | hx
        · exact hg.1
        · exact ih2 x hx
  obtain ⟨h1, h2⟩ := key fs {} o h
  exact ⟨fun j => by simpa [getT] using h1 j, h2⟩

/-! ### phase 2: edges -/

/-- everything of a term except `parents` and `children` -/
def fieldsOf (t : Term) :=
  (t.name, t.obsolete, t.replacement, t.allParents, t.genes, t.omim, t.orpha, t.icGene, t.icOmim, t.icOrpha)

theorem fieldsOf_addChild (t : Term) (c : Nat) : fieldsOf (t.addChild c) = fieldsOf t := rfl
theorem fieldsOf_addParent (t : Term) (c : Nat) : fieldsOf (t.addParent c) = fieldsOf t := rfl

/-- what a run of `add_parent` calls does to every term: presence, names and flags are untouched;
`parents` / `children` collect exactly the edge facts whose two ends exist -/
theorem edges_phase (es : List EdgeFact) :
    ∀ (o0 o : Onto), PreInv o0.terms → runB (es.map edgeOp) o0 = some o →
      (∀ j, (getT o.terms j).isSome = (getT o0.terms j).isSome) ∧
      (∀ j, (getT o.terms j).map fieldsOf = (getT o0.terms j).map fieldsOf) ∧
      (∀ j x, x ∈ parentsOf o.terms j ↔ x ∈ parentsOf o0.terms j ∨
        ((x, j) ∈ es ∧ (getT o0.terms x).isSome ∧ (getT o0.terms j).isSome)) ∧
      (∀ j x, x ∈ childrenOf o.terms j ↔ x ∈ childrenOf o0.terms j ∨
        ((j, x) ∈ es ∧ (getT o0.terms x).isSome ∧ (getT o0.terms j).isSome)) := by
  induction es with
  | nil =>
    intro o0 o _ h; simp [runB] at h; subst h
    exact ⟨fun _ => rfl, fun _ => rfl, by simp, by simp⟩
  | cons e es ih =>
    intro o0 o hpre h
    simp only [List.map_cons, runB, Option.bind_eq_some_iff] at h
    obtain ⟨o1, h1, h2⟩ := h
    obtain ⟨hpre1, _⟩ := preInv_apply o0 o1 (edgeOp e) hpre h1
    obtain ⟨i1, i2, i3, i4⟩ := ih o1 o hpre1 h2
    simp only [applyB, edgeOp] at h1
    rcases addParent_cases o0 e.1 e.2 with ⟨he, hnone⟩ | ⟨hc, hp, hok⟩
    · -- failing call: nothing changes
      rw [he] at h1; simp at h1; subst h1
      have habs : ¬ ((getT o0.terms e.1).isSome ∧ (getT o0.terms e.2).isSome) := by
        rintro ⟨hp, hc⟩
        have hp' : (o0.get e.1).isSome := by rw [get_eq_getT o0 e.1 hpre.small]; exact hp
        have hc' : (o0.get e.2).isSome := by rw [get_eq_getT o0 e.2 hpre.small]; exact hc
        rcases hnone with h | h
        · simp [Option.isNone_iff_eq_none] at h; simp [h] at hc'
        · simp [Option.isNone_iff_eq_none] at h; simp [h] at hp'
      refine ⟨i1, i2, ?_, ?_⟩
      · intro j x; rw [i3 j x]
        constructor
        · rintro (h | ⟨h1, h2, h3⟩)
          · exact Or.inl h
          · exact Or.inr ⟨List.mem_cons_of_mem _ h1, h2, h3⟩
        · rintro (h | ⟨h1, h2, h3⟩)
          · exact Or.inl h
          · rcases List.mem_cons.1 h1 with heq | h1
            · exfalso; apply habs; rw [← heq]; exact ⟨h2, h3⟩
            · exact Or.inr ⟨h1, h2, h3⟩
      · intro j x; rw [i4 j x]
        constructor
        · rintro (h | ⟨h1, h2, h3⟩)
          · exact Or.inl h
          · exact Or.inr ⟨List.mem_cons_of_mem _ h1, h2, h3⟩
        · rintro (h | ⟨h1, h2, h3⟩)
          · exact Or.inl h
          · rcases List.mem_cons.1 h1 with heq | h1
            · exfalso; apply habs; rw [← heq]; exact ⟨h3, h2⟩
            · exact Or.inr ⟨h1, h2, h3⟩
    · rw [hok] at h1; simp at h1; subst h1
      have hp' : (getT o0.terms e.1).isSome := get_isSome_imp o0 e.1 hp
      have hc' : (getT o0.terms e.2).isSome := get_isSome_imp o0 e.2 hc
      have H := addParent_terms o0.terms e.1 e.2
      simp only at i1 i2 i3 i4
      refine ⟨fun j => by rw [i1 j, (H j).1], ?_, ?_, ?_⟩
      · intro j
        rw [i2 j]
        have h1 := getT_modT o0.terms e.1 j (·.addChild e.2) (fun _ => rfl)
        have h2 := getT_modT (modT o0.terms e.1 (·.addChild e.2)) e.2 j (·.addParent e.1) (fun _ => rfl)
        rw [h2, h1]
        cases getT o0.terms j with
        | none => rfl
        | some t =>
          simp only [Option.map_some, Option.some.injEq]
          split <;> split <;> simp [fieldsOf_addChild, fieldsOf_addParent]
      · intro j x
        rw [i3 j x, (H j).2.1, (H x).1, (H j).1]
        by_cases hj : j = e.2
        · subst hj
          rw [if_pos ⟨rfl, hc'⟩]
          simp only [mem_insert, List.mem_cons]
          constructor
          · rintro ((rfl | h) | ⟨h1, h2, h3⟩)
            · exact Or.inr ⟨Or.inl rfl, hp', hc'⟩
            · exact Or.inl h
            · exact Or.inr ⟨Or.inr h1, h2, h3⟩
          · rintro (h | ⟨h1 | h1, h2, h3⟩)
            · exact Or.inl (Or.inr h)
            · left; left; exact (Prod.ext_iff.1 h1).1
            · exact Or.inr ⟨h1, h2, h3⟩
        · rw [if_neg (fun h => hj h.1)]
          simp only [List.mem_cons]
          constructor
          · rintro (h | ⟨h1, h2, h3⟩)
            · exact Or.inl h
            · exact Or.inr ⟨Or.inr h1, h2, h3⟩
          · rintro (h | ⟨h1 | h1, h2, h3⟩)
            · exact Or.inl h
            · exfalso; exact hj (Prod.ext_iff.1 h1).2
            · exact Or.inr ⟨h1, h2, h3⟩
      · intro j x
        rw [i4 j x, (H j).2.2.1, (H x).1, (H j).1]
        by_cases hj : j = e.1
        · subst hj
          rw [if_pos ⟨rfl, hp'⟩]
          simp only [mem_insert, List.mem_cons]
          constructor
          · rintro ((rfl | h) | ⟨h1, h2, h3⟩)
            · exact Or.inr ⟨Or.inl rfl, hc', hp'⟩
            · exact Or.inl h
            · exact Or.inr ⟨Or.inr h1, h2, h3⟩
          · rintro (h | ⟨h1 | h1, h2, h3⟩)
            · exact Or.inl (Or.inr h)
            · left; left; exact (Prod.ext_iff.1 h1).2
            · exact Or.inr ⟨h1, h2, h3⟩
        · rw [if_neg (fun h => hj h.1)]
          simp only [List.mem_cons]
          constructor
          · rintro (h | ⟨h1, h2, h3⟩)
            · exact Or.inl h
            · exact Or.inr ⟨Or.inr h1, h2, h3⟩
          · rintro (h | ⟨h1 | h1, h2, h3⟩)
            · exact Or.inl h
            · exfalso; exact hj (Prod.ext_iff.1 h1).1
            · exact Or.inr ⟨h1, h2, h3⟩

end Hpo
