import HpoProofs.Annotate
/-! Annotation-phase call histories of the builder (shared by C02, C03, C15, C16). -/
namespace Hpo

/-- annotation-phase builder calls -/
inductive AOp where
  | addRec (k : Kind) (name : List Char) (id : Nat)
  | annotate (k : Kind) (rid : Nat) (name : List Char) (t : Nat)
deriving Repr

/-- one call; an `Err` result leaves the builder unchanged -/
def applyA (o : Onto) : AOp → Onto
  | .addRec k n i => o.addRec k n i
  | .annotate k rid n t => match o.annotate k rid n t with
    | .ok o' => o'
    | _ => o

def runA (ops : List AOp) (o : Onto) : Onto := ops.foldl applyA o

end Hpo
