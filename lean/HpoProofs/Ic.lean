import HpoProofs.Arena
/-! `calculate_information_content`: what the three passes store in every term. -/
namespace Hpo

/-- the pair `InformationContent::calculate(total, current)` computes its value from -/
def icPair (total cur : Nat) : Nat × Nat := if total = 0 ∨ cur = 0 then (0, 0) else (cur, total)

theorem icCalc_ok_iff (total cur : Nat) (v : Nat × Nat) :
    Onto.icCalc total cur = .ok v ↔
      v = icPair total cur ∧ (total = 0 ∨ cur = 0 ∨ (total ≤ 65535 ∧ cur ≤ 65535)) := by
  unfold Onto.icCalc icPair Onto.fitsU16
  by_cases h0 : total = 0 ∨ cur = 0
  · simp only [h0, ↓reduceIte, Res.ok.injEq]
    constructor
    · intro h; exact ⟨h.symm, by rcases h0 with h | h <;> simp [h]⟩
    · intro h; exact h.1.symm
  · simp only [h0, ↓reduceIte]
    have h1 : ¬ total = 0 := fun h => h0 (Or.inl h)
    have h2 : ¬ cur = 0 := fun h => h0 (Or.inr h)
    by_cases ht : total ≤ 65535
    · by_cases hc : cur ≤ 65535
      · simp [ht, hc, h1, h2, eq_comm]
      · simp [ht, hc, h1, h2]
    · simp [ht, h1, h2]

theorem icCalc_cases (total cur : Nat) :
    Onto.icCalc total cur = .ok (icPair total cur) ∨ Onto.icCalc total cur = .err .tryFromInt := by
  unfold Onto.icCalc icPair Onto.fitsU16
  by_cases h0 : total = 0 ∨ cur = 0
  · simp [h0]
  · simp only [h0, ↓reduceIte]
    by_cases ht : total ≤ 65535 <;> by_cases hc : cur ≤ 65535 <;> simp [ht, hc]

theorem setIc_ann (t : Term) (k k' : Kind) (v : Nat × Nat) : (t.setIc k v).ann k' = t.ann k' := by
  cases k <;> cases k' <;> rfl

theorem setIc_ic (t : Term) (k : Kind) (v : Nat × Nat) : (t.setIc k v).ic k = v := by
  cases k <;> rfl

theorem setIc_ic_ne (t : Term) (k k' : Kind) (v : Nat × Nat) (h : k' ≠ k) :
    (t.setIc k v).ic k' = t.ic k' := by
  cases k <;> cases k' <;> first | rfl | exact absurd rfl h

theorem setIc_id (t : Term) (k : Kind) (v : Nat × Nat) : (t.setIc k v).id = t.id := by
  cases k <;> rfl

/-- one pass: succeeds iff every (non-zero) count fits `u16`; stores `icPair` in every term -/
theorem icFold_ok (k : Kind) (total : Nat) (ts ts' : List Term) (h : Onto.icFold k total ts = .ok ts') :
    ts' = ts.map (fun t => t.setIc k (icPair total (t.ann k).length)) := by
  induction ts generalizing ts' with
  | nil => simp [Onto.icFold] at h; subst h; rfl
  | cons t ts ih =>
    simp only [Onto.icFold] at h
    rcases icCalc_cases total (t.ann k).length with hc | hc
    · rw [hc] at h
      simp only [Res.bind] at h
      cases hr : Onto.icFold k total ts with
      | ok r =>
        rw [hr] at h; simp only [Res.ok.injEq] at h
        subst h
        rw [ih r hr]; rfl
      | err e => rw [hr] at h; cases h
      | panic => rw [hr] at h; cases h
      | diverge => rw [hr] at h; cases h
    · rw [hc] at h; cases h

theorem icFold_total (k : Kind) (total : Nat) (ts : List Term)
    (h : ∀ t ∈ ts, total = 0 ∨ (t.ann k).length = 0 ∨ (total ≤ 65535 ∧ (t.ann k).length ≤ 65535)) :
    ∃ ts', Onto.icFold k total ts = .ok ts' := by
  induction ts with
  | nil => exact ⟨[], rfl⟩
  | cons t ts ih =>
    obtain ⟨r, hr⟩ := ih (fun u hu => h u (by simp [hu]))
    have := (icCalc_ok_iff total (t.ann k).length (icPair total (t.ann k).length)).2
      ⟨rfl, h t (by simp)⟩
    exact ⟨t.setIc k (icPair total (t.ann k).length) :: r, by simp [Onto.icFold, this, Res.bind, hr]⟩

/-- the failure of a pass is always `TryFromIntError`, never a panic -/
theorem icFold_cases (k : Kind) (total : Nat) (ts : List Term) :
    (∃ ts', Onto.icFold k total ts = .ok ts') ∨ Onto.icFold k total ts = .err .tryFromInt := by
  induction ts with
  | nil => left; exact ⟨[], rfl⟩
  | cons t ts ih =>
    simp only [Onto.icFold]
    rcases icCalc_cases total (t.ann k).length with hc | hc
    · rw [hc]; simp only [Res.bind]
      rcases ih with ⟨r, hr⟩ | hr
      · left; exact ⟨_, by rw [hr]⟩
      · right; rw [hr]
    · right; rw [hc]; rfl

/-- what the three passes of `calculate_information_content` store -/
theorem calcIc_ok (o o' : Onto) (h : o.calcIc = .ok o') :
    o'.terms = o.terms.map (fun t =>
      ((t.setIc .gene (icPair o.genes.length t.genes.length)).setIc .omim
        (icPair o.omim.length t.omim.length)).setIc .orpha (icPair o.orpha.length t.orpha.length)) ∧
    o'.genes = o.genes ∧ o'.omim = o.omim ∧ o'.orpha = o.orpha := by
  unfold Onto.calcIc Onto.calcIcKind at h
  cases h1 : Onto.icFold .gene (o.recs .gene).length o.terms with
  | ok t1 =>
    rw [h1] at h; simp only [Res.bind] at h
    cases h2 : Onto.icFold .omim (({ o with terms := t1 } : Onto).recs .omim).length t1 with
    | ok t2 =>
      rw [h2] at h; simp only [Res.bind] at h
      cases h3 : Onto.icFold .orpha (({ o with terms := t2 } : Onto).recs .orpha).length t2 with
      | ok t3 =>
        rw [h3] at h; simp only [Res.bind, Res.ok.injEq] at h
        subst h
        have e1 := icFold_ok _ _ _ _ h1
        have e2 := icFold_ok _ _ _ _ h2
        have e3 := icFold_ok _ _ _ _ h3
        refine ⟨?_, rfl, rfl, rfl⟩
        simp only [e3, e2, e1, List.map_map]
        apply List.map_congr_left
        intro t _
        simp [Onto.recs, Term.ann, Term.setIc]
      | err e => rw [h3] at h; cases h
      | panic => rw [h3] at h; cases h
      | diverge => rw [h3] at h; cases h
    | err e => rw [h2] at h; cases h
    | panic => rw [h2] at h; cases h
    | diverge => rw [h2] at h; cases h
  | err e => rw [h1] at h; cases h
  | panic => rw [h1] at h; cases h
  | diverge => rw [h1] at h; cases h


theorem getT_map (ts : List Term) (f : Term → Term) (hf : ∀ t, (f t).id = t.id) (j : Nat) :
    getT (ts.map f) j = (getT ts j).map f := by
  induction ts with
  | nil => rfl
  | cons t ts ih =>
    simp only [List.map_cons, getT, hf]
    split
    · rfl
    · exact ih

end Hpo
