import HpoProofs.SetOps
import HpoModel.Compare
/-! Lemmas about the comparison model (`HpoModel/Compare.lean`); core Lean only. -/
namespace Hpo

theorem getR_id_s {rs : List Rec} {i : Nat} {r : Rec} (h : getR rs i = some r) : r.id = i := by
  induction rs with
  | nil => simp [getR] at h
  | cons a rs ih =>
    simp only [getR] at h
    split at h
    · cases h; assumption
    · exact ih h

theorem getR_mem_s {rs : List Rec} {i : Nat} {r : Rec} (h : getR rs i = some r) : r ∈ rs := by
  induction rs with
  | nil => simp [getR] at h
  | cons a rs ih =>
    simp only [getR] at h
    split at h
    · cases h; simp
    · exact List.mem_cons_of_mem _ (ih h)

theorem getT_eq_none {ts : List Term} {i : Nat} : getT ts i = none ↔ i ∉ ts.map (·.id) := by
  induction ts with
  | nil => simp [getT]
  | cons a ts ih =>
    simp only [getT, List.map_cons, List.mem_cons, not_or]
    by_cases h : a.id = i
    · simp [h]
    · simp only [h, ↓reduceIte, ih]
      constructor
      · intro h'; exact ⟨fun e => h e.symm, h'⟩
      · intro h'; exact h'.2

theorem getR_eq_none_s {rs : List Rec} {i : Nat} : getR rs i = none ↔ i ∉ rs.map (·.id) := by
  induction rs with
  | nil => simp [getR]
  | cons a rs ih =>
    simp only [getR, List.map_cons, List.mem_cons, not_or]
    by_cases h : a.id = i
    · simp [h]
    · simp only [h, ↓reduceIte, ih]
      constructor
      · intro h'; exact ⟨fun e => h e.symm, h'⟩
      · intro h'; exact h'.2

/-- resolving an id list returns terms with exactly those ids -/
theorem Onto.resolve_ids {o : Onto} {l : List Nat} {ts : List Term} (h : o.resolve l = some ts) :
    ts.map (·.id) = l := by
  induction l generalizing ts with
  | nil => simp [Onto.resolve] at h; subst h; rfl
  | cons a l ih =>
    simp only [Onto.resolve] at h
    cases hg : o.get a with
    | none => simp [hg] at h
    | some t =>
      simp only [hg] at h
      cases hr : o.resolve l with
      | none => simp [hr] at h
      | some ts' =>
        simp only [hr, Option.map_some, Option.some.injEq] at h
        subst h
        simp [ih hr, Onto.get_id_s hg]

namespace Compare
open Group

/-! ### well-formedness predicates (decidable) -/

/-- every term of the arena is the one its id resolves to (ids unique and inside the id table) -/
def KeysOk (o : Onto) : Prop := ∀ t ∈ o.terms, o.get t.id = some t
/-- every record is the one its id maps to (a `HashMap` has one record per id) -/
def RecKeysOk (rs : List Rec) : Prop := ∀ r ∈ rs, getR rs r.id = some r
/-- every direct parent id is a term (`parents()` does not panic) -/
def ParentsResolve (o : Onto) : Prop := ∀ t ∈ o.terms, (o.resolve t.parents).isSome = true

instance (o : Onto) : Decidable (KeysOk o) := by unfold KeysOk; infer_instance
instance (rs : List Rec) : Decidable (RecKeysOk rs) := by unfold RecKeysOk; infer_instance
instance (o : Onto) : Decidable (ParentsResolve o) := by unfold ParentsResolve; infer_instance

theorem mem_diff (a b : List Nat) (x : Nat) : x ∈ diff a b ↔ x ∈ a ∧ x ∉ b := by
  simp [diff, List.mem_filter]

theorem diff_eq_nil (a b : List Nat) : diff a b = [] ↔ ∀ x ∈ a, x ∈ b := by
  simp [diff, List.filter_eq_nil_iff]

theorem diff_self (a : List Nat) : diff a a = [] := (diff_eq_nil a a).2 (fun _ h => h)

theorem sorted_diff (a b : List Nat) (h : Sorted a) : Sorted (diff a b) := sorted_filter _ _ h

/-- both differences empty ⇔ same members -/
theorem diffs_nil_iff (a b : List Nat) :
    (diff a b = [] ∧ diff b a = []) ↔ ∀ x, x ∈ a ↔ x ∈ b := by
  rw [diff_eq_nil, diff_eq_nil]
  exact ⟨fun ⟨h1, h2⟩ x => ⟨h1 x, h2 x⟩, fun h => ⟨fun x => (h x).1, fun x => (h x).2⟩⟩

theorem parentIdSet_of_resolve {o : Onto} {t : Term} (h : (o.resolve t.parents).isSome = true) :
    parentIdSet o t = some (ofList t.parents) := by
  unfold parentIdSet
  cases hr : o.resolve t.parents with
  | none => simp [hr] at h
  | some ts => simp [Onto.resolve_ids hr]

/-- the delta of two terms whose parents resolve -/
def delta (l r : Onto) (tl tr : Term) : TermDelta :=
  mkDelta l r tl tr (ofList tl.parents) (ofList tr.parents)

/-- what `HpoTermDelta::new` counts as a difference -/
def Differ (l r : Onto) (tl tr : Term) : Prop :=
  tl.name ≠ tr.name ∨ ¬ (∀ p, p ∈ tl.parents ↔ p ∈ tr.parents) ∨ tl.obsolete ≠ tr.obsolete ∨
    replId l tl ≠ replId r tr

theorem termDelta_ok {l r : Onto} {tl tr : Term} (hl : (l.resolve tl.parents).isSome = true)
    (hr : (r.resolve tr.parents).isSome = true) :
    termDelta l r tl tr = .ok (if (delta l r tl tr).differs then some (delta l r tl tr) else none) := by
  unfold termDelta
  rw [parentIdSet_of_resolve hl, parentIdSet_of_resolve hr]
  rfl

theorem differs_iff (l r : Onto) (tl tr : Term) :
    (delta l r tl tr).differs = true ↔ Differ l r tl tr := by
  have hp := diffs_nil_iff (ofList tl.parents) (ofList tr.parents)
  simp only [mem_ofList] at hp
  simp only [TermDelta.differs, delta, mkDelta, Bool.or_eq_true, bne_iff_ne, ne_eq,
    Bool.not_eq_true', List.isEmpty_eq_false_iff, Differ]
  rw [← hp]
  constructor
  · rintro ((((h | h) | h) | h) | h)
    · exact Or.inl h
    · exact Or.inr (Or.inl (fun hh => h hh.1))
    · exact Or.inr (Or.inl (fun hh => h hh.2))
    · exact Or.inr (Or.inr (Or.inl h))
    · exact Or.inr (Or.inr (Or.inr h))
  · rintro (h | h | h | h)
    · exact Or.inl (Or.inl (Or.inl (Or.inl h)))
    · by_cases h1 : diff (ofList tl.parents) (ofList tr.parents) = []
      · by_cases h2 : diff (ofList tr.parents) (ofList tl.parents) = []
        · exact absurd ⟨h1, h2⟩ h
        · exact Or.inl (Or.inl (Or.inr h2))
      · exact Or.inl (Or.inl (Or.inl (Or.inr h1)))
    · exact Or.inl (Or.inr h)
    · exact Or.inr h

theorem changedFold_ok (l r : Onto) (hr : ParentsResolve r) (ts : List Term)
    (hl : ∀ t ∈ ts, (l.resolve t.parents).isSome = true) :
    ∃ ds, changedFold l r ts = .ok ds ∧
      ∀ d, d ∈ ds ↔ ∃ tl ∈ ts, ∃ tr, r.get tl.id = some tr ∧ d = delta l r tl tr ∧ Differ l r tl tr := by
  induction ts with
  | nil => exact ⟨[], rfl, by simp⟩
  | cons a ts ih =>
    obtain ⟨ds, hds, hmem⟩ := ih (fun t ht => hl t (List.mem_cons_of_mem _ ht))
    cases hg : r.get a.id with
    | none =>
      refine ⟨ds, by simp [changedFold, hg, hds], ?_⟩
      intro d; rw [hmem]
      constructor
      · rintro ⟨tl, h1, h2⟩; exact ⟨tl, List.mem_cons_of_mem _ h1, h2⟩
      · rintro ⟨tl, h1, tr, h2, h3⟩
        rcases List.mem_cons.1 h1 with rfl | h1
        · rw [hg] at h2; cases h2
        · exact ⟨tl, h1, tr, h2, h3⟩
    | some tr =>
      have htd := termDelta_ok (l := l) (r := r) (hl a (by simp)) (hr tr (Onto.get_mem_s hg))
      by_cases hd : (delta l r a tr).differs = true
      · refine ⟨delta l r a tr :: ds, by simp [changedFold, hg, htd, hd, hds], ?_⟩
        intro d
        simp only [List.mem_cons, hmem]
        constructor
        · rintro (rfl | ⟨tl, h1, h2⟩)
          · exact ⟨a, Or.inl rfl, tr, hg, rfl, (differs_iff l r a tr).1 hd⟩
          · exact ⟨tl, Or.inr h1, h2⟩
        · rintro ⟨tl, rfl | h1, tr', h2, h3, h4⟩
          · rw [hg] at h2; cases h2; exact Or.inl h3
          · exact Or.inr ⟨tl, h1, tr', h2, h3, h4⟩
      · refine ⟨ds, by simp [changedFold, hg, htd, hd, hds], ?_⟩
        intro d; rw [hmem]
        constructor
        · rintro ⟨tl, h1, h2⟩; exact ⟨tl, List.mem_cons_of_mem _ h1, h2⟩
        · rintro ⟨tl, h1, tr', h2, h3, h4⟩
          rcases List.mem_cons.1 h1 with rfl | h1
          · rw [hg] at h2; cases h2
            exact absurd ((differs_iff _ _ _ _).2 h4) hd
          · exact ⟨tl, h1, tr', h2, h3, h4⟩

theorem ite_none_iff {α : Type} {c : Prop} [Decidable c] (a : α) :
    (if c then none else some a) = none ↔ c := by
  by_cases h : c <;> simp [h]

theorem isEmpty_diff_ofList (a b : List Nat) :
    (diff (ofList a) (ofList b)).isEmpty = true ↔ ∀ p ∈ a, p ∈ b := by
  rw [List.isEmpty_iff, diff_eq_nil]
  simp only [mem_ofList]

theorem addedParents?_none (l r : Onto) (tl tr : Term) :
    (delta l r tl tr).addedParents? = none ↔ ∀ p ∈ tr.parents, p ∈ tl.parents := by
  unfold TermDelta.addedParents?
  rw [ite_none_iff]
  exact isEmpty_diff_ofList _ _

theorem removedParents?_none (l r : Onto) (tl tr : Term) :
    (delta l r tl tr).removedParents? = none ↔ ∀ p ∈ tl.parents, p ∈ tr.parents := by
  unfold TermDelta.removedParents?
  rw [ite_none_iff]
  exact isEmpty_diff_ofList _ _

/-! ### swapping old and new -/

def TermDelta.swap (d : TermDelta) : TermDelta :=
  { id := d.id, names := (d.names.2, d.names.1), addedParents := d.removedParents,
    removedParents := d.addedParents, obsolete := (d.obsolete.2, d.obsolete.1),
    replacement := (d.replacement.2, d.replacement.1) }

def AnnDelta.swap (d : AnnDelta) : AnnDelta :=
  { id := d.id, names := (d.names.2, d.names.1), nTerms := (d.nTerms.2, d.nTerms.1),
    addedTerms := d.removedTerms, removedTerms := d.addedTerms }

theorem TermDelta.swap_swap (d : TermDelta) : d.swap.swap = d := rfl
theorem AnnDelta.swap_swap (d : AnnDelta) : d.swap.swap = d := rfl

theorem delta_swap (l r : Onto) (tl tr : Term) (h : tr.id = tl.id) :
    delta r l tr tl = (delta l r tl tr).swap := by
  simp [delta, mkDelta, TermDelta.swap, h]

theorem Differ.symm {l r : Onto} {tl tr : Term} (h : Differ l r tl tr) : Differ r l tr tl := by
  rcases h with h | h | h | h
  · exact Or.inl (fun e => h e.symm)
  · exact Or.inr (Or.inl (fun hh => h (fun p => (hh p).symm)))
  · exact Or.inr (Or.inr (Or.inl (fun e => h e.symm)))
  · exact Or.inr (Or.inr (Or.inr (fun e => h e.symm)))

/-- what `AnnotationDelta::delta` counts as a difference -/
def AnnDiffer (a b : Rec) : Prop := a.name ≠ b.name ∨ ¬ (∀ t, t ∈ a.hpos ↔ t ∈ b.hpos)

theorem annDiffers_iff (a b : Rec) : (mkAnnDelta a b).differs = true ↔ AnnDiffer a b := by
  have hp := diffs_nil_iff a.hpos b.hpos
  simp only [AnnDelta.differs, mkAnnDelta, Bool.or_eq_true, bne_iff_ne, ne_eq,
    Bool.not_eq_true', List.isEmpty_eq_false_iff, AnnDiffer]
  rw [← hp]
  constructor
  · rintro ((h | h) | h)
    · exact Or.inr (fun hh => h hh.2)
    · exact Or.inr (fun hh => h hh.1)
    · exact Or.inl h
  · rintro (h | h)
    · exact Or.inr h
    · by_cases h1 : diff a.hpos b.hpos = []
      · by_cases h2 : diff b.hpos a.hpos = []
        · exact absurd ⟨h1, h2⟩ h
        · exact Or.inl (Or.inl h2)
      · exact Or.inl (Or.inr h1)

theorem mem_changedRecs (k : Kind) (l r : Onto) (d : AnnDelta) :
    d ∈ changedRecs k l r ↔
      ∃ a ∈ l.recs k, ∃ b, getR (r.recs k) a.id = some b ∧ d = mkAnnDelta a b ∧ AnnDiffer a b := by
  simp only [changedRecs, List.mem_filterMap]
  constructor
  · rintro ⟨a, ha, h⟩
    cases hg : getR (r.recs k) a.id with
    | none => simp [hg] at h
    | some b =>
      simp only [hg, Option.bind_some, annDelta] at h
      by_cases hd : (mkAnnDelta a b).differs = true
      · simp only [hd, ↓reduceIte, Option.some.injEq] at h
        exact ⟨a, ha, b, hg, h.symm, (annDiffers_iff a b).1 hd⟩
      · simp [hd] at h
  · rintro ⟨a, ha, b, hg, rfl, hd⟩
    refine ⟨a, ha, ?_⟩
    simp [hg, annDelta, (annDiffers_iff a b).2 hd]

theorem AnnDiffer.symm {a b : Rec} (h : AnnDiffer a b) : AnnDiffer b a := by
  rcases h with h | h
  · exact Or.inl (fun e => h e.symm)
  · exact Or.inr (fun hh => h (fun p => (hh p).symm))

theorem mkAnnDelta_swap (a b : Rec) (h : b.id = a.id) : mkAnnDelta b a = (mkAnnDelta a b).swap := by
  simp [mkAnnDelta, AnnDelta.swap, h]

end Compare
end Hpo
