import HpoModel.Builder
import HpoProofs.Group
/-! Frame lemmas for the term arena (`getT`/`modT`) and record maps (`getR`/`modR`/`addR`/`putR`). -/
namespace Hpo

theorem getT_id {ts : List Term} {j : Nat} {t : Term} (h : getT ts j = some t) : t.id = j := by
  induction ts with
  | nil => simp [getT] at h
  | cons u ts ih =>
    simp only [getT] at h
    split at h
    · simp at h; subst h; assumption
    · exact ih h

theorem getT_mem {ts : List Term} {j : Nat} {t : Term} (h : getT ts j = some t) : t ∈ ts := by
  induction ts with
  | nil => simp [getT] at h
  | cons u ts ih =>
    simp only [getT] at h
    split at h
    · simp at h; subst h; simp
    · exact List.mem_cons_of_mem _ (ih h)

theorem getT_isSome_iff (ts : List Term) (j : Nat) : (getT ts j).isSome ↔ j ∈ ts.map (·.id) := by
  induction ts with
  | nil => simp [getT]
  | cons u ts ih =>
    simp only [getT, List.map_cons, List.mem_cons]
    split
    · rename_i h; simp [h]
    · rename_i h; rw [ih]; constructor
      · intro h'; exact Or.inr h'
      · rintro (h' | h')
        · exact absurd h'.symm h
        · exact h'

theorem getT_none_iff (ts : List Term) (j : Nat) : getT ts j = none ↔ j ∉ ts.map (·.id) := by
  rw [← getT_isSome_iff]; cases getT ts j <;> simp

/-- lookup after a field update that keeps ids -/
theorem getT_modT (ts : List Term) (i j : Nat) (f : Term → Term) (hf : ∀ t, (f t).id = t.id) :
    getT (modT ts i f) j = (getT ts j).map (fun t => if t.id = i then f t else t) := by
  induction ts with
  | nil => simp [getT, modT]
  | cons t ts ih =>
    simp only [getT, modT]
    by_cases hti : t.id = i
    · simp only [hti, ↓reduceIte]
      have : (f t).id = i := by rw [hf, hti]
      by_cases hij : i = j
      · subst hij; simp [this, hti]
      · simp [this, hij, hti, ih]
    · simp only [hti, ↓reduceIte]
      by_cases htj : t.id = j
      · have : ¬ j = i := fun h => hti (htj.trans h)
        simp [htj, this]
      · simp [htj, ih]

theorem modT_ids (ts : List Term) (i : Nat) (f : Term → Term) (hf : ∀ t, (f t).id = t.id) :
    (modT ts i f).map (·.id) = ts.map (·.id) := by
  induction ts with
  | nil => simp [modT]
  | cons t ts ih =>
    simp only [modT, List.map_cons, ih]
    split <;> simp [hf]

theorem modT_length (ts : List Term) (i : Nat) (f : Term → Term) : (modT ts i f).length = ts.length := by
  induction ts with
  | nil => simp [modT]
  | cons t ts ih => simp [modT, ih]

/-- projections with a default for absent ids -/
def parentsOf (ts : List Term) (i : Nat) : List Nat := ((getT ts i).map (·.parents)).getD []
def allOf (ts : List Term) (i : Nat) : List Nat := ((getT ts i).map (·.allParents)).getD []
def childrenOf (ts : List Term) (i : Nat) : List Nat := ((getT ts i).map (·.children)).getD []
def annOf (k : Kind) (ts : List Term) (i : Nat) : List Nat := ((getT ts i).map (·.ann k)).getD []

theorem get_eq_getT (o : Onto) (j : Nat) (hs : ∀ j, (getT o.terms j).isSome → j < maxId) :
    o.get j = getT o.terms j := by
  unfold Onto.get arenaGet
  split
  · rename_i hge
    cases h : getT o.terms j with
    | none => rfl
    | some t => have := hs j (by simp [h]); omega
  · rfl

/-! ### records -/

theorem getR_id {rs : List Rec} {j : Nat} {r : Rec} (h : getR rs j = some r) : r.id = j := by
  induction rs with
  | nil => simp [getR] at h
  | cons u rs ih =>
    simp only [getR] at h
    split at h
    · simp at h; subst h; assumption
    · exact ih h

theorem getR_mem {rs : List Rec} {j : Nat} {r : Rec} (h : getR rs j = some r) : r ∈ rs := by
  induction rs with
  | nil => simp [getR] at h
  | cons u rs ih =>
    simp only [getR] at h
    split at h
    · simp at h; subst h; simp
    · exact List.mem_cons_of_mem _ (ih h)

theorem getR_isSome_iff (rs : List Rec) (j : Nat) : (getR rs j).isSome ↔ j ∈ rs.map (·.id) := by
  induction rs with
  | nil => simp [getR]
  | cons u rs ih =>
    simp only [getR, List.map_cons, List.mem_cons]
    split
    · rename_i h; simp [h]
    · rename_i h; rw [ih]; constructor
      · intro h'; exact Or.inr h'
      · rintro (h' | h')
        · exact absurd h'.symm h
        · exact h'

theorem getR_modR (rs : List Rec) (i j : Nat) (f : Rec → Rec) (hf : ∀ r, (f r).id = r.id) :
    getR (modR rs i f) j = (getR rs j).map (fun r => if r.id = i then f r else r) := by
  induction rs with
  | nil => simp [getR, modR]
  | cons t ts ih =>
    simp only [getR, modR]
    by_cases hti : t.id = i
    · simp only [hti, ↓reduceIte]
      have : (f t).id = i := by rw [hf, hti]
      by_cases hij : i = j
      · subst hij; simp [this, hti]
      · simp [this, hij, hti, ih]
    · simp only [hti, ↓reduceIte]
      by_cases htj : t.id = j
      · have : ¬ j = i := fun h => hti (htj.trans h)
        simp [htj, this]
      · simp [htj, ih]

theorem getR_append (rs : List Rec) (r : Rec) (j : Nat) :
    getR (rs ++ [r]) j = match getR rs j with
      | some x => some x
      | none => if r.id = j then some r else none := by
  induction rs with
  | nil => simp [getR]
  | cons u rs ih =>
    simp only [List.cons_append, getR]
    split
    · rfl
    · exact ih

theorem getT_append (ts : List Term) (t : Term) (j : Nat) :
    getT (ts ++ [t]) j = match getT ts j with
      | some x => some x
      | none => if t.id = j then some t else none := by
  induction ts with
  | nil => simp [getT]
  | cons u ts ih =>
    simp only [List.cons_append, getT]
    split
    · rfl
    · exact ih

end Hpo
