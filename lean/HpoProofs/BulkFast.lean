import HpoModel.BulkFast
import HpoProofs.Bulk
/-!
The one-pass bulk annotation run by the driver (`HpoModel/BulkFast.lean`) is the `count`-fold
repetition of the Builder call `annotate_*` (`annotateRange`), for all arguments.
-/
namespace Hpo
namespace Onto
open Group

/-! ### arena and group facts -/

theorem getT_map (ts : List Term) (f : Term → Term) (hf : ∀ u, (f u).id = u.id) (j : Nat) :
    getT (ts.map f) j = (getT ts j).map f := by
  induction ts with
  | nil => rfl
  | cons u ts ih =>
    simp only [List.map_cons, getT, hf]
    split <;> simp [ih]

theorem modT_map (ts : List Term) (g f : Term → Term) (hg : ∀ u, (g u).id = u.id) (p : Nat) :
    modT (ts.map g) p f = ts.map (fun u => if u.id = p then f (g u) else g u) := by
  induction ts with
  | nil => rfl
  | cons u ts ih => simp only [List.map_cons, modT, hg, ih]

theorem insert_headAbove (l : List Nat) (r : Nat) (h : headAbove r l = true) :
    Group.insert l r = (r :: l, true) := by
  cases l with
  | nil => rfl
  | cons a l =>
    simp only [headAbove, decide_eq_true_eq] at h
    simp [Group.insert, h]

theorem insert_head_self (l : List Nat) (r : Nat) : Group.insert (r :: l) r = (r :: l, false) := by
  simp [Group.insert]

theorem setTerms_terms (o : Onto) (ts : List Term) : (o.setTerms ts).terms = ts := rfl

theorem setTerms_self (o : Onto) : o.setTerms o.terms = o := rfl

theorem get_of_getT (o : Onto) (p : Nat) (hp : p < maxId) : o.get p = getT o.terms p := by
  unfold Onto.get arenaGet
  rw [if_neg (by omega)]

theorem getT_of_get {o : Onto} {p : Nat} {tp : Term} (h : o.get p = some tp) :
    getT o.terms p = some tp ∧ p < maxId := by
  unfold Onto.get arenaGet at h
  split at h
  · simp at h
  · exact ⟨h, by omega⟩

/-! ### the upward walk of `link` inside a closed member set -/

/-- what the walk relies on: every member of `S` resolves, its cached ancestors are members, and its
annotation group is empty or starts above `r` -/
def WalkOK (k : Kind) (ts : List Term) (S : List Nat) (r : Nat) : Prop :=
  ∀ p ∈ S, ∃ tp, getT ts p = some tp ∧ p < maxId ∧ (∀ q ∈ tp.allParents, q ∈ S) ∧
    headAbove r (tp.ann k) = true

/-- a visited term has `r` in front of the group of the first term with its id -/
def visF (k : Kind) (ts : List Term) (r : Nat) (vis : Nat → Bool) (u : Term) : Term :=
  if vis u.id then u.setAnn k (r :: annFirst k ts u.id) else u

theorem visF_id (k : Kind) (ts : List Term) (r : Nat) (vis : Nat → Bool) (u : Term) :
    (visF k ts r vis u).id = u.id := by
  unfold visF; split
  · exact setAnn_id _ _ _
  · rfl

theorem visF_allParents (k : Kind) (ts : List Term) (r : Nat) (vis : Nat → Bool) (u : Term) :
    (visF k ts r vis u).allParents = u.allParents := by
  unfold visF; split
  · exact setAnn_allParents _ _ _
  · rfl

/-- the state of the walk: the base with the visited terms updated -/
def st (b : Onto) (k : Kind) (r : Nat) (vis : Nat → Bool) : Onto :=
  b.setTerms (b.terms.map (visF k b.terms r vis))

theorem st_get (b : Onto) (k : Kind) (r : Nat) (vis : Nat → Bool) (p : Nat) (tp : Term)
    (h : getT b.terms p = some tp) (hp : p < maxId) :
    (st b k r vis).get p = some (visF k b.terms r vis tp) := by
  rw [get_of_getT _ _ hp]
  show getT (b.terms.map _) p = _
  rw [getT_map _ _ (fun u => visF_id k b.terms r vis u), h]
  rfl

theorem st_none (b : Onto) (k : Kind) (r : Nat) : st b k r (fun _ => false) = b := by
  unfold st
  have : b.terms.map (visF k b.terms r (fun _ => false)) = b.terms := by
    conv => rhs; rw [← List.map_id b.terms]
    apply List.map_congr_left
    intro u _
    simp [visF]
  rw [this]; rfl

theorem st_congr (b : Onto) (k : Kind) (r : Nat) (vis vis' : Nat → Bool) (h : ∀ j, vis j = vis' j) :
    st b k r vis = st b k r vis' := by
  have : vis = vis' := funext h
  rw [this]

theorem unvisited_le (S : List Nat) (vis vis' : Nat → Bool)
    (hm : ∀ j, vis j = true → vis' j = true) :
    S.countP (fun j => !vis' j) ≤ S.countP (fun j => !vis j) := by
  apply List.countP_mono_left
  intro x _ hx
  cases hv : vis x
  · rfl
  · simp [hm x hv] at hx

theorem unvisited_lt (S : List Nat) (vis vis' : Nat → Bool) (p : Nat) (hp : p ∈ S)
    (h0 : vis p = false) (h1 : vis' p = true) (hm : ∀ j, vis j = true → vis' j = true) :
    S.countP (fun j => !vis' j) < S.countP (fun j => !vis j) := by
  induction S with
  | nil => simp at hp
  | cons a S ih =>
    have hle := unvisited_le S vis vis' hm
    simp only [List.countP_cons]
    by_cases hap : a = p
    · subst hap
      simp only [h0, h1, Bool.not_false, Bool.not_true, Bool.false_eq_true, ↓reduceIte]
      omega
    · have hp' : p ∈ S := by
        rcases List.mem_cons.1 hp with h | h
        · exact absurd h.symm hap
        · exact h
      have h2 := ih hp'
      have h3 : (if (!vis' a) = true then 1 else 0) ≤ (if (!vis a) = true then 1 else 0) := by
        cases hv : vis a
        · cases vis' a <;> simp
        · simp [hm a hv]
      omega

/-- one level of `link` at an unvisited member: mark it, then walk its cached ancestors -/
theorem link_unvisited (b : Onto) (k : Kind) (r : Nat)
    (fuel : Nat) (vis : Nat → Bool) (p : Nat) (tp : Term) (htp : getT b.terms p = some tp)
    (hp : p < maxId) (hh : headAbove r (tp.ann k) = true) (hv : vis p = false) :
    link k r (fuel + 1) (st b k r vis) p =
      linkFold (link k r fuel) tp.allParents (st b k r (fun j => j == p || vis j)) := by
  have hid : tp.id = p := getT_id htp
  have hvf : visF k b.terms r vis tp = tp := by simp [visF, hid, hv]
  rw [link, st_get b k r vis p tp htp hp, hvf]
  simp only [insert_headAbove _ _ hh, ↓reduceIte]
  congr 1
  show b.setTerms (modT (b.terms.map (visF k b.terms r vis)) p _) = _
  unfold st
  congr 1
  rw [modT_map _ _ _ (fun u => visF_id k b.terms r vis u)]
  apply List.map_congr_left
  intro u _
  by_cases hu : u.id = p
  · have hann : annFirst k b.terms u.id = tp.ann k := by simp [annFirst, hu, htp]
    simp [visF, hu, hv, ← hann]
  · simp [visF, hu]

/-- `link` at a visited member: the early exit -/
theorem link_visited (b : Onto) (k : Kind) (r : Nat) (fuel : Nat) (vis : Nat → Bool) (p : Nat)
    (tp : Term) (htp : getT b.terms p = some tp) (hp : p < maxId) (hv : vis p = true) :
    link k r (fuel + 1) (st b k r vis) p = .ok (st b k r vis) := by
  have hid : tp.id = p := getT_id htp
  have hvf : visF k b.terms r vis tp = tp.setAnn k (r :: annFirst k b.terms p) := by
    simp [visF, hid, hv]
  rw [link, st_get b k r vis p tp htp hp, hvf]
  simp [setAnn_ann, insert_head_self]

/-- the statement proved by induction on the fuel -/
def LinkVis (b : Onto) (k : Kind) (r : Nat) (S : List Nat) (fuel : Nat) : Prop :=
  ∀ (vis : Nat → Bool) (p : Nat), (∀ j, vis j = true → j ∈ S) → p ∈ S →
    S.countP (fun j => !vis j) < fuel →
    ∃ vis', link k r fuel (st b k r vis) p = .ok (st b k r vis') ∧
      (∀ j, vis j = true → vis' j = true) ∧ (∀ j, vis' j = true → j ∈ S) ∧ vis' p = true

theorem linkFold_vis (b : Onto) (k : Kind) (r : Nat) (S : List Nat) (fuel : Nat)
    (ih : LinkVis b k r S fuel) :
    ∀ (as : List Nat) (vis : Nat → Bool), (∀ a ∈ as, a ∈ S) → (∀ j, vis j = true → j ∈ S) →
      S.countP (fun j => !vis j) < fuel →
      ∃ vis', linkFold (link k r fuel) as (st b k r vis) = .ok (st b k r vis') ∧
        (∀ j, vis j = true → vis' j = true) ∧ (∀ j, vis' j = true → j ∈ S) ∧
        ∀ a ∈ as, vis' a = true := by
  intro as
  induction as with
  | nil =>
    intro vis _ hsub _
    exact ⟨vis, rfl, fun _ h => h, hsub, by simp⟩
  | cons a as iha =>
    intro vis has hsub hc
    obtain ⟨v1, e1, m1, s1, a1⟩ := ih vis a hsub (has a (by simp)) hc
    have hc1 : S.countP (fun j => !v1 j) < fuel :=
      Nat.lt_of_le_of_lt (unvisited_le S vis v1 m1) hc
    obtain ⟨v2, e2, m2, s2, a2⟩ := iha v1 (fun x hx => has x (by simp [hx])) s1 hc1
    refine ⟨v2, ?_, fun j h => m2 j (m1 j h), s2, ?_⟩
    · simp only [linkFold, e1, Res.bind, e2]
    · intro x hx
      rcases List.mem_cons.1 hx with rfl | hx
      · exact m2 _ a1
      · exact a2 x hx

theorem link_vis (b : Onto) (k : Kind) (r : Nat) (S : List Nat) (hw : WalkOK k b.terms S r) :
    ∀ fuel, LinkVis b k r S fuel := by
  intro fuel
  induction fuel with
  | zero => intro vis p _ _ h; omega
  | succ fuel ih =>
    intro vis p hsub hp hc
    obtain ⟨tp, htp, hpm, hcl, hh⟩ := hw p hp
    cases hv : vis p with
    | true =>
      exact ⟨vis, link_visited b k r fuel vis p tp htp hpm hv, fun _ h => h, hsub, hv⟩
    | false =>
      have hm1 : ∀ j, vis j = true → (fun j => j == p || vis j) j = true := by
        intro j hj; simp [hj]
      have hs1 : ∀ j, (fun j => j == p || vis j) j = true → j ∈ S := by
        intro j hj
        simp only [Bool.or_eq_true, beq_iff_eq] at hj
        rcases hj with rfl | hj
        · exact hp
        · exact hsub j hj
      have hc1 : S.countP (fun j => !(fun j => j == p || vis j) j) < fuel := by
        have := unvisited_lt S vis (fun j => j == p || vis j) p hp hv (by simp) hm1
        exact Nat.lt_of_lt_of_le this (by omega)
      obtain ⟨v2, e2, m2, s2, _⟩ :=
        linkFold_vis b k r S fuel ih tp.allParents _ hcl hs1 hc1
      refine ⟨v2, ?_, fun j h => m2 j (hm1 j h), s2, m2 p (by simp)⟩
      rw [link_unvisited b k r fuel vis p tp htp hpm hh hv, e2]

/-- **The walk from `t` marks exactly `S = t :: allParents(t)`.** -/
theorem link_members (b : Onto) (k : Kind) (r t : Nat) (tm : Term) (htm : getT b.terms t = some tm)
    (hw : WalkOK k b.terms (t :: tm.allParents) r) (hlen : tm.allParents.length ≤ b.terms.length) :
    link k r (b.terms.length + 2) b t
      = .ok (st b k r (fun j => (t :: tm.allParents).elem j)) := by
  obtain ⟨tp, htp, hpm, hcl, hh⟩ := hw t (by simp)
  have : tp = tm := by rw [htm] at htp; exact (Option.some.inj htp).symm
  subst this
  have h0 : link k r (b.terms.length + 2) b t
      = link k r (b.terms.length + 1 + 1) (st b k r (fun _ => false)) t := by rw [st_none]
  rw [h0, link_unvisited b k r _ _ t tp htp hpm hh rfl]
  have hs1 : ∀ j, (fun j => j == t || false) j = true → j ∈ t :: tp.allParents := by
    intro j hj
    simp only [Bool.or_false, beq_iff_eq] at hj
    simp [hj]
  have hc1 : (t :: tp.allParents).countP (fun j => !(fun j => j == t || false) j)
      < b.terms.length + 1 := by
    simp only [List.countP_cons, BEq.rfl, Bool.true_or, Bool.not_true, Bool.false_eq_true, ↓reduceIte]
    have := List.countP_le_length (p := fun j => !(j == t || false)) (l := tp.allParents)
    omega
  obtain ⟨v2, e2, m2, s2, a2⟩ :=
    linkFold_vis b k r _ _ (link_vis b k r _ hw _) tp.allParents _ hcl hs1 hc1
  rw [e2]
  congr 1
  apply st_congr
  intro j
  rw [Bool.eq_iff_iff]
  constructor
  · intro h
    have := s2 j h
    simpa using this
  · intro h
    simp only [List.elem_eq_mem, decide_eq_true_eq] at h
    rcases List.mem_cons.1 h with rfl | h
    · exact m2 _ (by simp)
    · exact a2 j h

/-! ### one call under the guard -/

theorem modR_append (rs rs' : List Rec) (i : Nat) (f : Rec → Rec) :
    modR (rs ++ rs') i f = modR rs i f ++ modR rs' i f := by
  induction rs with
  | nil => rfl
  | cons r rs ih => simp only [List.cons_append, modR, ih]

theorem modR_absent (rs : List Rec) (i : Nat) (f : Rec → Rec) (h : getR rs i = none) :
    modR rs i f = rs := by
  induction rs with
  | nil => rfl
  | cons r rs ih =>
    simp only [getR] at h
    split at h
    · simp at h
    · rename_i hne
      simp only [modR, hne, ↓reduceIte, ih h]

theorem addTermToRec_fresh (o : Onto) (k : Kind) (name : List Char) (r t : Nat)
    (h : getR (o.recs k) r = none) :
    o.addTermToRec k name r t = o.setRecs k (o.recs k ++ [{ id := r, name := name, hpos := [t] }]) := by
  unfold addTermToRec addRec addR
  simp only [h]
  rw [recs_setRecs, setRecs_setRecs, modR_append, modR_absent _ _ _ h]
  simp [modR, Group.insert]

theorem recs_setTerms (o : Onto) (k : Kind) (ts : List Term) : (o.setTerms ts).recs k = o.recs k := by
  cases k <;> rfl

theorem setRecs_setTerms (o : Onto) (k : Kind) (ts : List Term) (v : List Rec) :
    (o.setTerms ts).setRecs k v = (o.setRecs k v).setTerms ts := by
  cases k <;> rfl

theorem setTerms_setTerms (o : Onto) (a b : List Term) : (o.setTerms a).setTerms b = o.setTerms b := rfl

/-- the guard as a proposition (`A` = the cached ancestors of `t`, ids `first … first+n`) -/
structure BulkOK (o : Onto) (k : Kind) (t : Nat) (A : List Nat) (first n : Nat) : Prop where
  len : A.length ≤ o.terms.length
  fresh : ∀ r ∈ o.recs k, r.id < first ∨ first + (n + 1) ≤ r.id
  walk : WalkOK k o.terms (t :: A) (first + n)
  term : ∃ tm, o.get t = some tm ∧ tm.allParents = A

theorem walkOK_of_memberOk (o : Onto) (k : Kind) (S : List Nat) (r : Nat)
    (h : S.all (memberOk o k S r) = true) : WalkOK k o.terms S r := by
  intro p hp
  have hm := List.all_eq_true.1 h p hp
  unfold memberOk at hm
  split at hm
  · simp at hm
  · rename_i tp htp
    obtain ⟨h1, h2⟩ := getT_of_get htp
    simp only [Bool.and_eq_true, List.all_eq_true, List.elem_eq_mem, decide_eq_true_eq] at hm
    exact ⟨tp, h1, h2, hm.1, hm.2⟩

theorem bulkOK_of_guard (o : Onto) (k : Kind) (t : Nat) (tm : Term) (first n : Nat)
    (htm : o.get t = some tm) (hg : bulkGuard o k t tm.allParents first n = true) :
    BulkOK o k t tm.allParents first n := by
  unfold bulkGuard at hg
  simp only [Bool.and_eq_true, decide_eq_true_eq] at hg
  obtain ⟨h1, h2, h3⟩ := hg
  refine ⟨h1, ?_, walkOK_of_memberOk o k _ _ h3, tm, htm, rfl⟩
  intro r hr
  have := List.all_eq_true.1 h2 r hr
  simpa using this

theorem getR_fresh (rs : List Rec) (first n : Nat)
    (h : ∀ r ∈ rs, r.id < first ∨ first + (n + 1) ≤ r.id) : getR rs (first + n) = none := by
  induction rs with
  | nil => rfl
  | cons r rs ih =>
    have h1 := h r (by simp)
    simp only [getR]
    rw [if_neg (by omega)]
    exact ih (fun x hx => h x (by simp [hx]))

/-- the state after the call for the record id `r` -/
def stepOnto (o : Onto) (k : Kind) (name : List Char) (t : Nat) (A : List Nat) (r : Nat) : Onto :=
  (o.setRecs k (o.recs k ++ [{ id := r, name := name, hpos := [t] }])).setTerms
    (o.terms.map (visF k o.terms r (fun j => (t :: A).elem j)))

/-- **One `annotate_*` call under the guard.** -/
theorem annotate_step (o : Onto) (k : Kind) (name : List Char) (t : Nat) (A : List Nat)
    (first n : Nat) (h : BulkOK o k t A first n) :
    o.annotate k (first + n) name t = .ok (stepOnto o k name t A (first + n)) := by
  obtain ⟨tm, htm, hA⟩ := h.term
  subst hA
  unfold annotate
  simp only [htm]
  rw [addTermToRec_fresh o k name (first + n) t (getR_fresh _ _ _ h.fresh)]
  have hterms := terms_setRecs o k (o.recs k ++ [{ id := first + n, name := name, hpos := [t] }])
  have hw := h.walk
  have hlen := h.len
  have hget := (getT_of_get htm).1
  rw [← hterms] at hw hlen hget
  have := link_members _ k (first + n) t tm hget hw hlen
  unfold linkFuel
  rw [this]
  unfold st stepOnto
  rw [hterms]

/-! ### the guard after one call, and the composition of the closed forms -/

theorem stepOnto_terms (o : Onto) (k : Kind) (name : List Char) (t : Nat) (A : List Nat) (r : Nat) :
    (stepOnto o k name t A r).terms = o.terms.map (visF k o.terms r (fun j => (t :: A).elem j)) := rfl

theorem stepOnto_recs (o : Onto) (k : Kind) (name : List Char) (t : Nat) (A : List Nat) (r : Nat) :
    (stepOnto o k name t A r).recs k = o.recs k ++ [{ id := r, name := name, hpos := [t] }] := by
  unfold stepOnto
  rw [recs_setTerms, recs_setRecs]

theorem bulkOK_step (o : Onto) (k : Kind) (name : List Char) (t : Nat) (A : List Nat)
    (first n : Nat) (h : BulkOK o k t A first (n + 1)) :
    BulkOK (stepOnto o k name t A (first + (n + 1))) k t A first n := by
  have hwalk : WalkOK k (stepOnto o k name t A (first + (n + 1))).terms (t :: A) (first + n) := by
    intro p hp
    obtain ⟨tp, htp, hpm, hcl, _⟩ := h.walk p hp
    refine ⟨visF k o.terms (first + (n + 1)) (fun j => (t :: A).elem j) tp, ?_, hpm, ?_, ?_⟩
    · rw [stepOnto_terms, getT_map _ _ (fun u => visF_id _ _ _ _ u), htp]; rfl
    · rw [visF_allParents]; exact hcl
    · have hid : tp.id = p := getT_id htp
      have : (t :: A).elem tp.id = true := by rw [hid]; simpa using hp
      simp only [visF, this, ↓reduceIte, setAnn_ann, headAbove, decide_eq_true_eq]
      omega
  refine ⟨?_, ?_, hwalk, ?_⟩
  · rw [stepOnto_terms, List.length_map]; exact h.len
  · intro r hr
    rw [stepOnto_recs] at hr
    rcases List.mem_append.1 hr with hr | hr
    · have := h.fresh r hr; omega
    · simp only [List.mem_singleton] at hr
      subst hr
      right; show first + (n + 1) ≤ first + (n + 1); omega
  · obtain ⟨tm, htm, hA⟩ := h.term
    obtain ⟨h1, h2⟩ := getT_of_get htm
    refine ⟨visF k o.terms (first + (n + 1)) (fun j => (t :: A).elem j) tm, ?_, ?_⟩
    · rw [get_of_getT _ _ h2, stepOnto_terms, getT_map _ _ (fun u => visF_id _ _ _ _ u), h1]; rfl
    · rw [visF_allParents]; exact hA

theorem annFirst_step (k : Kind) (ts : List Term) (r : Nat) (S : List Nat) (u : Term) (hu : u ∈ ts)
    (hS : S.elem u.id = true) :
    annFirst k (ts.map (visF k ts r (fun j => S.elem j))) u.id = r :: annFirst k ts u.id := by
  have hsome : (getT ts u.id).isSome := by
    rw [getT_isSome_iff]; exact List.mem_map_of_mem hu
  obtain ⟨u0, hu0⟩ := Option.isSome_iff_exists.1 hsome
  have hid : u0.id = u.id := getT_id hu0
  have hS' : u.id ∈ S := by simpa using hS
  have h0 : annFirst k ts u.id = u0.ann k := by simp [annFirst, hu0]
  rw [h0]
  unfold annFirst
  rw [getT_map _ _ (fun u => visF_id _ _ _ _ u), hu0]
  simp [visF, hid, hS', setAnn_ann, h0]

theorem bulkTerm_step (k : Kind) (ts : List Term) (r : Nat) (S ids : List Nat) (u : Term)
    (hu : u ∈ ts) :
    bulkTerm k S ids (ts.map (visF k ts r (fun j => S.elem j))) (visF k ts r (fun j => S.elem j) u)
      = bulkTerm k S (ids ++ [r]) ts u := by
  unfold bulkTerm
  rw [visF_id]
  cases hS : S.elem u.id with
  | false =>
    have hS' : u.id ∉ S := by simpa using hS
    simp [visF, hS']
  | true =>
    have hS' : u.id ∈ S := by simpa using hS
    simp only [↓reduceIte]
    rw [annFirst_step k ts r S u hu hS]
    simp [visF, hS', setAnn_setAnn]

theorem annotateBulk_step (o : Onto) (k : Kind) (name : List Char) (t : Nat) (A : List Nat)
    (first n : Nat) :
    annotateBulk (stepOnto o k name t A (first + (n + 1))) k name t A first (n + 1)
      = annotateBulk o k name t A first (n + 1 + 1) := by
  unfold annotateBulk
  rw [stepOnto_recs, stepOnto_terms]
  unfold stepOnto
  rw [setRecs_setTerms, setTerms_setTerms, setRecs_setRecs, List.map_map, List.append_assoc]
  have hids : List.range' first (n + 1 + 1) = List.range' first (n + 1) ++ [first + (n + 1)] := by
    rw [List.range'_1_concat]
  rw [hids]
  congr 1
  apply List.map_congr_left
  intro u hu
  exact bulkTerm_step k o.terms (first + (n + 1)) (t :: A) _ u hu

theorem stepOnto_eq_bulk (o : Onto) (k : Kind) (name : List Char) (t : Nat) (A : List Nat)
    (first : Nat) : stepOnto o k name t A (first + 0) = annotateBulk o k name t A first 1 := by
  unfold stepOnto annotateBulk
  congr 1

/-- the repeated call under the guard is the closed form -/
theorem annotateRange_bulk (k : Kind) (name : List Char) (t : Nat) (A : List Nat) (first : Nat) :
    ∀ (n : Nat) (o : Onto), BulkOK o k t A first n →
      annotateRange o k name t first (n + 1) = .ok (annotateBulk o k name t A first (n + 1)) := by
  intro n
  induction n with
  | zero =>
    intro o h
    rw [annotateRange, annotate_step o k name t A first 0 h]
    simp only [Res.bind, annotateRange]
    rw [stepOnto_eq_bulk]
  | succ n ih =>
    intro o h
    rw [annotateRange, annotate_step o k name t A first (n + 1) h]
    simp only [Res.bind]
    rw [ih _ (bulkOK_step o k name t A first n h), annotateBulk_step]

/-- **The driver's bulk annotation is the repeated Builder call `annotate_*`** (all arguments: the
guard only selects the branch). -/
theorem annotateRangeFast_eq (o : Onto) (k : Kind) (name : List Char) (t first count : Nat) :
    annotateRangeFast o k name t first count = annotateRange o k name t first count := by
  cases count with
  | zero => rfl
  | succ n =>
    rw [annotateRangeFast]
    split
    · rfl
    · rename_i tm htm
      split
      · rename_i hg
        exact (annotateRange_bulk k name t tm.allParents first n o
          (bulkOK_of_guard o k t tm first n htm hg)).symm
      · rfl

end Onto
end Hpo
