import HpoProofs.SubOntology
import HpoProofs.Facts
import HpoProps.C03
/-!
`sub_ontology` after the collection stage IS a builder run (helper lemmas for C14).

For a duplicate-free id set `ids` all of whose members are terms of a well-formed source `o`:

* `copyTerms` is `runB` of `BOp.term` calls (`termOps`), so `PreInv` holds afterwards;
* `linkInduced` is `runB` of `BOp.parent` calls on present ids (`linkOps`), every one a successful
  `add_parent` (`C01_unchecked_eq_checked`);
* the induced parent relation is a sub-relation of the source's, hence irreflexive, hence `Acyclic`
  (`C01_acyclic_iff_irreflexive`), so `connectAll` succeeds (`C01_connect`);
* `copyRecs` ×3 is `runA` of `annotate` calls on present terms (`recOps`), every one successful
  (`annInv_annotate`);
* record ids of the result are record ids of the source, so the counts stay ≤ 65 535 and `calcIc`
  succeeds (`icFold_total`).

Consequently the result satisfies the conclusions of C01–C03 (`RunFacts`).
-/
namespace Hpo
open Onto Relation

/-! ### stage 1: `copyTerms` = `runB` of `new_term` calls -/

/-- the `add_term` calls of `sub_ontology` as term-level builder calls -/
def termOps (o : Onto) (ids : List Nat) : List BOp :=
  ids.map fun i => .term (o.srcTerm i).name (o.srcTerm i).id (o.srcTerm i).obsolete (o.srcTerm i).replacement

theorem copyTerms_eq_runB (o : Onto) : ∀ (ids : List Nat) (b : Onto),
    copyTerms o ids b = runB (termOps o ids) b
  | [], _ => rfl
  | i :: is, b => by
    simp only [copyTerms, termOps, List.map_cons, runB, applyB, copyTerm]
    congr 1
    funext b'
    exact copyTerms_eq_runB o is b'

theorem copyTerms_total (o : Onto) : ∀ (ids : List Nat) (b : Onto),
    (∀ i ∈ ids, (o.srcTerm i).id < maxId) → ∃ b', copyTerms o ids b = some b'
  | [], b, _ => ⟨b, rfl⟩
  | i :: is, b, h => by
    have hi : (copyTerm (o.srcTerm i)).id < maxId := h i List.mem_cons_self
    have : ∃ b1, b.addTerm (copyTerm (o.srcTerm i)) = some b1 := by
      simp only [addTerm, arenaInsert, Nat.not_le.2 hi, if_false]
      cases getT b.terms (copyTerm (o.srcTerm i)).id <;> exact ⟨_, rfl⟩
    obtain ⟨b1, h1⟩ := this
    obtain ⟨b', h'⟩ := copyTerms_total o is b1 (fun j hj => h j (List.mem_cons_of_mem _ hj))
    exact ⟨b', by simp [copyTerms, h1, h']⟩

/-- builder state whose present ids are exactly `ids` -/
structure Pres (ids : List Nat) (b : Onto) : Prop where
  pre : PreInv b.terms
  mem : ∀ j, (getT b.terms j).isSome ↔ j ∈ ids

/-! ### stage 2: `linkInduced` = `runB` of successful `add_parent` calls -/

theorem addParentUnchecked_present {b : Onto} {p c : Nat} (h : PreInv b.terms)
    (hp : (getT b.terms p).isSome) (hc : (getT b.terms c).isSome) :
    ∃ b', b.addParentUnchecked p c = some b' ∧ applyB b (.parent p c) = some b' ∧ PreInv b'.terms ∧
      ∀ j, (getT b'.terms j).isSome = (getT b.terms j).isSome := by
  have hu := C01.C01_unchecked_eq_checked b p c h hp hc
  have hgp : (b.get p).isSome := by rw [get_eq_getT b p h.small]; exact hp
  have hgc : (b.get c).isSome := by rw [get_eq_getT b c h.small]; exact hc
  rcases addParent_cases b p c with ⟨_, hn⟩ | ⟨_, _, hok⟩
  · rcases hn with hn | hn
    · rw [Option.isNone_iff_eq_none] at hn; rw [hn] at hgc; cases hgc
    · rw [Option.isNone_iff_eq_none] at hn; rw [hn] at hgp; cases hgp
  · rw [hok] at hu
    refine ⟨{ b with terms := modT (modT b.terms p (·.addChild c)) c (·.addParent p) }, ?_, ?_,
      preInv_addParent _ p c h hp hc, fun j => (addParent_terms b.terms p c j).1⟩
    · cases hx : b.addParentUnchecked p c with
      | none => rw [hx] at hu; cases hu
      | some x =>
        rw [hx] at hu
        simp only [Option.map_some, Option.some.injEq, Res.ok.injEq] at hu
        rw [hu]
    · simp only [applyB, hok]

/-- the `add_parent_unchecked` calls of one retained term -/
def parentOpsOf (ids : List Nat) (c : Nat) : List Nat → List BOp
  | [] => []
  | p :: ps => if Group.contains ids p then .parent p c :: parentOpsOf ids c ps else parentOpsOf ids c ps

/-- … of all retained terms -/
def linkOps (o : Onto) (ids : List Nat) : List Nat → List BOp
  | [] => []
  | i :: is => parentOpsOf ids i (o.srcTerm i).parents ++ linkOps o ids is

theorem linkParentsOf_run (ids : List Nat) (c : Nat) (hc : c ∈ ids) : ∀ (ps : List Nat) (b : Onto),
    Pres ids b → ∃ b', linkParentsOf ids c ps b = some b' ∧ runB (parentOpsOf ids c ps) b = some b' ∧
      Pres ids b'
  | [], b, hb => ⟨b, rfl, rfl, hb⟩
  | p :: ps, b, hb => by
    simp only [linkParentsOf, parentOpsOf]
    by_cases hin : Group.contains ids p = true
    · have hp : p ∈ ids := (Group.contains_iff _ _).1 hin
      obtain ⟨b1, h1, h2, h3, h4⟩ :=
        addParentUnchecked_present hb.pre ((hb.mem p).2 hp) ((hb.mem c).2 hc)
      have hb1 : Pres ids b1 := ⟨h3, fun j => by rw [h4 j]; exact hb.mem j⟩
      obtain ⟨b', e1, e2, e3⟩ := linkParentsOf_run ids c hc ps b1 hb1
      refine ⟨b', ?_, ?_, e3⟩
      · simp only [hin, if_true, h1, Option.bind_some, e1]
      · simp only [hin, if_true, runB, h2, Option.bind_some, e2]
    · simp only [hin, Bool.false_eq_true, if_false]
      exact linkParentsOf_run ids c hc ps b hb

theorem linkInduced_run (o : Onto) (ids : List Nat) : ∀ (is : List Nat) (b : Onto),
    (∀ i ∈ is, i ∈ ids) → Pres ids b →
    ∃ b', linkInduced o ids is b = some b' ∧ runB (linkOps o ids is) b = some b' ∧ Pres ids b'
  | [], b, _, hb => ⟨b, rfl, rfl, hb⟩
  | i :: is, b, hsub, hb => by
    obtain ⟨b1, h1, h2, h3⟩ :=
      linkParentsOf_run ids i (hsub i List.mem_cons_self) (o.srcTerm i).parents b hb
    obtain ⟨b', e1, e2, e3⟩ :=
      linkInduced_run o ids is b1 (fun j hj => hsub j (List.mem_cons_of_mem _ hj)) h3
    refine ⟨b', ?_, ?_, e3⟩
    · simp only [linkInduced, h1, Option.bind_some, e1]
    · simp only [linkOps, runB_append, h2, Option.bind_some, e2]

/-! ### stage 3: the induced relation is acyclic -/

theorem chain_of_transGen {par : Nat → List Nat} {a b : Nat}
    (h : TransGen (fun c p => p ∈ par c) a b) : ∃ n, Chain par a b (n + 1) := by
  induction h with
  | single h => exact ⟨0, Chain.step h (Chain.refl _)⟩
  | tail _ h ih =>
    obtain ⟨n, hn⟩ := ih
    exact ⟨n + 1, Chain.trans hn (Chain.step h (Chain.refl _))⟩

theorem transGen_of_chain {par : Nat → List Nat} {a b n : Nat}
    (h : Chain par a b (n + 1)) : TransGen (fun c p => p ∈ par c) a b := by
  generalize hm : n + 1 = m at h
  induction h generalizing n with
  | refl t => omega
  | @step t p a k hp hc ih =>
    cases k with
    | zero => cases hc; exact TransGen.single hp
    | succ k => exact TransGen.head hp (ih rfl)

theorem get_small {o : Onto} {i : Nat} {t : Term} (h : o.get i = some t) : i < maxId := by
  unfold Onto.get arenaGet at h
  split at h
  · cases h
  · omega

/-- the parent links after `linkInduced`: only induced links of the source -/
theorem induced_parents {o : Onto} {ids : List Nat} {b1 b2 : Onto}
    (e1 : b1.terms = ids.map (fun i => copyTerm (o.srcTerm i)))
    (hb2 : linkInduced o ids ids b1 = some b2) {c p : Nat} (hp : p ∈ parentsOf b2.terms c) :
    c ∈ ids ∧ p ∈ (o.srcTerm c).parents ∧ p ∈ ids := by
  obtain ⟨lr, _⟩ := linkInduced_rel o ids ids b1 b2 hb2
  have l := lr c
  unfold parentsOf at hp
  cases h2 : getT b2.terms c with
  | none => rw [h2] at hp; simp at hp
  | some t' =>
    cases h1 : getT b1.terms c with
    | none => rw [h1, h2] at l; exact l.elim
    | some t =>
      rw [h1, h2] at l
      simp only at l
      have ht : t.parents = [] := by
        have hm := getT_mem h1
        rw [e1] at hm
        obtain ⟨i, _, rfl⟩ := List.mem_map.1 hm
        rfl
      rw [h2] at hp
      simp only [Option.map_some, Option.getD_some] at hp
      rcases (l.2.1 p).1 hp with h | h
      · rw [ht] at h; cases h
      · exact h

/-- stages 1–3: the term-level part of `sub_ontology` is a `runB` history ending in an acyclic
state whose terms are exactly `ids` -/
theorem termStage {o : Onto} {rank : Nat → Nat} (wf : PathWF o rank) {ids : List Nat} (hnd : ids.Nodup)
    (hres : ∀ x ∈ ids, ∃ t, o.get x = some t) :
    ∃ b1 b2, copyTerms o ids {} = some b1 ∧ linkInduced o ids ids b1 = some b2 ∧
      runB (termOps o ids ++ linkOps o ids ids) {} = some b2 ∧ Pres ids b2 ∧ C01.Acyclic b2 := by
  have hid : ∀ i ∈ ids, (o.srcTerm i).id = i := by
    intro i hi
    obtain ⟨t, ht⟩ := hres i hi
    rw [srcTerm_of_get ht]; exact Onto.get_id_p ht
  have hsmall : ∀ i ∈ ids, (o.srcTerm i).id < maxId := by
    intro i hi
    obtain ⟨t, ht⟩ := hres i hi
    rw [hid i hi]; exact get_small ht
  obtain ⟨b1, hb1⟩ := copyTerms_total o ids {} hsmall
  obtain ⟨e1, _⟩ := copyTerms_spec o ids {} b1 hb1 hid hnd (by intro i _; rfl)
  have e1' : b1.terms = ids.map (fun i => copyTerm (o.srcTerm i)) := by simpa using e1
  have hrun1 : runB (termOps o ids) {} = some b1 := by rw [← copyTerms_eq_runB]; exact hb1
  obtain ⟨hpre1, _⟩ := preInv_run _ _ _ preInv_nil hrun1
  have hids1 : b1.terms.map (·.id) = ids := by
    rw [e1', List.map_map]
    calc ids.map ((·.id) ∘ fun i => copyTerm (o.srcTerm i)) = ids.map id :=
          List.map_congr_left (fun i hi => hid i hi)
      _ = ids := List.map_id _
  have pres1 : Pres ids b1 := ⟨hpre1, fun j => by rw [getT_isSome_iff, hids1]⟩
  obtain ⟨b2, hb2, hrun2, pres2⟩ := linkInduced_run o ids ids b1 (fun _ h => h) pres1
  refine ⟨b1, b2, hb1, hb2, ?_, pres2, ?_⟩
  · rw [runB_append, hrun1]; exact hrun2
  · apply (C01.C01_acyclic_iff_irreflexive b2 pres2.pre).2
    intro j hj
    have hsub : ∀ c p, C01.isA b2 c p → p ∈ o.par c := by
      intro c p hp
      obtain ⟨hc, hpc, _⟩ := induced_parents e1' hb2 hp
      obtain ⟨t, ht⟩ := hres c hc
      rw [Onto.par_eq ht, ← srcTerm_of_get ht]; exact hpc
    obtain ⟨n, hn⟩ := chain_of_transGen (par := o.par) (TransGen.mono (fun a b h => hsub a b h) j j hj)
    have := wf.chain_self hn
    omega

/-! ### stage 5: `copyRecs` = `runA` of successful `annotate_*` calls -/

theorem runA_append (a b : List AOp) (o : Onto) : runA (a ++ b) o = runA b (runA a o) := by
  simp [runA, List.foldl_append]

/-- the `annotate_*` calls for one source record -/
def annotateOps (k : Kind) (r : Rec) (ts : List Nat) : List AOp := ts.map (AOp.annotate k r.id r.name)

/-- … for all records of a kind -/
def recOps (k : Kind) (ids ph : List Nat) : List Rec → List AOp
  | [] => []
  | r :: rs =>
    if (Group.bitand r.hpos ph).isEmpty then recOps k ids ph rs
    else annotateOps k r (Group.bitand r.hpos ids) ++ recOps k ids ph rs

/-- the whole annotation history of `sub_ontology` -/
def subOps (o : Onto) (ids ph : List Nat) : List AOp :=
  recOps .gene ids ph o.genes ++ (recOps .omim ids ph o.omim ++ recOps .orpha ids ph o.orpha)

theorem mem_recOps {k : Kind} {ids ph : List Nat} : ∀ {rs : List Rec} {op : AOp}, op ∈ recOps k ids ph rs →
    ∃ r ∈ rs, ∃ t ∈ ids, op = .annotate k r.id r.name t
  | [], _, h => by simp [recOps] at h
  | r :: rs, op, h => by
    simp only [recOps] at h
    split at h
    · obtain ⟨q, hq, e⟩ := mem_recOps h
      exact ⟨q, List.mem_cons_of_mem _ hq, e⟩
    · rcases List.mem_append.1 h with h | h
      · obtain ⟨t, ht, rfl⟩ := List.mem_map.1 h
        exact ⟨r, List.mem_cons_self, t, ((Group.mem_bitand _ _ _).1 ht).2, rfl⟩
      · obtain ⟨q, hq, e⟩ := mem_recOps h
        exact ⟨q, List.mem_cons_of_mem _ hq, e⟩

section
variable {anc : Nat → List Nat} {ex : Nat → Prop} {rank : Nat → Nat}

theorem annotateAll_run (hc : AncClosure anc ex rank) (k : Kind) (r : Rec) :
    ∀ (ts : List Nat) (b : Onto), AnnInv anc ex b → (∀ j, rank j < b.terms.length + 2) →
    (∀ t ∈ ts, ex t) → annotateAll k r ts b = .ok (runA (annotateOps k r ts) b)
  | [], _, _, _, _ => rfl
  | t :: ts, b, hinv, hf, hex => by
    rcases annInv_annotate anc ex rank hc b k r.id r.name t hinv hf with
      ⟨_, hne⟩ | ⟨_, b', hok, hinv', hlen, _⟩
    · exact absurd (hex t List.mem_cons_self) hne
    · have ih := annotateAll_run hc k r ts b' hinv' (by rw [hlen]; exact hf)
        (fun u hu => hex u (List.mem_cons_of_mem _ hu))
      simp only [annotateAll, hok, Res.bind, annotateOps, List.map_cons, runA, List.foldl_cons, applyA]
      exact ih

theorem copyRecs_run (hc : AncClosure anc ex rank) (k : Kind) (ids ph : List Nat)
    (hids : ∀ t ∈ ids, ex t) : ∀ (rs : List Rec) (b : Onto), AnnInv anc ex b →
    (∀ j, rank j < b.terms.length + 2) → copyRecs k ids ph rs b = .ok (runA (recOps k ids ph rs) b)
  | [], _, _, _ => rfl
  | r :: rs, b, hinv, hf => by
    simp only [copyRecs, recOps]
    split
    · exact copyRecs_run hc k ids ph hids rs b hinv hf
    · have h1 := annotateAll_run hc k r (Group.bitand r.hpos ids) b hinv hf
        (fun t ht => hids t ((Group.mem_bitand _ _ _).1 ht).2)
      obtain ⟨hinv', hlen⟩ := C02.C02_history anc ex rank hc (annotateOps k r (Group.bitand r.hpos ids)) b hinv hf
      rw [h1, runA_append]
      simp only [Res.bind]
      exact copyRecs_run hc k ids ph hids rs _ hinv' (by rw [hlen]; exact hf)

/-- the three record loops (followed by any continuation) -/
theorem recStage (hc : AncClosure anc ex rank) (o : Onto) (ids ph : List Nat) (hids : ∀ t ∈ ids, ex t)
    (b : Onto) (hinv : AnnInv anc ex b) (hf : ∀ j, rank j < b.terms.length + 2) {β : Type}
    (f : Onto → Res β) :
    ((copyRecs .gene ids ph o.genes b).bind fun b4 => (copyRecs .omim ids ph o.omim b4).bind fun b5 =>
      (copyRecs .orpha ids ph o.orpha b5).bind f) = f (runA (subOps o ids ph) b) := by
  obtain ⟨i1, l1⟩ := C02.C02_history anc ex rank hc (recOps .gene ids ph o.genes) b hinv hf
  obtain ⟨i2, l2⟩ := C02.C02_history anc ex rank hc (recOps .omim ids ph o.omim) _ i1 (by rw [l1]; exact hf)
  rw [copyRecs_run hc .gene ids ph hids o.genes b hinv hf]
  simp only [Res.bind]
  rw [copyRecs_run hc .omim ids ph hids o.omim _ i1 (by rw [l1]; exact hf)]
  simp only
  rw [copyRecs_run hc .orpha ids ph hids o.orpha _ i2 (by rw [l2, l1]; exact hf)]
  simp only [subOps, runA_append]

/-- the record loops leave ids, names, flags and links of the terms alone -/
theorem subOps_frame (hc : AncClosure anc ex rank) (o : Onto) (ids ph : List Nat) (hids : ∀ t ∈ ids, ex t)
    (b : Onto) (hinv : AnnInv anc ex b) (hf : ∀ j, rank j < b.terms.length + 2) :
    Frame b (runA (subOps o ids ph) b) := by
  obtain ⟨i1, l1⟩ := C02.C02_history anc ex rank hc (recOps .gene ids ph o.genes) b hinv hf
  obtain ⟨i2, l2⟩ := C02.C02_history anc ex rank hc (recOps .omim ids ph o.omim) _ i1 (by rw [l1]; exact hf)
  have f1 := copyRecs_frame _ _ _ _ _ _ (copyRecs_run hc .gene ids ph hids o.genes b hinv hf)
  have f2 := copyRecs_frame _ _ _ _ _ _
    (copyRecs_run hc .omim ids ph hids o.omim _ i1 (by rw [l1]; exact hf))
  have f3 := copyRecs_frame _ _ _ _ _ _
    (copyRecs_run hc .orpha ids ph hids o.orpha _ i2 (by rw [l2, l1]; exact hf))
  simp only [subOps, runA_append]
  exact f1.trans (f2.trans f3)

theorem Frame.ids {b b' : Onto} (h : Frame b b') : b'.terms.map (·.id) = b.terms.map (·.id) := by
  have := congrArg (List.map (·.1)) h
  simp only [List.map_map] at this
  exact this

/-- records after a history exist before it or are touched by one of its calls -/
theorem runA_touch (hc : AncClosure anc ex rank) : ∀ (ops : List AOp) (b : Onto), AnnInv anc ex b →
    (∀ j, rank j < b.terms.length + 2) → ∀ k r, (getR ((runA ops b).recs k) r).isSome →
    (getR (b.recs k) r).isSome ∨ ∃ op ∈ ops, op.touches ex k r
  | [], _, _, _, _, _, h => Or.inl h
  | op :: ops, b, hinv, hf, k, r, h => by
    obtain ⟨hinv1, hlen1, _⟩ := applyA_core anc ex rank hc b hinv hf op
    have h' : (getR ((runA ops (applyA b op)).recs k) r).isSome := by
      simpa only [runA, List.foldl_cons] using h
    rcases runA_touch hc ops (applyA b op) hinv1 (by rw [hlen1]; exact hf) k r h' with h1 | ⟨q, hq, hqt⟩
    · rcases ((applyA_recs anc ex rank hc b hinv hf op k r).1).1 h1 with h2 | h2
      · exact Or.inl h2
      · exact Or.inr ⟨op, List.mem_cons_self, h2⟩
    · exact Or.inr ⟨q, List.mem_cons_of_mem _ hq, hqt⟩

/-- one annotation-phase call keeps the arena's id list -/
theorem applyA_ids (hc : AncClosure anc ex rank) (o : Onto) (h : AnnInv anc ex o)
    (hf : ∀ j, rank j < o.terms.length + 2) (op : AOp) :
    (applyA o op).terms.map (·.id) = o.terms.map (·.id) := by
  cases op with
  | addRec k n i =>
    show (o.addRec k n i).terms.map (·.id) = _
    simp only [Onto.addRec, terms_setRecs]
  | annotate k rid n t =>
    rcases annInv_annotate anc ex rank hc o k rid n t h hf with ⟨he, _⟩ | ⟨hext, o', hok, _⟩
    · simp only [applyA, he]
    · simp only [applyA, hok]
      unfold Onto.annotate at hok
      cases hg : o.get t with
      | none => simp [hg] at hok
      | some tm =>
        simp only [hg] at hok
        have hst1 : LState anc ex k (o.addTermToRec k n rid t).terms := by
          rw [terms_addTermToRec]; exact h.lstate anc ex k
        have hup : UpClosedAbove anc k (o.addTermToRec k n rid t).terms rid t := by
          rw [terms_addTermToRec]; intro x _ hx y hy
          exact h.upclosed anc ex rank hc k x rid hx y hy
        obtain ⟨o'', hl, p⟩ := link_post anc ex k rid rank hc (o.addTermToRec k n rid t).linkFuel
          (o.addTermToRec k n rid t) t
          (by simp only [Onto.linkFuel, terms_addTermToRec]; exact hf t) hext hst1 hup
        rw [hl] at hok; cases hok
        rw [p.upd.1, terms_addTermToRec]

theorem runA_ids (hc : AncClosure anc ex rank) : ∀ (ops : List AOp) (b : Onto), AnnInv anc ex b →
    (∀ j, rank j < b.terms.length + 2) → (runA ops b).terms.map (·.id) = b.terms.map (·.id)
  | [], _, _, _ => rfl
  | op :: ops, b, hinv, hf => by
    obtain ⟨hinv1, hlen1, _⟩ := applyA_core anc ex rank hc b hinv hf op
    have := runA_ids hc ops (applyA b op) hinv1 (by rw [hlen1]; exact hf)
    simp only [runA, List.foldl_cons] at this ⊢
    rw [this, applyA_ids hc b hinv hf op]

/-- terms keep everything but their annotation sets over a whole history -/
theorem runA_core (hc : AncClosure anc ex rank) : ∀ (ops : List AOp) (b : Onto), AnnInv anc ex b →
    (∀ j, rank j < b.terms.length + 2) →
    ∀ j, (getT (runA ops b).terms j).map coreOf = (getT b.terms j).map coreOf
  | [], _, _, _, _ => rfl
  | op :: ops, b, hinv, hf, j => by
    obtain ⟨hinv1, hlen1, hcore⟩ := applyA_core anc ex rank hc b hinv hf op
    have := runA_core hc ops (applyA b op) hinv1 (by rw [hlen1]; exact hf) j
    simp only [runA, List.foldl_cons] at this ⊢
    rw [this, hcore j]

end

theorem mem_subOps {o : Onto} {ids ph : List Nat} {op : AOp} (h : op ∈ subOps o ids ph) :
    ∃ k, ∃ r ∈ o.recs k, ∃ t ∈ ids, op = .annotate k r.id r.name t := by
  simp only [subOps, List.mem_append] at h
  rcases h with h | h | h
  · exact ⟨.gene, mem_recOps h⟩
  · exact ⟨.omim, mem_recOps h⟩
  · exact ⟨.orpha, mem_recOps h⟩

/-- a history of `annotate_*` calls of source records creates at most as many records of a kind
as the source has -/
theorem ops_count {anc : Nat → List Nat} {ex : Nat → Prop} {rank : Nat → Nat}
    (hc : AncClosure anc ex rank) (o : Onto) (ops : List AOp)
    (hops : ∀ op ∈ ops, ∃ k, ∃ r ∈ o.recs k, ∃ t, op = .annotate k r.id r.name t)
    (b : Onto) (hinv : AnnInv anc ex b)
    (hf : ∀ j, rank j < b.terms.length + 2) (hempty : ∀ k, b.recs k = []) (k : Kind) :
    ((runA ops b).recs k).length ≤ (o.recs k).length := by
  have hnd := recIds_nodup ops b (by intro k; rw [hempty]; exact List.nodup_nil)
    anc ex rank hc hinv hf k
  have hsub : ((runA ops b).recs k).map (·.id) ⊆ (o.recs k).map (·.id) := by
    intro r hr
    have hs := (getR_isSome_iff _ r).2 hr
    rcases runA_touch hc _ b hinv hf k r hs with h1 | ⟨op, hop, ht⟩
    · rw [hempty] at h1; cases h1
    · obtain ⟨k', q, hq, t, rfl⟩ := hops op hop
      obtain ⟨rfl, rfl, _⟩ := ht
      exact List.mem_map.2 ⟨q, hq, rfl⟩
  have := List.Nodup.length_le_of_subset hnd hsub
  simpa using this

/-- the result has at most as many records of a kind as the source -/
theorem subOps_count {anc : Nat → List Nat} {ex : Nat → Prop} {rank : Nat → Nat}
    (hc : AncClosure anc ex rank) (o : Onto) (ids ph : List Nat) (b : Onto) (hinv : AnnInv anc ex b)
    (hf : ∀ j, rank j < b.terms.length + 2) (hempty : ∀ k, b.recs k = []) (k : Kind) :
    ((runA (subOps o ids ph) b).recs k).length ≤ (o.recs k).length :=
  ops_count hc o _ (fun op hop => by
    obtain ⟨k, r, hr, t, _, e⟩ := mem_subOps hop
    exact ⟨k, r, hr, t, e⟩) b hinv hf hempty k

/-! ### stage 6: `calculate_information_content` succeeds -/

theorem calcIc_total (o : Onto) (h : ∀ k, (o.recs k).length ≤ 65535)
    (ha : ∀ k, ∀ t ∈ o.terms, (t.ann k).length ≤ (o.recs k).length) : ∃ o', o.calcIc = .ok o' := by
  have key : ∀ k (ts : List Term), (∀ t ∈ ts, (t.ann k).length ≤ (o.recs k).length) →
      ∃ ts', Onto.icFold k (o.recs k).length ts = .ok ts' ∧
        ts' = ts.map (fun t => t.setIc k (icPair (o.recs k).length (t.ann k).length)) := by
    intro k ts hts
    obtain ⟨ts', h'⟩ := icFold_total k (o.recs k).length ts
      (fun t ht => Or.inr (Or.inr ⟨h k, Nat.le_trans (hts t ht) (h k)⟩))
    exact ⟨ts', h', icFold_ok _ _ _ _ h'⟩
  obtain ⟨t1, h1, e1⟩ := key .gene o.terms (ha .gene)
  obtain ⟨t2, h2, e2⟩ := key .omim t1 (by
    intro t ht; rw [e1] at ht
    obtain ⟨u, hu, rfl⟩ := List.mem_map.1 ht
    rw [setIc_ann]; exact ha .omim u hu)
  obtain ⟨t3, h3, _⟩ := key .orpha t2 (by
    intro t ht; rw [e2] at ht
    obtain ⟨u, hu, rfl⟩ := List.mem_map.1 ht
    rw [e1] at hu
    obtain ⟨v, hv, rfl⟩ := List.mem_map.1 hu
    rw [setIc_ann, setIc_ann]; exact ha .orpha v hv)
  refine ⟨{ o with terms := t3 }, ?_⟩
  unfold Onto.calcIc Onto.calcIcKind
  rw [h1]; simp only [Res.bind]
  have r2 : ({ o with terms := t1 } : Onto).recs .omim = o.recs .omim := rfl
  rw [r2, h2]; simp only
  have r3 : ({ o with terms := t2 } : Onto).recs .orpha = o.recs .orpha := rfl
  rw [r3, h3]

/-! ### the whole run -/

/-- **`sub_ontology` after the collection stage is a builder run**: a `runB` history of `new_term` /
`add_parent` calls ending in an acyclic state with exactly the terms `ids`, a successful
`connect_all_terms`, a `runA` history of `annotate_*` calls of source records on retained terms,
then `calculate_information_content` and `build_minimal` -/
theorem subOntologyOf_run {o : Onto} {rank : Nat → Nat} (wf : PathWF o rank) (phen : Onto → Term → Bool)
    {ids : List Nat} (hnd : ids.Nodup) (hres : ∀ x ∈ ids, ∃ t, o.get x = some t) :
    ∃ b2 b3, runB (termOps o ids ++ linkOps o ids ids) {} = some b2 ∧ Pres ids b2 ∧ C01.Acyclic b2 ∧
      b2.connectAll = .ok b3 ∧
      subOntologyOf o phen ids =
        (runA (subOps o ids (phenotypeIds o phen ids)) b3).calcIc.bind fun b7 => .ok b7.buildMinimal := by
  obtain ⟨b1, b2, hb1, hb2, hrun, pres2, hac⟩ := termStage wf hnd hres
  obtain ⟨b3, hc, _, hupd, _⟩ := C01.C01_connect b2 pres2.pre hac
  obtain ⟨hinv, ⟨rk, hcl, hf⟩, _, _⟩ := C02.connected_annInv _ b2 b3 hrun hac hc
  refine ⟨b2, b3, hrun, pres2, hac, hc, ?_⟩
  have hids : ∀ t ∈ ids, C02.present b3 t := by
    intro t ht; unfold C02.present; rw [hupd.isSome]; exact (pres2.mem t).2 ht
  unfold subOntologyOf
  rw [hb1]; simp only
  rw [hb2]; simp only
  rw [hc]; simp only [Res.bind]
  exact recStage hcl o ids (phenotypeIds o phen ids) hids b3 hinv hf _

/-- under the count bound of `calculate_information_content` the run never fails -/
theorem subOntologyOf_total {o : Onto} {rank : Nat → Nat} (wf : PathWF o rank) (phen : Onto → Term → Bool)
    {ids : List Nat} (hnd : ids.Nodup) (hres : ∀ x ∈ ids, ∃ t, o.get x = some t)
    (hcount : ∀ k, (o.recs k).length ≤ 65535) : ∃ o', subOntologyOf o phen ids = .ok o' := by
  obtain ⟨b2, b3, hrun, pres2, hac, hc, heq⟩ := subOntologyOf_run wf phen hnd hres
  obtain ⟨hpre, hrest0⟩ := preInv_run _ {} b2 preInv_nil hrun
  obtain ⟨b3', hc', hrest, hupd, _⟩ := C01.C01_connect b2 hpre hac
  rw [hc] at hc'; cases hc'
  obtain ⟨hinv, ⟨rk, hcl, hf⟩, _, _⟩ := C02.connected_annInv _ b2 b3 hrun hac hc
  have hempty : ∀ k, b3.recs k = [] := by
    intro k; rw [hrest, hrest0]; cases k <;> rfl
  have hcnt := subOps_count hcl o ids (phenotypeIds o phen ids) b3 hinv hf hempty
  -- ids of the terms are still duplicate free, so every list entry is the one `getT` finds
  have hlook : ∀ t ∈ (runA (subOps o ids (phenotypeIds o phen ids)) b3).terms,
      getT (runA (subOps o ids (phenotypeIds o phen ids)) b3).terms t.id = some t := by
    intro t ht
    apply getT_of_mem_nodup _ ht
    have hids : ∀ t ∈ ids, C02.present b3 t := by
      intro t ht; unfold C02.present; rw [hupd.isSome]; exact (pres2.mem t).2 ht
    rw [(subOps_frame hcl o ids (phenotypeIds o phen ids) hids b3 hinv hf).ids, hupd.1]
    exact hpre.nodup
  obtain ⟨b7, h7⟩ := calcIc_total (runA (subOps o ids (phenotypeIds o phen ids)) b3)
    (fun k => Nat.le_trans (hcnt k) (hcount k))
    (by
      intro k t ht
      have := (C03.C03_count_facts _ b2 b3 hrun hac hc (subOps o ids (phenotypeIds o phen ids)) k).1 t.id
      simpa [annOf, hlook t ht] using this)
  exact ⟨b7.buildMinimal, by rw [heq, h7]; rfl⟩

/-! ### the result satisfies the conclusions of C01–C03 -/

/-- what C01 (closure, sorted), C02 (inheritance, resolution) and C03 (counts, stored pairs) say
about a built ontology, in terms of its lookups -/
structure RunFacts (o' : Onto) : Prop where
  small : ∀ j, (getT o'.terms j).isSome → j < maxId
  nodup : (o'.terms.map (·.id)).Nodup
  closure : ∀ j, (getT o'.terms j).isSome → ∀ a,
    a ∈ allOf o'.terms j ↔ TransGen (fun c p => p ∈ parentsOf o'.terms c) j a
  sortedAll : ∀ j, Group.Sorted (allOf o'.terms j)
  closedP : ∀ j p, p ∈ parentsOf o'.terms j → (getT o'.terms p).isSome
  linked : ∀ k x r, r ∈ annOf k o'.terms x ↔
    ∃ d, d ∈ hposOf k o' r ∧ (d = x ∨ x ∈ allOf o'.terms d)
  sortedAnn : ∀ k j, Group.Sorted (annOf k o'.terms j)
  recTerms : ∀ k r d, d ∈ hposOf k o' r → (getT o'.terms d).isSome
  annRecs : ∀ k x r, r ∈ annOf k o'.terms x → (getR (o'.recs k) r).isSome
  recIds : ∀ k, ((o'.recs k).map (·.id)).Nodup
  count_le : ∀ k x, (annOf k o'.terms x).length ≤ (o'.recs k).length
  count_mono : ∀ k d a, a ∈ allOf o'.terms d →
    (annOf k o'.terms d).length ≤ (annOf k o'.terms a).length
  ic : ∀ k x t, getT o'.terms x = some t → t.ic k = icPair (o'.recs k).length (t.ann k).length
  acyclic : ∃ rank : Nat → Nat, (∀ c p, p ∈ parentsOf o'.terms c → rank p < rank c) ∧
    ∀ j, rank j < o'.terms.length + 2

theorem parentsOf_of_core {ts ts' : List Term} {j : Nat}
    (h : (getT ts' j).map coreOf = (getT ts j).map coreOf) : parentsOf ts' j = parentsOf ts j := by
  unfold parentsOf
  cases h1 : getT ts j with
  | none =>
    cases h2 : getT ts' j with
    | none => rfl
    | some u => rw [h1, h2] at h; cases h
  | some t =>
    cases h2 : getT ts' j with
    | none => rw [h1, h2] at h; cases h
    | some u =>
      rw [h1, h2] at h
      simp only [Option.map_some, Option.some.injEq, coreOf, Prod.mk.injEq] at h
      simp only [Option.map_some, Option.getD_some, h.2.2.1]

/-- the information-content passes as one map over the terms -/
def icMap (o : Onto) (t : Term) : Term :=
  ((t.setIc .gene (icPair o.genes.length t.genes.length)).setIc .omim
    (icPair o.omim.length t.omim.length)).setIc .orpha (icPair o.orpha.length t.orpha.length)

/-- every built ontology — term-level history, `connect_all_terms`, annotation history,
information content, `build_minimal` — satisfies the conclusions of C01–C03 -/
theorem runFacts_of_run (tops : List BOp) (b2 b3 : Onto) (hrun : runB tops {} = some b2)
    (hac : C01.Acyclic b2) (hc : b2.connectAll = .ok b3) (aops : List AOp) (b7 : Onto)
    (h7 : (runA aops b3).calcIc = .ok b7) : RunFacts b7.buildMinimal := by
  obtain ⟨hpre, hrest0⟩ := preInv_run _ {} b2 preInv_nil hrun
  obtain ⟨b3', hc', hrest, hupd, hex, hsorted⟩ := C01.C01_connect b2 hpre hac
  rw [hc] at hc'; cases hc'
  obtain ⟨hinv, ⟨rk, hcl, hf⟩, _, _⟩ := C02.connected_annInv _ b2 b3 hrun hac hc
  have H := (C02.C02_history _ _ rk hcl aops b3 hinv hf).1
  have hcore := runA_core hcl aops b3 hinv hf
  obtain ⟨et, eg, eo, er⟩ := calcIc_ok _ _ h7
  have hrecs : ∀ k, b7.buildMinimal.recs k = (runA aops b3).recs k := by
    intro k; cases k
    · exact eg
    · exact eo
    · exact er
  have hterms : b7.buildMinimal.terms = (runA aops b3).terms.map (icMap (runA aops b3)) := et
  have hget : ∀ j, getT b7.buildMinimal.terms j = (getT (runA aops b3).terms j).map (icMap (runA aops b3)) := by
    intro j; rw [hterms]; exact getT_map (runA aops b3).terms (icMap (runA aops b3)) (fun _ => rfl) j
  have hsome : ∀ j, (getT b7.buildMinimal.terms j).isSome = (getT (runA aops b3).terms j).isSome := by
    intro j; rw [hget]; cases getT (runA aops b3).terms j <;> rfl
  have hall : ∀ j, allOf b7.buildMinimal.terms j = allOf b3.terms j := by
    intro j
    have e := H.ancF j
    unfold C02.ancOf at e
    rw [← e]; unfold allOf; rw [hget]
    cases getT (runA aops b3).terms j <;> rfl
  have hann : ∀ k j, annOf k b7.buildMinimal.terms j = annOf k (runA aops b3).terms j := by
    intro k j; unfold annOf; rw [hget]
    cases getT (runA aops b3).terms j with
    | none => rfl
    | some t => cases k <;> rfl
  have hpar : ∀ j, parentsOf b7.buildMinimal.terms j = parentsOf b2.terms j := by
    intro j
    have e1 : parentsOf b7.buildMinimal.terms j = parentsOf (runA aops b3).terms j := by
      unfold parentsOf; rw [hget]
      cases getT (runA aops b3).terms j <;> rfl
    rw [e1, parentsOf_of_core (hcore j), hupd.parents_eq]
  have hhp : ∀ k r, hposOf k b7.buildMinimal r = hposOf k (runA aops b3) r := by
    intro k r; unfold hposOf; rw [hrecs]
  have hpres : ∀ j, (getT b7.buildMinimal.terms j).isSome ↔ (getT b3.terms j).isSome := by
    intro j; rw [hsome]; exact H.pres j
  have hrel : C01.isA b2 = fun c p => p ∈ parentsOf b7.buildMinimal.terms c := by
    funext c p; simp only [C01.isA, hpar]
  have hcnt := fun k => C03.C03_count_facts tops b2 b3 hrun hac hc aops k
  have hempty : ∀ k, ((b3.recs k).map (·.id)).Nodup := by
    intro k
    have : b3.recs k = [] := by rw [hrest, hrest0]; cases k <;> rfl
    rw [this]; exact List.nodup_nil
  constructor
  · intro j hj; exact hpre.small j (by rw [← hupd.isSome]; exact (hpres j).1 hj)
  · have : b7.buildMinimal.terms.map (·.id) = (runA aops b3).terms.map (·.id) := by
      rw [hterms, List.map_map]; rfl
    rw [this, runA_ids hcl aops b3 hinv hf, hupd.1]
    exact hpre.nodup
  · intro j hj a
    rw [hall, ← hrel]
    exact hex j ((hpres j).1 hj) a
  · intro j; rw [hall]; exact hsorted j
  · intro j p hp
    rw [hpar] at hp
    rw [hpres, hupd.isSome]; exact hpre.closedP j p hp
  · intro k x r
    rw [hann, hhp, H.linked k x r]
    constructor
    · rintro ⟨d, hd, hu⟩
      refine ⟨d, hd, ?_⟩
      rcases hu with h | h
      · exact Or.inl h.symm
      · exact Or.inr (by rw [hall]; exact h)
    · rintro ⟨d, hd, hu⟩
      refine ⟨d, hd, ?_⟩
      rcases hu with h | h
      · exact Or.inl h.symm
      · exact Or.inr (by rw [hall] at h; exact h)
  · intro k j; rw [hann]; exact H.sorted k j
  · intro k r d hd
    rw [hhp] at hd
    rw [hsome]; exact (H.pres d).2 (H.recTerms k r d hd)
  · intro k x r hr
    rw [hann] at hr
    rw [hrecs]
    exact (C02.C02_resolves tops b2 b3 hrun hac hc aops k).1 x r hr
  · intro k; rw [hrecs]
    exact recIds_nodup aops b3 hempty _ _ rk hcl hinv hf k
  · intro k x; rw [hann, hrecs]; exact (hcnt k).1 x
  · intro k d a ha
    rw [hall] at ha
    rw [hann, hann]; exact (hcnt k).2 d a ha
  · intro k x t ht
    rw [hget] at ht
    cases hg : getT (runA aops b3).terms x with
    | none => rw [hg] at ht; cases ht
    | some u =>
      rw [hg] at ht
      simp only [Option.map_some, Option.some.injEq] at ht
      subst ht
      rw [hrecs]
      cases k <;> rfl
  · obtain ⟨rank, hr, hb⟩ := hac
    refine ⟨rank, fun c p hp => hr c p (by rw [hpar] at hp; exact hp), fun j => ?_⟩
    have hlen : b7.buildMinimal.terms.length = b2.terms.length := by
      have e1 : b7.buildMinimal.terms.map (·.id) = b2.terms.map (·.id) := by
        rw [hterms, List.map_map]
        exact (runA_ids hcl aops b3 hinv hf).trans hupd.1
      have := congrArg List.length e1
      simpa using this
    rw [hlen]; exact hb j

/-- record counts of a run whose annotation calls all come from records of `o` -/
theorem run_count (tops : List BOp) (b2 b3 : Onto) (hrun : runB tops {} = some b2)
    (hac : C01.Acyclic b2) (hc : b2.connectAll = .ok b3) (aops : List AOp) (b7 : Onto)
    (h7 : (runA aops b3).calcIc = .ok b7) (o : Onto)
    (hops : ∀ op ∈ aops, ∃ k, ∃ r ∈ o.recs k, ∃ t, op = .annotate k r.id r.name t) (k : Kind) :
    (b7.buildMinimal.recs k).length ≤ (o.recs k).length := by
  obtain ⟨hpre, hrest0⟩ := preInv_run _ {} b2 preInv_nil hrun
  obtain ⟨b3', hc', hrest, _⟩ := C01.C01_connect b2 hpre hac
  rw [hc] at hc'; cases hc'
  obtain ⟨hinv, ⟨rk, hcl, hf⟩, _, _⟩ := C02.connected_annInv _ b2 b3 hrun hac hc
  have hempty : ∀ k, b3.recs k = [] := by
    intro k; rw [hrest, hrest0]; cases k <;> rfl
  obtain ⟨_, eg, eo, er⟩ := calcIc_ok _ _ h7
  have hrecs : b7.buildMinimal.recs k = (runA aops b3).recs k := by
    cases k
    · exact eg
    · exact eo
    · exact er
  rw [hrecs]
  exact ops_count hcl o aops hops b3 hinv hf hempty k

theorem mem_hposOf {k : Kind} {o : Onto} {r d : Nat} :
    d ∈ hposOf k o r ↔ ∃ rc, getR (o.recs k) r = some rc ∧ d ∈ rc.hpos := by
  unfold hposOf
  cases getR (o.recs k) r <;> simp

theorem mem_allOf {ts : List Term} {d x : Nat} :
    x ∈ allOf ts d ↔ ∃ td, getT ts d = some td ∧ x ∈ td.allParents := by
  unfold allOf
  cases getT ts d <;> simp

theorem par_eq_parentsOf {o : Onto} (hs : ∀ j, (getT o.terms j).isSome → j < maxId) (c : Nat) :
    o.par c = parentsOf o.terms c := by
  unfold Onto.par parentsOf
  rw [get_eq_getT o c hs]
  cases getT o.terms c <;> rfl

/-- a successful `sub_ontology` call, seen as a builder run -/
theorem subOntology_run {o : Onto} {rank : Nat → Nat} (wf : PathWF o rank) {root : Term}
    {leaves : List Term} (hl : ∀ l ∈ leaves, o.get l.id = some l) {o' : Onto}
    (h : o.subOntology root leaves = .ok o') :
    ∃ ids tops aops b2 b3 b7, SubFacts o root.id leaves o' ids ∧ runB tops {} = some b2 ∧
      Pres ids b2 ∧ C01.Acyclic b2 ∧ b2.connectAll = .ok b3 ∧
      (∀ op ∈ aops, ∃ k, ∃ r ∈ o.recs k, ∃ t ∈ ids, op = .annotate k r.id r.name t) ∧
      (runA aops b3).calcIc = .ok b7 ∧ o' = b7.buildMinimal := by
  obtain ⟨ids, f⟩ := subOntology_facts wf hl h
  obtain ⟨b2, b3, hrun, pres2, hac, hc, heq⟩ :=
    subOntologyOf_run wf isPhenotype f.sorted.nodup f.resolves
  have hof := f.of
  rw [heq] at hof
  obtain ⟨b7, h7, h8⟩ := Res.bind_eq_ok.1 hof
  cases h8
  exact ⟨ids, _, _, b2, b3, b7, f, hrun, pres2, hac, hc, fun op hop => mem_subOps hop, h7, rfl⟩

/-- a built ontology is well-formed in the sense of the path functions (C11) and of C14 itself -/
theorem RunFacts.pathWF {o' : Onto} (F : RunFacts o') : ∃ rank, PathWF o' rank := by
  obtain ⟨rank, hr, hb⟩ := F.acyclic
  have hget : ∀ j, o'.get j = getT o'.terms j := fun j => get_eq_getT o' j F.small
  have hpar : o'.par = parentsOf o'.terms := funext (par_eq_parentsOf F.small)
  refine ⟨rank, ?_, ?_, ?_, ?_⟩
  · intro i t hi p hp
    rw [hget] at hi
    have : (getT o'.terms p).isSome := F.closedP i p (by simp [parentsOf, hi, hp])
    obtain ⟨tp, htp⟩ := Option.isSome_iff_exists.1 this
    exact ⟨tp, by rw [hget]; exact htp⟩
  · intro i t hi a
    rw [hget] at hi
    have hall : allOf o'.terms i = t.allParents := by simp [allOf, hi]
    rw [← hall, F.closure i (by simp [hi]) a, hpar]
    exact ⟨chain_of_transGen, fun ⟨n, hn⟩ => transGen_of_chain hn⟩
  · intro i t hi p hp
    rw [hget] at hi
    exact hr i p (by simp [parentsOf, hi, hp])
  · intro i t _
    exact hb i

/-! ### the pre-fix counterexample, end to end

`sub_ontology(root = 1, leaves = [5, 200])` on `modOnto` retains all four terms `1, 5, 118, 200`. -/

def modRoot : Term := (modOnto.get 1).getD placeholder
def modLeaf5 : Term := (modOnto.get 5).getD placeholder
def modLeaf200 : Term := (modOnto.get 200).getD placeholder
/-- result of the pinned (pre-fix) function -/
def modSubPrefix : Onto := (modOnto.subOntologyPrefix modRoot [modLeaf5, modLeaf200]).toOption.getD {}
/-- result of the function as it stands -/
def modSub : Onto := (modOnto.subOntology modRoot [modLeaf5, modLeaf200]).toOption.getD {}

end Hpo

