import HpoProofs.Text
import HpoProofs.LoadRefine
import HpoProps.C16
/-!
Refinement of the JAX text loaders to the Builder model of C01 / C02 / C16.

`Text.buildFromFacts` (what `loadJax` does on three rendered files, `HpoProofs/Text.lean`) is shown
to be a builder run in the sense of C16:

* `oboBuild`  = `runB` of one `BOp.term` per stanza followed by one `BOp.parent` per `is_a` line
  (`add_parent_unchecked` on present ids = `add_parent`), plus the release version — under the
  hypothesis that every `is_a` target is a `[Term]` stanza of the file (`IsaClosed`);
* `annotateGenes` / `annotateDiseases` = `runA` of one `AOp.annotate` per row — when every annotated
  term is a stanza; otherwise the load fails with `DoesNotExist` (`annotateSeq_fail`);

and the whole pipeline is assembled with the order-independence theorems `C16_*`.
-/
namespace Hpo
namespace Text
open Group Relation Hpo.C01 Hpo.C02 Hpo.C16 Hpo.Binary

/-! ### the release version is carried along unchanged by every builder step -/

/-- `set_hpo_version` -/
def setV (v : Nat × Nat × Nat) (o : Onto) : Onto := { o with version := v }

def mapR {α β : Type} (f : α → β) (r : Res α) : Res β := r.bind fun a => .ok (f a)

@[simp] theorem mapR_ok {α β : Type} (f : α → β) (a : α) : mapR f (.ok a) = .ok (f a) := rfl
@[simp] theorem mapR_err {α β : Type} (f : α → β) (e : Err) : mapR f (.err e : Res α) = .err e := rfl
@[simp] theorem mapR_panic {α β : Type} (f : α → β) : mapR f (.panic : Res α) = .panic := rfl
@[simp] theorem mapR_diverge {α β : Type} (f : α → β) : mapR f (.diverge : Res α) = .diverge := rfl

theorem mapR_bind {α β γ : Type} (f : α → β) (g : β → Res γ) (r : Res α) :
    (mapR f r).bind g = r.bind fun a => g (f a) := by
  cases r <;> rfl

theorem bind_mapR {α β γ : Type} (f : β → γ) (g : α → Res β) (r : Res α) :
    mapR f (r.bind g) = r.bind fun a => mapR f (g a) := by
  cases r <;> rfl

@[simp] theorem terms_setV (v : Nat × Nat × Nat) (o : Onto) : (setV v o).terms = o.terms := rfl
@[simp] theorem recs_setV (v : Nat × Nat × Nat) (o : Onto) (k : Kind) : (setV v o).recs k = o.recs k := by
  cases k <;> rfl
@[simp] theorem get_setV (v : Nat × Nat × Nat) (o : Onto) (i : Nat) : (setV v o).get i = o.get i := rfl
@[simp] theorem getUnchecked_setV (v : Nat × Nat × Nat) (o : Onto) (i : Nat) :
    (setV v o).getUnchecked i = o.getUnchecked i := rfl
@[simp] theorem version_setV (v : Nat × Nat × Nat) (o : Onto) : (setV v o).version = v := rfl

theorem modUnchecked_setV (v : Nat × Nat × Nat) (o : Onto) (i : Nat) (f : Term → Term) :
    (setV v o).modUnchecked i f = (o.modUnchecked i f).map (setV v) := by
  unfold Onto.modUnchecked
  by_cases h : i ≥ maxId
  · simp [h]
  · simp only [h, ↓reduceIte, terms_setV]
    cases getT o.terms i <;> rfl

theorem addTerm_setV (v : Nat × Nat × Nat) (o : Onto) (t : Term) :
    (setV v o).addTerm t = (o.addTerm t).map (setV v) := by
  unfold Onto.addTerm
  simp only [terms_setV]
  cases arenaInsert o.terms t <;> rfl

theorem addParentUnchecked_setV (v : Nat × Nat × Nat) (o : Onto) (p c : Nat) :
    (setV v o).addParentUnchecked p c = (o.addParentUnchecked p c).map (setV v) := by
  unfold Onto.addParentUnchecked
  rw [modUnchecked_setV]
  cases o.modUnchecked p (·.addChild c) with
  | none => rfl
  | some o' => simp only [Option.map_some, Option.bind_some]; exact modUnchecked_setV v o' c _

theorem applyB_setV (v : Nat × Nat × Nat) (o : Onto) (op : BOp) :
    applyB (setV v o) op = (applyB o op).map (setV v) := by
  cases op with
  | term n i ob rp => exact addTerm_setV v o _
  | parent p c =>
    simp only [applyB, Onto.addParent, get_setV]
    cases o.get c with
    | none => rfl
    | some _ => cases o.get p <;> rfl

theorem runB_setV (v : Nat × Nat × Nat) (ops : List BOp) (o : Onto) :
    runB ops (setV v o) = (runB ops o).map (setV v) := by
  induction ops generalizing o with
  | nil => rfl
  | cons op ops ih =>
    simp only [runB, applyB_setV]
    cases applyB o op with
    | none => rfl
    | some o' => simp only [Option.map_some, Option.bind_some]; exact ih o'

theorem cacheFold_setV (v : Nat × Nat × Nat) (rec : Onto → Nat → Res Onto)
    (hrec : ∀ o i, rec (setV v o) i = mapR (setV v) (rec o i)) :
    ∀ (ps : List Nat) (o : Onto) (acc : List Nat),
      Onto.cacheFold rec ps (setV v o) acc =
        mapR (fun r => (setV v r.1, r.2)) (Onto.cacheFold rec ps o acc) := by
  intro ps
  induction ps with
  | nil => intro o acc; rfl
  | cons p ps ih =>
    intro o acc
    simp only [Onto.cacheFold, getUnchecked_setV]
    cases o.getUnchecked p with
    | none => rfl
    | some tp =>
      simp only
      by_cases hc : tp.parentsCached
      · simp only [hc, ↓reduceIte, Res.bind, getUnchecked_setV]
        cases o.getUnchecked p with
        | none => rfl
        | some tp' => exact ih o _
      · simp only [hc, Bool.false_eq_true, ↓reduceIte, hrec]
        cases rec o p with
        | ok o' =>
          simp only [mapR_ok, Res.bind, getUnchecked_setV]
          cases o'.getUnchecked p with
          | none => rfl
          | some tp' => exact ih o' _
        | err e => rfl
        | panic => rfl
        | diverge => rfl

theorem createCache_setV (v : Nat × Nat × Nat) :
    ∀ (fuel : Nat) (o : Onto) (i : Nat),
      Onto.createCache fuel (setV v o) i = mapR (setV v) (Onto.createCache fuel o i) := by
  intro fuel
  induction fuel with
  | zero => intro o i; rfl
  | succ fuel ih =>
    intro o i
    simp only [Onto.createCache, getUnchecked_setV]
    cases o.getUnchecked i with
    | none => rfl
    | some t =>
      simp only
      rw [cacheFold_setV v (Onto.createCache fuel) ih]
      cases Onto.cacheFold (Onto.createCache fuel) t.parents o [] with
      | ok r =>
        simp only [mapR_ok, Res.bind, modUnchecked_setV]
        cases r.1.modUnchecked i _ <;> rfl
      | err e => rfl
      | panic => rfl
      | diverge => rfl

theorem connectFold_setV (v : Nat × Nat × Nat) (fuel : Nat) :
    ∀ (is : List Nat) (o : Onto),
      Onto.connectFold fuel is (setV v o) = mapR (setV v) (Onto.connectFold fuel is o) := by
  intro is
  induction is with
  | nil => intro o; rfl
  | cons i is ih =>
    intro o
    simp only [Onto.connectFold, createCache_setV]
    cases Onto.createCache fuel o i with
    | ok o' => simp only [mapR_ok, Res.bind]; exact ih o'
    | err e => rfl
    | panic => rfl
    | diverge => rfl

theorem connectAll_setV (v : Nat × Nat × Nat) (o : Onto) :
    (setV v o).connectAll = mapR (setV v) o.connectAll := by
  unfold Onto.connectAll
  exact connectFold_setV v _ _ o

theorem addTermToRec_setV (v : Nat × Nat × Nat) (o : Onto) (k : Kind) (n : List Char) (r t : Nat) :
    (setV v o).addTermToRec k n r t = setV v (o.addTermToRec k n r t) := by
  cases k <;> rfl

theorem linkFold_setV (v : Nat × Nat × Nat) (rec : Onto → Nat → Res Onto)
    (hrec : ∀ o i, rec (setV v o) i = mapR (setV v) (rec o i)) :
    ∀ (ps : List Nat) (o : Onto),
      Onto.linkFold rec ps (setV v o) = mapR (setV v) (Onto.linkFold rec ps o) := by
  intro ps
  induction ps with
  | nil => intro o; rfl
  | cons p ps ih =>
    intro o
    simp only [Onto.linkFold, hrec]
    cases rec o p with
    | ok o' => simp only [mapR_ok, Res.bind]; exact ih o'
    | err e => rfl
    | panic => rfl
    | diverge => rfl

theorem link_setV (v : Nat × Nat × Nat) (k : Kind) (r : Nat) :
    ∀ (fuel : Nat) (o : Onto) (t : Nat),
      Onto.link k r fuel (setV v o) t = mapR (setV v) (Onto.link k r fuel o t) := by
  intro fuel
  induction fuel with
  | zero => intro o t; rfl
  | succ fuel ih =>
    intro o t
    simp only [Onto.link, get_setV]
    cases o.get t with
    | none => rfl
    | some tm =>
      simp only
      split
      · exact linkFold_setV v _ ih tm.allParents
          { o with terms := modT o.terms t (fun x => x.setAnn k (Group.insert (tm.ann k) r).1) }
      · rfl

theorem annotate_setV (v : Nat × Nat × Nat) (o : Onto) (k : Kind) (r : Nat) (n : List Char) (t : Nat) :
    (setV v o).annotate k r n t = mapR (setV v) (o.annotate k r n t) := by
  unfold Onto.annotate
  simp only [get_setV]
  cases o.get t with
  | none => rfl
  | some _ =>
    simp only [addTermToRec_setV]
    exact link_setV v k r _ _ t

theorem calcIcKind_setV (v : Nat × Nat × Nat) (o : Onto) (k : Kind) :
    (setV v o).calcIcKind k = mapR (setV v) (o.calcIcKind k) := by
  unfold Onto.calcIcKind
  simp only [recs_setV, terms_setV]
  cases Onto.icFold k (o.recs k).length o.terms <;> rfl

theorem calcIc_setV (v : Nat × Nat × Nat) (o : Onto) :
    (setV v o).calcIc = mapR (setV v) o.calcIc := by
  unfold Onto.calcIc
  rw [calcIcKind_setV, mapR_bind, bind_mapR]
  congr 1; funext o1
  rw [calcIcKind_setV, mapR_bind, bind_mapR]
  congr 1; funext o2
  exact calcIcKind_setV v o2 _

theorem buildWithDefaults_setV (v : Nat × Nat × Nat) (o : Onto) :
    (setV v o).buildWithDefaults = mapR (setV v) o.buildWithDefaults := by
  unfold Onto.buildWithDefaults Onto.defaultCategories Onto.defaultModifier Onto.buildMinimal
  have e1 : ∀ i, ({ setV v o with categories := [], modifier := [] } : Onto).get i = o.get i := fun _ => rfl
  have e2 : ∀ i, ({ o with categories := [], modifier := [] } : Onto).get i = o.get i := fun _ => rfl
  simp only [e1, e2]
  cases o.get 1 with
  | none => rfl
  | some root => cases o.get Onto.phenotypeId <;> rfl

/-! ### hp.obo: the stanzas as builder calls -/

/-- the term fact a `[Term]` stanza states (what `term_from_obo` puts into the new term) -/
def stanzaFact (s : Term × List Nat) : TermFact := ⟨s.1.name, s.1.id, s.1.obsolete, s.1.replacement⟩
def stanzaFacts (terms : List (Term × List Nat)) : List TermFact := terms.map stanzaFact

/-- the parent record of a stanza: (its id, the ids of its `is_a` lines) -/
def stanzaRec (s : Term × List Nat) : Nat × List Nat := (s.1.id, s.2)
/-- the is_a facts `(parent, child)` of a file, one per `is_a` line, in file order -/
def stanzaEdges (terms : List (Term × List Nat)) : List EdgeFact := edgesOf (terms.map stanzaRec)

/-- the term-level builder program of an obo file: `add_term` per stanza, then `add_parent` per
`is_a` line -/
def oboOps (terms : List (Term × List Nat)) : List BOp :=
  (stanzaFacts terms).map TermFact.op ++ (stanzaEdges terms).map edgeOp

/-- a parsed stanza carries id, name, obsolete flag and replacement and nothing else -/
def BareTerms (terms : List (Term × List Nat)) : Prop := ∀ s ∈ terms, s.1 = (stanzaFact s).term

/-- every `is_a` target is a `[Term]` stanza of the file -/
def IsaClosed (terms : List (Term × List Nat)) : Prop :=
  ∀ s ∈ terms, ∀ p ∈ s.2, ∃ s' ∈ terms, s'.1.id = p

theorem itemsTerms_bare (items : List Item) : BareTerms (itemsTerms items) := by
  induction items with
  | nil => intro s hs; simp [itemsTerms] at hs
  | cons i r ih =>
    cases i with
    | stanza id name obs repl parents e1 e2 =>
      intro s hs
      simp only [itemsTerms, List.mem_cons] at hs
      rcases hs with rfl | hs
      · rfl
      · exact ih s hs
    | other tag ls => exact ih

theorem addOboTerms_eq_runB (terms : List (Term × List Nat)) (hb : BareTerms terms) :
    ∀ o : Onto, addOboTerms terms o = runB ((stanzaFacts terms).map TermFact.op) o := by
  induction terms with
  | nil => intro o; rfl
  | cons s r ih =>
    intro o
    obtain ⟨t, ps⟩ := s
    have ht : t = (stanzaFact (t, ps)).term := hb (t, ps) (by simp)
    simp only [addOboTerms, stanzaFacts, List.map_cons, runB]
    have : applyB o (stanzaFact (t, ps)).op = o.addTerm (stanzaFact (t, ps)).term := rfl
    rw [← ht] at this
    rw [this]
    cases o.addTerm t with
    | none => rfl
    | some o' => exact ih (fun s hs => hb s (by simp [hs])) o'

theorem addParentsOfChild_eq (c : Nat) (ps : List Nat) :
    ∀ o : Onto, addParentsOfChild c ps o = Onto.addParentsOf c ps o := by
  induction ps with
  | nil => intro o; rfl
  | cons p ps ih =>
    intro o
    simp only [addParentsOfChild, Onto.addParentsOf]
    cases o.addParentUnchecked p c with
    | none => rfl
    | some o' => exact ih o'

theorem addOboConnections_eq (terms : List (Term × List Nat)) :
    ∀ o : Onto, addOboConnections terms o = Onto.addParentRecs (terms.map stanzaRec) o := by
  induction terms with
  | nil => intro o; rfl
  | cons s r ih =>
    intro o
    obtain ⟨t, ps⟩ := s
    simp only [addOboConnections, List.map_cons, stanzaRec, Onto.addParentRecs, addParentsOfChild_eq]
    cases Onto.addParentsOf t.id ps o with
    | none => rfl
    | some o' => exact ih o'

theorem mem_stanzaFacts (terms : List (Term × List Nat)) (j : Nat) :
    (∃ f ∈ stanzaFacts terms, f.id = j) ↔ ∃ s ∈ terms, s.1.id = j := by
  simp only [stanzaFacts, List.mem_map]
  constructor
  · rintro ⟨f, ⟨s, hs, rfl⟩, hj⟩; exact ⟨s, hs, hj⟩
  · rintro ⟨s, hs, hj⟩; exact ⟨stanzaFact s, ⟨s, hs, rfl⟩, hj⟩

/-- after the term phase exactly the ids of the term facts resolve -/
theorem terms_phase_present (fs : List TermFact) (a : Onto) (h : runB (fs.map TermFact.op) {} = some a)
    (j : Nat) : (getT a.terms j).isSome ↔ ∃ f ∈ fs, f.id = j := by
  rw [(terms_phase fs a h).1 j, Option.isSome_map, List.find?_isSome]
  simp

/-- **`oboBuild` is a builder run.** With every `is_a` target a stanza of the file, the builder half
of `read_obo_file` is the term-level program `oboOps` of the checked API (`new_term` + `add_parent`)
run on the empty builder, plus the release version. -/
theorem oboBuild_eq_runB (terms : List (Term × List Nat)) (v : Nat × Nat × Nat)
    (hb : BareTerms terms) (hisa : IsaClosed terms) :
    oboBuild { terms := terms, version := v } = (runB (oboOps terms) {}).map (setV v) := by
  unfold oboBuild oboOps
  show (addOboTerms terms (setV v {})).bind (addOboConnections terms) = _
  rw [addOboTerms_eq_runB terms hb, runB_setV, runB_append]
  cases h : runB ((stanzaFacts terms).map TermFact.op) {} with
  | none => rfl
  | some a =>
    simp only [Option.map_some, Option.bind_some]
    have hpre : PreInv (setV v a).terms := (preInv_run _ {} a preInv_nil h).1
    have hpres : ∀ s ∈ terms, (getT a.terms s.1.id).isSome := by
      intro s hs
      rw [terms_phase_present _ a h, mem_stanzaFacts]
      exact ⟨s, hs, rfl⟩
    rw [addOboConnections_eq, addParentRecs_eq_runB _ (setV v a) hpre, stanzaEdges, runB_setV]
    intro r hr
    obtain ⟨s, hs, rfl⟩ := List.mem_map.1 hr
    refine ⟨hpres s hs, ?_⟩
    intro p hp
    obtain ⟨s', hs', rfl⟩ := hisa s hs p hp
    exact hpres s' hs'

/-! ### gene / disease rows as annotation calls -/

/-- the `annotate_gene` call of a gene row -/
def GRow.op (r : GRow) : AOp := .annotate .gene r.g r.sym r.h
def geneOps (rows : List GRow) : List AOp := rows.map GRow.op

/-- the `annotate_omim_disease` / `annotate_orpha_disease` call of a phenotype.hpoa line, if any -/
def DRow.op? : DRow → Option AOp
  | .link orpha d name _ h _ => some (.annotate (dbKind orpha) d name h)
  | .excluded _ _ _ _ _ => none
  | .ignored _ => none
def diseaseOps (rows : List DRow) : List AOp := rows.filterMap DRow.op?

/-- the annotation-phase builder program of the two row files -/
def fileOps (grows : List GRow) (drows : List DRow) : List AOp := geneOps grows ++ diseaseOps drows

/-- a call history executed the way the loaders do: the first failing call aborts -/
def annotateSeq : List AOp → Onto → Res Onto
  | [], o => .ok o
  | .annotate k r n t :: ops, o => (o.annotate k r n t).bind (annotateSeq ops)
  | .addRec k n i :: ops, o => annotateSeq ops (o.addRec k n i)

theorem annotateGenes_eq (rows : List GRow) : ∀ o, annotateGenes rows o = annotateSeq (geneOps rows) o := by
  induction rows with
  | nil => intro o; rfl
  | cons r rs ih =>
    intro o
    simp only [annotateGenes, geneOps, List.map_cons, GRow.op, annotateSeq]
    congr 1; funext o'; exact ih o'

theorem annotateDiseases_eq (rows : List DRow) :
    ∀ o, annotateDiseases rows o = annotateSeq (diseaseOps rows) o := by
  induction rows with
  | nil => intro o; rfl
  | cons r rs ih =>
    intro o
    cases r with
    | link orpha d name q h tail =>
      simp only [annotateDiseases, diseaseOps, List.filterMap_cons, DRow.op?, annotateSeq]
      congr 1; funext o'; exact ih o'
    | excluded orpha id name hpo tail =>
      simp only [annotateDiseases, diseaseOps, List.filterMap_cons, DRow.op?]; exact ih o
    | ignored line =>
      simp only [annotateDiseases, diseaseOps, List.filterMap_cons, DRow.op?]; exact ih o

theorem annotateSeq_append (a b : List AOp) :
    ∀ o, annotateSeq (a ++ b) o = (annotateSeq a o).bind (annotateSeq b) := by
  induction a with
  | nil => intro o; rfl
  | cons op ops ih =>
    intro o
    cases op with
    | addRec k n i => simp only [List.cons_append, annotateSeq]; exact ih _
    | annotate k r n t =>
      simp only [List.cons_append, annotateSeq]
      cases o.annotate k r n t with
      | ok o' => exact ih o'
      | err e => rfl
      | panic => rfl
      | diverge => rfl

theorem annotateSeq_setV (v : Nat × Nat × Nat) (ops : List AOp) :
    ∀ o, annotateSeq ops (setV v o) = mapR (setV v) (annotateSeq ops o) := by
  induction ops with
  | nil => intro o; rfl
  | cons op ops ih =>
    intro o
    cases op with
    | addRec k n i =>
      simp only [annotateSeq]
      have : (setV v o).addRec k n i = setV v (o.addRec k n i) := by cases k <;> rfl
      rw [this]; exact ih _
    | annotate k r n t =>
      simp only [annotateSeq, annotate_setV]
      cases o.annotate k r n t with
      | ok o' => exact ih o'
      | err e => rfl
      | panic => rfl
      | diverge => rfl

/-- the term a call annotates is known -/
def _root_.Hpo.AOp.Known (ex : Nat → Prop) : AOp → Prop
  | .addRec _ _ _ => True
  | .annotate _ _ _ t => ex t

section
variable (anc : Nat → List Nat) (ex : Nat → Prop)

/-- **success case**: when every annotated term exists, the loader's row loop is the call history
`runA` (no call fails, so "abort at the first failure" and "ignore failures" coincide) -/
theorem annotateSeq_ok (rank : Nat → Nat) (hc : AncClosure anc ex rank) (ops : List AOp) :
    (∀ op ∈ ops, op.Known ex) → ∀ o : Onto, AnnInv anc ex o → (∀ j, rank j < o.terms.length + 2) →
      annotateSeq ops o = .ok (runA ops o) := by
  induction ops with
  | nil => intro _ o _ _; rfl
  | cons op ops ih =>
    intro hk o hinv hf
    have hk' : ∀ op' ∈ ops, op'.Known ex := fun op' h => hk op' (by simp [h])
    cases op with
    | addRec k n i =>
      have ht : (o.addRec k n i).terms = o.terms := by simp [Onto.addRec, terms_setRecs]
      simp only [annotateSeq, runA, List.foldl_cons, applyA]
      exact ih hk' _ (annInv_addRec anc ex o k n i hinv) (by rw [ht]; exact hf)
    | annotate k rid n t =>
      have hext : ex t := hk (.annotate k rid n t) (by simp)
      rcases annInv_annotate anc ex rank hc o k rid n t hinv hf with ⟨_, hne⟩ | ⟨_, o', hok, hinv', hlen, _⟩
      · exact absurd hext hne
      · simp only [annotateSeq, runA, List.foldl_cons, applyA, hok, Res.bind]
        exact ih hk' o' hinv' (by rw [hlen]; exact hf)

/-- **failure case**: a row naming a term that does not exist makes the load fail with
`DoesNotExist` (the first such row aborts it) -/
theorem annotateSeq_fail (rank : Nat → Nat) (hc : AncClosure anc ex rank) (ops : List AOp) :
    (∃ op ∈ ops, ¬ op.Known ex) → ∀ o : Onto, AnnInv anc ex o → (∀ j, rank j < o.terms.length + 2) →
      annotateSeq ops o = .err .doesNotExist := by
  induction ops with
  | nil => rintro ⟨op, h, _⟩; simp at h
  | cons op ops ih =>
    intro hbad o hinv hf
    cases op with
    | addRec k n i =>
      have ht : (o.addRec k n i).terms = o.terms := by simp [Onto.addRec, terms_setRecs]
      have hbad' : ∃ op ∈ ops, ¬ op.Known ex := by
        obtain ⟨op, hop, hn⟩ := hbad
        rcases List.mem_cons.1 hop with rfl | hop
        · exact absurd trivial hn
        · exact ⟨op, hop, hn⟩
      simp only [annotateSeq]
      exact ih hbad' _ (annInv_addRec anc ex o k n i hinv) (by rw [ht]; exact hf)
    | annotate k rid n t =>
      rcases annInv_annotate anc ex rank hc o k rid n t hinv hf with ⟨he, _⟩ | ⟨hext, o', hok, hinv', hlen, _⟩
      · simp only [annotateSeq, he, Res.bind]
      · have hbad' : ∃ op ∈ ops, ¬ op.Known ex := by
          obtain ⟨op, hop, hn⟩ := hbad
          rcases List.mem_cons.1 hop with rfl | hop
          · exact absurd hext hn
          · exact ⟨op, hop, hn⟩
        simp only [annotateSeq, hok, Res.bind]
        exact ih hbad' o' hinv' (by rw [hlen]; exact hf)

/-- which records exist after a call history (no hypothesis on names) -/
theorem runA_recs_isSome (rank : Nat → Nat) (hc : AncClosure anc ex rank) (ops : List AOp) :
    ∀ o : Onto, AnnInv anc ex o → (∀ j, rank j < o.terms.length + 2) →
      ∀ k r, (getR ((runA ops o).recs k) r).isSome ↔
        (getR (o.recs k) r).isSome ∨ ∃ op ∈ ops, op.touches ex k r := by
  induction ops with
  | nil => intro o _ _ k r; simp [runA]
  | cons op ops ih =>
    intro o hinv hf k r
    obtain ⟨hinv1, hlen1, _⟩ := applyA_core anc ex rank hc o hinv hf op
    have := ih (applyA o op) hinv1 (by rw [hlen1]; exact hf) k r
    simp only [runA, List.foldl_cons] at this ⊢
    rw [this, (applyA_recs anc ex rank hc o hinv hf op k r).1]
    simp only [List.mem_cons, exists_eq_or_imp]
    exact or_assoc
end

/-! ### the builder program of C01 / C02 / C03 / C16 on a set of facts -/

/-- an acyclic set of is_a facts `(parent, child)`: some rank strictly decreases from child to
parent (no bound on the rank: for a finite relation this is the absence of cycles) -/
def AcyclicEdges (es : List EdgeFact) : Prop := ∃ rank : Nat → Nat, ∀ e ∈ es, rank e.1 < rank e.2

/-- the record a call concerns -/
def _root_.Hpo.AOp.recId : AOp → Kind × Nat
  | .addRec k _ i => (k, i)
  | .annotate k r _ _ => (k, r)

/-- the success condition of `calculate_information_content`: per kind at most 65 535 distinct
record ids (any duplicate-free list of record ids of one kind named by the calls is that short) -/
def CountsFit (ops : List AOp) : Prop :=
  ∀ (k : Kind) (ids : List Nat), ids.Nodup → (∀ i ∈ ids, ∃ op ∈ ops, op.recId = (k, i)) →
    ids.length ≤ 65535

theorem countsFit_of_length (ops : List AOp) (h : ops.length ≤ 65535) : CountsFit ops := by
  intro k ids hnd hall
  have h1 : (ids.map (fun i => (k, i))).Nodup :=
    List.Pairwise.map _ (fun a b hab heq => hab (Prod.mk.inj heq).2) hnd
  have h2 : ids.map (fun i => (k, i)) ⊆ ops.map AOp.recId := by
    intro x hx
    obtain ⟨i, hi, rfl⟩ := List.mem_map.1 hx
    obtain ⟨op, hop, he⟩ := hall i hi
    exact List.mem_map.2 ⟨op, hop, he⟩
  have := List.Nodup.length_le_of_subset h1 h2
  simp only [List.length_map] at this
  omega

/-- the term-level half of the builder program: terms, edges, `connect_all_terms` -/
structure TermRun (fs : List TermFact) (es : List EdgeFact) (a oc : Onto) : Prop where
  run : runB (fs.map TermFact.op ++ es.map edgeOp) {} = some a
  acyclic : Acyclic a
  connect : a.connectAll = .ok oc

/-- the whole builder program on the facts `fs`, `es`, `aops` (in this order of calls), with its
intermediate states: `new_term` per term fact, `add_parent` per edge fact, `connect_all_terms`, the
annotation calls, `calculate_information_content`, `build_with_defaults` -/
structure BuilderRun (fs : List TermFact) (es : List EdgeFact) (aops : List AOp) (a oc r d : Onto) : Prop
    extends TermRun fs es a oc where
  ic : (runA aops oc).calcIc = .ok r
  build : r.buildWithDefaults = .ok d

theorem acyclic_of_edges (fs : List TermFact) (es : List EdgeFact) (a : Onto)
    (h : runB (fs.map TermFact.op ++ es.map edgeOp) {} = some a) (hac : AcyclicEdges es) : Acyclic a := by
  obtain ⟨hpre, _⟩ := preInv_run _ {} a preInv_nil h
  rw [C01_acyclic_iff_irreflexive a hpre]
  rw [runB_append, Option.bind_eq_some_iff] at h
  obtain ⟨a0, h0, h1⟩ := h
  have hpre0 := (preInv_run _ {} a0 preInv_nil h0).1
  obtain ⟨_, _, hP, _⟩ := edges_phase es a0 a hpre0 h1
  obtain ⟨rank, hr⟩ := hac
  have hstep : ∀ c p, p ∈ parentsOf a.terms c → rank p < rank c := by
    intro c p hcp
    rcases (hP c p).1 hcp with h | ⟨h, _, _⟩
    · have : parentsOf a0.terms c = [] := by
        simp only [parentsOf, (terms_phase fs a0 h0).1 c]
        cases fs.find? (fun f => f.id = c) <;> rfl
      rw [this] at h; simp at h
    · exact hr (p, c) h
  intro j hj
  have := transGen_rank (o := a) hstep hj
  omega

theorem runB_terms_some (fs : List TermFact) (h : ∀ f ∈ fs, f.id < maxId) :
    ∀ o : Onto, ∃ o', runB (fs.map TermFact.op) o = some o' := by
  induction fs with
  | nil => intro o; exact ⟨o, rfl⟩
  | cons f fs ih =>
    intro o
    have hf : f.id < maxId := h f (by simp)
    have : ∃ o1, applyB o f.op = some o1 := by
      simp only [applyB, TermFact.op, Onto.addTerm, arenaInsert, ge_iff_le, Nat.not_le.2 hf, ↓reduceIte]
      cases getT o.terms f.id <;> exact ⟨_, rfl⟩
    obtain ⟨o1, h1⟩ := this
    obtain ⟨o2, h2⟩ := ih (fun g hg => h g (by simp [hg])) o1
    exact ⟨o2, by simp only [List.map_cons, runB, h1, Option.bind_some, h2]⟩

theorem termRun_exists (fs : List TermFact) (es : List EdgeFact) (hsmall : ∀ f ∈ fs, f.id < maxId)
    (hac : AcyclicEdges es) : ∃ a oc, TermRun fs es a oc := by
  obtain ⟨a0, h0⟩ := runB_terms_some fs hsmall {}
  obtain ⟨a, h1⟩ := runB_edges_some es a0
  have hrun : runB (fs.map TermFact.op ++ es.map edgeOp) {} = some a := by
    rw [runB_append, h0]; exact h1
  have hacy := acyclic_of_edges fs es a hrun hac
  obtain ⟨oc, hc⟩ := C01_connect_total _ a hrun hacy
  exact ⟨a, oc, hrun, hacy, hc⟩

/-- after `connect_all_terms` exactly the ids of the term facts resolve -/
theorem TermRun.present {fs : List TermFact} {es : List EdgeFact} {a oc : Onto} (R : TermRun fs es a oc)
    (j : Nat) : (getT oc.terms j).isSome ↔ ∃ f ∈ fs, f.id = j := by
  obtain ⟨hpre, _⟩ := preInv_run _ {} a preInv_nil R.run
  obtain ⟨oc', hc', _, hupd, _, _⟩ := C01_connect a hpre R.acyclic
  rw [R.connect] at hc'; cases hc'
  have h := R.run
  rw [runB_append, Option.bind_eq_some_iff] at h
  obtain ⟨a0, h0, h1⟩ := h
  have hpre0 := (preInv_run _ {} a0 preInv_nil h0).1
  rw [hupd.isSome, (edges_phase es a0 a hpre0 h1).1 j]
  exact terms_phase_present fs a0 h0 j

theorem applyA_version (o : Onto) (op : AOp) : (applyA o op).version = o.version := by
  cases op with
  | addRec k n i => cases k <;> rfl
  | annotate k rid n t =>
    simp only [applyA]
    cases hr : o.annotate k rid n t with
    | ok o' =>
      simp only
      unfold Onto.annotate at hr
      cases hg : o.get t with
      | none => simp [hg] at hr
      | some _ =>
        simp only [hg] at hr
        rw [(link_same _ _ _ _ _ _ hr).2]
        cases k <;> rfl
    | err _ => rfl
    | panic => rfl
    | diverge => rfl

theorem runA_version (ops : List AOp) : ∀ o : Onto, (runA ops o).version = o.version := by
  induction ops with
  | nil => intro o; rfl
  | cons op ops ih =>
    intro o
    simp only [runA, List.foldl_cons]
    have := ih (applyA o op)
    simp only [runA] at this
    rw [this, applyA_version]

theorem calcIc_rest (o r : Onto) (h : o.calcIc = .ok r) : r = { o with terms := r.terms } := by
  obtain ⟨ts', h'⟩ := calcIc_total o (calcIc_fits o r h)
  rw [h] at h'
  cases h'
  rfl

theorem buildWithDefaults_rest (r d : Onto) (h : r.buildWithDefaults = .ok d) :
    d = { r with categories := d.categories, modifier := d.modifier } := by
  unfold Onto.buildWithDefaults at h
  simp only at h
  obtain ⟨c, _, h2⟩ := Res.bind_eq_ok h
  obtain ⟨m, _, h3⟩ := Res.bind_eq_ok h2
  simp only [Res.ok.injEq] at h3
  subst h3
  rfl

/-- the part of the final ontology that the annotation phase fixes -/
theorem BuilderRun.final {fs : List TermFact} {es : List EdgeFact} {aops : List AOp} {a oc r d : Onto}
    (R : BuilderRun fs es aops a oc r d) :
    d.terms = r.terms ∧ (∀ k, d.recs k = (runA aops oc).recs k) ∧ d.version = (0, 0, 0) := by
  obtain ⟨_, hrest0⟩ := preInv_run _ {} a preInv_nil R.run
  obtain ⟨oc', hc', hrest, _, _, _⟩ := C01_connect a (preInv_run _ {} a preInv_nil R.run).1 R.acyclic
  rw [R.connect] at hc'; cases hc'
  have h1 := buildWithDefaults_rest r d R.build
  have h2 := calcIc_rest _ r R.ic
  refine ⟨by rw [h1], ?_, ?_⟩
  · intro k; rw [h1, h2]; cases k <;> rfl
  · have hv : d.version = (runA aops oc).version := by rw [h1, h2]
    rw [hv, runA_version, hrest, hrest0]

/-- `calculate_information_content` succeeds on every builder history whose record counts fit -/
theorem calcIc_ok_of_fit (tops : List BOp) (a oc : Onto) (hrun : runB tops {} = some a) (hac : Acyclic a)
    (hc : a.connectAll = .ok oc) (ops : List AOp) (hfit : CountsFit ops) :
    ∃ r, (runA ops oc).calcIc = .ok r := by
  obtain ⟨hpre, hrest0⟩ := preInv_run tops {} a preInv_nil hrun
  obtain ⟨oc', hc', hrest, hupd, _, _⟩ := C01_connect a hpre hac
  rw [hc] at hc'; cases hc'
  obtain ⟨hinv, ⟨rank, hcl, hf⟩, _, _⟩ := connected_annInv tops a oc hrun hac hc
  have H := (C02_history _ _ rank hcl ops oc hinv hf).1
  have hres := fun k => (C02_resolves tops a oc hrun hac hc ops k).1
  have hrecs0 : ∀ k, oc.recs k = [] := by intro k; rw [hrest, hrest0]; cases k <;> rfl
  have hnd := recIds_nodup ops oc (fun k => by simp [hrecs0]) _ _ rank hcl hinv hf
  have hids : ((runA ops oc).terms.map (·.id)).Nodup := by rw [runA_ids, hupd.1]; exact hpre.nodup
  have hsome := runA_recs_isSome _ _ rank hcl ops oc hinv hf
  have hN : ∀ k, ((runA ops oc).recs k).length ≤ 65535 := by
    intro k
    have := hfit k (((runA ops oc).recs k).map (·.id)) (hnd k) (by
      intro i hi
      have h1 := (getR_isSome_iff _ i).2 hi
      rcases (hsome k i).1 h1 with h0 | ⟨op, hop, ht⟩
      · simp [hrecs0, getR] at h0
      · refine ⟨op, hop, ?_⟩
        cases op with
        | addRec k' n i' => simp only [AOp.touches] at ht; simp [AOp.recId, ht.1, ht.2]
        | annotate k' r' n t => simp only [AOp.touches] at ht; simp [AOp.recId, ht.1, ht.2.1])
    simpa using this
  obtain ⟨ts', h⟩ := calcIc_total (runA ops oc) (by
    intro t ht k
    have hg := getT_of_mem_nodup hids ht
    have hle : (t.ann k).length ≤ ((runA ops oc).recs k).length := by
      have h1 : (annOf k (runA ops oc).terms t.id).Nodup := (H.sorted k t.id).nodup
      have h2 : annOf k (runA ops oc).terms t.id ⊆ ((runA ops oc).recs k).map (·.id) :=
        fun r hr => (getR_isSome_iff _ r).1 (hres k t.id r hr)
      have := List.Nodup.length_le_of_subset h1 h2
      simpa [annOf, hg] using this
    exact Or.inr (Or.inr ⟨hN k, Nat.le_trans hle (hN k)⟩))
  exact ⟨_, h⟩

/-- the builder program succeeds on every set of facts with term ids below 10^7, an acyclic is_a
relation, record counts that fit and both roots -/
theorem builderRun_exists (fs : List TermFact) (es : List EdgeFact) (aops : List AOp)
    (hsmall : ∀ f ∈ fs, f.id < maxId) (hac : AcyclicEdges es) (hfit : CountsFit aops)
    (hroot : ∃ f ∈ fs, f.id = 1) (hphen : ∃ f ∈ fs, f.id = Onto.phenotypeId) :
    ∃ a oc r d, BuilderRun fs es aops a oc r d := by
  obtain ⟨a, oc, T⟩ := termRun_exists fs es hsmall hac
  obtain ⟨r, hr⟩ := calcIc_ok_of_fit _ a oc T.run T.acyclic T.connect aops hfit
  obtain ⟨hpre, _⟩ := preInv_run _ {} a preInv_nil T.run
  obtain ⟨oc', hc', _, hupd, _, _⟩ := C01_connect a hpre T.acyclic
  rw [T.connect] at hc'; cases hc'
  have hrt := (calcIc_ok _ r hr).1
  have hidr : r.terms.map (·.id) = oc.terms.map (·.id) := by
    rw [hrt, List.map_map, ← runA_ids aops oc]
    apply List.map_congr_left
    intro t _
    simp [setIc_id]
  have hS : ∀ j, (getT r.terms j).isSome ↔ (getT oc.terms j).isSome := by
    intro j; rw [getT_isSome_iff, getT_isSome_iff, hidr]
  have hsmallr : ∀ j, (getT r.terms j).isSome → j < maxId := by
    intro j hj
    rw [hS, hupd.isSome] at hj
    exact hpre.small j hj
  refine ⟨a, oc, r, _, T, hr, (buildWithDefaults_ok_iff r _ hsmallr).2 ⟨?_, ?_, rfl⟩⟩
  · rw [hS, T.present]; exact hroot
  · rw [hS, T.present]; exact hphen

/-- equal lookups: every term id and every record id of every kind resolve to equal data in both
ontologies; same categories, modifier roots and release version (iteration order is not compared) -/
structure SameLookups (d1 d2 : Onto) : Prop where
  terms : ∀ j, getT d1.terms j = getT d2.terms j
  recs : ∀ k r, getR (d1.recs k) r = getR (d2.recs k) r
  categories : d1.categories = d2.categories
  modifier : d1.modifier = d2.modifier
  version : d1.version = d2.version

theorem SameLookups.setV {d1 d2 : Onto} (h : SameLookups d1 d2) (v : Nat × Nat × Nat) :
    SameLookups (setV v d1) (setV v d2) :=
  ⟨h.terms, fun k r => by simp only [recs_setV]; exact h.recs k r, h.categories, h.modifier, rfl⟩

/-- **C16 assembled**: two builder programs over permuted facts (one fact per term id, one name per
record id) end in ontologies with equal lookups -/
theorem builderRun_perm {fs1 fs2 : List TermFact} {es1 es2 : List EdgeFact} {aops1 aops2 : List AOp}
    {a1 oc1 r1 d1 a2 oc2 r2 d2 : Onto}
    (R1 : BuilderRun fs1 es1 aops1 a1 oc1 r1 d1) (R2 : BuilderRun fs2 es2 aops2 a2 oc2 r2 d2)
    (hpf : fs1.Perm fs2) (hpe : es1.Perm es2) (hpa : aops1.Perm aops2) (hfun : Functional fs1)
    (nameOf : Kind → Nat → List Char) (hn : NamesFunctional nameOf aops1) : SameLookups d1 d2 := by
  have ht := C16_terms fs1 fs2 es1 es2 hpf hpe hfun a1 a2 oc1 oc2 R1.run R2.run R1.acyclic
    R1.connect R2.connect
  obtain ⟨hrecs, hterms, hcount⟩ := C16_records_and_terms _ _ a1 a2 oc1 oc2 R1.run R2.run R1.acyclic
    R2.acyclic R1.connect R2.connect ht aops1 aops2 hpa nameOf hn
  obtain ⟨hinv, ⟨rank, hcl, hf⟩, _, _⟩ := connected_annInv _ a1 oc1 R1.run R1.acyclic R1.connect
  have hsmall1 := (C02_history _ _ rank hcl aops1 oc1 hinv hf).1.small
  obtain ⟨_, hD⟩ := C16_ic_and_defaults (runA aops1 oc1) (runA aops2 oc2) r1 r2 hterms hsmall1 hcount
    R1.ic R2.ic
  obtain ⟨hc, hm, hdt⟩ := hD d1 d2 R1.build R2.build
  obtain ⟨_, f1, v1⟩ := R1.final
  obtain ⟨_, f2, v2⟩ := R2.final
  exact ⟨hdt, fun k r => by rw [f1, f2]; exact hrecs k r, hc, hm, v1.trans v2.symm⟩

/-- every ontology of a builder program is `Reachable` (the class C07 quantifies over) -/
theorem BuilderRun.reachable {fs : List TermFact} {es : List EdgeFact} {aops : List AOp} {a oc r d : Onto}
    (R : BuilderRun fs es aops a oc r d) : Reachable d :=
  reachable_of_builder _ a oc R.run R.acyclic R.connect aops r d R.ic R.build

theorem reachable_setV {d : Onto} (h : Reachable d) (v : Nat × Nat × Nat) : Reachable (setV v d) := by
  obtain ⟨h1, h2, h3, h4, h5, h6, h7, h8, h9, h10, h11, h12, h13, h14, h15, h16, h17, h18, h19⟩ := h
  exact ⟨h1, h2, h3, h4, h5, h6, h7, h8, h9, fun k => by rw [recs_setV]; exact h10 k, h11, h12, h13, h14,
    fun t ht k => by rw [recs_setV]; exact h15 t ht k, fun t ht k => by rw [recs_setV]; exact h16 t ht k,
    h17, h18, h19⟩

/-! ### the three files -/

/-- the term with this id is a `[Term]` stanza of the file -/
def IsStanza (terms : List (Term × List Nat)) (j : Nat) : Prop := ∃ s ∈ terms, s.1.id = j

/-- an acyclic is_a relation: some rank strictly decreases from every stanza to each of its `is_a`
targets -/
def AcyclicFacts (terms : List (Term × List Nat)) : Prop :=
  ∃ rank : Nat → Nat, ∀ s ∈ terms, ∀ p ∈ s.2, rank p < rank s.1.id

/-- Well-formed content of the three files: what makes the load succeed. -/
structure WFfacts (terms : List (Term × List Nat)) (grows : List GRow) (drows : List DRow) : Prop where
  /-- term ids are below 10^7 (beyond that `Arena::insert` indexes out of bounds) -/
  small : ∀ s ∈ terms, s.1.id < maxId
  /-- every `is_a` target is a `[Term]` stanza of the file -/
  isa : IsaClosed terms
  /-- no is_a cycle -/
  acyclic : AcyclicFacts terms
  /-- every term annotated in the gene file is a stanza -/
  geneTerms : ∀ r ∈ grows, IsStanza terms r.h
  /-- every term annotated by an OMIM / ORPHA row that is not `NOT` is a stanza -/
  diseaseTerms : ∀ orpha d name q h tail, DRow.link orpha d name q h tail ∈ drows → IsStanza terms h
  /-- at most 65 535 distinct genes, OMIM diseases, ORPHA diseases (`calculate_information_content`) -/
  fit : CountsFit (fileOps grows drows)
  /-- `HP:0000001` and `HP:0000118` are stanzas (`build_with_defaults`) -/
  root : IsStanza terms 1
  phenotype : IsStanza terms Onto.phenotypeId

theorem mem_stanzaEdges (terms : List (Term × List Nat)) (p c : Nat) :
    (p, c) ∈ stanzaEdges terms ↔ ∃ s ∈ terms, s.1.id = c ∧ p ∈ s.2 := by
  simp only [stanzaEdges, mem_edgesOf, List.mem_map, stanzaRec]
  constructor
  · rintro ⟨ps, ⟨s, hs, he⟩, hp⟩
    obtain ⟨h1, h2⟩ := Prod.mk.inj he
    exact ⟨s, hs, h1, h2 ▸ hp⟩
  · rintro ⟨s, hs, rfl, hp⟩
    exact ⟨s.2, ⟨s, hs, rfl⟩, hp⟩

theorem acyclicEdges_of_facts (terms : List (Term × List Nat)) (h : AcyclicFacts terms) :
    AcyclicEdges (stanzaEdges terms) := by
  obtain ⟨rank, hr⟩ := h
  refine ⟨rank, ?_⟩
  rintro ⟨p, c⟩ he
  obtain ⟨s, hs, rfl, hp⟩ := (mem_stanzaEdges terms p c).1 he
  exact hr s hs p hp

theorem mem_diseaseOps (drows : List DRow) (op : AOp) :
    op ∈ diseaseOps drows ↔ ∃ orpha d name q h tail, DRow.link orpha d name q h tail ∈ drows ∧
      op = .annotate (dbKind orpha) d name h := by
  simp only [diseaseOps, List.mem_filterMap]
  constructor
  · rintro ⟨row, hrow, he⟩
    cases row with
    | link orpha d name q h tail =>
      simp only [DRow.op?, Option.some.injEq] at he
      exact ⟨orpha, d, name, q, h, tail, hrow, he.symm⟩
    | excluded orpha id name hpo tail => simp [DRow.op?] at he
    | ignored line => simp [DRow.op?] at he
  · rintro ⟨orpha, d, name, q, h, tail, hrow, rfl⟩
    exact ⟨_, hrow, rfl⟩

theorem WFfacts.known {terms : List (Term × List Nat)} {grows : List GRow} {drows : List DRow}
    (W : WFfacts terms grows drows) : ∀ op ∈ fileOps grows drows, op.Known (IsStanza terms) := by
  intro op hop
  rcases List.mem_append.1 hop with h | h
  · obtain ⟨r, hr, rfl⟩ := List.mem_map.1 h
    exact W.geneTerms r hr
  · obtain ⟨orpha, d, name, q, hh, tail, hrow, rfl⟩ := (mem_diseaseOps drows op).1 h
    exact W.diseaseTerms orpha d name q hh tail hrow

/-- "one name per gene / disease id" stated on the rows -/
theorem namesFunctional_fileOps (nameOf : Kind → Nat → List Char) (grows : List GRow) (drows : List DRow)
    (hg : ∀ r ∈ grows, r.sym = nameOf .gene r.g)
    (hd : ∀ orpha d name q h tail, DRow.link orpha d name q h tail ∈ drows → name = nameOf (dbKind orpha) d) :
    NamesFunctional nameOf (fileOps grows drows) := by
  intro op hop k r n hnm
  rcases List.mem_append.1 hop with h | h
  · obtain ⟨row, hr, rfl⟩ := List.mem_map.1 h
    simp only [GRow.op, AOp.nameFor] at hnm
    split at hnm
    · rename_i hkr; obtain ⟨rfl, rfl⟩ := hkr; rw [← Option.some.inj hnm]; exact hg row hr
    · cases hnm
  · obtain ⟨orpha, d, name, q, hh, tail, hrow, rfl⟩ := (mem_diseaseOps drows op).1 h
    simp only [AOp.nameFor] at hnm
    split at hnm
    · rename_i hkr; obtain ⟨rfl, rfl⟩ := hkr; rw [← Option.some.inj hnm]; exact hd orpha d name q hh tail hrow
    · cases hnm

/-! permutations of stanzas and rows are permutations of the facts -/

theorem itemsTerms_perm {i1 i2 : List Item} (h : i1.Perm i2) : (itemsTerms i1).Perm (itemsTerms i2) := by
  induction h with
  | nil => exact List.Perm.refl _
  | cons x _ ih => cases x <;> simp only [itemsTerms] <;> first | exact ih.cons _ | exact ih
  | swap x y l =>
    cases x <;> cases y <;> simp only [itemsTerms] <;>
      first | exact List.Perm.swap _ _ _ | exact List.Perm.refl _
  | trans _ _ ih1 ih2 => exact ih1.trans ih2

theorem edgesOf_perm {r1 r2 : List (Nat × List Nat)} (h : r1.Perm r2) : (edgesOf r1).Perm (edgesOf r2) := by
  induction h with
  | nil => exact List.Perm.refl _
  | cons x _ ih => simp only [edgesOf]; exact ih.append_left _
  | swap x y l =>
    simp only [edgesOf, ← List.append_assoc]
    exact List.perm_append_comm.append_right _
  | trans _ _ ih1 ih2 => exact ih1.trans ih2

theorem stanzaFacts_perm {t1 t2 : List (Term × List Nat)} (h : t1.Perm t2) :
    (stanzaFacts t1).Perm (stanzaFacts t2) := h.map _

theorem stanzaEdges_perm {t1 t2 : List (Term × List Nat)} (h : t1.Perm t2) :
    (stanzaEdges t1).Perm (stanzaEdges t2) := edgesOf_perm (h.map _)

theorem fileOps_perm {g1 g2 : List GRow} {d1 d2 : List DRow} (hg : g1.Perm g2) (hd : d1.Perm d2) :
    (fileOps g1 d1).Perm (fileOps g2 d2) :=
  (hg.map _).append (hd.filterMap _)

theorem WFfacts.perm {t1 t2 : List (Term × List Nat)} {g1 g2 : List GRow} {d1 d2 : List DRow}
    (W : WFfacts t1 g1 d1) (ht : t1.Perm t2) (hg : g1.Perm g2) (hd : d1.Perm d2) : WFfacts t2 g2 d2 := by
  have hst : ∀ j, IsStanza t1 j → IsStanza t2 j := by
    rintro j ⟨s, hs, hj⟩; exact ⟨s, ht.mem_iff.1 hs, hj⟩
  refine ⟨fun s hs => W.small s (ht.mem_iff.2 hs), ?_, ?_, fun r hr => hst _ (W.geneTerms r (hg.mem_iff.2 hr)),
    fun orpha d name q h tail hr => hst _ (W.diseaseTerms orpha d name q h tail (hd.mem_iff.2 hr)), ?_,
    hst _ W.root, hst _ W.phenotype⟩
  · intro s hs p hp
    obtain ⟨s', hs', e⟩ := W.isa s (ht.mem_iff.2 hs) p hp
    exact ⟨s', ht.mem_iff.1 hs', e⟩
  · obtain ⟨rank, hr⟩ := W.acyclic
    exact ⟨rank, fun s hs => hr s (ht.mem_iff.2 hs)⟩
  · intro k ids hnd hall
    apply W.fit k ids hnd
    intro i hi
    obtain ⟨op, hop, he⟩ := hall i hi
    exact ⟨op, (fileOps_perm hg hd).mem_iff.2 hop, he⟩

theorem Res.bind_assoc {α β γ : Type} (r : Res α) (f : α → Res β) (g : β → Res γ) :
    (r.bind f).bind g = r.bind fun a => (f a).bind g := by
  cases r <;> rfl

/-- the program `buildFromFacts` with the row loops written as one call history -/
theorem buildFromFacts_eq (terms : List (Term × List Nat)) (v : Nat × Nat × Nat) (grows : List GRow)
    (drows : List DRow) :
    buildFromFacts terms v grows drows =
      match oboBuild { terms := terms, version := v } with
      | none => .panic
      | some o1 =>
        o1.connectAll.bind fun o2 =>
          (annotateSeq (fileOps grows drows) o2).bind fun o4 =>
            o4.calcIc.bind fun o5 => o5.buildWithDefaults := by
  unfold buildFromFacts
  cases oboBuild { terms := terms, version := v } with
  | none => rfl
  | some o1 =>
    simp only
    congr 1; funext o2
    rw [fileOps, annotateSeq_append, Res.bind_assoc, annotateGenes_eq]
    congr 1; funext o3
    rw [annotateDiseases_eq]

/-- **The load is a builder run.** On well-formed facts `buildFromFacts` succeeds and returns the
ontology `d` of the checked-API builder program over the same facts in file order (`BuilderRun`:
`runB` with `add_parent`, `connect_all_terms`, `runA`, `calcIc`, `build_with_defaults`) with the
release version of the header. -/
theorem buildFromFacts_ok (terms : List (Term × List Nat)) (v : Nat × Nat × Nat) (grows : List GRow)
    (drows : List DRow) (hb : BareTerms terms) (W : WFfacts terms grows drows) :
    ∃ a oc r d, BuilderRun (stanzaFacts terms) (stanzaEdges terms) (fileOps grows drows) a oc r d ∧
      buildFromFacts terms v grows drows = .ok (setV v d) := by
  obtain ⟨a, oc, r, d, R⟩ := builderRun_exists (stanzaFacts terms) (stanzaEdges terms) (fileOps grows drows)
    (by intro f hf; obtain ⟨s, hs, rfl⟩ := List.mem_map.1 hf; exact W.small s hs)
    (acyclicEdges_of_facts terms W.acyclic) W.fit
    ((mem_stanzaFacts terms 1).2 W.root) ((mem_stanzaFacts terms _).2 W.phenotype)
  refine ⟨a, oc, r, d, R, ?_⟩
  obtain ⟨hinv, ⟨rank, hcl, hf⟩, _, _⟩ := connected_annInv _ a oc R.run R.acyclic R.connect
  have hknown : ∀ op ∈ fileOps grows drows, op.Known (present oc) := by
    intro op hop
    have h := W.known op hop
    cases op with
    | addRec k n i => trivial
    | annotate k rid n t =>
      show (getT oc.terms t).isSome
      rw [R.toTermRun.present t, mem_stanzaFacts]
      exact h
  have hseq := annotateSeq_ok _ _ rank hcl (fileOps grows drows) hknown oc hinv hf
  have hrun : runB (oboOps terms) {} = some a := R.run
  rw [buildFromFacts_eq, oboBuild_eq_runB terms v hb W.isa, hrun]
  simp only [Option.map_some, connectAll_setV, R.connect, mapR_ok, Res.bind, annotateSeq_setV, hseq,
    calcIc_setV, R.ic, buildWithDefaults_setV, R.build]

/-- the two row loops on the connected ontology of a term-level run, when every annotated term is a
term fact: no call fails and the result is the call history `runA` -/
theorem rows_eq_runA {fs : List TermFact} {es : List EdgeFact} {a oc : Onto} (T : TermRun fs es a oc)
    (grows : List GRow) (drows : List DRow)
    (hknown : ∀ op ∈ fileOps grows drows, op.Known (fun j => ∃ f ∈ fs, f.id = j)) :
    (annotateGenes grows oc).bind (annotateDiseases drows) = .ok (runA (fileOps grows drows) oc) := by
  obtain ⟨hinv, ⟨rank, hcl, hf⟩, _, _⟩ := connected_annInv _ a oc T.run T.acyclic T.connect
  have hk : ∀ op ∈ fileOps grows drows, op.Known (present oc) := by
    intro op hop
    have h := hknown op hop
    cases op with
    | addRec k n i => trivial
    | annotate k rid n t => exact (T.present t).2 h
  have hseq := annotateSeq_ok _ _ rank hcl (fileOps grows drows) hk oc hinv hf
  rw [← hseq, fileOps, annotateSeq_append, ← annotateGenes_eq]
  congr 1; funext o3; exact annotateDiseases_eq drows o3

/-- **Failure case.** When a gene row or an OMIM / ORPHA row that is not `NOT` names a term that is
not a stanza of the obo file (everything else being well formed up to that point), the load fails
with `DoesNotExist`. -/
theorem buildFromFacts_unknown_term (terms : List (Term × List Nat)) (v : Nat × Nat × Nat)
    (grows : List GRow) (drows : List DRow) (hb : BareTerms terms)
    (hsmall : ∀ s ∈ terms, s.1.id < maxId) (hisa : IsaClosed terms) (hac : AcyclicFacts terms)
    (hbad : ∃ op ∈ fileOps grows drows, ¬ op.Known (IsStanza terms)) :
    buildFromFacts terms v grows drows = .err .doesNotExist := by
  obtain ⟨a, oc, T⟩ := termRun_exists (stanzaFacts terms) (stanzaEdges terms)
    (by intro f hf; obtain ⟨s, hs, rfl⟩ := List.mem_map.1 hf; exact hsmall s hs)
    (acyclicEdges_of_facts terms hac)
  obtain ⟨hinv, ⟨rank, hcl, hf⟩, _, _⟩ := connected_annInv _ a oc T.run T.acyclic T.connect
  have hbad' : ∃ op ∈ fileOps grows drows, ¬ op.Known (present oc) := by
    obtain ⟨op, hop, hn⟩ := hbad
    refine ⟨op, hop, ?_⟩
    cases op with
    | addRec k n i => exact absurd trivial hn
    | annotate k rid n t =>
      intro h
      apply hn
      have h' : (getT oc.terms t).isSome := h
      rw [T.present t, mem_stanzaFacts] at h'
      exact h'
  have hseq := annotateSeq_fail _ _ rank hcl (fileOps grows drows) hbad' oc hinv hf
  have hrun : runB (oboOps terms) {} = some a := T.run
  rw [buildFromFacts_eq, oboBuild_eq_runB terms v hb hisa, hrun]
  simp only [Option.map_some, connectAll_setV, T.connect, mapR_ok, Res.bind, annotateSeq_setV, hseq,
    mapR_err]

/-! ### a rendering of the three files -/

/-- One way of writing down the three files: header lines around the `data-version` line, the release
date digits, the blocks of hp.obo after the header (`[Term]` stanzas with their extra tags and `is_a`
labels, other stanzas) in file order, the header line and the rows of the gene file, the lines of
phenotype.hpoa, and how each file ends. -/
structure Rendering where
  pre : List (List Char)
  post : List (List Char)
  y1 : Nat
  y2 : Nat
  y3 : Nat
  y4 : Nat
  m1 : Nat
  m2 : Nat
  d1 : Nat
  d2 : Nat
  items : List Item
  oboEnd : List Char
  hdr : List Char
  grows : List GRow
  geneEnd : List Char
  drows : List DRow
  hpoaEnd : List Char

namespace Rendering

/-- the release version the header states -/
def version (R : Rendering) : Nat × Nat × Nat :=
  (1000 * R.y1 + 100 * R.y2 + 10 * R.y3 + R.y4, 10 * R.m1 + R.m2, 10 * R.d1 + R.d2)

/-- content of hp.obo -/
def obo (R : Rendering) : List Char :=
  joinStr blankLine
    (joinWith '\n' (headerLines R.pre R.post R.y1 R.y2 R.y3 R.y4 R.m1 R.m2 R.d1 R.d2) :: R.items.map Item.render)
    ++ R.oboEnd

/-- content of genes_to_phenotype.txt (`tr = false`) / phenotype_to_genes.txt (`tr = true`) -/
def gene (R : Rendering) (tr : Bool) : List Char :=
  R.hdr ++ '\n' :: (joinWith '\n' (R.grows.map (GRow.render tr)) ++ R.geneEnd)

/-- content of phenotype.hpoa -/
def hpoa (R : Rendering) : List Char := joinWith '\n' (R.drows.map DRow.render) ++ R.hpoaEnd

/-- the `[Term]` stanzas of the file as the loader reads them, in file order -/
def terms (R : Rendering) : List (Term × List Nat) := itemsTerms R.items

/-- the lexical side conditions of `C09_file_in_order`: digits are digits, free text contains no
separator of its format, ids fit `u32`, the files end in one of the ways the generator emits -/
structure Ok (R : Rendering) : Prop where
  y1 : R.y1 < 10
  y2 : R.y2 < 10
  y3 : R.y3 < 10
  y4 : R.y4 < 10
  m1 : R.m1 < 10
  m2 : R.m2 < 10
  d1 : R.d1 < 10
  d2 : R.d2 < 10
  pre : ∀ l ∈ R.pre, stripPrefix versionPrefix l = none
  header : ∀ l ∈ R.pre ++ R.post, LineOk l
  items : ∀ i ∈ R.items, i.Ok
  oboEnd : R.oboEnd = [] ∨ R.oboEnd = ['\n'] ∨ R.oboEnd = blankLine
  hdrLine : '\n' ∉ R.hdr
  hdr : startsWith ['#'] R.hdr = true ∨ startsWith hdrNcbi R.hdr = true ∨ startsWith hdrHpo R.hdr = true
  grows : ∀ r ∈ R.grows, r.Ok
  geneEnd : RowsEnd R.grows R.geneEnd
  drows : ∀ r ∈ R.drows, r.Ok
  hpoaEnd : RowsEnd R.drows R.hpoaEnd

end Rendering

/-- `loadJax_render` for a `Rendering` -/
theorem loadJax_rendering (tr : Bool) (R : Rendering) (h : R.Ok) :
    loadJax tr R.obo (R.gene tr) R.hpoa = buildFromFacts R.terms R.version R.grows R.drows :=
  loadJax_render tr R.pre R.post R.y1 R.y2 R.y3 R.y4 R.m1 R.m2 R.d1 R.d2 h.y1 h.y2 h.y3 h.y4 h.m1 h.m2 h.d1
    h.d2 h.pre h.header R.items h.items R.oboEnd h.oboEnd R.hdr R.grows R.geneEnd h.hdrLine h.hdr h.grows
    h.geneEnd R.drows R.hpoaEnd h.drows h.hpoaEnd

end Text
end Hpo
