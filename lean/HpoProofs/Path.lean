import HpoModel.Path
import HpoProofs.Group
/-!
Specification side and helper lemmas for C11 (distances and paths) -- core Lean only.

* `Chain par t a n`   a chain of `n` parent links from `t` up to `a`
* `Shortest par t a d` `d` is the least chain length
* `ChainPath par t p a` the id list `p` is such a chain, link by link (excluding `t`, ending in `a`)
* `Walk par x p`       consecutive ids of `x :: p` are linked by a parent or a child link
* `PathWF o rank`      well-formedness of an ontology as far as the path functions need it
-/
namespace Hpo

/-- the parent function of an ontology (`parent_ids` of the term with that id; `[]` for an absent id) -/
def Onto.par (o : Onto) (i : Nat) : List Nat :=
  match o.get i with
  | some t => t.parents
  | none => []

/-- a chain of `n` parent links from `t` up to `a` -/
inductive Chain (par : Nat → List Nat) : Nat → Nat → Nat → Prop
  | refl (t : Nat) : Chain par t t 0
  | step {t p a n : Nat} : p ∈ par t → Chain par p a n → Chain par t a (n + 1)

/-- `d` is the length of a shortest chain of parent links from `t` up to `a` -/
def Shortest (par : Nat → List Nat) (t a d : Nat) : Prop :=
  Chain par t a d ∧ ∀ n, Chain par t a n → d ≤ n

/-- `a` is `t` or an ancestor of `t` -/
def Reach (par : Nat → List Nat) (t a : Nat) : Prop := ∃ n, Chain par t a n

/-- the list `p` is a chain of parent links starting after `t` and ending in `a`, link by link -/
def ChainPath (par : Nat → List Nat) : Nat → List Nat → Nat → Prop
  | t, [], a => t = a
  | t, x :: xs, a => x ∈ par t ∧ ChainPath par x xs a

/-- parent or child link -/
def Linked (par : Nat → List Nat) (x y : Nat) : Prop := y ∈ par x ∨ x ∈ par y

/-- consecutive ids of `x :: p` are linked by a parent or a child link -/
def Walk (par : Nat → List Nat) : Nat → List Nat → Prop
  | _, [] => True
  | x, y :: ys => Linked par x y ∧ Walk par y ys

/-- `ids descend`: consecutive ids of `x :: p` go from parent to child -/
def Down (par : Nat → List Nat) : Nat → List Nat → Prop
  | _, [] => True
  | x, y :: ys => x ∈ par y ∧ Down par y ys

/-- What the path functions need from an ontology:
all parent ids resolve, `all_parents` is the transitive closure of `parents` (the conclusion of
C01), and the parent relation is acyclic, given as a rank function that bounds the fuel. -/
structure PathWF (o : Onto) (rank : Nat → Nat) : Prop where
  resolve : ∀ i t, o.get i = some t → ∀ p ∈ t.parents, ∃ tp, o.get p = some tp
  closed : ∀ i t, o.get i = some t → ∀ a, a ∈ t.allParents ↔ ∃ n, Chain o.par i a (n + 1)
  rank_lt : ∀ i t, o.get i = some t → ∀ p ∈ t.parents, rank p < rank i
  rank_fuel : ∀ i t, o.get i = some t → rank i < o.fuel

/-! ### basic facts -/

theorem getT_id_p {ts : List Term} {i : Nat} {t : Term} (h : getT ts i = some t) : t.id = i := by
  induction ts with
  | nil => simp [getT] at h
  | cons x xs ih =>
    simp only [getT] at h
    split at h
    · cases h; assumption
    · exact ih h

theorem getT_mem_p {ts : List Term} {i : Nat} {t : Term} (h : getT ts i = some t) : t ∈ ts := by
  induction ts with
  | nil => simp [getT] at h
  | cons x xs ih =>
    simp only [getT] at h
    split at h
    · cases h; simp
    · exact List.mem_cons_of_mem _ (ih h)

theorem Onto.get_id_p {o : Onto} {i : Nat} {t : Term} (h : o.get i = some t) : t.id = i := by
  unfold Onto.get arenaGet at h
  split at h
  · cases h
  · exact getT_id_p h

theorem Onto.get_mem_p {o : Onto} {i : Nat} {t : Term} (h : o.get i = some t) : t ∈ o.terms := by
  unfold Onto.get arenaGet at h
  split at h
  · cases h
  · exact getT_mem_p h

theorem Onto.par_eq {o : Onto} {i : Nat} {t : Term} (h : o.get i = some t) : o.par i = t.parents := by
  simp [Onto.par, h]

theorem Chain.zero_iff {par : Nat → List Nat} {t a : Nat} : Chain par t a 0 ↔ t = a := by
  constructor
  · intro h; cases h; rfl
  · intro h; subst h; exact Chain.refl _

theorem Chain.succ_iff {par : Nat → List Nat} {t a n : Nat} :
    Chain par t a (n + 1) ↔ ∃ p, p ∈ par t ∧ Chain par p a n := by
  constructor
  · intro h; cases h with | step hp hc => exact ⟨_, hp, hc⟩
  · rintro ⟨p, hp, hc⟩; exact Chain.step hp hc

theorem Chain.trans {par : Nat → List Nat} {t a b n m : Nat} (h1 : Chain par t a n) (h2 : Chain par a b m) :
    Chain par t b (n + m) := by
  induction h1 with
  | refl t => simpa using h2
  | step hp _ ih =>
    have := Chain.step hp (ih h2)
    simpa [Nat.add_right_comm] using this

theorem Shortest.unique {par : Nat → List Nat} {t a d d' : Nat} (h : Shortest par t a d) (h' : Shortest par t a d') :
    d = d' := Nat.le_antisymm (h.2 _ h'.1) (h'.2 _ h.1)

theorem Reach.shortest {par : Nat → List Nat} {t a : Nat} (h : Reach par t a) : ∃ d, Shortest par t a d := by
  obtain ⟨n, hn⟩ := h
  induction n using Nat.strongRecOn with
  | _ n ih =>
    by_cases hm : ∃ m, m < n ∧ Chain par t a m
    · obtain ⟨m, hlt, hc⟩ := hm
      exact ih m hlt hc
    · refine ⟨n, hn, fun k hk => ?_⟩
      apply Nat.le_of_not_lt
      intro hlt
      exact hm ⟨k, hlt, hk⟩

theorem ChainPath.chain {par : Nat → List Nat} : ∀ {t : Nat} {p : List Nat} {a : Nat},
    ChainPath par t p a → Chain par t a p.length
  | t, [], a, h => by simp only [ChainPath] at h; subst h; exact Chain.refl _
  | t, x :: xs, a, h => by
    simp only [ChainPath] at h
    exact Chain.step h.1 (ChainPath.chain h.2)

theorem ChainPath.getLast {par : Nat → List Nat} : ∀ {t : Nat} {p : List Nat} {a : Nat},
    ChainPath par t p a → (t :: p).getLast? = some a
  | t, [], a, h => by simp only [ChainPath] at h; simp [h]
  | t, x :: xs, a, h => by
    simp only [ChainPath] at h
    have := ChainPath.getLast h.2
    simpa [List.getLast?_cons_cons] using this

/-- in a well-formed ontology chains stay inside the ontology -/
theorem PathWF.chain_resolves {o : Onto} {rank : Nat → Nat} (wf : PathWF o rank) {t a n : Nat}
    (h : Chain o.par t a n) : (∃ tt, o.get t = some tt) → ∃ ta, o.get a = some ta := by
  induction h with
  | refl t => exact id
  | step hp _ ih =>
    rintro ⟨tt, ht⟩
    rw [Onto.par_eq ht] at hp
    exact ih (wf.resolve _ _ ht _ hp)

/-- ranks strictly decrease along a chain -/
theorem PathWF.chain_rank {o : Onto} {rank : Nat → Nat} (wf : PathWF o rank) {t a n : Nat}
    (h : Chain o.par t a n) : rank a + n ≤ rank t := by
  induction h with
  | refl t => simp
  | @step t p a n hp _ ih =>
    cases hg : o.get t with
    | none => simp [Onto.par, hg] at hp
    | some tt =>
      rw [Onto.par_eq hg] at hp
      have := wf.rank_lt _ _ hg _ hp
      omega

/-- acyclic: a chain from a term back to itself is empty -/
theorem PathWF.chain_self {o : Onto} {rank : Nat → Nat} (wf : PathWF o rank) {t n : Nat}
    (h : Chain o.par t t n) : n = 0 := by
  have := wf.chain_rank h; omega

open Onto

/-! ### `distance_to_ancestor` -/

/-- what a result of `distance_to_ancestor` must be -/
def DistSpec (par : Nat → List Nat) (t a : Nat) : Option Nat → Prop
  | some d => Shortest par t a d
  | none => ¬ Reach par t a

/-- the minimum over a list of starting points -/
def MinSpec (par : Nat → List Nat) (ps : List Nat) (a : Nat) : Option Nat → Prop
  | some d => (∃ p ∈ ps, Chain par p a d) ∧ ∀ p ∈ ps, ∀ n, Chain par p a n → d ≤ n
  | none => ∀ p ∈ ps, ¬ Reach par p a

theorem optMin_spec {par : Nat → List Nat} {p : Nat} {ps : List Nat} {a : Nat} {r m : Option Nat}
    (hr : DistSpec par p a r) (hm : MinSpec par ps a m) : MinSpec par (p :: ps) a (optMin r m) := by
  cases r with
  | none =>
    cases m with
    | none =>
      simp only [optMin, MinSpec, DistSpec] at *
      intro q hq; rcases List.mem_cons.1 hq with rfl | hq
      · exact hr
      · exact hm q hq
    | some d =>
      simp only [optMin, MinSpec, DistSpec] at *
      refine ⟨?_, ?_⟩
      · obtain ⟨q, hq, hc⟩ := hm.1; exact ⟨q, List.mem_cons_of_mem _ hq, hc⟩
      · intro q hq n hn; rcases List.mem_cons.1 hq with rfl | hq
        · exact absurd ⟨n, hn⟩ hr
        · exact hm.2 q hq n hn
  | some d =>
    cases m with
    | none =>
      simp only [optMin, MinSpec, DistSpec] at *
      refine ⟨⟨p, List.mem_cons_self, hr.1⟩, ?_⟩
      intro q hq n hn; rcases List.mem_cons.1 hq with rfl | hq
      · exact hr.2 n hn
      · exact absurd ⟨n, hn⟩ (hm q hq)
    | some e =>
      simp only [optMin, MinSpec, DistSpec] at *
      by_cases hlt : e < d
      · simp only [hlt, if_true]
        refine ⟨?_, ?_⟩
        · obtain ⟨q, hq, hc⟩ := hm.1; exact ⟨q, List.mem_cons_of_mem _ hq, hc⟩
        · intro q hq n hn; rcases List.mem_cons.1 hq with rfl | hq
          · have := hr.2 n hn; omega
          · exact hm.2 q hq n hn
      · simp only [hlt, if_false]
        refine ⟨⟨p, List.mem_cons_self, hr.1⟩, ?_⟩
        intro q hq n hn; rcases List.mem_cons.1 hq with rfl | hq
        · exact hr.2 n hn
        · have := hm.2 q hq n hn; omega

theorem distParents_spec {o : Onto} {rec : Term → Res (Option Nat)} {a : Nat} :
    ∀ (ps : List Nat),
    (∀ p ∈ ps, ∃ tp, o.get p = some tp ∧ ∃ r, rec tp = .ok r ∧ DistSpec o.par p a r) →
    ∃ m, distParents rec o ps = .ok m ∧ MinSpec o.par ps a m
  | [], _ => ⟨none, rfl, by simp [MinSpec]⟩
  | p :: ps, h => by
    obtain ⟨tp, hg, r, hr, hs⟩ := h p List.mem_cons_self
    obtain ⟨m, hm, hms⟩ := distParents_spec ps (fun q hq => h q (List.mem_cons_of_mem _ hq))
    refine ⟨optMin r m, ?_, optMin_spec hs hms⟩
    simp [distParents, hg, hr, hm]

theorem distToAnc_spec {o : Onto} {rank : Nat → Nat} (wf : PathWF o rank) (a : Nat) :
    ∀ (fuel : Nat) (i : Nat) (t : Term), o.get i = some t → rank i < fuel →
    ∃ r, distToAnc fuel o t a = .ok r ∧ DistSpec o.par i a r
  | 0, _, _, _, h => by omega
  | fuel + 1, i, t, hg, hrk => by
    have hid : t.id = i := Onto.get_id_p hg
    have hpar : o.par i = t.parents := Onto.par_eq hg
    unfold distToAnc
    by_cases h1 : t.id = a
    · refine ⟨some 0, by simp [h1], ?_⟩
      have : i = a := by omega
      subst this
      exact ⟨Chain.refl _, fun n _ => Nat.zero_le n⟩
    · have hia : i ≠ a := by omega
      simp only [h1, if_false]
      by_cases h2 : Group.contains t.parents a = true
      · refine ⟨some 1, by simp [h2], ?_⟩
        have hmem : a ∈ t.parents := (Group.contains_iff _ _).1 h2
        refine ⟨Chain.step (by rw [hpar]; exact hmem) (Chain.refl _), fun n hn => ?_⟩
        cases n with
        | zero => exact absurd (Chain.zero_iff.1 hn) hia
        | succ n => omega
      · simp only [h2]
        by_cases h3 : Group.contains t.allParents a = true
        · simp only [h3, Bool.not_true]
          have hps : ∀ p ∈ t.parents, ∃ tp, o.get p = some tp ∧ ∃ r,
              (fun tp => distToAnc fuel o tp a) tp = .ok r ∧ DistSpec o.par p a r := by
            intro p hp
            obtain ⟨tp, htp⟩ := wf.resolve _ _ hg p hp
            have hrp := wf.rank_lt _ _ hg p hp
            obtain ⟨r, hr, hs⟩ := distToAnc_spec wf a fuel p tp htp (by omega)
            exact ⟨tp, htp, r, hr, hs⟩
          obtain ⟨m, hm, hms⟩ := distParents_spec t.parents hps
          refine ⟨m.map (· + 1), by simp [hm], ?_⟩
          cases m with
          | none =>
            simp only [Option.map, DistSpec, MinSpec] at *
            rintro ⟨n, hn⟩
            cases n with
            | zero => exact hia (Chain.zero_iff.1 hn)
            | succ n =>
              obtain ⟨p, hp, hc⟩ := Chain.succ_iff.1 hn
              rw [hpar] at hp
              exact hms p hp ⟨n, hc⟩
          | some d =>
            simp only [Option.map, DistSpec, MinSpec] at *
            obtain ⟨⟨p, hp, hc⟩, hmin⟩ := hms
            refine ⟨Chain.step (by rw [hpar]; exact hp) hc, fun n hn => ?_⟩
            cases n with
            | zero => exact absurd (Chain.zero_iff.1 hn) hia
            | succ n =>
              obtain ⟨q, hq, hc'⟩ := Chain.succ_iff.1 hn
              rw [hpar] at hq
              have := hmin q hq n hc'
              omega
        · refine ⟨none, by simp [h3], ?_⟩
          simp only [DistSpec]
          rintro ⟨n, hn⟩
          cases n with
          | zero => exact hia (Chain.zero_iff.1 hn)
          | succ n =>
            have : a ∈ t.allParents := (wf.closed _ _ hg a).2 ⟨n, hn⟩
            exact h3 ((Group.contains_iff _ _).2 this)

/-! ### `path_to_ancestor` -/

/-- what a result of `path_to_ancestor` must be -/
def PathSpec (par : Nat → List Nat) (t a : Nat) : Option (List Nat) → Prop
  | some p => ChainPath par t p a ∧ ∀ n, Chain par t a n → p.length ≤ n
  | none => ¬ Reach par t a

def PMinSpec (par : Nat → List Nat) (ps : List Nat) (a : Nat) : Option (List Nat) → Prop
  | some q => (∃ p xs, q = p :: xs ∧ p ∈ ps ∧ ChainPath par p xs a) ∧
      ∀ p ∈ ps, ∀ n, Chain par p a n → q.length ≤ n + 1
  | none => ∀ p ∈ ps, ¬ Reach par p a

theorem firstShorter_spec {par : Nat → List Nat} {p : Nat} {ps : List Nat} {a : Nat}
    {r m : Option (List Nat)}
    (hr : PathSpec par p a r) (hm : PMinSpec par ps a m) :
    PMinSpec par (p :: ps) a (firstShorter (r.map (p :: ·)) m) := by
  cases r with
  | none =>
    cases m with
    | none =>
      simp only [Option.map, firstShorter, PMinSpec, PathSpec] at *
      intro q hq; rcases List.mem_cons.1 hq with rfl | hq
      · exact hr
      · exact hm q hq
    | some d =>
      simp only [Option.map, firstShorter, PMinSpec, PathSpec] at *
      refine ⟨?_, ?_⟩
      · obtain ⟨q, xs, he, hq, hc⟩ := hm.1; exact ⟨q, xs, he, List.mem_cons_of_mem _ hq, hc⟩
      · intro q hq n hn; rcases List.mem_cons.1 hq with rfl | hq
        · exact absurd ⟨n, hn⟩ hr
        · exact hm.2 q hq n hn
  | some x =>
    cases m with
    | none =>
      simp only [Option.map, firstShorter, PMinSpec, PathSpec] at *
      refine ⟨⟨p, x, rfl, List.mem_cons_self, hr.1⟩, ?_⟩
      intro q hq n hn; rcases List.mem_cons.1 hq with rfl | hq
      · have := hr.2 n hn; simp only [List.length_cons]; omega
      · exact absurd ⟨n, hn⟩ (hm q hq)
    | some e =>
      simp only [Option.map, firstShorter, PMinSpec, PathSpec] at *
      by_cases hlt : e.length < (p :: x).length
      · simp only [hlt, if_true]
        refine ⟨?_, ?_⟩
        · obtain ⟨q, xs, he, hq, hc⟩ := hm.1; exact ⟨q, xs, he, List.mem_cons_of_mem _ hq, hc⟩
        · intro q hq n hn; rcases List.mem_cons.1 hq with rfl | hq
          · have := hr.2 n hn; simp only [List.length_cons] at hlt; omega
          · exact hm.2 q hq n hn
      · simp only [hlt, if_false]
        refine ⟨⟨p, x, rfl, List.mem_cons_self, hr.1⟩, ?_⟩
        intro q hq n hn; rcases List.mem_cons.1 hq with rfl | hq
        · have := hr.2 n hn; simp only [List.length_cons]; omega
        · have := hm.2 q hq n hn; omega

theorem pathParents_spec {o : Onto} {rec : Term → Res (Option (List Nat))} {a : Nat} :
    ∀ (ps : List Nat),
    (∀ p ∈ ps, ∃ tp, o.get p = some tp ∧ ∃ r, rec tp = .ok r ∧ PathSpec o.par p a r) →
    ∃ m, pathParents rec o ps = .ok m ∧ PMinSpec o.par ps a m
  | [], _ => ⟨none, rfl, by simp [PMinSpec]⟩
  | p :: ps, h => by
    obtain ⟨tp, hg, r, hr, hs⟩ := h p List.mem_cons_self
    obtain ⟨m, hm, hms⟩ := pathParents_spec ps (fun q hq => h q (List.mem_cons_of_mem _ hq))
    refine ⟨firstShorter (r.map (p :: ·)) m, ?_, firstShorter_spec hs hms⟩
    simp [pathParents, hg, hr, hm]

theorem pathToAnc_spec {o : Onto} {rank : Nat → Nat} (wf : PathWF o rank) (a : Nat) :
    ∀ (fuel : Nat) (i : Nat) (t : Term), o.get i = some t → rank i < fuel →
    ∃ r, pathToAnc fuel o t a = .ok r ∧ PathSpec o.par i a r
  | 0, _, _, _, h => by omega
  | fuel + 1, i, t, hg, hrk => by
    have hid : t.id = i := Onto.get_id_p hg
    have hpar : o.par i = t.parents := Onto.par_eq hg
    unfold pathToAnc
    by_cases h1 : t.id = a
    · refine ⟨some [], by simp [h1], ?_⟩
      have : i = a := by omega
      subst this
      exact ⟨rfl, fun n _ => Nat.zero_le n⟩
    · have hia : i ≠ a := by omega
      simp only [h1, if_false]
      by_cases h2 : Group.contains t.parents a = true
      · refine ⟨some [a], by simp [h2], ?_⟩
        have hmem : a ∈ t.parents := (Group.contains_iff _ _).1 h2
        refine ⟨⟨by rw [hpar]; exact hmem, rfl⟩, fun n hn => ?_⟩
        cases n with
        | zero => exact absurd (Chain.zero_iff.1 hn) hia
        | succ n => simp
      · simp only [h2]
        by_cases h3 : Group.contains t.allParents a = true
        · simp only [h3, Bool.not_true]
          have hps : ∀ p ∈ t.parents, ∃ tp, o.get p = some tp ∧ ∃ r,
              (fun tp => pathToAnc fuel o tp a) tp = .ok r ∧ PathSpec o.par p a r := by
            intro p hp
            obtain ⟨tp, htp⟩ := wf.resolve _ _ hg p hp
            have hrp := wf.rank_lt _ _ hg p hp
            obtain ⟨r, hr, hs⟩ := pathToAnc_spec wf a fuel p tp htp (by omega)
            exact ⟨tp, htp, r, hr, hs⟩
          obtain ⟨m, hm, hms⟩ := pathParents_spec t.parents hps
          refine ⟨m, by simp [hm], ?_⟩
          cases m with
          | none =>
            simp only [PathSpec, PMinSpec] at *
            rintro ⟨n, hn⟩
            cases n with
            | zero => exact hia (Chain.zero_iff.1 hn)
            | succ n =>
              obtain ⟨p, hp, hc⟩ := Chain.succ_iff.1 hn
              rw [hpar] at hp
              exact hms p hp ⟨n, hc⟩
          | some d =>
            simp only [PathSpec, PMinSpec] at *
            obtain ⟨⟨p, xs, he, hp, hc⟩, hmin⟩ := hms
            subst he
            refine ⟨⟨by rw [hpar]; exact hp, hc⟩, fun n hn => ?_⟩
            cases n with
            | zero => exact absurd (Chain.zero_iff.1 hn) hia
            | succ n =>
              obtain ⟨q, hq, hc'⟩ := Chain.succ_iff.1 hn
              rw [hpar] at hq
              exact hmin q hq n hc'
        · refine ⟨none, by simp [h3], ?_⟩
          simp only [PathSpec]
          rintro ⟨n, hn⟩
          cases n with
          | zero => exact hia (Chain.zero_iff.1 hn)
          | succ n =>
            have : a ∈ t.allParents := (wf.closed _ _ hg a).2 ⟨n, hn⟩
            exact h3 ((Group.contains_iff _ _).2 this)

/-! ### `distance_to_term` -/

/-- what a result of `distance_to_term` must be: the minimum over the common ancestors (the terms
included) of the sum of the two shortest upward distances; absent iff there is no common ancestor -/
def TermSpec (par : Nat → List Nat) (x y : Nat) : Option Nat → Prop
  | some d => (∃ c dx dy, Shortest par x c dx ∧ Shortest par y c dy ∧ d = dx + dy) ∧
      ∀ c dx dy, Shortest par x c dx → Shortest par y c dy → d ≤ dx + dy
  | none => ¬ ∃ c, Reach par x c ∧ Reach par y c

def TMinSpec (par : Nat → List Nat) (x y : Nat) (cs : List Nat) : Option Nat → Prop
  | some d => (∃ c ∈ cs, ∃ dx dy, Shortest par x c dx ∧ Shortest par y c dy ∧ d = dx + dy) ∧
      ∀ c ∈ cs, ∀ dx dy, Shortest par x c dx → Shortest par y c dy → d ≤ dx + dy
  | none => ∀ c ∈ cs, ¬ (Reach par x c ∧ Reach par y c)

theorem TMinSpec.skip {par : Nat → List Nat} {x y c : Nat} {cs : List Nat} {m : Option Nat}
    (hc : ¬ (Reach par x c ∧ Reach par y c)) (hm : TMinSpec par x y cs m) : TMinSpec par x y (c :: cs) m := by
  cases m with
  | none =>
    simp only [TMinSpec] at *
    intro q hq; rcases List.mem_cons.1 hq with rfl | hq
    · exact hc
    · exact hm q hq
  | some d =>
    simp only [TMinSpec] at *
    refine ⟨?_, ?_⟩
    · obtain ⟨q, hq, h⟩ := hm.1; exact ⟨q, List.mem_cons_of_mem _ hq, h⟩
    · intro q hq dx dy hx hy; rcases List.mem_cons.1 hq with rfl | hq
      · exact absurd ⟨⟨dx, hx.1⟩, ⟨dy, hy.1⟩⟩ hc
      · exact hm.2 q hq dx dy hx hy

theorem TMinSpec.take {par : Nat → List Nat} {x y c : Nat} {cs : List Nat} {m : Option Nat} {dx dy : Nat}
    (hx : Shortest par x c dx) (hy : Shortest par y c dy) (hm : TMinSpec par x y cs m) :
    TMinSpec par x y (c :: cs) (optMin (some (dx + dy)) m) := by
  cases m with
  | none =>
    simp only [optMin, TMinSpec] at *
    refine ⟨⟨c, List.mem_cons_self, dx, dy, hx, hy, rfl⟩, ?_⟩
    intro q hq ex ey hex hey; rcases List.mem_cons.1 hq with rfl | hq
    · rw [hx.unique hex, hy.unique hey]; exact Nat.le_refl _
    · exact absurd ⟨⟨ex, hex.1⟩, ⟨ey, hey.1⟩⟩ (hm q hq)
  | some e =>
    simp only [optMin, TMinSpec] at *
    by_cases hlt : e < dx + dy
    · simp only [hlt, if_true]
      refine ⟨?_, ?_⟩
      · obtain ⟨q, hq, h⟩ := hm.1; exact ⟨q, List.mem_cons_of_mem _ hq, h⟩
      · intro q hq ex ey hex hey; rcases List.mem_cons.1 hq with rfl | hq
        · rw [← hx.unique hex, ← hy.unique hey]; omega
        · exact hm.2 q hq ex ey hex hey
    · simp only [hlt, if_false]
      refine ⟨⟨c, List.mem_cons_self, dx, dy, hx, hy, rfl⟩, ?_⟩
      intro q hq ex ey hex hey; rcases List.mem_cons.1 hq with rfl | hq
      · rw [hx.unique hex, hy.unique hey]; exact Nat.le_refl _
      · have := hm.2 q hq ex ey hex hey; omega

theorem termDists_spec {o : Onto} {rank : Nat → Nat} (wf : PathWF o rank) {i j : Nat} {a b : Term}
    (ha : o.get i = some a) (hb : o.get j = some b) :
    ∀ (cs : List Nat), (∀ c ∈ cs, ∃ tc, o.get c = some tc) →
    ∃ m, termDists o a b cs = .ok m ∧ TMinSpec o.par i j cs m
  | [], _ => ⟨none, rfl, by simp [TMinSpec]⟩
  | c :: cs, h => by
    obtain ⟨tc, hc⟩ := h c List.mem_cons_self
    obtain ⟨m, hm, hms⟩ := termDists_spec wf ha hb cs (fun q hq => h q (List.mem_cons_of_mem _ hq))
    obtain ⟨ra, hra, hsa⟩ := distToAnc_spec wf c o.fuel i a ha (wf.rank_fuel _ _ ha)
    obtain ⟨rb, hrb, hsb⟩ := distToAnc_spec wf c o.fuel j b hb (wf.rank_fuel _ _ hb)
    cases ra with
    | none =>
      refine ⟨m, by simp [termDists, hc, hra, hm], TMinSpec.skip ?_ hms⟩
      exact fun h => hsa h.1
    | some dx =>
      cases rb with
      | none =>
        refine ⟨m, by simp [termDists, hc, hra, hrb, hm], TMinSpec.skip ?_ hms⟩
        exact fun h => hsb h.2
      | some dy =>
        exact ⟨optMin (some (dx + dy)) m, by simp [termDists, hc, hra, hrb, hm], TMinSpec.take hsa hsb hms⟩

/-- reachable = the term itself or a member of its ancestor closure -/
theorem PathWF.reach_iff {o : Onto} {rank : Nat → Nat} (wf : PathWF o rank) {i : Nat} {t : Term}
    (h : o.get i = some t) (c : Nat) : Reach o.par i c ↔ c = i ∨ c ∈ t.allParents := by
  constructor
  · rintro ⟨n, hn⟩
    cases n with
    | zero => exact Or.inl (Chain.zero_iff.1 hn).symm
    | succ n => exact Or.inr ((wf.closed _ _ h c).2 ⟨n, hn⟩)
  · rintro (rfl | hc)
    · exact ⟨0, Chain.refl _⟩
    · obtain ⟨n, hn⟩ := (wf.closed _ _ h c).1 hc
      exact ⟨n + 1, hn⟩

theorem PathWF.mem_common {o : Onto} {rank : Nat → Nat} (wf : PathWF o rank) {i j : Nat} {a b : Term}
    (ha : o.get i = some a) (hb : o.get j = some b) (c : Nat) :
    c ∈ a.allCommonAncestorIds b ↔ Reach o.par i c ∧ Reach o.par j c := by
  rw [wf.reach_iff ha, wf.reach_iff hb]
  simp only [Term.allCommonAncestorIds, Term.allInclusive, Group.mem_bitand, Group.mem_addId,
    Onto.get_id_p ha, Onto.get_id_p hb]

theorem distToTerm_spec {o : Onto} {rank : Nat → Nat} (wf : PathWF o rank) {i j : Nat} {a b : Term}
    (ha : o.get i = some a) (hb : o.get j = some b) :
    ∃ r, o.distToTerm a b = .ok r ∧ TermSpec o.par i j r := by
  have hres : ∀ c ∈ a.allCommonAncestorIds b, ∃ tc, o.get c = some tc := by
    intro c hc
    obtain ⟨⟨n, hn⟩, _⟩ := (wf.mem_common ha hb c).1 hc
    exact wf.chain_resolves hn ⟨a, ha⟩
  obtain ⟨m, hm, hms⟩ := termDists_spec wf ha hb _ hres
  refine ⟨m, hm, ?_⟩
  cases m with
  | none =>
    simp only [TermSpec, TMinSpec] at *
    rintro ⟨c, hx, hy⟩
    exact hms c ((wf.mem_common ha hb c).2 ⟨hx, hy⟩) ⟨hx, hy⟩
  | some d =>
    simp only [TermSpec, TMinSpec] at *
    refine ⟨?_, ?_⟩
    · obtain ⟨c, _, h⟩ := hms.1; exact ⟨c, h⟩
    · intro c dx dy hx hy
      exact hms.2 c ((wf.mem_common ha hb c).2 ⟨⟨dx, hx.1⟩, ⟨dy, hy.1⟩⟩) dx dy hx hy

theorem TermSpec.unique {par : Nat → List Nat} {x y : Nat} {r r' : Option Nat}
    (h : TermSpec par x y r) (h' : TermSpec par x y r') : r = r' := by
  cases r with
  | none =>
    cases r' with
    | none => rfl
    | some d =>
      simp only [TermSpec] at *
      obtain ⟨c, dx, dy, hx, hy, _⟩ := h'.1
      exact absurd ⟨c, ⟨dx, hx.1⟩, ⟨dy, hy.1⟩⟩ h
  | some d =>
    cases r' with
    | none =>
      simp only [TermSpec] at *
      obtain ⟨c, dx, dy, hx, hy, _⟩ := h.1
      exact absurd ⟨c, ⟨dx, hx.1⟩, ⟨dy, hy.1⟩⟩ h'
    | some e =>
      simp only [TermSpec] at *
      obtain ⟨c, dx, dy, hx, hy, he⟩ := h.1
      obtain ⟨c', dx', dy', hx', hy', he'⟩ := h'.1
      have h1 := h.2 c' dx' dy' hx' hy'
      have h2 := h'.2 c dx dy hx hy
      congr 1; omega

theorem TermSpec.symm {par : Nat → List Nat} {x y : Nat} {r : Option Nat}
    (h : TermSpec par x y r) : TermSpec par y x r := by
  cases r with
  | none =>
    simp only [TermSpec] at *
    rintro ⟨c, hy, hx⟩; exact h ⟨c, hx, hy⟩
  | some d =>
    simp only [TermSpec] at *
    refine ⟨?_, ?_⟩
    · obtain ⟨c, dx, dy, hx, hy, he⟩ := h.1
      exact ⟨c, dy, dx, hy, hx, by omega⟩
    · intro c dy dx hy hx
      have := h.2 c dx dy hx hy; omega

/-! ### `path_to_term` -/

/-! walks -/

theorem getLast?_cons_snoc (c x : Nat) (L : List Nat) : (c :: (L ++ [x])).getLast? = some x := by
  have : c :: (L ++ [x]) = (c :: L) ++ [x] := rfl
  rw [this, List.getLast?_concat]

theorem Walk.append {par : Nat → List Nat} : ∀ {p : List Nat} {x z : Nat} {q : List Nat},
    Walk par x p → (x :: p).getLast? = some z → Walk par z q → Walk par x (p ++ q)
  | [], x, z, q, _, hl, hq => by
    simp at hl; subst hl; simpa using hq
  | y :: ys, x, z, q, hp, hl, hq => by
    simp only [Walk] at hp
    simp only [List.cons_append, Walk]
    refine ⟨hp.1, Walk.append hp.2 ?_ hq⟩
    simpa [List.getLast?_cons_cons] using hl

theorem ChainPath.walk {par : Nat → List Nat} : ∀ {t : Nat} {p : List Nat} {a : Nat},
    ChainPath par t p a → Walk par t p
  | _, [], _, _ => trivial
  | t, x :: xs, a, h => by
    simp only [ChainPath] at h
    exact ⟨Or.inl h.1, ChainPath.walk h.2⟩

theorem Down.walk {par : Nat → List Nat} : ∀ {x : Nat} {p : List Nat}, Down par x p → Walk par x p
  | _, [], _ => trivial
  | x, y :: ys, h => by
    simp only [Down] at h
    exact ⟨Or.inr h.1, Down.walk h.2⟩

theorem Down.snoc {par : Nat → List Nat} : ∀ {q : List Nat} {c z y : Nat},
    Down par c q → (c :: q).getLast? = some z → z ∈ par y → Down par c (q ++ [y])
  | [], c, z, y, _, hl, hy => by
    simp at hl; subst hl; exact ⟨hy, trivial⟩
  | x :: xs, c, z, y, hq, hl, hy => by
    simp only [Down] at hq
    simp only [List.cons_append, Down]
    refine ⟨hq.1, Down.snoc hq.2 ?_ hy⟩
    simpa [List.getLast?_cons_cons] using hl

/-- the second half of `path_to_term`: the upward path of `y` reversed, without the meeting
point, followed by `y` itself, descends from the meeting point to `y` -/
theorem ChainPath.down {par : Nat → List Nat} : ∀ {pb : List Nat} {y c : Nat},
    ChainPath par y pb c → pb ≠ [] →
    Down par c (pb.reverse.drop 1 ++ [y])
  | [], _, _, _, h => absurd rfl h
  | [x], y, c, h, _ => by
    simp only [ChainPath] at h
    obtain ⟨hx, rfl⟩ := h
    simp [Down, hx]
  | x :: x' :: xs, y, c, h, _ => by
    have h' := h
    simp only [ChainPath] at h
    obtain ⟨hx, hx', hc⟩ := h
    have ih := ChainPath.down (pb := x' :: xs) (y := x) (c := c) ⟨hx', hc⟩ (by simp)
    have e : (x :: x' :: xs).reverse.drop 1 = (x' :: xs).reverse.drop 1 ++ [x] := by
      simp only [List.reverse_cons]
      rw [List.drop_append_of_le_length (by simp)]
    rw [e]
    exact Down.snoc ih (getLast?_cons_snoc _ _ _) hx

theorem pushLast_of_ne {p : List Nat} {b : Nat} (h : p.getLast? ≠ some b) : pushLast p b = p ++ [b] := by
  simp [pushLast, h]

theorem pushLast_of_eq {p : List Nat} {b : Nat} (h : p.getLast? = some b) : pushLast p b = p := by
  simp [pushLast, h]

/-- every id on a chain path is a proper ancestor: its rank is smaller -/
theorem PathWF.chainPath_rank {o : Onto} {rank : Nat → Nat} (wf : PathWF o rank) :
    ∀ {p : List Nat} {t a : Nat}, ChainPath o.par t p a → ∀ z ∈ p, rank z < rank t
  | [], _, _, _, z, hz => by simp at hz
  | x :: xs, t, a, h, z, hz => by
    simp only [ChainPath] at h
    have h1 : rank x < rank t := by
      have := wf.chain_rank (Chain.step h.1 (Chain.refl x)); omega
    rcases List.mem_cons.1 hz with rfl | hz
    · exact h1
    · have := wf.chainPath_rank h.2 z hz; omega

/-- the joined path of `path_to_term` -/
theorem join_spec {o : Onto} {rank : Nat → Nat} (wf : PathWF o rank) {i j c : Nat} {pa pb : List Nat}
    (hij : i ≠ j) (ha : ChainPath o.par i pa c) (hb : ChainPath o.par j pb c) :
    Walk o.par i (pushLast (pa ++ pb.reverse.drop 1) j) ∧
    (pushLast (pa ++ pb.reverse.drop 1) j).getLast? = some j ∧
    (pushLast (pa ++ pb.reverse.drop 1) j).length = pa.length + pb.length := by
  cases pb with
  | nil =>
    simp only [ChainPath] at hb
    subst hb
    have hl := ha.getLast
    have hne : pa ≠ [] := by
      rintro rfl; simp at hl; exact hij hl
    have hl' : pa.getLast? = some j := by
      cases pa with
      | nil => exact absurd rfl hne
      | cons x xs => simpa [List.getLast?_cons_cons] using hl
    simp only [List.reverse_nil, List.drop_nil, List.append_nil, List.length_nil, Nat.add_zero]
    rw [pushLast_of_eq hl']
    exact ⟨ha.walk, hl', rfl⟩
  | cons x xs =>
    have hd := hb.down (by simp)
    have hrank := wf.chainPath_rank hb
    have hne : (pa ++ (x :: xs).reverse.drop 1).getLast? ≠ some j := by
      intro hl
      have hz : j ∈ (x :: xs) := by
        rw [List.getLast?_append] at hl
        cases hR : ((x :: xs).reverse.drop 1).getLast? with
        | some z =>
          rw [hR] at hl
          simp only [Option.some_or] at hl
          cases hl
          have := List.mem_of_getLast? hR
          exact List.mem_reverse.1 (List.mem_of_mem_drop this)
        | none =>
          rw [hR] at hl
          simp only [Option.none_or] at hl
          have hpa : pa ≠ [] := by rintro rfl; simp at hl
          have hl2 := ha.getLast
          have : pa.getLast? = some c := by
            cases pa with
            | nil => exact absurd rfl hpa
            | cons y ys => simpa [List.getLast?_cons_cons] using hl2
          rw [this] at hl
          cases hl
          have hb2 := hb.getLast
          have : (x :: xs).getLast? = some j := by simpa [List.getLast?_cons_cons] using hb2
          exact List.mem_of_getLast? this
      have := hrank j hz
      omega
    rw [pushLast_of_ne hne, List.append_assoc]
    refine ⟨Walk.append ha.walk ha.getLast hd.walk, ?_, ?_⟩
    · simp [List.getLast?_append]
    · simp only [List.length_append, List.length_drop, List.length_reverse, List.length_cons, List.length_nil]
      omega


def JSpec (par : Nat → List Nat) (x y : Nat) (cs : List Nat) : Option (Nat × Nat) → Prop
  | none => cs = []
  | some m => m.1 ∈ cs ∧ ∃ dx dy, Shortest par x m.1 dx ∧ Shortest par y m.1 dy ∧ m.2 = dx + dy ∧
      ∀ c ∈ cs, ∀ ex ey, Shortest par x c ex → Shortest par y c ey → m.2 ≤ ex + ey

theorem firstSmaller_spec {par : Nat → List Nat} {x y c : Nat} {cs : List Nat} {m : Option (Nat × Nat)}
    {dx dy : Nat} (hx : Shortest par x c dx) (hy : Shortest par y c dy) (hm : JSpec par x y cs m) :
    JSpec par x y (c :: cs) (some (firstSmaller (c, dx + dy) m)) := by
  cases m with
  | none =>
    simp only [JSpec] at hm
    subst hm
    simp only [firstSmaller, JSpec]
    refine ⟨List.mem_cons_self, dx, dy, hx, hy, rfl, ?_⟩
    intro q hq ex ey hex hey
    rcases List.mem_cons.1 hq with rfl | hq
    · rw [hx.unique hex, hy.unique hey]; exact Nat.le_refl _
    · simp at hq
  | some e =>
    simp only [JSpec] at hm
    obtain ⟨hmem, ex0, ey0, hex0, hey0, hes, hmin⟩ := hm
    simp only [firstSmaller]
    by_cases hlt : e.2 < dx + dy
    · simp only [hlt, if_true, JSpec]
      refine ⟨List.mem_cons_of_mem _ hmem, ex0, ey0, hex0, hey0, hes, ?_⟩
      intro q hq ex ey hex hey
      rcases List.mem_cons.1 hq with rfl | hq
      · rw [← hx.unique hex, ← hy.unique hey]; omega
      · exact hmin q hq ex ey hex hey
    · simp only [hlt, if_false, JSpec]
      refine ⟨List.mem_cons_self, dx, dy, hx, hy, rfl, ?_⟩
      intro q hq ex ey hex hey
      rcases List.mem_cons.1 hq with rfl | hq
      · rw [hx.unique hex, hy.unique hey]; exact Nat.le_refl _
      · have := hmin q hq ex ey hex hey; omega

theorem DistSpec.of_reach {par : Nat → List Nat} {t a : Nat} {r : Option Nat}
    (h : DistSpec par t a r) (hr : Reach par t a) : ∃ d, r = some d ∧ Shortest par t a d := by
  cases r with
  | none => exact absurd hr h
  | some d => exact ⟨d, rfl, h⟩

theorem PathSpec.of_reach {par : Nat → List Nat} {t a : Nat} {r : Option (List Nat)}
    (h : PathSpec par t a r) (hr : Reach par t a) :
    ∃ p, r = some p ∧ ChainPath par t p a ∧ Shortest par t a p.length := by
  cases r with
  | none => exact absurd hr h
  | some p => exact ⟨p, rfl, h.1, h.1.chain, h.2⟩

theorem joinPoint_spec {o : Onto} {rank : Nat → Nat} (wf : PathWF o rank) {i j : Nat} {a b : Term}
    (ha : o.get i = some a) (hb : o.get j = some b) :
    ∀ (cs : List Nat), (∀ c ∈ cs, (∃ tc, o.get c = some tc) ∧ Reach o.par i c ∧ Reach o.par j c) →
    ∃ m, joinPoint o a b cs = .ok m ∧ JSpec o.par i j cs m
  | [], _ => ⟨none, rfl, rfl⟩
  | c :: cs, h => by
    obtain ⟨⟨tc, hc⟩, hri, hrj⟩ := h c List.mem_cons_self
    obtain ⟨m, hm, hms⟩ := joinPoint_spec wf ha hb cs (fun q hq => h q (List.mem_cons_of_mem _ hq))
    obtain ⟨ra, hra, hsa⟩ := distToAnc_spec wf c o.fuel i a ha (wf.rank_fuel _ _ ha)
    obtain ⟨rb, hrb, hsb⟩ := distToAnc_spec wf c o.fuel j b hb (wf.rank_fuel _ _ hb)
    obtain ⟨dx, rfl, hx⟩ := hsa.of_reach hri
    obtain ⟨dy, rfl, hy⟩ := hsb.of_reach hrj
    exact ⟨some (firstSmaller (c, dx + dy) m), by simp [joinPoint, hc, hra, hrb, hm],
      firstSmaller_spec hx hy hms⟩

/-- what a result of `path_to_term` must be, for two distinct terms -/
def WalkSpec (par : Nat → List Nat) (x y : Nat) : Option (List Nat) → Prop
  | some p => Walk par x p ∧ p.getLast? = some y ∧ TermSpec par x y (some p.length)
  | none => TermSpec par x y none

theorem pathToTerm_spec {o : Onto} {rank : Nat → Nat} (wf : PathWF o rank) {i j : Nat} {a b : Term}
    (ha : o.get i = some a) (hb : o.get j = some b) (hij : i ≠ j) :
    ∃ r, o.pathToTerm a b = .ok r ∧ WalkSpec o.par i j r := by
  have hres : ∀ c ∈ a.allCommonAncestorIds b,
      (∃ tc, o.get c = some tc) ∧ Reach o.par i c ∧ Reach o.par j c := by
    intro c hc
    have h := (wf.mem_common ha hb c).1 hc
    obtain ⟨n, hn⟩ := h.1
    exact ⟨wf.chain_resolves hn ⟨a, ha⟩, h⟩
  obtain ⟨m, hm, hms⟩ := joinPoint_spec wf ha hb _ hres
  cases m with
  | none =>
    refine ⟨none, by simp [pathToTerm, hm], ?_⟩
    simp only [JSpec] at hms
    simp only [WalkSpec, TermSpec]
    rintro ⟨c, hx, hy⟩
    have := (wf.mem_common ha hb c).2 ⟨hx, hy⟩
    rw [hms] at this
    simp at this
  | some e =>
    simp only [JSpec] at hms
    obtain ⟨hmem, dx, dy, hx, hy, hes, hmin⟩ := hms
    obtain ⟨ra, hra, hsa⟩ := pathToAnc_spec wf e.1 o.fuel i a ha (wf.rank_fuel _ _ ha)
    obtain ⟨rb, hrb, hsb⟩ := pathToAnc_spec wf e.1 o.fuel j b hb (wf.rank_fuel _ _ hb)
    obtain ⟨pa, rfl, hca, hsha⟩ := hsa.of_reach ⟨dx, hx.1⟩
    obtain ⟨pb, rfl, hcb, hshb⟩ := hsb.of_reach ⟨dy, hy.1⟩
    have hjid : b.id = j := Onto.get_id_p hb
    refine ⟨some (pushLast (pa ++ pb.reverse.drop 1) j), by simp [pathToTerm, hm, joinPaths, hra, hrb, hjid], ?_⟩
    obtain ⟨hw, hl, hlen⟩ := join_spec wf hij hca hcb
    refine ⟨hw, hl, ?_⟩
    rw [hlen, ← hx.unique hsha, ← hy.unique hshb, ← hes]
    refine ⟨⟨e.1, dx, dy, hx, hy, hes⟩, ?_⟩
    intro c ex ey hex hey
    exact hmin c ((wf.mem_common ha hb c).2 ⟨⟨ex, hex.1⟩, ⟨ey, hey.1⟩⟩) ex ey hex hey


/-! ### a decidable sufficient check for `PathWF` (used for the non-vacuity examples) -/

/-- `all_parents` of the parents -/
def grandSets (o : Onto) : List Nat → List Nat
  | [] => []
  | p :: ps => (match o.get p with | some tp => tp.allParents | none => []) ++ grandSets o ps

/-- local closure equation: `all_parents(t) = parents(t) ∪ ⋃ all_parents(p)` as sets -/
def localClosed (o : Onto) (t : Term) : Bool :=
  t.allParents.all (fun a => (t.parents ++ grandSets o t.parents).elem a) &&
  (t.parents ++ grandSets o t.parents).all (fun a => t.allParents.elem a)

def pathWFCheck (o : Onto) (rank : Nat → Nat) : Bool :=
  o.terms.all fun t =>
    t.parents.all (fun p => (o.get p).isSome && decide (rank p < rank t.id))
    && localClosed o t && decide (rank t.id < o.fuel)

theorem mem_grandSets {o : Onto} {a : Nat} : ∀ {ps : List Nat},
    a ∈ grandSets o ps ↔ ∃ p ∈ ps, ∃ tp, o.get p = some tp ∧ a ∈ tp.allParents
  | [] => by simp [grandSets]
  | p :: ps => by
    simp only [grandSets, List.mem_append, mem_grandSets (ps := ps), List.mem_cons]
    constructor
    · rintro (h | ⟨q, hq, tp, hg, ha⟩)
      · cases hg : o.get p with
        | none => simp [hg] at h
        | some tp => rw [hg] at h; exact ⟨p, Or.inl rfl, tp, hg, h⟩
      · exact ⟨q, Or.inr hq, tp, hg, ha⟩
    · rintro ⟨q, rfl | hq, tp, hg, ha⟩
      · left; rw [hg]; exact ha
      · exact Or.inr ⟨q, hq, tp, hg, ha⟩

theorem pathWF_of_check {o : Onto} {rank : Nat → Nat} (h : pathWFCheck o rank = true) : PathWF o rank := by
  simp only [pathWFCheck, List.all_eq_true, Bool.and_eq_true, decide_eq_true_eq] at h
  have hres : ∀ i t, o.get i = some t → ∀ p ∈ t.parents, ∃ tp, o.get p = some tp := by
    intro i t hg p hp
    have := ((h t (Onto.get_mem_p hg)).1.1 p hp).1
    exact Option.isSome_iff_exists.1 this
  have hrk : ∀ i t, o.get i = some t → ∀ p ∈ t.parents, rank p < rank i := by
    intro i t hg p hp
    have := ((h t (Onto.get_mem_p hg)).1.1 p hp).2
    rwa [Onto.get_id_p hg] at this
  have hloc : ∀ i t, o.get i = some t → ∀ a, a ∈ t.allParents ↔
      (a ∈ t.parents ∨ ∃ p ∈ t.parents, ∃ tp, o.get p = some tp ∧ a ∈ tp.allParents) := by
    intro i t hg a
    have := (h t (Onto.get_mem_p hg)).1.2
    simp only [localClosed, Bool.and_eq_true, List.all_eq_true, List.elem_eq_mem, decide_eq_true_eq,
      List.mem_append, mem_grandSets] at this
    exact ⟨this.1 a, this.2 a⟩
  refine ⟨hres, ?_, hrk, ?_⟩
  · intro i
    induction hr : rank i using Nat.strongRecOn generalizing i with
    | _ r ih =>
      intro t hg a
      rw [hloc i t hg a]
      constructor
      · rintro (hp | ⟨p, hp, tp, hgp, ha⟩)
        · exact ⟨0, Chain.step (by rw [Onto.par_eq hg]; exact hp) (Chain.refl _)⟩
        · have hlt := hrk i t hg p hp
          obtain ⟨n, hn⟩ := (ih (rank p) (by omega) p rfl tp hgp a).1 ha
          exact ⟨n + 1, Chain.step (by rw [Onto.par_eq hg]; exact hp) hn⟩
      · rintro ⟨n, hn⟩
        obtain ⟨p, hp, hc⟩ := Chain.succ_iff.1 hn
        rw [Onto.par_eq hg] at hp
        cases n with
        | zero => left; rw [← Chain.zero_iff.1 hc]; exact hp
        | succ n =>
          right
          obtain ⟨tp, hgp⟩ := hres i t hg p hp
          have hlt := hrk i t hg p hp
          exact ⟨p, hp, tp, hgp, (ih (rank p) (by omega) p rfl tp hgp a).2 ⟨n, hc⟩⟩
  · intro i t hg
    have := (h t (Onto.get_mem_p hg)).2
    rwa [Onto.get_id_p hg] at this

/-! ### the 7-term DAG of the shortcut counterexample

`10 → 11 → 12 → 13 → 14 → 15` (a chain of 5 parent links) and the shared parent `16` of `10` and `15`:
`15` is an ancestor of `10`, yet the shortest route from `10` to `15` has 2 steps (over `16`). -/

def dag7Terms : List Term :=
  [ { id := 10, name := [], parents := [11, 16], allParents := [11, 12, 13, 14, 15, 16] },
    { id := 11, name := [], parents := [12], allParents := [12, 13, 14, 15, 16], children := [10] },
    { id := 12, name := [], parents := [13], allParents := [13, 14, 15, 16], children := [11] },
    { id := 13, name := [], parents := [14], allParents := [14, 15, 16], children := [12] },
    { id := 14, name := [], parents := [15], allParents := [15, 16], children := [13] },
    { id := 15, name := [], parents := [16], allParents := [16], children := [14] },
    { id := 16, name := [], children := [10, 15] } ]

def dag7 : Onto := { terms := dag7Terms }

def dag7Rank (i : Nat) : Nat := 16 - i

theorem dag7_wf : PathWF dag7 dag7Rank := pathWF_of_check (by decide)

end Hpo
