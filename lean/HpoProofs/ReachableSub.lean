import HpoProofs.LoadRefine
import HpoProofs.SubOntologyRun
/-!
`Reachable` (the class of ontologies of C07) and `sub_ontology` (C14):

* a `Reachable` ontology is well formed in the sense of the path functions (`PathWF`, the hypothesis of
  the C14 theorems about the SOURCE ontology): the rank is the number of ancestors;
* a successful `sub_ontology` call is a builder run ending in `build_minimal`
  (`subOntology_run`); setting the default groups on its result (`set_default_categories` /
  `set_default_modifier`, which is what `build_with_defaults` does in place of `build_minimal`) gives
  a `Reachable` ontology again.
-/
namespace Hpo
namespace Binary
open Hpo.Group Relation Hpo.C01 Hpo.C02 Hpo.Onto

theorem Reachable.smallT {o : Onto} (h : Reachable o) : ∀ j, (getT o.terms j).isSome → j < maxId := by
  intro j hj
  cases hg : getT o.terms j with
  | none => rw [hg] at hj; simp at hj
  | some t => have := h.small t (getT_mem hg); rwa [getT_id hg] at this

/-- the number of ancestors strictly decreases from a term to each of its parents -/
theorem Reachable.rank_lt {o : Onto} (h : Reachable o) (c p : Nat) (hp : p ∈ parentsOf o.terms c) :
    (allOf o.terms p).length < (allOf o.terms c).length := by
  have hsub : (p :: allOf o.terms p) ⊆ allOf o.terms c := by
    intro a ha
    rcases List.mem_cons.1 ha with rfl | ha
    · exact (h.closure c a).2 (TransGen.single hp)
    · exact (h.closure c a).2 (TransGen.head hp ((h.closure p a).1 ha))
  have hnd : (p :: allOf o.terms p).Nodup :=
    List.nodup_cons.2 ⟨h.acyclic p, (h.sortedA p).nodup⟩
  have := List.Nodup.length_le_of_subset hnd hsub
  simp only [List.length_cons] at this
  omega

theorem Reachable.rank_fuel {o : Onto} (h : Reachable o) (j : Nat) :
    (allOf o.terms j).length < o.terms.length + 2 := by
  have hsub : allOf o.terms j ⊆ o.terms.map (·.id) := by
    intro a ha
    exact (getT_isSome_iff _ a).1 (h.closedA j a ha)
  have := List.Nodup.length_le_of_subset (h.sortedA j).nodup hsub
  simp only [List.length_map] at this
  omega

/-- **a `Reachable` ontology satisfies the hypothesis of the C14 theorems** -/
theorem Reachable.pathWF {o : Onto} (h : Reachable o) :
    PathWF o (fun j => (allOf o.terms j).length) := by
  have hget : ∀ j, o.get j = getT o.terms j := fun j => get_eq_getT o j h.smallT
  have hpar : o.par = parentsOf o.terms := funext (par_eq_parentsOf h.smallT)
  refine ⟨?_, ?_, ?_, ?_⟩
  · intro i t hi p hp
    rw [hget] at hi
    have : (getT o.terms p).isSome := h.closedP i p (by simp [parentsOf, hi, hp])
    obtain ⟨tp, htp⟩ := Option.isSome_iff_exists.1 this
    exact ⟨tp, by rw [hget]; exact htp⟩
  · intro i t hi a
    rw [hget] at hi
    have hall : allOf o.terms i = t.allParents := by simp [allOf, hi]
    rw [← hall, h.closure i a, hpar]
    exact ⟨chain_of_transGen, fun ⟨n, hn⟩ => transGen_of_chain hn⟩
  · intro i t hi p hp
    rw [hget] at hi
    exact h.rank_lt i p (by simp [parentsOf, hi, hp])
  · intro i t _
    exact h.rank_fuel i

/-- `sub_ontology` followed by the default groups lands in `Reachable` -/
theorem reachable_subOntology {o : Onto} {rank : Nat → Nat} (wf : PathWF o rank) {root : Term}
    {leaves : List Term} (hl : ∀ l ∈ leaves, o.get l.id = some l) {o' d : Onto}
    (h : o.subOntology root leaves = .ok o') (hd : o'.buildWithDefaults = .ok d) : Reachable d := by
  obtain ⟨ids, tops, aops, b2, b3, b7, _, hrun, _, hac, hc, _, h7, rfl⟩ := subOntology_run wf hl h
  have hd' : b7.buildWithDefaults = .ok d := hd
  exact reachable_of_builder tops b2 b3 hrun hac hc aops b7 d h7 hd'

end Binary
end Hpo
