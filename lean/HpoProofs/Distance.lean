import HpoModel.Read
import HpoProofs.Group
/-! Lemmas about `distance_to_term` (`HpoModel/Read.lean`) used by C04: a term is at distance 0
from itself, and the distance does not depend on the argument order (core Lean only). -/
namespace Hpo
namespace Onto

def pairOf (c : Nat) (rest : List (Nat × Nat)) : Option Nat → Option Nat → List (Nat × Nat)
  | some x, some y => (c, x + y) :: rest
  | _, _ => rest

theorem commonDists_cons_iff (o : Onto) (a b : Term) (c : Nat) (cs : List Nat) (ds : List (Nat × Nat)) :
    commonDists o a b (c :: cs) = .ok ds ↔
    ∃ t da db rest, o.get c = some t ∧ distToAnc o.fuel o a c = .ok da ∧
      distToAnc o.fuel o b c = .ok db ∧ commonDists o a b cs = .ok rest ∧ ds = pairOf c rest da db := by
  constructor
  · intro h
    simp only [commonDists] at h
    split at h
    · cases h
    · rename_i t ht
      split at h
      · rename_i da db hda hdb
        split at h
        · rename_i rest hrest
          refine ⟨t, da, db, rest, ht, hda, hdb, hrest, ?_⟩
          split at h <;> (injection h with h; subst h; simp_all [pairOf])
        · rename_i r hr hne
          cases r <;> simp_all
      all_goals cases h
  · rintro ⟨t, da, db, rest, ht, hda, hdb, hrest, rfl⟩
    simp only [commonDists, ht, hda, hdb, hrest]
    cases da <;> cases db <;> rfl

theorem commonDists_nil (o : Onto) (a b : Term) : commonDists o a b [] = .ok [] := rfl

theorem minNat_zero (l : List Nat) (h : 0 ∈ l) : minNat l = some 0 := by
  induction l with
  | nil => simp at h
  | cons x xs ih =>
    simp only [minNat]
    rcases List.mem_cons.1 h with rfl | h
    · cases minNat xs <;> simp
    · rw [ih h]
      simp

theorem distToAnc_self (o : Onto) (a : Term) : distToAnc o.fuel o a a.id = .ok (some 0) := by
  simp [fuel, distToAnc]

/-- the per-ancestor distance list of `(b, a)` is that of `(a, b)` with the two summands exchanged -/
theorem commonDists_swap (o : Onto) (a b : Term) : ∀ (cs : List Nat) (ds : List (Nat × Nat)),
    commonDists o a b cs = .ok ds → commonDists o b a cs = .ok ds := by
  intro cs
  induction cs with
  | nil => intro ds h; simpa [commonDists] using h
  | cons c cs ih =>
    intro ds h
    obtain ⟨t, da, db, rest, ht, hda, hdb, hrest, rfl⟩ := (commonDists_cons_iff o a b c cs ds).1 h
    refine (commonDists_cons_iff o b a c cs _).2 ⟨t, db, da, rest, ht, hdb, hda, ih rest hrest, ?_⟩
    cases da <;> cases db <;> simp [pairOf, Nat.add_comm]

theorem commonDists_mem_self (o : Onto) (a : Term) : ∀ (cs : List Nat) (ds : List (Nat × Nat)),
    commonDists o a a cs = .ok ds → a.id ∈ cs → (a.id, 0) ∈ ds := by
  intro cs
  induction cs with
  | nil => intro ds _ h; simp at h
  | cons c cs ih =>
    intro ds h hmem
    obtain ⟨t, da, db, rest, ht, hda, hdb, hrest, rfl⟩ := (commonDists_cons_iff o a a c cs ds).1 h
    by_cases hc : c = a.id
    · subst hc
      rw [distToAnc_self] at hda hdb
      injection hda with hda; injection hdb with hdb
      subst hda; subst hdb
      simp [pairOf]
    · have hm : a.id ∈ cs := by
        rcases List.mem_cons.1 hmem with h | h
        · exact absurd h.symm hc
        · exact h
      have := ih rest hrest hm
      cases da <;> cases db <;> simp [pairOf, this]


/-- `distance_to_term(a, a)` is 0 whenever it returns -/
theorem distToTerm_self (o : Onto) (a : Term) (d : Option Nat) (h : o.distToTerm a a = .ok d) :
    d = some 0 := by
  unfold distToTerm at h
  split at h
  · rename_i ds hds
    injection h with h
    subst h
    have hmem : a.id ∈ a.allCommonAncestorIds a := by
      simp [Term.allCommonAncestorIds, Term.allInclusive, Group.mem_bitand, Group.mem_addId]
    have := commonDists_mem_self o a _ ds hds hmem
    apply minNat_zero
    exact List.mem_map.2 ⟨(a.id, 0), this, rfl⟩
  all_goals cases h

/-- `distance_to_term` is symmetric (whenever it returns) -/
theorem distToTerm_symm (o : Onto) (a b : Term) (ha : Group.Sorted a.allParents)
    (hb : Group.Sorted b.allParents) (d : Option Nat) (h : o.distToTerm a b = .ok d) :
    o.distToTerm b a = .ok d := by
  have hcomm : b.allCommonAncestorIds a = a.allCommonAncestorIds b := by
    unfold Term.allCommonAncestorIds Term.allInclusive
    apply Group.eq_of_sorted_of_mem_iff _ _
      (Group.sorted_bitand _ _ (Group.sorted_addId _ _ hb) (Group.sorted_addId _ _ ha))
      (Group.sorted_bitand _ _ (Group.sorted_addId _ _ ha) (Group.sorted_addId _ _ hb))
    intro x; rw [Group.mem_bitand, Group.mem_bitand]; exact And.comm
  unfold distToTerm at h ⊢
  rw [hcomm]
  split at h
  · rename_i ds hds
    rw [commonDists_swap o a b _ ds hds]
    exact h
  all_goals cases h

end Onto
end Hpo
