import HpoProofs.Path
/-! Lemmas about `distance_to_term` (`HpoModel/Read.lean`) used by C04: a term is at distance 0
from itself (structural, no hypotheses), and the distance does not depend on the argument order
(on well-formed ontologies, from the C11 specification). -/
namespace Hpo
namespace Onto

theorem distToAnc_self (o : Onto) (a : Term) : distToAnc o.fuel o a a.id = .ok (some 0) := by
  simp [fuel, distToAnc]

theorem optMin_zero_right (x : Option Nat) : optMin x (some 0) = some 0 := by
  cases x with
  | none => rfl
  | some d => simp [optMin]

theorem optMin_zero_left (m : Option Nat) : optMin (some 0) m = some 0 := by
  cases m with
  | none => rfl
  | some d => simp [optMin]

theorem termDists_self (o : Onto) (a : Term) : ∀ (cs : List Nat) (d : Option Nat),
    termDists o a a cs = .ok d → a.id ∈ cs → d = some 0 := by
  intro cs
  induction cs with
  | nil => intro d _ h; simp at h
  | cons c cs ih =>
    intro d h hmem
    by_cases hc : c = a.id
    · subst hc
      simp only [termDists, distToAnc_self] at h
      split at h
      · cases h
      · split at h
        · rename_i m hm
          simp only [Nat.add_zero, Res.ok.injEq] at h
          rw [← h]; exact optMin_zero_left m
        all_goals cases h
    · have hm : a.id ∈ cs := by
        rcases List.mem_cons.1 hmem with h' | h'
        · exact absurd h'.symm hc
        · exact h'
      simp only [termDists] at h
      split at h
      · cases h
      · split at h
        · exact ih d h hm
        · split at h
          · exact ih d h hm
          · split at h
            · rename_i m hmm
              simp only [Res.ok.injEq] at h
              rw [← h, ih m hmm hm]; exact optMin_zero_right _
            all_goals cases h
          all_goals cases h
        all_goals cases h

/-- `distance_to_term(a, a)` is 0 whenever it returns -/
theorem distToTerm_self (o : Onto) (a : Term) (d : Option Nat) (h : o.distToTerm a a = .ok d) :
    d = some 0 := by
  unfold distToTerm at h
  have hmem : a.id ∈ a.allCommonAncestorIds a := by
    simp [Term.allCommonAncestorIds, Term.allInclusive, Group.mem_bitand, Group.mem_addId]
  exact termDists_self o a _ d h hmem

/-- `distance_to_term` is symmetric on well-formed ontologies (C11) -/
theorem distToTerm_symm {o : Onto} {rank : Nat → Nat} (wf : PathWF o rank) {i j : Nat} {a b : Term}
    (ha : o.get i = some a) (hb : o.get j = some b) : o.distToTerm a b = o.distToTerm b a := by
  obtain ⟨r, hr, hs⟩ := distToTerm_spec wf ha hb
  obtain ⟨r', hr', hs'⟩ := distToTerm_spec wf hb ha
  rw [hr, hr', hs.unique hs'.symm]

end Onto
end Hpo
