import HpoProofs.Arena
/-!
`link_gene_term` / `link_omim_disease_term` / `link_orpha_disease_term`: the recursive upward
propagation with early exit links a record to exactly the term and its ancestors.

The early exit ("already linked ⇒ all ancestors are linked as well") is sound because of the
invariant `UpClosedAbove`: upward-closedness of the record's links, restricted to the up-set of the
term being processed (the unrestricted invariant is false while a descendant is "in progress").
-/
namespace Hpo
open Group

section
variable (anc : Nat → List Nat) (ex : Nat → Prop)

/-- closure facts about the cached ancestor groups (established by C01) -/
structure AncClosure (rank : Nat → Nat) : Prop where
  trans : ∀ t a b, a ∈ anc t → b ∈ anc a → b ∈ anc t
  rank : ∀ t a, a ∈ anc t → rank a < rank t
  exist : ∀ t a, ex t → a ∈ anc t → ex a

/-- `x` is `t` or an ancestor of `t` -/
def Up (t x : Nat) : Prop := x = t ∨ x ∈ anc t

/-- what `link` never changes and relies on -/
structure LState (k : Kind) (ts : List Term) : Prop where
  ancF : ∀ j, allOf ts j = anc j
  pres : ∀ j, (getT ts j).isSome ↔ ex j
  small : ∀ j, (getT ts j).isSome → j < maxId
  sortedA : ∀ j, Sorted (annOf k ts j)

/-- `ts'` differs from `ts` only in the `k`-annotation fields -/
def UpdAnn (k : Kind) (ts ts' : List Term) : Prop :=
  ts'.map (·.id) = ts.map (·.id) ∧
  ∀ j, getT ts' j = (getT ts j).map (fun t => t.setAnn k (annOf k ts' j))

end

theorem setAnn_ann (t : Term) (k : Kind) (v : List Nat) : (t.setAnn k v).ann k = v := by
  cases k <;> rfl

theorem setAnn_ann_ne (t : Term) (k k' : Kind) (v : List Nat) (h : k' ≠ k) :
    (t.setAnn k v).ann k' = t.ann k' := by
  cases k <;> cases k' <;> first | rfl | exact absurd rfl h

theorem setAnn_id (t : Term) (k : Kind) (v : List Nat) : (t.setAnn k v).id = t.id := by
  cases k <;> rfl

theorem setAnn_allParents (t : Term) (k : Kind) (v : List Nat) :
    (t.setAnn k v).allParents = t.allParents := by cases k <;> rfl

theorem setAnn_self (t : Term) (k : Kind) : t.setAnn k (t.ann k) = t := by cases k <;> rfl

theorem setAnn_setAnn (t : Term) (k : Kind) (v w : List Nat) :
    (t.setAnn k v).setAnn k w = t.setAnn k w := by cases k <;> rfl

theorem UpdAnn.refl (k : Kind) (ts : List Term) : UpdAnn k ts ts := by
  refine ⟨rfl, ?_⟩
  intro j
  cases h : getT ts j with
  | none => rfl
  | some t => simp [annOf, h, setAnn_self]

theorem UpdAnn.isSome {k : Kind} {ts ts' : List Term} (h : UpdAnn k ts ts') (j : Nat) :
    (getT ts' j).isSome = (getT ts j).isSome := by
  rw [h.2 j]; cases getT ts j <;> rfl

theorem UpdAnn.all_eq {k : Kind} {ts ts' : List Term} (h : UpdAnn k ts ts') (j : Nat) :
    allOf ts' j = allOf ts j := by
  unfold allOf; rw [h.2 j]; cases getT ts j <;> simp [setAnn_allParents]

theorem UpdAnn.ann_ne {k k' : Kind} {ts ts' : List Term} (h : UpdAnn k ts ts') (hk : k' ≠ k) (j : Nat) :
    annOf k' ts' j = annOf k' ts j := by
  unfold annOf; rw [h.2 j]; cases getT ts j <;> simp [setAnn_ann_ne _ _ _ _ hk]

theorem UpdAnn.trans {k : Kind} {a b c : List Term} (h1 : UpdAnn k a b) (h2 : UpdAnn k b c) :
    UpdAnn k a c := by
  refine ⟨h2.1.trans h1.1, ?_⟩
  intro j
  rw [h2.2 j, h1.2 j]
  cases getT a j <;> simp [setAnn_setAnn]

/-- setting one annotation field -/
theorem updAnn_set (k : Kind) (ts : List Term) (t : Nat) (v : List Nat) :
    UpdAnn k ts (modT ts t (fun x => x.setAnn k v)) := by
  refine ⟨modT_ids _ _ _ (fun x => setAnn_id x k v), ?_⟩
  intro j
  have hg := getT_modT ts t j (fun x => x.setAnn k v) (fun x => setAnn_id x k v)
  simp only [annOf, hg]
  cases h : getT ts j with
  | none => rfl
  | some u =>
    simp only [Option.map_some, Option.getD_some]
    split
    · simp [setAnn_ann, setAnn_setAnn]
    · simp [setAnn_self]

theorem annOf_set_same (k : Kind) (ts : List Term) (t : Nat) (v : List Nat) (u : Term)
    (h : getT ts t = some u) : annOf k (modT ts t (fun x => x.setAnn k v)) t = v := by
  have hg := getT_modT ts t t (fun x => x.setAnn k v) (fun x => setAnn_id x k v)
  simp only [annOf, hg, h]
  simp [getT_id h, setAnn_ann]

theorem annOf_set_ne (k : Kind) (ts : List Term) (t j : Nat) (v : List Nat) (h : j ≠ t) :
    annOf k (modT ts t (fun x => x.setAnn k v)) j = annOf k ts j := by
  have hg := getT_modT ts t j (fun x => x.setAnn k v) (fun x => setAnn_id x k v)
  simp only [annOf, hg]
  cases hu : getT ts j with
  | none => rfl
  | some u =>
    have := getT_id hu
    have : ¬ u.id = t := by omega
    simp [this]

section
variable (anc : Nat → List Nat) (ex : Nat → Prop)

theorem LState.upd {k : Kind} {ts ts' : List Term} (hs : LState anc ex k ts) (h : UpdAnn k ts ts')
    (hsorted : ∀ j, Sorted (annOf k ts' j)) : LState anc ex k ts' :=
  ⟨fun j => by rw [h.all_eq]; exact hs.ancF j,
   fun j => by rw [h.isSome]; exact hs.pres j,
   fun j hj => hs.small j (by rw [← h.isSome]; exact hj),
   hsorted⟩

/-- upward closedness of record `r`, restricted to the up-set of `t` -/
def UpClosedAbove (k : Kind) (ts : List Term) (r t : Nat) : Prop :=
  ∀ x, Up anc t x → r ∈ annOf k ts x → ∀ y ∈ anc x, r ∈ annOf k ts y

structure LinkPost (k : Kind) (r t : Nat) (o o' : Onto) : Prop where
  rest : o' = { o with terms := o'.terms }
  upd : UpdAnn k o.terms o'.terms
  state : LState anc ex k o'.terms
  added : ∀ x, Up anc t x → r ∈ annOf k o'.terms x
  frame : ∀ x h, h ∈ annOf k o'.terms x ↔ h ∈ annOf k o.terms x ∨ (h = r ∧ Up anc t x)

theorem linkFold_post (k : Kind) (r : Nat) (fuel : Nat) (rank : Nat → Nat)
    (hc : AncClosure anc ex rank) (t : Nat) (o0 : Onto)
    (ih : ∀ (o : Onto) (a : Nat), rank a < fuel → ex a → LState anc ex k o.terms →
      UpClosedAbove anc k o.terms r a →
      ∃ o', Onto.link k r fuel o a = .ok o' ∧ LinkPost anc ex k r a o o')
    (hrk : ∀ a ∈ anc t, rank a < fuel) (hext : ex t) :
    ∀ (as : List Nat) (o1 : Onto), (∀ a ∈ as, a ∈ anc t) → LState anc ex k o1.terms →
      o1 = { o0 with terms := o1.terms } → UpdAnn k o0.terms o1.terms →
      (∀ x, x ∈ anc t → r ∈ annOf k o1.terms x → ∀ y ∈ anc x, r ∈ annOf k o1.terms y) →
      ∃ o', Onto.linkFold (Onto.link k r fuel) as o1 = .ok o' ∧
        o' = { o0 with terms := o'.terms } ∧ UpdAnn k o0.terms o'.terms ∧
        LState anc ex k o'.terms ∧
        (∀ a ∈ as, r ∈ annOf k o'.terms a) ∧
        (∀ x h, h ∈ annOf k o'.terms x ↔ h ∈ annOf k o1.terms x ∨ (h = r ∧ ∃ a ∈ as, Up anc a x)) ∧
        (∀ x, x ∈ anc t → r ∈ annOf k o'.terms x → ∀ y ∈ anc x, r ∈ annOf k o'.terms y) := by
  intro as
  induction as with
  | nil =>
    intro o1 _ hst hrest hupd hcl
    exact ⟨o1, rfl, hrest, hupd, hst, by simp, by simp, hcl⟩
  | cons a as iha =>
    intro o1 hsub hst hrest hupd hcl
    have ha : a ∈ anc t := hsub a (by simp)
    obtain ⟨o2, h2, p2⟩ := ih o1 a (hrk a ha) (hc.exist t a hext ha) hst (by
      intro x hx hgx y hy
      have hxt : x ∈ anc t := by
        rcases hx with rfl | hx
        · exact ha
        · exact hc.trans t a x ha hx
      exact hcl x hxt hgx y hy)
    have hcl2 : ∀ x, x ∈ anc t → r ∈ annOf k o2.terms x → ∀ y ∈ anc x, r ∈ annOf k o2.terms y := by
      intro x hx hgx y hy
      rcases (p2.frame x r).1 hgx with h | ⟨_, hux⟩
      · exact (p2.frame y r).2 (Or.inl (hcl x hx h y hy))
      · refine p2.added y ?_
        rcases hux with rfl | hux
        · exact Or.inr hy
        · exact Or.inr (hc.trans a x y hux hy)
    obtain ⟨o3, h3, hrest3, hupd3, hst3, q1, q2, q3⟩ :=
      iha o2 (fun b hb => hsub b (by simp [hb])) p2.state
        (by rw [p2.rest, hrest]) (hupd.trans p2.upd) hcl2
    refine ⟨o3, by simp [Onto.linkFold, h2, Res.bind, h3], hrest3, hupd3, hst3, ?_, ?_, q3⟩
    · intro b hb
      simp at hb; rcases hb with rfl | hb
      · exact (q2 b r).2 (Or.inl (p2.added b (Or.inl rfl)))
      · exact q1 b hb
    · intro x h
      rw [q2 x h, p2.frame x h]
      constructor
      · rintro ((h1 | ⟨rfl, hu⟩) | ⟨rfl, b, hb, hu⟩)
        · exact Or.inl h1
        · exact Or.inr ⟨rfl, a, by simp, hu⟩
        · exact Or.inr ⟨rfl, b, by simp [hb], hu⟩
      · rintro (h1 | ⟨rfl, b, hb, hu⟩)
        · exact Or.inl (Or.inl h1)
        · simp at hb; rcases hb with rfl | hb
          · exact Or.inl (Or.inr ⟨rfl, hu⟩)
          · exact Or.inr ⟨rfl, b, hb, hu⟩

theorem link_post (k : Kind) (r : Nat) (rank : Nat → Nat) (hc : AncClosure anc ex rank) :
    ∀ fuel (o : Onto) (t : Nat), rank t < fuel → ex t → LState anc ex k o.terms →
      UpClosedAbove anc k o.terms r t →
      ∃ o', Onto.link k r fuel o t = .ok o' ∧ LinkPost anc ex k r t o o' := by
  intro fuel
  induction fuel with
  | zero => intro o t h; omega
  | succ fuel ih =>
    intro o t hr hext hst hup
    have hpres : (getT o.terms t).isSome := (hst.pres t).2 hext
    obtain ⟨tm, htm⟩ := Option.isSome_iff_exists.1 hpres
    have hget : o.get t = some tm := by rw [get_eq_getT o t hst.small]; exact htm
    have hann : tm.ann k = annOf k o.terms t := by simp [annOf, htm]
    have hall : tm.allParents = anc t := by rw [← hst.ancF t]; simp [allOf, htm]
    simp only [Onto.link, hget, hann, hall]
    have hsort := hst.sortedA t
    by_cases hin : r ∈ annOf k o.terms t
    · -- early exit: already linked
      have : (insert (annOf k o.terms t) r).2 = false := by
        have := (not_congr (insert_snd _ r hsort)).2 (by simpa using hin); simpa using this
      simp only [this, Bool.false_eq_true, ↓reduceIte]
      refine ⟨o, rfl, rfl, UpdAnn.refl k _, hst, ?_, ?_⟩
      · rintro x (rfl | hx)
        · exact hin
        · exact hup t (Or.inl rfl) hin x hx
      · intro x h; constructor
        · exact Or.inl
        · rintro (h | ⟨rfl, hx⟩)
          · exact h
          · rcases hx with rfl | hx
            · exact hin
            · exact hup t (Or.inl rfl) hin x hx
    · have : (insert (annOf k o.terms t) r).2 = true := (insert_snd _ r hsort).2 hin
      simp only [this, ↓reduceIte]
      have htt : t ∉ anc t := fun h => by have := hc.rank t t h; omega
      -- the state after `term.add_gene(gene_id)`
      have hA_same : annOf k (modT o.terms t (fun x => x.setAnn k (insert (annOf k o.terms t) r).1)) t
          = (insert (annOf k o.terms t) r).1 := annOf_set_same k o.terms t _ tm htm
      have hA_ne : ∀ j, j ≠ t →
          annOf k (modT o.terms t (fun x => x.setAnn k (insert (annOf k o.terms t) r).1)) j
            = annOf k o.terms j := fun j hj => annOf_set_ne k o.terms t j _ hj
      have hupd1 := updAnn_set k o.terms t (insert (annOf k o.terms t) r).1
      have hst1 : LState anc ex k (modT o.terms t (fun x => x.setAnn k (insert (annOf k o.terms t) r).1)) := by
        refine hst.upd anc ex hupd1 ?_
        intro j
        by_cases hj : j = t
        · subst hj; rw [hA_same]; exact sorted_insert _ _ hsort
        · rw [hA_ne j hj]; exact hst.sortedA j
      obtain ⟨o', h', hrest', hupd', hst', r1, r2, _⟩ :=
        linkFold_post anc ex k r fuel rank hc t o ih
          (fun a ha => by have := hc.rank t a ha; omega) hext (anc t)
          { o with terms := modT o.terms t (fun x => x.setAnn k (insert (annOf k o.terms t) r).1) }
          (fun _ h => h) hst1 rfl hupd1 (by
            intro x hx hgx y hy
            have hxt : x ≠ t := fun h => htt (h ▸ hx)
            have hyt : y ≠ t := fun h => htt (h ▸ hc.trans t x y hx hy)
            simp only [hA_ne x hxt, hA_ne y hyt] at hgx ⊢
            exact hup x (Or.inr hx) hgx y hy)
      refine ⟨o', h', hrest', hupd', hst', ?_, ?_⟩
      · rintro x (rfl | hx)
        · exact (r2 x r).2 (Or.inl (by rw [hA_same, mem_insert]; exact Or.inl rfl))
        · exact r1 x hx
      · intro x h
        rw [r2 x h]
        by_cases hxt : x = t
        · subst hxt
          simp only [hA_same, mem_insert]
          constructor
          · rintro ((rfl | h1) | ⟨rfl, _⟩)
            · exact Or.inr ⟨rfl, Or.inl rfl⟩
            · exact Or.inl h1
            · exact Or.inr ⟨rfl, Or.inl rfl⟩
          · rintro (h1 | ⟨rfl, _⟩)
            · exact Or.inl (Or.inr h1)
            · exact Or.inl (Or.inl rfl)
        · simp only [hA_ne x hxt]
          constructor
          · rintro (h1 | ⟨rfl, a, ha, hu⟩)
            · exact Or.inl h1
            · refine Or.inr ⟨rfl, Or.inr ?_⟩
              rcases hu with rfl | hu
              · exact ha
              · exact hc.trans t a x ha hu
          · rintro (h1 | ⟨rfl, hu⟩)
            · exact Or.inl h1
            · rcases hu with rfl | hu
              · exact absurd rfl hxt
              · exact Or.inr ⟨rfl, x, hu, Or.inl rfl⟩

end
end Hpo
