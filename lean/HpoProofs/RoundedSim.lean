import HpoProofs.Rounded
import HpoProofs.Similarity
/-!
Helper lemmas for the `_rounded` theorems of C04: the similarity model (`HpoModel/Similarity.lean`)
evaluated at `RVal R` for an arbitrary rounding regime `R` (`HpoProofs/Rounded.lean`).

Structure of the argument: the maximum fold of Resnik only COMPARES (no arithmetic), so all its
order properties are exact; every other formula is a composition of rounded operations, each of
which is monotone and fixes 0, 1 and 2, which is all the sign / range / definedness clauses need.
-/
namespace Hpo
namespace Sim
open Hpo.Group NumR

variable {R : Rounding}

/-! ### the folds -/

theorem sumGoR_nonneg (ic : Nat → RVal R) (hn : ∀ i, 0 ≤ (ic i).v) (acc : RVal R) (hacc : 0 ≤ acc.v)
    (l : List Nat) : 0 ≤ (sumGo ic acc l).v := by
  induction l generalizing acc with
  | nil => simpa [sumGo] using hacc
  | cons i is ih =>
    simp only [sumGo]
    exact ih _ (NumR.add_nonneg hacc (hn i))

theorem sumIcR_nonneg (ic : Nat → RVal R) (hn : ∀ i, 0 ≤ (ic i).v) (l : List Nat) :
    0 ≤ (sumIc ic l).v :=
  sumGoR_nonneg ic hn _ (by simp) l

theorem stepR_v (acc x : RVal R) : (if Num.lt acc x then x else acc).v = max acc.v x.v := by
  simp only [NumR.lt_eq, decide_eq_true_eq]
  split
  · rename_i h; rw [max_eq_right h.le]
  · rename_i h; rw [max_eq_left (not_lt.1 h)]

theorem le_maxGoR_acc (ic : Nat → RVal R) (acc : RVal R) (l : List Nat) :
    acc.v ≤ (maxGo ic acc l).v := by
  induction l generalizing acc with
  | nil => simp [maxGo]
  | cons i is ih =>
    simp only [maxGo]
    refine le_trans ?_ (ih _)
    rw [stepR_v]; exact le_max_left _ _

theorem le_maxGoR_mem (ic : Nat → RVal R) (acc : RVal R) (l : List Nat) (i : Nat) (hi : i ∈ l) :
    (ic i).v ≤ (maxGo ic acc l).v := by
  induction l generalizing acc with
  | nil => simp at hi
  | cons j js ih =>
    simp only [maxGo]
    rcases List.mem_cons.1 hi with rfl | h
    · refine le_trans ?_ (le_maxGoR_acc ic _ js)
      rw [stepR_v]; exact le_max_right _ _
    · exact ih _ h

theorem maxGoR_le (ic : Nat → RVal R) (acc : RVal R) (M : ℝ) (l : List Nat) (hacc : acc.v ≤ M)
    (hl : ∀ i ∈ l, (ic i).v ≤ M) : (maxGo ic acc l).v ≤ M := by
  induction l generalizing acc with
  | nil => simpa [maxGo] using hacc
  | cons j js ih =>
    simp only [maxGo]
    apply ih
    · rw [stepR_v]; exact max_le hacc (hl j (by simp))
    · intro i hi; exact hl i (by simp [hi])

theorem maxGoR_attained (ic : Nat → RVal R) (acc : RVal R) (l : List Nat) :
    maxGo ic acc l = acc ∨ ∃ i ∈ l, maxGo ic acc l = ic i := by
  induction l generalizing acc with
  | nil => left; rfl
  | cons j js ih =>
    simp only [maxGo]
    rcases ih (if Num.lt acc (ic j) then ic j else acc) with h | ⟨i, hi, h⟩
    · by_cases hlt : Num.lt acc (ic j) = true
      · right; exact ⟨j, by simp, by rw [h, if_pos hlt]⟩
      · left; rw [h, if_neg hlt]
    · right; exact ⟨i, by simp [hi], h⟩

/-! ### Resnik: exact under every rounding (comparisons only) -/

theorem resnikR_nonneg (ic : Nat → RVal R) (a b : Term) : 0 ≤ (resnik ic a b).v := by
  have := le_maxGoR_acc ic (Num.ofNat 0) (a.allCommonAncestorIds b)
  simpa [resnik] using this

theorem resnikR_comm (ic : Nat → RVal R) (a b : Term) (ha : Sorted a.allParents)
    (hb : Sorted b.allParents) : resnik ic a b = resnik ic b a := by
  simp only [resnik, common_comm a b ha hb]

/-- ic of an ancestor never exceeds the ic of a term with positive ic (C03's monotonicity, which
holds for the rounded information content as well: `C03_monotone_counts_rounded`) -/
def MonoR (ic : Nat → RVal R) (t : Term) : Prop :=
  0 < (ic t.id).v → ∀ c ∈ t.allParents, (ic c).v ≤ (ic t.id).v

theorem resnikR_le_left (ic : Nat → RVal R) (a b : Term) (hm : MonoR ic a) (hpos : 0 < (ic a.id).v) :
    (resnik ic a b).v ≤ (ic a.id).v := by
  unfold resnik
  apply maxGoR_le
  · simpa using hpos.le
  · intro c hc
    rcases ((mem_common a b c).1 hc).1 with rfl | h
    · exact le_refl _
    · exact hm hpos c h

theorem resnikR_le_right (ic : Nat → RVal R) (a b : Term) (hm : MonoR ic b) (hpos : 0 < (ic b.id).v) :
    (resnik ic a b).v ≤ (ic b.id).v := by
  unfold resnik
  apply maxGoR_le
  · simpa using hpos.le
  · intro c hc
    rcases ((mem_common a b c).1 hc).2 with rfl | h
    · exact le_refl _
    · exact hm hpos c h

/-- the ROUNDED Jiang-Conrath denominator `rnd (rnd (rnd (ic a + ic b) - rnd (2 * resnik)) + 1)`
is at least 1 once both guards are passed: `2 * resnik ≤ ic a + ic b` survives the two roundings
by monotonicity, so the rounded difference is ≥ 0, and `rnd (x + 1) ≥ rnd 1 = 1` -/
theorem jcDenomR_ge_one (ic : Nat → RVal R) (a b : Term) (hn : ∀ i, 0 ≤ (ic i).v)
    (hma : MonoR ic a) (hmb : MonoR ic b) (h1 : (ic a.id).v ≠ 0) (h2 : (ic b.id).v ≠ 0) :
    1 ≤ (jcDenom ic a b).v := by
  have p1 : 0 < (ic a.id).v := lt_of_le_of_ne (hn _) (Ne.symm h1)
  have p2 : 0 < (ic b.id).v := lt_of_le_of_ne (hn _) (Ne.symm h2)
  have r1 := resnikR_le_left ic a b hma p1
  have r2 := resnikR_le_right ic a b hmb p2
  simp only [jcDenom, add_v, sub_v, mul_v, ofNat_two_v, ofNat_one_v]
  apply R.one_le_rnd
  have hle : R.rnd (2 * (resnik ic a b).v) ≤ R.rnd ((ic a.id).v + (ic b.id).v) :=
    R.mono (by linarith)
  have : 0 ≤ R.rnd (R.rnd ((ic a.id).v + (ic b.id).v) - R.rnd (2 * (resnik ic a b).v)) :=
    R.rnd_nonneg (by linarith)
  linarith

/-! ### the eight algorithms: defined and non-negative -/

theorem graphIcR_defined_nonneg (ic : Nat → RVal R) (a b : Term) (hn : ∀ i, 0 ≤ (ic i).v) :
    ∃ v, graphIc ic a b = some v ∧ 0 ≤ v.v := by
  unfold graphIc
  by_cases h : a.id = b.id
  · exact ⟨Num.ofNat 1, by simp [h], by simp⟩
  · by_cases hz : (sumIc ic (a.unionAncestorIds b)).v = 0
    · exact ⟨Num.ofNat 0, by simp [h, hz], by simp⟩
    · refine ⟨_, by simp only [h, if_false, isZero_eq, hz, decide_false, Bool.false_eq_true]; exact div?_of_ne _ hz, ?_⟩
      exact R.rnd_nonneg (div_nonneg (sumIcR_nonneg ic hn _) (sumIcR_nonneg ic hn _))

theorem linR_defined_nonneg (ic : Nat → RVal R) (a b : Term) (hn : ∀ i, 0 ≤ (ic i).v) :
    ∃ v, lin ic a b = some v ∧ 0 ≤ v.v := by
  unfold lin
  by_cases hz : (Num.add (ic a.id) (ic b.id)).v = 0
  · exact ⟨Num.ofNat 0, by simp only [isZero_eq, hz, decide_true, if_true], by simp⟩
  · refine ⟨_, by simp only [isZero_eq, hz, decide_false, Bool.false_eq_true, if_false]; exact div?_of_ne _ hz, ?_⟩
    apply R.rnd_nonneg
    apply div_nonneg
    · apply NumR.mul_nonneg (by simp) (resnikR_nonneg ic a b)
    · exact NumR.add_nonneg (hn _) (hn _)

theorem jcR_defined_range (ic : Nat → RVal R) (a b : Term) (hn : ∀ i, 0 ≤ (ic i).v)
    (hma : MonoR ic a) (hmb : MonoR ic b) :
    ∃ v, jc ic a b = some v ∧ 0 ≤ v.v ∧ v.v ≤ 1 := by
  unfold jc
  by_cases h : a.id = b.id
  · exact ⟨Num.ofNat 1, by simp [h], by simp, by simp⟩
  · by_cases h1 : (ic a.id).v = 0
    · exact ⟨Num.ofNat 0, by simp [h, h1], by simp, by simp⟩
    · by_cases h2 : (ic b.id).v = 0
      · exact ⟨Num.ofNat 0, by simp [h, h2], by simp, by simp⟩
      · have hd := jcDenomR_ge_one ic a b hn hma hmb h1 h2
        have hpos : 0 < (jcDenom ic a b).v := by linarith
        have hne : (jcDenom ic a b).v ≠ 0 := ne_of_gt hpos
        refine ⟨_, by simp only [h, if_false, isZero_eq, h1, h2, decide_false, Bool.or_self,
          Bool.false_eq_true]; exact div?_of_ne _ hne, ?_, ?_⟩
        · exact R.rnd_nonneg (div_nonneg (by simp) hpos.le)
        · apply R.rnd_le_one
          rw [div_le_one hpos]; simpa using hd

theorem relevanceR_defined_nonneg (ic : Nat → RVal R) (a b : Term) (hn : ∀ i, 0 ≤ (ic i).v) :
    ∃ v, relevance ic a b = some v ∧ 0 ≤ v.v := by
  obtain ⟨l, hl, hl0⟩ := linR_defined_nonneg ic a b hn
  refine ⟨_, by simp only [relevance, hl, Option.map_some]; rfl, ?_⟩
  apply NumR.mul_nonneg hl0
  simp only [sub_v, ofNat_one_v, exp_v]
  apply R.rnd_nonneg
  have := R.ex_le_one _ (NumR.neg_nonpos (resnikR_nonneg ic a b))
  linarith

theorem infoCoefR_defined_nonneg (ic : Nat → RVal R) (a b : Term) (hn : ∀ i, 0 ≤ (ic i).v) :
    ∃ v, infoCoef ic a b = some v ∧ 0 ≤ v.v := by
  obtain ⟨l, hl, hl0⟩ := linR_defined_nonneg ic a b hn
  have hd : 1 ≤ (Num.add (Num.ofNat 1) (resnik ic a b) : RVal R).v := by
    simp only [add_v, ofNat_one_v]
    apply R.one_le_rnd
    linarith [resnikR_nonneg ic a b]
  have hpos : 0 < (Num.add (Num.ofNat 1) (resnik ic a b) : RVal R).v := by linarith
  refine ⟨_, by simp only [infoCoef, hl, Option.bind_some, div?_of_ne _ (ne_of_gt hpos),
    Option.map_some]; rfl, ?_⟩
  apply NumR.mul_nonneg hl0
  simp only [sub_v, ofNat_one_v]
  apply R.rnd_nonneg
  have : R.rnd (1 / (Num.add (Num.ofNat 1) (resnik ic a b) : RVal R).v) ≤ 1 := by
    apply R.rnd_le_one
    rw [div_le_one hpos]; exact hd
  linarith

theorem distanceSimR_defined_range (d : Option Nat) :
    ∃ v : RVal R, distanceSim d = some v ∧ 0 ≤ v.v ∧ v.v ≤ 1 := by
  cases d with
  | none => exact ⟨Num.ofNat 0, rfl, by simp, by simp⟩
  | some n =>
    have hd : 1 ≤ (Num.add (Num.ofNat n) (Num.ofNat 1) : RVal R).v := by
      simp only [add_v, ofNat_one_v]
      apply R.one_le_rnd
      have := R.rnd_nat_nonneg n
      simp only [ofNat_v]
      linarith
    have hpos : 0 < (Num.add (Num.ofNat n) (Num.ofNat 1) : RVal R).v := by linarith
    refine ⟨_, by simp only [distanceSim]; exact div?_of_ne _ (ne_of_gt hpos), ?_, ?_⟩
    · exact R.rnd_nonneg (div_nonneg (by simp) hpos.le)
    · apply R.rnd_le_one
      rw [div_le_one hpos]; simpa using hd

theorem distanceSimR_self : (distanceSim (some 0) : Option (RVal R)) = some (Num.ofNat 1) := by
  have h1 : (Num.add (Num.ofNat 0) (Num.ofNat 1) : RVal R).v = 1 := by
    simp [R.rnd_one]
  simp only [distanceSim]
  rw [div?_of_ne _ (by rw [h1]; exact one_ne_zero)]
  congr 1
  apply RVal.ext'
  simp [h1, R.rnd_one]

/-- `|A ∩ B| / |A ∪ B|` with both counts converted (rounded) first: for a non-empty union the
converted count is ≥ 1, whatever its size -/
theorem ratioR_defined_nonneg (x y : List Nat) :
    ∃ v : RVal R, (if (bitor x y).isEmpty then some (Num.ofNat 0)
        else Num.div? (Num.ofNat (bitand x y).length) (Num.ofNat (bitor x y).length)) = some v ∧
      0 ≤ v.v := by
  by_cases h : bitor x y = []
  · exact ⟨Num.ofNat 0, by simp [h], by simp⟩
  · have hl : 0 < (bitor x y).length := List.length_pos_iff.2 h
    have hd : 1 ≤ (Num.ofNat (bitor x y).length : RVal R).v := by
      simp only [ofNat_v]; exact R.one_le_rnd_nat hl
    have hpos : 0 < (Num.ofNat (bitor x y).length : RVal R).v := by linarith
    refine ⟨_, by simp only [List.isEmpty_iff, h, if_false]; exact div?_of_ne _ (ne_of_gt hpos), ?_⟩
    exact R.rnd_nonneg (div_nonneg (R.rnd_nat_nonneg _) hpos.le)

theorem mutationR_defined_nonneg (k : Kind) (a b : Term) :
    ∃ v : RVal R, mutation k a b = some v ∧ 0 ≤ v.v := by
  unfold mutation
  by_cases h : a.id = b.id
  · exact ⟨Num.ofNat 1, by simp [h], by simp⟩
  · cases k <;> simp only [h, if_false, mutationGene, mutationDisease] <;>
      exact ratioR_defined_nonneg _ _

/-! ### argument order: exact symmetry under every rounding -/

theorem graphIcR_symm (ic : Nat → RVal R) (a b : Term) (ha : Sorted a.allParents)
    (hb : Sorted b.allParents) : graphIc ic a b = graphIc ic b a := by
  unfold graphIc
  rw [common_comm a b ha hb, union_comm a b ha hb]
  by_cases h : a.id = b.id
  · simp [h]
  · have h' : ¬ b.id = a.id := fun e => h e.symm
    simp [h, h']

theorem linR_symm (ic : Nat → RVal R) (a b : Term) (ha : Sorted a.allParents)
    (hb : Sorted b.allParents) : lin ic a b = lin ic b a := by
  unfold lin
  rw [resnikR_comm ic a b ha hb, NumR.add_comm (ic a.id)]

theorem jcR_symm (ic : Nat → RVal R) (a b : Term) (ha : Sorted a.allParents)
    (hb : Sorted b.allParents) : jc ic a b = jc ic b a := by
  unfold jc jcDenom
  rw [resnikR_comm ic a b ha hb, NumR.add_comm (ic a.id), Bool.or_comm]
  by_cases h : a.id = b.id
  · simp [h]
  · have h' : ¬ b.id = a.id := fun e => h e.symm
    simp only [h, h', if_false]

theorem relevanceR_symm (ic : Nat → RVal R) (a b : Term) (ha : Sorted a.allParents)
    (hb : Sorted b.allParents) : relevance ic a b = relevance ic b a := by
  unfold relevance
  rw [linR_symm ic a b ha hb, resnikR_comm ic a b ha hb]

theorem infoCoefR_symm (ic : Nat → RVal R) (a b : Term) (ha : Sorted a.allParents)
    (hb : Sorted b.allParents) : infoCoef ic a b = infoCoef ic b a := by
  unfold infoCoef
  rw [linR_symm ic a b ha hb, resnikR_comm ic a b ha hb]

theorem mutationR_symm (k : Kind) (a b : Term) (ha : Sorted (a.ann k)) (hb : Sorted (b.ann k)) :
    (mutation k a b : Option (RVal R)) = mutation k b a := by
  unfold mutation
  by_cases h : a.id = b.id
  · simp [h]
  · have h' : ¬ b.id = a.id := fun e => h e.symm
    cases k <;> simp only [Term.ann] at ha hb <;>
      simp only [h, h', if_false, mutationGene, mutationDisease] <;>
      rw [bitor_comm' _ _ ha hb, bitand_comm' _ _ ha hb]

end Sim
end Hpo
