import HpoProofs.TextRefine
/-!
`Ontology::from_bytes` on ARBITRARY well-formed record sets is a builder run.

`Onto.loadFacts fv f` (the builder steps of `from_bytes` on decoded records, `HpoModel/Load.lean`) is
shown to be — literally, state by state — the checked Builder-API program of C01 / C02 / C16 over the
records in file order:

* one `BOp.term` per term record, one `BOp.parent` per (term, parent) pair of the parent records
  (`add_parent_unchecked` on present ids = `add_parent`), `connect_all_terms`;
* per gene / disease record `add_gene(name, id)` followed by one `annotate_*` call per listed term
  (deduplicated, ascending: the `HpoGroup` the loader collects them into) — `from_bytes` links first
  and inserts the record afterwards, the Builder inserts first; with record ids that are distinct
  inside a section the two orders produce the same state (`addRecsFromBytes_eq_annotateSeq`);
* `calculate_information_content`, `build_with_defaults`.

The hypotheses (`WFRecords`) are on the records only; no ontology is assumed to have written them.
Order independence and `Reachable` then follow from `C16_*` / `reachable_of_builder` exactly as for the
text loaders (`HpoProofs/TextRefine.lean`).
-/
namespace Hpo
namespace Binary
open Group Relation Hpo.C01 Hpo.C02 Hpo.C16 Hpo.Text

/-! ### `link_*_term` neither reads nor writes the record maps -/

theorem get_setRecs (o : Onto) (k : Kind) (v : List Rec) (i : Nat) : (o.setRecs k v).get i = o.get i := by
  cases k <;> rfl

theorem linkFuel_setRecs (o : Onto) (k : Kind) (v : List Rec) : (o.setRecs k v).linkFuel = o.linkFuel := by
  cases k <;> rfl

theorem setRecs_setRecs (o : Onto) (k : Kind) (v w : List Rec) : (o.setRecs k v).setRecs k w = o.setRecs k w := by
  cases k <;> rfl

theorem linkFold_setRecs (k' : Kind) (v : List Rec) (rec : Onto → Nat → Res Onto)
    (hrec : ∀ o i, rec (o.setRecs k' v) i = mapR (fun x => x.setRecs k' v) (rec o i)) :
    ∀ (ps : List Nat) (o : Onto),
      Onto.linkFold rec ps (o.setRecs k' v) = mapR (fun x => x.setRecs k' v) (Onto.linkFold rec ps o) := by
  intro ps
  induction ps with
  | nil => intro o; rfl
  | cons p ps ih =>
    intro o
    simp only [Onto.linkFold, hrec]
    cases rec o p with
    | ok o' => simp only [mapR_ok, Res.bind]; exact ih o'
    | err e => rfl
    | panic => rfl
    | diverge => rfl

theorem link_setRecs (k' : Kind) (v : List Rec) (k : Kind) (r : Nat) :
    ∀ (fuel : Nat) (o : Onto) (t : Nat),
      Onto.link k r fuel (o.setRecs k' v) t = mapR (fun x => x.setRecs k' v) (Onto.link k r fuel o t) := by
  intro fuel
  induction fuel with
  | zero => intro o t; rfl
  | succ fuel ih =>
    intro o t
    simp only [Onto.link, get_setRecs]
    cases o.get t with
    | none => rfl
    | some tm =>
      simp only
      split
      · have e : ({ o.setRecs k' v with
            terms := modT (o.setRecs k' v).terms t (fun x => x.setAnn k (Group.insert (tm.ann k) r).1) } : Onto) =
            ({ o with terms := modT o.terms t (fun x => x.setAnn k (Group.insert (tm.ann k) r).1) } : Onto).setRecs k' v := by
          cases k' <;> rfl
        rw [e]
        exact linkFold_setRecs k' v _ ih tm.allParents _
      · rfl

theorem linkFold_rest (rec : Onto → Nat → Res Onto)
    (hrec : ∀ o i o', rec o i = .ok o' → o' = { o with terms := o'.terms }) :
    ∀ (ps : List Nat) (o o' : Onto), Onto.linkFold rec ps o = .ok o' → o' = { o with terms := o'.terms } := by
  intro ps
  induction ps with
  | nil => intro o o' h; simp only [Onto.linkFold, Res.ok.injEq] at h; subst h; rfl
  | cons p ps ih =>
    intro o o' h
    simp only [Onto.linkFold] at h
    obtain ⟨o1, h1, h2⟩ := Res.bind_eq_ok h
    have e1 := hrec o p o1 h1
    have e2 := ih o1 o' h2
    rw [e2, e1]

theorem link_rest (k : Kind) (r : Nat) :
    ∀ (fuel : Nat) (o : Onto) (t : Nat) (o' : Onto), Onto.link k r fuel o t = .ok o' →
      o' = { o with terms := o'.terms } := by
  intro fuel
  induction fuel with
  | zero => intro o t o' h; simp [Onto.link] at h
  | succ fuel ih =>
    intro o t o' h
    simp only [Onto.link] at h
    split at h
    · simp at h
    · split at h
      · have := linkFold_rest _ ih _ _ _ h
        rw [this]
      · simp only [Res.ok.injEq] at h; subst h; rfl

theorem linkAll_rest (k : Kind) (r : Nat) :
    ∀ (ts : List Nat) (o o' : Onto), Onto.linkAll k r ts o = .ok o' → o' = { o with terms := o'.terms } := by
  intro ts
  induction ts with
  | nil => intro o o' h; simp only [Onto.linkAll, Res.ok.injEq] at h; subst h; rfl
  | cons t ts ih =>
    intro o o' h
    simp only [Onto.linkAll] at h
    obtain ⟨o1, h1, h2⟩ := Res.bind_eq_ok h
    have e1 := link_rest k r _ o t o1 h1
    have e2 := ih o1 o' h2
    rw [e2, e1]

/-! ### one gene / disease record: "link, then insert" = "insert, then annotate" -/

/-- the record `add_genes_from_bytes` stores -/
def mkRec (id : Nat) (name : List Char) (hpos : List Nat) : Rec := { id := id, name := name, hpos := hpos }

theorem modR_fresh (rs : List Rec) (i : Nat) (f : Rec → Rec) (h : getR rs i = none) : modR rs i f = rs := by
  induction rs with
  | nil => rfl
  | cons r rs ih =>
    simp only [getR] at h
    split at h
    · cases h
    · rename_i hne
      simp only [modR, hne, ↓reduceIte, ih h]

theorem modR_append_fresh (rs : List Rec) (x : Rec) (f : Rec → Rec) (h : getR rs x.id = none) :
    modR (rs ++ [x]) x.id f = rs ++ [f x] := by
  induction rs with
  | nil => simp [modR]
  | cons r rs ih =>
    simp only [getR] at h
    split at h
    · cases h
    · rename_i hne
      simp only [List.cons_append, modR, hne, ↓reduceIte, ih h]

/-- the annotate calls of one record on the state where the record is already in the map (id fresh
before) are the `link` calls of `from_bytes` on the state without the record -/
theorem annotateSeq_record (k : Kind) (id : Nat) (name : List Char) :
    ∀ (ts : List Nat) (o : Onto) (h : List Nat), getR (o.recs k) id = none →
      annotateSeq (ts.map (fun t => AOp.annotate k id name t)) (o.setRecs k (o.recs k ++ [mkRec id name h])) =
        (Onto.linkAll k id ts o).bind fun o' =>
          .ok (o'.setRecs k (o.recs k ++ [mkRec id name (Group.insertAll h ts)])) := by
  intro ts
  induction ts with
  | nil => intro o h _; rfl
  | cons t ts ih =>
    intro o h hfresh
    simp only [List.map_cons, annotateSeq, Onto.linkAll]
    have hget : getR (o.recs k ++ [mkRec id name h]) id = some (mkRec id name h) := by
      rw [getR_append, hfresh]; simp [mkRec]
    unfold Onto.annotate
    rw [get_setRecs]
    cases hg : o.get t with
    | none =>
      simp only [Onto.link, Onto.linkFuel, hg, Res.bind]
    | some tm =>
      simp only
      have hadd : (o.setRecs k (o.recs k ++ [mkRec id name h])).addTermToRec k name id t =
          o.setRecs k (o.recs k ++ [mkRec id name (Group.insert h t).1]) := by
        have h1 : (o.setRecs k (o.recs k ++ [mkRec id name h])).addRec k name id =
            o.setRecs k (o.recs k ++ [mkRec id name h]) := by
          simp only [Onto.addRec, recs_setRecs, addR, hget, setRecs_setRecs]
        unfold Onto.addTermToRec
        rw [h1, recs_setRecs, setRecs_setRecs]
        have := modR_append_fresh (o.recs k) (mkRec id name h)
          (fun r => { r with hpos := (Group.insert r.hpos t).1 }) hfresh
        simp only [mkRec] at this ⊢
        rw [this]
      rw [hadd, linkFuel_setRecs, link_setRecs]
      cases hl : Onto.link k id o.linkFuel o t with
      | ok o1 =>
        simp only [mapR_ok, Res.bind]
        have hrest := link_rest k id _ o t o1 hl
        have hr1 : o1.recs k = o.recs k := recs_of_rest hrest k
        have := ih o1 (Group.insert h t).1 (by rw [hr1]; exact hfresh)
        rw [hr1] at this
        rw [this]
        rfl
      | err e => rfl
      | panic => rfl
      | diverge => rfl

/-! ### a whole section -/

/-- the Builder calls of one record: `add_gene(name, id)` (also for a record without terms), then
`annotate_gene(id, name, term)` for each listed term, deduplicated and ascending -/
def recOpsOf (k : Kind) (r : Rec) : List AOp :=
  .addRec k r.name r.id :: (Group.ofList r.hpos).map (fun t => AOp.annotate k r.id r.name t)

/-- … of a section, in file order -/
def recOps (k : Kind) : List Rec → List AOp
  | [] => []
  | r :: rs => recOpsOf k r ++ recOps k rs

theorem insertAll_nil_ofList (l : List Nat) : Group.insertAll [] (Group.ofList l) = Group.ofList l := by
  have h : Group.insertAll [] (Group.ofList l) = Group.ofList (Group.ofList l) := rfl
  rw [h, ofList_of_sorted _ (sorted_ofList l)]

/-- **`add_genes_from_bytes` is a Builder call history** (same for the two disease sections): with
record ids distinct inside the section and not yet in the map, linking every listed term and then
`HashMap::insert`ing the record is, record by record, the same state transition as `add_gene` followed
by the `annotate_gene` calls — including every failure (`DoesNotExist` for an unknown term). -/
theorem addRecsFromBytes_eq_annotateSeq (k : Kind) :
    ∀ (rs : List Rec) (o : Onto), (rs.map (·.id)).Nodup → (∀ r ∈ rs, getR (o.recs k) r.id = none) →
      Onto.addRecsFromBytes k rs o = annotateSeq (recOps k rs) o := by
  intro rs
  induction rs with
  | nil => intro o _ _; rfl
  | cons r rs ih =>
    intro o hnd hfresh
    simp only [List.map_cons, List.nodup_cons] at hnd
    have hfr0 := hfresh r (by simp)
    simp only [Onto.addRecsFromBytes, recOps, recOpsOf, List.cons_append, annotateSeq, annotateSeq_append]
    have hadd : o.addRec k r.name r.id = o.setRecs k (o.recs k ++ [mkRec r.id r.name []]) := by
      simp only [Onto.addRec, addR, hfr0, mkRec]
    rw [hadd, annotateSeq_record k r.id r.name _ o [] hfr0, insertAll_nil_ofList]
    cases hl : Onto.linkAll k r.id (Group.ofList r.hpos) o with
    | ok o1 =>
      simp only [Res.bind]
      have hr1 : o1.recs k = o.recs k := recs_of_rest (linkAll_rest k r.id _ o o1 hl) k
      have hput : putR (o1.recs k) { r with hpos := Group.ofList r.hpos } =
          o.recs k ++ [mkRec r.id r.name (Group.ofList r.hpos)] := by
        have : getR (o.recs k) ({ r with hpos := Group.ofList r.hpos } : Rec).id = none := hfr0
        simp only [putR, hr1, this, mkRec]
      rw [hput]
      apply ih _ hnd.2
      intro r' hr'
      rw [recs_setRecs, getR_append, hfresh r' (by simp [hr'])]
      have : ¬ (mkRec r.id r.name (Group.ofList r.hpos)).id = r'.id := by
        intro e; exact hnd.1 (List.mem_map.2 ⟨r', hr', e.symm⟩)
      simp [this]
    | err e => rfl
    | panic => rfl
    | diverge => rfl

theorem addRecsFromBytes_recs_ne (k : Kind) :
    ∀ (rs : List Rec) (o o' : Onto), Onto.addRecsFromBytes k rs o = .ok o' →
      ∀ k', k' ≠ k → o'.recs k' = o.recs k' := by
  intro rs
  induction rs with
  | nil => intro o o' h k' _; simp only [Onto.addRecsFromBytes, Res.ok.injEq] at h; subst h; rfl
  | cons r rs ih =>
    intro o o' h k' hk
    simp only [Onto.addRecsFromBytes] at h
    obtain ⟨o1, h1, h2⟩ := Res.bind_eq_ok h
    rw [ih _ _ h2 k' hk, recs_setRecs_ne _ _ _ _ hk, recs_of_rest (linkAll_rest k r.id _ o o1 h1) k']

theorem mem_recOps (k : Kind) (rs : List Rec) (op : AOp) :
    op ∈ recOps k rs ↔ ∃ r ∈ rs, op = .addRec k r.name r.id ∨ ∃ t ∈ r.hpos, op = .annotate k r.id r.name t := by
  induction rs with
  | nil => simp [recOps]
  | cons r rs ih =>
    simp only [recOps, recOpsOf, List.cons_append, List.mem_cons, List.mem_append, List.mem_map, ih,
      mem_ofList, exists_eq_or_imp]
    constructor
    · rintro (h | ⟨t, ht, rfl⟩ | h)
      · exact Or.inl (Or.inl h)
      · exact Or.inl (Or.inr ⟨t, ht, rfl⟩)
      · exact Or.inr h
    · rintro ((h | ⟨t, ht, rfl⟩) | h)
      · exact Or.inl h
      · exact Or.inr (Or.inl ⟨t, ht, rfl⟩)
      · exact Or.inr (Or.inr h)

theorem recOps_perm (k : Kind) {r1 r2 : List Rec} (h : r1.Perm r2) : (recOps k r1).Perm (recOps k r2) := by
  induction h with
  | nil => exact List.Perm.refl _
  | cons x _ ih => simp only [recOps]; exact ih.append_left _
  | swap x y l =>
    simp only [recOps, ← List.append_assoc]
    exact List.perm_append_comm.append_right _
  | trans _ _ ih1 ih2 => exact ih1.trans ih2

/-! ### the records of a file as Builder facts -/

/-- the term fact a term record states -/
def termFactOf (t : Term) : TermFact := ⟨t.name, t.id, t.obsolete, t.replacement⟩

/-- `new_term` facts of a file, in file order -/
def fileFacts (f : RawFacts) : List TermFact := f.terms.map termFactOf
/-- is_a facts `(parent, child)` of a file, one per entry of a parent record, in file order -/
def fileEdges (f : RawFacts) : List EdgeFact := edgesOf f.parents
/-- annotation calls of a file: genes, then OMIM, then ORPHA diseases, in file order -/
def fileAOps (f : RawFacts) : List AOp := recOps .gene f.genes ++ (recOps .omim f.omim ++ recOps .orpha f.orpha)

/-- the id is the id of a term record of the file -/
def IsTerm (f : RawFacts) (j : Nat) : Prop := ∃ t ∈ f.terms, t.id = j

/-- a decoded term record carries id, name, obsolete flag and replacement and nothing else -/
def BareRecs (f : RawFacts) : Prop := ∀ t ∈ f.terms, t = (termFactOf t).term

/-- **Well-formed record set**: what makes `from_bytes` succeed with an ontology that does not depend
on the order of the records (explicit, checkable conditions on the records; no ontology is assumed to
have written them). -/
structure WFRecords (f : RawFacts) : Prop where
  /-- one term fact per term id: two term records with the same id agree in name, obsolete flag and
  replacement (`Arena::insert` keeps the first one) -/
  termsFun : ∀ t ∈ f.terms, ∀ u ∈ f.terms, t.id = u.id → termFactOf t = termFactOf u
  /-- the term of a parent record and every parent it lists are terms of the file
  (`add_parent_unchecked` does not check) -/
  parentsClosed : ∀ r ∈ f.parents, IsTerm f r.1 ∧ ∀ p ∈ r.2, IsTerm f p
  /-- no is_a cycle: some rank strictly decreases from a term to each listed parent -/
  acyclic : ∃ rank : Nat → Nat, ∀ r ∈ f.parents, ∀ p ∈ r.2, rank p < rank r.1
  /-- record ids are distinct inside each of the three sections (`HashMap::insert` replaces) -/
  recIds : ∀ k, ((factRecs f k).map (·.id)).Nodup
  /-- every term a gene / disease record lists is a term of the file -/
  recTerms : ∀ k, ∀ r ∈ factRecs f k, ∀ d ∈ r.hpos, IsTerm f d
  /-- at most 65 535 records per section (`calculate_information_content` converts via `u16`) -/
  fit : ∀ k, (factRecs f k).length ≤ 65535
  /-- `HP:0000001` and `HP:0000118` are terms (`build_with_defaults`) -/
  root : IsTerm f 1
  phenotype : IsTerm f Onto.phenotypeId

theorem isTerm_iff (f : RawFacts) (j : Nat) : IsTerm f j ↔ ∃ x ∈ fileFacts f, x.id = j := by
  simp only [IsTerm, fileFacts, List.mem_map]
  constructor
  · rintro ⟨t, ht, e⟩; exact ⟨termFactOf t, ⟨t, ht, rfl⟩, e⟩
  · rintro ⟨x, ⟨t, ht, rfl⟩, e⟩; exact ⟨t, ht, e⟩

theorem WFRecords.functional {f : RawFacts} (W : WFRecords f) : Functional (fileFacts f) := by
  intro x hx y hy e
  obtain ⟨t, ht, rfl⟩ := List.mem_map.1 hx
  obtain ⟨u, hu, rfl⟩ := List.mem_map.1 hy
  exact W.termsFun t ht u hu e

theorem WFRecords.acyclicEdges {f : RawFacts} (W : WFRecords f) : AcyclicEdges (fileEdges f) := by
  obtain ⟨rank, hr⟩ := W.acyclic
  refine ⟨rank, ?_⟩
  rintro ⟨p, c⟩ he
  obtain ⟨ps, hm, hp⟩ := (mem_edgesOf f.parents p c).1 he
  exact hr (c, ps) hm p hp

/-- a call of the file concerns a record of the section of its kind -/
theorem mem_fileAOps (f : RawFacts) (op : AOp) :
    op ∈ fileAOps f ↔ ∃ k, ∃ r ∈ factRecs f k,
      op = .addRec k r.name r.id ∨ ∃ t ∈ r.hpos, op = .annotate k r.id r.name t := by
  simp only [fileAOps, List.mem_append, mem_recOps]
  constructor
  · rintro (h | h | h)
    · exact ⟨.gene, h⟩
    · exact ⟨.omim, h⟩
    · exact ⟨.orpha, h⟩
  · rintro ⟨k, h⟩
    cases k
    · exact Or.inl h
    · exact Or.inr (Or.inl h)
    · exact Or.inr (Or.inr h)

theorem WFRecords.countsFit {f : RawFacts} (W : WFRecords f) : CountsFit (fileAOps f) := by
  intro k ids hnd hall
  have hsub : ids ⊆ (factRecs f k).map (·.id) := by
    intro i hi
    obtain ⟨op, hop, he⟩ := hall i hi
    obtain ⟨k', r, hr, h⟩ := (mem_fileAOps f op).1 hop
    rcases h with rfl | ⟨t, _, rfl⟩
    · simp only [AOp.recId, Prod.mk.injEq] at he
      obtain ⟨rfl, rfl⟩ := he
      exact List.mem_map_of_mem hr
    · simp only [AOp.recId, Prod.mk.injEq] at he
      obtain ⟨rfl, rfl⟩ := he
      exact List.mem_map_of_mem hr
  have := List.Nodup.length_le_of_subset hnd hsub
  simp only [List.length_map] at this
  exact Nat.le_trans this (W.fit k)

/-- the name the file gives record `r` of kind `k` -/
def fileNameOf (f : RawFacts) (k : Kind) (r : Nat) : List Char := ((getR (factRecs f k) r).map (·.name)).getD []

theorem WFRecords.names {f : RawFacts} (W : WFRecords f) : NamesFunctional (fileNameOf f) (fileAOps f) := by
  intro op hop k r n hnm
  obtain ⟨k0, r0, hr0, h⟩ := (mem_fileAOps f op).1 hop
  have hg := getR_of_mem_nodup (W.recIds k0) hr0
  rcases h with rfl | ⟨t, _, rfl⟩
  · simp only [AOp.nameFor] at hnm
    split at hnm
    · rename_i hkr; obtain ⟨rfl, rfl⟩ := hkr
      rw [← Option.some.inj hnm]; simp [fileNameOf, hg]
    · cases hnm
  · simp only [AOp.nameFor] at hnm
    split at hnm
    · rename_i hkr; obtain ⟨rfl, rfl⟩ := hkr
      rw [← Option.some.inj hnm]; simp [fileNameOf, hg]
    · cases hnm

theorem WFRecords.known {f : RawFacts} (W : WFRecords f) : ∀ op ∈ fileAOps f, op.Known (IsTerm f) := by
  intro op hop
  obtain ⟨k, r, hr, h⟩ := (mem_fileAOps f op).1 hop
  rcases h with rfl | ⟨t, ht, rfl⟩
  · trivial
  · exact W.recTerms k r hr t ht

theorem factRecs_perm' {f g : RawFacts} (hp : FactsPerm f g) (k : Kind) : (factRecs f k).Perm (factRecs g k) :=
  factRecs_perm hp k

theorem fileAOps_perm {f g : RawFacts} (hp : FactsPerm f g) : (fileAOps f).Perm (fileAOps g) :=
  (recOps_perm .gene hp.genes).append ((recOps_perm .omim hp.omim).append (recOps_perm .orpha hp.orpha))

theorem WFRecords.perm {f g : RawFacts} (W : WFRecords f) (hp : FactsPerm f g) : WFRecords g := by
  have hst : ∀ j, IsTerm f j → IsTerm g j := by
    rintro j ⟨t, ht, e⟩; exact ⟨t, hp.terms.mem_iff.1 ht, e⟩
  refine ⟨fun t ht u hu => W.termsFun t (hp.terms.mem_iff.2 ht) u (hp.terms.mem_iff.2 hu), ?_, ?_, ?_, ?_, ?_,
    hst _ W.root, hst _ W.phenotype⟩
  · intro r hr
    obtain ⟨h1, h2⟩ := W.parentsClosed r (hp.parents.mem_iff.2 hr)
    exact ⟨hst _ h1, fun p hp' => hst _ (h2 p hp')⟩
  · obtain ⟨rank, hr⟩ := W.acyclic
    exact ⟨rank, fun r hr' => hr r (hp.parents.mem_iff.2 hr')⟩
  · intro k; exact ((factRecs_perm hp k).map _).nodup_iff.1 (W.recIds k)
  · intro k r hr d hd; exact hst _ (W.recTerms k r ((factRecs_perm hp k).mem_iff.2 hr) d hd)
  · intro k; rw [← (factRecs_perm hp k).length_eq]; exact W.fit k

/-! ### what a file of format version `fv` carries -/

theorem projTerm_bare (fv : Nat) (t : Term) : projTerm fv t = (termFactOf (projTerm fv t)).term := by
  unfold projTerm; split <;> rfl

theorem bareRecs_projFacts (fv : Nat) (f : RawFacts) : BareRecs (projFacts fv f) := by
  intro t ht
  obtain ⟨t0, _, rfl⟩ := List.mem_map.1 ht
  exact projTerm_bare fv t0

theorem projTerm_id (fv : Nat) (t : Term) : (projTerm fv t).id = t.id := by
  unfold projTerm; split <;> rfl

theorem isTerm_projFacts (fv : Nat) (f : RawFacts) (j : Nat) : IsTerm (projFacts fv f) j ↔ IsTerm f j := by
  simp only [IsTerm, projFacts, List.mem_map]
  constructor
  · rintro ⟨t, ⟨t0, ht0, rfl⟩, e⟩; exact ⟨t0, ht0, by rw [← e, projTerm_id]⟩
  · rintro ⟨t, ht, e⟩; exact ⟨projTerm fv t, ⟨t, ht, rfl⟩, by rw [projTerm_id, e]⟩

theorem factRecs_projFacts_sub (fv : Nat) (f : RawFacts) (k : Kind) :
    factRecs (projFacts fv f) k = factRecs f k ∨ factRecs (projFacts fv f) k = [] := by
  cases k
  · exact Or.inl rfl
  · exact Or.inl rfl
  · simp only [factRecs, projFacts, reduceCtorEq, ↓reduceIte]
    split
    · exact Or.inl rfl
    · exact Or.inr rfl

/-- well-formed records stay well formed in what a v1 / v2 / v3 file carries of them -/
theorem WFRecords.proj {f : RawFacts} (W : WFRecords f) (fv : Nat) : WFRecords (projFacts fv f) := by
  have hst := isTerm_projFacts fv f
  refine ⟨?_, ?_, W.acyclic, ?_, ?_, ?_, (hst _).2 W.root, (hst _).2 W.phenotype⟩
  · intro t ht u hu e
    obtain ⟨t0, ht0, rfl⟩ := List.mem_map.1 ht
    obtain ⟨u0, hu0, rfl⟩ := List.mem_map.1 hu
    rw [projTerm_id, projTerm_id] at e
    have := W.termsFun t0 ht0 u0 hu0 e
    simp only [termFactOf, TermFact.mk.injEq] at this
    obtain ⟨h1, h2, h3, h4⟩ := this
    unfold projTerm
    split <;> simp [termFactOf, plainTerm, cleanTerm, h1, h2, h3, h4]
  · intro r hr
    obtain ⟨h1, h2⟩ := W.parentsClosed r hr
    exact ⟨(hst _).2 h1, fun p hp => (hst _).2 (h2 p hp)⟩
  · intro k
    rcases factRecs_projFacts_sub fv f k with h | h <;> rw [h]
    · exact W.recIds k
    · simp
  · intro k r hr d hd
    rcases factRecs_projFacts_sub fv f k with h | h <;> rw [h] at hr
    · exact (hst _).2 (W.recTerms k r hr d hd)
    · simp at hr
  · intro k
    rcases factRecs_projFacts_sub fv f k with h | h <;> rw [h]
    · exact W.fit k
    · simp

/-- the builder steps of `from_bytes` do the same for the three format versions once the records are
reduced to what the version carries -/
theorem loadFacts_projFacts (fv : Nat) (f : RawFacts) :
    Onto.loadFacts fv (projFacts fv f) = Onto.loadFacts 3 (projFacts fv f) := by
  by_cases h1 : fv = 1
  · subst h1
    have e : (projFacts 1 f).terms.map (fun t => ({ id := t.id, name := t.name } : Term)) = (projFacts 1 f).terms := by
      simp only [projFacts, List.map_map]
      apply List.map_congr_left
      intro t _
      simp [projTerm, plainTerm]
    have e3 : Onto.addRecsFromBytes .orpha (projFacts 1 f).orpha = fun o => Res.ok o := by
      funext o; simp [projFacts, Onto.addRecsFromBytes]
    simp only [Onto.loadFacts, ↓reduceIte, e, e3]
    rfl
  · by_cases h2 : fv > 2
    · simp only [Onto.loadFacts, h1, h2, ↓reduceIte]
      rfl
    · have e3 : Onto.addRecsFromBytes .orpha (projFacts fv f).orpha = fun o => Res.ok o := by
        funext o; simp [projFacts, h2, Onto.addRecsFromBytes]
      simp only [Onto.loadFacts, h1, h2, ↓reduceIte, e3]
      rfl

/-! ### `Onto.loadFacts` is the builder program -/

theorem addTermsFold_eq_runB (ts : List Term) (hb : ∀ t ∈ ts, t = (termFactOf t).term) :
    ∀ o : Onto, Onto.addTermsFold ts o = runB ((ts.map termFactOf).map TermFact.op) o := by
  induction ts with
  | nil => intro o; rfl
  | cons t ts ih =>
    intro o
    have ht : t = (termFactOf t).term := hb t (by simp)
    simp only [Onto.addTermsFold, List.map_cons, runB]
    have : applyB o (termFactOf t).op = o.addTerm (termFactOf t).term := rfl
    rw [← ht] at this
    rw [this]
    cases o.addTerm t with
    | none => rfl
    | some o' => exact ih (fun s hs => hb s (by simp [hs])) o'

/-- the three record sections of `from_bytes`, on a state without records, are one call history -/
theorem sections_eq (f : RawFacts) (hnd : ∀ k, ((factRecs f k).map (·.id)).Nodup) (K : Onto → Res Onto)
    (o : Onto) (hempty : ∀ k, o.recs k = []) :
    ((Onto.addRecsFromBytes .gene f.genes o).bind fun o4 =>
      (Onto.addRecsFromBytes .omim f.omim o4).bind fun o5 =>
        (Onto.addRecsFromBytes .orpha f.orpha o5).bind K) =
      (annotateSeq (fileAOps f) o).bind K := by
  have hg := hnd .gene
  have ho := hnd .omim
  have hr := hnd .orpha
  simp only [factRecs, reduceCtorEq, ↓reduceIte] at hg ho hr
  rw [fileAOps, annotateSeq_append, Res.bind_assoc,
    ← addRecsFromBytes_eq_annotateSeq .gene f.genes o hg (fun r _ => by rw [hempty]; rfl)]
  cases h4 : Onto.addRecsFromBytes .gene f.genes o with
  | ok o4 =>
    simp only [Res.bind]
    have e4 : ∀ k', k' ≠ .gene → o4.recs k' = [] := fun k' hk => by
      rw [addRecsFromBytes_recs_ne .gene _ _ _ h4 k' hk, hempty]
    rw [annotateSeq_append,
      ← addRecsFromBytes_eq_annotateSeq .omim f.omim o4 ho (fun r _ => by rw [e4 .omim (by decide)]; rfl)]
    cases h5 : Onto.addRecsFromBytes .omim f.omim o4 with
    | ok o5 =>
      simp only [Res.bind]
      have e5 : o5.recs .orpha = [] := by
        rw [addRecsFromBytes_recs_ne .omim _ _ _ h5 .orpha (by decide), e4 .orpha (by decide)]
      rw [← addRecsFromBytes_eq_annotateSeq .orpha f.orpha o5 hr (fun r _ => by rw [e5]; rfl)]
    | err e => rfl
    | panic => rfl
    | diverge => rfl
  | err e => rfl
  | panic => rfl
  | diverge => rfl

/-- **`from_bytes` is a builder run.** On well-formed records (`WFRecords`, term ids below 10^7, term
records carrying nothing but id / name / flags) the builder steps of `from_bytes` succeed and return the
ontology `d` of the checked-API builder program over the same records in file order (`BuilderRun`:
`runB` with `new_term` / `add_parent`, `connect_all_terms`, `runA` with `add_gene` / `annotate_*`,
`calcIc`, `build_with_defaults`), with the release version of the file. -/
theorem loadFacts_ok (g : RawFacts) (hb : BareRecs g) (hsmall : ∀ t ∈ g.terms, t.id < maxId)
    (W : WFRecords g) :
    ∃ a oc r d, BuilderRun (fileFacts g) (fileEdges g) (fileAOps g) a oc r d ∧
      Onto.loadFacts 3 g = .ok (setV g.version d) := by
  obtain ⟨a, oc, r, d, R⟩ := builderRun_exists (fileFacts g) (fileEdges g) (fileAOps g)
    (by intro x hx; obtain ⟨t, ht, rfl⟩ := List.mem_map.1 hx; exact hsmall t ht)
    W.acyclicEdges W.countsFit ((isTerm_iff g 1).1 W.root) ((isTerm_iff g _).1 W.phenotype)
  refine ⟨a, oc, r, d, R, ?_⟩
  obtain ⟨hinv, ⟨rank, hcl, hf⟩, _, _⟩ := connected_annInv _ a oc R.run R.acyclic R.connect
  have hknown : ∀ op ∈ fileAOps g, op.Known (present oc) := by
    intro op hop
    have h := W.known op hop
    cases op with
    | addRec k n i => trivial
    | annotate k rid n t =>
      show (getT oc.terms t).isSome
      rw [R.toTermRun.present t]
      exact (isTerm_iff g t).1 h
  have hseq := annotateSeq_ok _ _ rank hcl (fileAOps g) hknown oc hinv hf
  -- the record maps are empty after the term level
  obtain ⟨hpreA, hrest0⟩ := preInv_run _ {} a preInv_nil R.run
  obtain ⟨oc', hc', hrest, _, _, _⟩ := C01_connect a hpreA R.acyclic
  rw [R.connect] at hc'; cases hc'
  have hempty : ∀ k, (setV g.version oc).recs k = [] := by
    intro k; rw [recs_setV, hrest, hrest0]; cases k <;> rfl
  -- the two term-level phases
  have hrun := R.run
  rw [runB_append, Option.bind_eq_some_iff] at hrun
  obtain ⟨a0, h0, h1⟩ := hrun
  have hpre : PreInv (setV g.version a0).terms := (preInv_run _ {} a0 preInv_nil h0).1
  have hpres : ∀ j, IsTerm g j → (getT a0.terms j).isSome := by
    intro j hj
    rw [terms_phase_present _ a0 h0]
    exact (isTerm_iff g j).1 hj
  have hT : Onto.addTermsFold g.terms { version := g.version } = some (setV g.version a0) := by
    have e0 : ({ version := g.version } : Onto) = setV g.version {} := rfl
    have h0' : runB ((g.terms.map termFactOf).map TermFact.op) {} = some a0 := h0
    rw [e0, addTermsFold_eq_runB g.terms hb, runB_setV, h0']; rfl
  have hP : Onto.addParentRecs g.parents (setV g.version a0) = some (setV g.version a) := by
    have h1' : runB ((edgesOf g.parents).map edgeOp) a0 = some a := h1
    rw [addParentRecs_eq_runB _ (setV g.version a0) hpre
      (fun r hr => ⟨hpres _ (W.parentsClosed r hr).1, fun p hp => hpres _ ((W.parentsClosed r hr).2 p hp)⟩),
      runB_setV, h1']; rfl
  have h31 : (3 : Nat) ≠ 1 := by decide
  have h32 : (3 : Nat) > 2 := by decide
  unfold Onto.loadFacts
  simp only [h31, h32, ↓reduceIte, hT, hP, connectAll_setV, R.connect, mapR_ok, Res.bind]
  have hS := sections_eq g W.recIds (fun o6 => o6.calcIc.bind fun o7 => o7.buildWithDefaults)
    (setV g.version oc) hempty
  simp only [Res.bind] at hS
  rw [hS]
  simp only [annotateSeq_setV, hseq, mapR_ok, calcIc_setV, R.ic, buildWithDefaults_setV, R.build]

/-- two well-formed record sets that are permutations of each other inside the sections load to
ontologies with equal lookups, and both loads are builder runs (hence `Reachable`) -/
theorem loadFacts_perm (f g : RawFacts) (hbf : BareRecs f) (hbg : BareRecs g)
    (hsmall : ∀ t ∈ f.terms, t.id < maxId) (W : WFRecords f) (hp : FactsPerm f g) :
    ∃ o1 o2, Onto.loadFacts 3 f = .ok o1 ∧ Onto.loadFacts 3 g = .ok o2 ∧ SameLookups o1 o2 ∧
      Reachable o1 ∧ Reachable o2 := by
  have Wg := W.perm hp
  obtain ⟨a1, oc1, r1, d1, R1, l1⟩ := loadFacts_ok f hbf hsmall W
  obtain ⟨a2, oc2, r2, d2, R2, l2⟩ := loadFacts_ok g hbg (fun t ht => hsmall t (hp.terms.mem_iff.2 ht)) Wg
  have S := (builderRun_perm R1 R2 (hp.terms.map _) (edgesOf_perm hp.parents) (fileAOps_perm hp)
    W.functional (fileNameOf f) W.names).setV f.version
  rw [← hp.version] at l2
  exact ⟨_, _, l1, l2, S, reachable_setV R1.reachable _, reachable_setV R2.reachable _⟩

end Binary
end Hpo
