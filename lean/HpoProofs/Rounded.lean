import Mathlib.Analysis.SpecialFunctions.Log.Basic
import HpoModel.Num
/-!
# A second proof instance of the numeric interface: ANY correctly-rounding arithmetic

`HpoProofs/NumReal.lean` evaluates the `[Num F]`-generic model at the exact field `ℝ`.  Here the
same model functions are evaluated at `RVal R`: real numbers with EVERY arithmetic result passed
through a rounding function `R.rnd`, and with a library logarithm / exponential `R.lg` / `R.ex`
that are NOT assumed to be exact.  `R : Rounding` is a structure of explicit hypotheses (no
axioms): each field is a property that IEEE-754 arithmetic in a fixed rounding direction
(round-to-nearest-even, but also the directed modes) with a monotone libm satisfies as long as no
operation overflows; the theorems `*_rounded` in `HpoProps/C03…C05` hold for every such `R`.

What stays trusted after these theorems: that the machine's `f32` / `f64` arithmetic with the
platform's `logf` / `expf` IS such an `R` on the values that occur (no overflow, no NaN input).
-/
namespace Hpo

/-- A rounding regime.  Reading for IEEE-754 binary32 (binary64 analogously), finite range:

* `rnd x` = the representable number the exact result `x` of `+ - * /` (or of an integer
  conversion) is rounded to;
* `mono`: rounding in a fixed direction is monotone;
* `natCast`: integers up to `2^24` are representable (binary64: up to `2^53`);
* `pos_of_normal`: a result of at least the smallest positive normal number `2^-126` is not
  flushed to zero (no underflow to 0 in the normal range; binary64: `2^-1022`);
* `lg`, `ex`: what the library `ln` / `exp` return.  NOT assumed exact or correctly rounded; only
  `lg` monotone on the positive numbers with `lg 1 = 0` (C Annex F: `log(1) = +0`) and
  `ex x ≤ 1` for `x ≤ 0` (a monotone `exp` with `exp(±0) = 1`, C Annex F).

Idempotence of `rnd`, sign symmetry `rnd (-x) = -rnd x` and representability of the results of
`lg` / `ex` also hold for IEEE arithmetic but are not needed by any theorem, so they are not
assumed (the theorems therefore cover the directed rounding modes as well). -/
structure Rounding where
  /-- rounding of an exact result to the representable number that is stored -/
  rnd : ℝ → ℝ
  mono : Monotone rnd
  natCast : ∀ n : ℕ, n ≤ 2 ^ 24 → rnd (n : ℝ) = n
  pos_of_normal : ∀ x : ℝ, ((2 : ℝ)⁻¹) ^ 126 ≤ x → 0 < rnd x
  /-- the library logarithm -/
  lg : ℝ → ℝ
  lg_mono : MonotoneOn lg (Set.Ioi 0)
  lg_one : lg 1 = 0
  /-- the library exponential -/
  ex : ℝ → ℝ
  ex_le_one : ∀ x, x ≤ 0 → ex x ≤ 1

namespace Rounding
variable (R : Rounding)

@[simp] theorem rnd_zero : R.rnd 0 = 0 := by simpa using R.natCast 0 (by norm_num)
@[simp] theorem rnd_one : R.rnd 1 = 1 := by simpa using R.natCast 1 (by norm_num)
@[simp] theorem rnd_two : R.rnd 2 = 2 := by simpa using R.natCast 2 (by norm_num)

theorem rnd_nonneg {x : ℝ} (h : 0 ≤ x) : 0 ≤ R.rnd x := by
  have := R.mono h; rwa [R.rnd_zero] at this

theorem rnd_nonpos {x : ℝ} (h : x ≤ 0) : R.rnd x ≤ 0 := by
  have := R.mono h; rwa [R.rnd_zero] at this

theorem rnd_le_one {x : ℝ} (h : x ≤ 1) : R.rnd x ≤ 1 := by
  have := R.mono h; rwa [R.rnd_one] at this

theorem one_le_rnd {x : ℝ} (h : 1 ≤ x) : 1 ≤ R.rnd x := by
  have := R.mono h; rwa [R.rnd_one] at this

theorem rnd_pos_of_one_le {x : ℝ} (h : 1 ≤ x) : 0 < R.rnd x :=
  lt_of_lt_of_le zero_lt_one (R.one_le_rnd h)

theorem rnd_le_two {x : ℝ} (h : x ≤ 2) : R.rnd x ≤ 2 := by
  have := R.mono h; rwa [R.rnd_two] at this

/-- conversion of ANY natural number (also beyond `2^24`) is non-negative … -/
theorem rnd_nat_nonneg (n : ℕ) : 0 ≤ R.rnd (n : ℝ) := R.rnd_nonneg (Nat.cast_nonneg n)

/-- … and at least 1 for a positive one -/
theorem one_le_rnd_nat {n : ℕ} (h : 0 < n) : 1 ≤ R.rnd (n : ℝ) :=
  R.one_le_rnd (by exact_mod_cast h)

theorem rnd_le_nat {x : ℝ} {n : ℕ} (hn : n ≤ 2 ^ 24) (h : x ≤ n) : R.rnd x ≤ n := by
  have := R.mono h; rwa [R.natCast n hn] at this

theorem nat_le_rnd {x : ℝ} {n : ℕ} (hn : n ≤ 2 ^ 24) (h : (n : ℝ) ≤ x) : (n : ℝ) ≤ R.rnd x := by
  have := R.mono h; rwa [R.natCast n hn] at this

/-- the logarithm of a number in `(0, 1]` is not positive -/
theorem lg_nonpos {x : ℝ} (h0 : 0 < x) (h1 : x ≤ 1) : R.lg x ≤ 0 := by
  have := R.lg_mono (Set.mem_Ioi.2 h0) (Set.mem_Ioi.2 zero_lt_one) h1
  rwa [R.lg_one] at this

/-- the exact arithmetic is a rounding regime: the theorems over `Rounding` are not vacuous, and
they contain the sign / order / symmetry clauses of the theorems over `ℝ` as a special case -/
noncomputable def exact : Rounding where
  rnd := id
  mono := monotone_id
  natCast := fun _ _ => rfl
  pos_of_normal := fun x h => lt_of_lt_of_le (by positivity) h
  lg := Real.log
  lg_mono := fun _ hx _ _ hxy => Real.log_le_log hx hxy
  lg_one := Real.log_one
  ex := Real.exp
  ex_le_one := fun _ h => Real.exp_le_one_iff.2 h

end Rounding

/-- a value of the rounded arithmetic `R` (a wrapper of `ℝ`, so that the instance below does not
clash with `instNumReal`); NOT required to be representable: the theorems hold for arbitrary
real inputs, in particular for representable ones -/
structure RVal (R : Rounding) where
  v : ℝ

namespace RVal
variable {R : Rounding}

@[ext] theorem ext' {a b : RVal R} (h : a.v = b.v) : a = b := by
  cases a; cases b; cases h; rfl

end RVal

/-- the model's arithmetic at `RVal R`: every `+ - * /` and every integer conversion is followed
by `R.rnd`; `neg x` is `x * (-1.0)` as in the `Float32` / `Float` instances (`-1` is exact);
comparisons are exact; division is checked as over `ℝ` -/
noncomputable instance instNumRVal (R : Rounding) : Num (RVal R) where
  ofNat := fun n => ⟨R.rnd (n : ℝ)⟩
  add := fun a b => ⟨R.rnd (a.v + b.v)⟩
  sub := fun a b => ⟨R.rnd (a.v - b.v)⟩
  mul := fun a b => ⟨R.rnd (a.v * b.v)⟩
  div? := fun a b => if b.v = 0 then none else some ⟨R.rnd (a.v / b.v)⟩
  log := fun a => ⟨R.lg a.v⟩
  exp := fun a => ⟨R.ex a.v⟩
  neg := fun a => ⟨R.rnd (a.v * (-1))⟩
  isZero := fun a => decide (a.v = 0)
  lt := fun a b => decide (a.v < b.v)
  isNaN := fun _ => false

namespace NumR
variable {R : Rounding}

@[simp] theorem ofNat_v (n : Nat) : (Num.ofNat n : RVal R).v = R.rnd (n : ℝ) := rfl
@[simp] theorem add_v (a b : RVal R) : (Num.add a b).v = R.rnd (a.v + b.v) := rfl
@[simp] theorem sub_v (a b : RVal R) : (Num.sub a b).v = R.rnd (a.v - b.v) := rfl
@[simp] theorem mul_v (a b : RVal R) : (Num.mul a b).v = R.rnd (a.v * b.v) := rfl
@[simp] theorem neg_v (a : RVal R) : (Num.neg a).v = R.rnd (a.v * (-1)) := rfl
@[simp] theorem log_v (a : RVal R) : (Num.log a).v = R.lg a.v := rfl
@[simp] theorem exp_v (a : RVal R) : (Num.exp a).v = R.ex a.v := rfl
@[simp] theorem isZero_eq (a : RVal R) : Num.isZero a = decide (a.v = 0) := rfl
@[simp] theorem lt_eq (a b : RVal R) : Num.lt a b = decide (a.v < b.v) := rfl
@[simp] theorem isNaN_eq (a : RVal R) : Num.isNaN a = false := rfl
theorem div?_eq (a b : RVal R) :
    Num.div? a b = if b.v = 0 then none else some ⟨R.rnd (a.v / b.v)⟩ := rfl

theorem div?_of_ne (a : RVal R) {b : RVal R} (h : b.v ≠ 0) :
    Num.div? a b = some ⟨R.rnd (a.v / b.v)⟩ := by simp [div?_eq, h]

@[simp] theorem ofNat_zero_v : (Num.ofNat 0 : RVal R).v = 0 := by simp [R.rnd_zero]
@[simp] theorem ofNat_one_v : (Num.ofNat 1 : RVal R).v = 1 := by simp [R.rnd_one]
@[simp] theorem ofNat_two_v : (Num.ofNat 2 : RVal R).v = 2 := by
  have := R.rnd_two; simp only [ofNat_v]; exact_mod_cast this

/-- rounded addition and multiplication are commutative -/
theorem add_comm (a b : RVal R) : Num.add a b = Num.add b a := by
  apply RVal.ext'; simp [_root_.add_comm]

theorem mul_comm (a b : RVal R) : Num.mul a b = Num.mul b a := by
  apply RVal.ext'; simp [_root_.mul_comm]

theorem add_nonneg {a b : RVal R} (ha : 0 ≤ a.v) (hb : 0 ≤ b.v) : 0 ≤ (Num.add a b).v :=
  R.rnd_nonneg (_root_.add_nonneg ha hb)

theorem mul_nonneg {a b : RVal R} (ha : 0 ≤ a.v) (hb : 0 ≤ b.v) : 0 ≤ (Num.mul a b).v :=
  R.rnd_nonneg (_root_.mul_nonneg ha hb)

/-- `x * (-1.0)` of a non-negative number is not positive, of a non-positive one not negative -/
theorem neg_nonpos {a : RVal R} (ha : 0 ≤ a.v) : (Num.neg a).v ≤ 0 :=
  R.rnd_nonpos (by simp only [mul_neg, mul_one, Left.neg_nonpos_iff]; exact ha)

theorem neg_nonneg {a : RVal R} (ha : a.v ≤ 0) : 0 ≤ (Num.neg a).v :=
  R.rnd_nonneg (by simp only [mul_neg, mul_one, Left.nonneg_neg_iff]; exact ha)

/-- `x * (-1.0)` reverses the order -/
theorem neg_le_neg {a b : RVal R} (h : a.v ≤ b.v) : (Num.neg b).v ≤ (Num.neg a).v :=
  R.mono (by simp only [mul_neg, mul_one, _root_.neg_le_neg_iff]; exact h)

/-- a checked quotient of non-negative numbers is non-negative -/
theorem div?_nonneg {a b q : RVal R} (ha : 0 ≤ a.v) (hb : 0 ≤ b.v) (h : Num.div? a b = some q) :
    0 ≤ q.v := by
  rw [div?_eq] at h
  split at h
  · cases h
  · injection h with h; subst h; exact R.rnd_nonneg (div_nonneg ha hb)

end NumR

/-! ### information content -/

/-- the rounded quotient `n / N` of two counts `1 ≤ n ≤ N ≤ 65535` lies in `(0, 1]` -/
theorem ratio_bounds (R : Rounding) {n N : ℕ} (hn : 0 < n) (h : n ≤ N) (hN : N ≤ 65535) :
    0 < R.rnd ((n : ℝ) / N) ∧ R.rnd ((n : ℝ) / N) ≤ 1 := by
  have hNp : (0 : ℝ) < N := by exact_mod_cast (lt_of_lt_of_le hn h)
  have hnp : (1 : ℝ) ≤ n := by exact_mod_cast hn
  have hN' : (N : ℝ) ≤ 65535 := by exact_mod_cast hN
  constructor
  · apply R.pos_of_normal
    rw [le_div_iff₀ hNp]
    have h1 : ((2 : ℝ)⁻¹) ^ 126 ≤ ((2 : ℝ)⁻¹) ^ 16 :=
      pow_le_pow_of_le_one (by norm_num) (by norm_num) (by norm_num)
    have h2 : ((2 : ℝ)⁻¹) ^ 16 * N ≤ 1 := by
      have : ((2 : ℝ)⁻¹) ^ 16 * N ≤ ((2 : ℝ)⁻¹) ^ 16 * 65535 :=
        mul_le_mul_of_nonneg_left hN' (by positivity)
      refine le_trans this ?_
      norm_num
    have h3 : ((2 : ℝ)⁻¹) ^ 126 * N ≤ ((2 : ℝ)⁻¹) ^ 16 * N :=
      mul_le_mul_of_nonneg_right h1 hNp.le
    linarith
  · apply R.rnd_le_one
    rw [div_le_one hNp]
    exact_mod_cast h

/-- `icValue` at the rounded instance, past the zero guard: `-(lg (rnd (n / N)))` with the sign
change done by the rounded multiplication with `-1` -/
theorem icValue_rounded (R : Rounding) {n N : ℕ} (hn : 0 < n) (h : n ≤ N) (hN : N ≤ 65535) :
    (icValue (n, N) : Option (RVal R)) =
      some ⟨R.rnd (R.lg (R.rnd ((n : ℝ) / N)) * (-1))⟩ := by
  have hN0 : N ≠ 0 := by omega
  have hn0 : n ≠ 0 := by omega
  have e1 : R.rnd (n : ℝ) = n := R.natCast n (by omega)
  have e2 : R.rnd (N : ℝ) = N := R.natCast N (by omega)
  have hNr : (N : ℝ) ≠ 0 := by exact_mod_cast hN0
  unfold icValue
  simp only [hN0, hn0, or_self, if_false]
  rw [NumR.div?_of_ne]
  · simp only [Option.map_some, NumR.ofNat_v, e1, e2]
    congr 1
  · simp only [NumR.ofNat_v, e2]; exact hNr

/-! ### a second, inexact instance (round down to a grid) -/
namespace Rounding

/-- round towards −∞ to the fixed-point grid of step `2^-126` -/
noncomputable def gridRnd (x : ℝ) : ℝ := (⌊x * 2 ^ 126⌋ : ℝ) / 2 ^ 126

theorem gridRnd_mono : Monotone gridRnd := by
  intro x y h
  unfold gridRnd
  apply div_le_div_of_nonneg_right _ (by positivity)
  exact_mod_cast Int.floor_le_floor (mul_le_mul_of_nonneg_right h (by positivity))

theorem gridRnd_nat (n : ℕ) : gridRnd (n : ℝ) = n := by
  unfold gridRnd
  have : ((n : ℝ) * 2 ^ 126) = ((n * 2 ^ 126 : ℕ) : ℝ) := by push_cast; ring
  rw [this, Int.floor_natCast, Int.cast_natCast, ← this, mul_div_assoc,
    div_self (by positivity), mul_one]

theorem gridRnd_le (x : ℝ) : gridRnd x ≤ x := by
  unfold gridRnd
  rw [div_le_iff₀ (by positivity)]
  exact Int.floor_le _

theorem gridRnd_pos (x : ℝ) (h : ((2 : ℝ)⁻¹) ^ 126 ≤ x) : 0 < gridRnd x := by
  unfold gridRnd
  apply div_pos _ (by positivity)
  have h1 : (1 : ℝ) ≤ x * 2 ^ 126 := by
    have := mul_le_mul_of_nonneg_right h (show (0 : ℝ) ≤ 2 ^ 126 by positivity)
    rwa [inv_pow, inv_mul_cancel₀ (by positivity)] at this
  have : (1 : ℤ) ≤ ⌊x * 2 ^ 126⌋ := Int.le_floor.2 (by exact_mod_cast h1)
  exact_mod_cast this

/-- a second, genuinely inexact regime: every result (also of `ln` / `exp`) is rounded down to a
multiple of `2^-126` -/
noncomputable def grid : Rounding where
  rnd := gridRnd
  mono := gridRnd_mono
  natCast := fun n _ => gridRnd_nat n
  pos_of_normal := gridRnd_pos
  lg := fun x => gridRnd (Real.log x)
  lg_mono := fun _ hx _ _ hxy => gridRnd_mono (Real.log_le_log hx hxy)
  lg_one := by simpa using gridRnd_nat 0
  ex := fun x => gridRnd (Real.exp x)
  ex_le_one := fun x h => by
    have := gridRnd_mono (Real.exp_le_one_iff.2 h)
    simpa using le_trans this (le_of_eq (by simpa using gridRnd_nat 1))

/-- it is not the exact arithmetic: `2^-127` is rounded to 0 -/
theorem grid_inexact : grid.rnd (((2 : ℝ)⁻¹) ^ 127) = 0 ∧ ((2 : ℝ)⁻¹) ^ 127 ≠ 0 := by
  refine ⟨?_, by positivity⟩
  show gridRnd _ = 0
  unfold gridRnd
  have : ((2 : ℝ)⁻¹) ^ 127 * 2 ^ 126 = 1 / 2 := by
    rw [pow_succ, inv_pow]; field_simp
  rw [this]
  have : ⌊(1 / 2 : ℝ)⌋ = 0 := by
    rw [Int.floor_eq_zero_iff]; constructor <;> norm_num
  rw [this]; simp

end Rounding

end Hpo
