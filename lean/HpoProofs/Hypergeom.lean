import HpoModel.Hypergeom
import Mathlib.Data.Nat.Choose.Vandermonde
import Mathlib.Algebra.Order.BigOperators.Group.Finset
import Mathlib.Algebra.Order.Field.Basic
import Mathlib.Algebra.BigOperators.Field
import Mathlib.Tactic.Ring
import Mathlib.Tactic.Linarith
import Mathlib.Tactic.Positivity
import Mathlib.Tactic.FieldSimp
/-!
Helper lemmas for C06: the model's binomial coefficients are Mathlib's `Nat.choose`; the exact
hypergeometric probability mass function over `ℚ`, Vandermonde's identity (`Σ pmf = 1`), the tail
`P[X ≥ k]` and its relation to the model's `sfModel` (the three branches of `Hypergeometric::sf`).
-/
namespace Hpo
namespace Hypergeom
open Finset

theorem choose_eq (n k : ℕ) : choose n k = Nat.choose n k := by
  fun_induction choose n k <;> simp_all [Nat.choose_succ_succ]

theorem chooseMul_eq (n k : ℕ) : chooseMul n k = Nat.choose n k := by
  induction k with
  | zero => simp [chooseMul]
  | succ k ih =>
    rw [chooseMul, ih]
    apply Nat.div_eq_of_eq_mul_left (Nat.succ_pos k)
    exact (Nat.choose_succ_right_eq n k).symm

theorem tailNum_eq (K M n c lo : ℕ) :
    tailNum K M n c lo = ∑ j ∈ range c, K.choose (lo + j) * M.choose (n - (lo + j)) := by
  induction c generalizing lo with
  | zero => simp [tailNum]
  | succ c ih =>
    rw [tailNum, ih, Finset.sum_range_succ', chooseMul_eq, chooseMul_eq]
    simp only [Nat.add_zero]
    rw [Nat.add_comm]
    congr 1
    apply Finset.sum_congr rfl
    intro j _
    have : lo + 1 + j = lo + (j + 1) := by omega
    rw [this]

/-- probability mass function of `Hypergeometric(N, K, n)` at `i` (exact) -/
def pmf (N K n i : ℕ) : ℚ :=
  if i ≤ n then ((K.choose i * (N - K).choose (n - i) : ℕ) : ℚ) / (N.choose n : ℚ) else 0

/-- `P[X ≥ k] = Σ_{k ≤ i ≤ n} pmf i` -/
def tail (N K n k : ℕ) : ℚ := ∑ i ∈ Icc k n, pmf N K n i

/-- the model's survival function as a rational number -/
def sfQ (N K n x : ℕ) : ℚ := ((sfModel N K n x).1 : ℚ) / ((sfModel N K n x).2 : ℚ)

theorem pmf_nonneg (N K n i : ℕ) : 0 ≤ pmf N K n i := by
  unfold pmf; split <;> positivity

theorem pmf_sum (N K n : ℕ) (hK : K ≤ N) (hn : n ≤ N) : ∑ i ∈ range (n + 1), pmf N K n i = 1 := by
  have hpos : (0 : ℚ) < (N.choose n : ℚ) := by exact_mod_cast Nat.choose_pos hn
  have h1 : ∑ i ∈ range (n + 1), pmf N K n i
      = ∑ i ∈ range (n + 1), ((K.choose i * (N - K).choose (n - i) : ℕ) : ℚ) / (N.choose n : ℚ) := by
    apply Finset.sum_congr rfl
    intro i hi
    have : i ≤ n := by have := Finset.mem_range.1 hi; omega
    simp [pmf, this]
  rw [h1, ← Finset.sum_div, ← Nat.cast_sum]
  have hv := Nat.add_choose_eq K (N - K) n
  rw [Finset.Nat.sum_antidiagonal_eq_sum_range_succ (fun a b => K.choose a * (N - K).choose b)] at hv
  rw [← hv, Nat.add_sub_cancel' hK]
  exact div_self (ne_of_gt hpos)

theorem pmf_zero_outside (N K n i : ℕ) (hK : K ≤ N) (h : i < hmin N K n ∨ hmax K n < i) : pmf N K n i = 0 := by
  unfold pmf
  split
  · rename_i hin
    have : K.choose i * (N - K).choose (n - i) = 0 := by
      rcases h with h | h
      · have : N - K < n - i := by unfold hmin at h; omega
        rw [Nat.choose_eq_zero_of_lt this, Nat.mul_zero]
      · have : K < i := by unfold hmax at h; split at h <;> omega
        rw [Nat.choose_eq_zero_of_lt this, Nat.zero_mul]
    simp [this]
  · rfl

theorem tail_zero (N K n : ℕ) (hK : K ≤ N) (hn : n ≤ N) : tail N K n 0 = 1 := by
  unfold tail
  rw [← pmf_sum N K n hK hn]
  congr 1
  ext i; simp

theorem tail_antitone (N K n : ℕ) {k k' : ℕ} (h : k ≤ k') : tail N K n k' ≤ tail N K n k := by
  unfold tail
  apply Finset.sum_le_sum_of_subset_of_nonneg (Finset.Icc_subset_Icc_left h)
  intro i _ _; exact pmf_nonneg N K n i

theorem tail_nonneg (N K n k : ℕ) : 0 ≤ tail N K n k :=
  Finset.sum_nonneg (fun i _ => pmf_nonneg N K n i)

theorem tail_le_one (N K n k : ℕ) (hK : K ≤ N) (hn : n ≤ N) : tail N K n k ≤ 1 := by
  rw [← tail_zero N K n hK hn]; exact tail_antitone N K n (Nat.zero_le k)

theorem Icc_eq_Ico (a b : ℕ) : Icc a b = Ico a (b + 1) := by
  ext i; simp

theorem tail_split (N K n : ℕ) {k k' : ℕ} (h : k ≤ k') (h' : k' ≤ n + 1) :
    tail N K n k = (∑ i ∈ Ico k k', pmf N K n i) + tail N K n k' := by
  unfold tail
  rw [Icc_eq_Ico, Icc_eq_Ico, Finset.sum_Ico_consecutive _ h h']

/-- the three branches of `Hypergeometric::sf` compute `P[X > x]`, i.e. `sf (k − 1) = P[X ≥ k]` -/
theorem sfQ_eq_tail (N K n k : ℕ) (hK : K ≤ N) (hn : n ≤ N) (hk : 0 < k) :
    sfQ N K n (k - 1) = tail N K n k := by
  unfold sfQ sfModel
  by_cases h1 : k - 1 < hmin N K n
  · -- `x < min`: everything below `k` has probability 0
    rw [if_pos h1]
    have hkn : k ≤ n + 1 := by unfold hmin at h1; omega
    have hs := tail_split N K n (Nat.zero_le k) hkn
    rw [tail_zero N K n hK hn] at hs
    have hz : ∑ i ∈ Ico 0 k, pmf N K n i = 0 := by
      apply Finset.sum_eq_zero
      intro i hi
      apply pmf_zero_outside N K n i hK
      left; have := (Finset.mem_Ico.1 hi).2; omega
    rw [hz, zero_add] at hs
    simp [← hs]
  · rw [if_neg h1]
    by_cases h2 : k - 1 ≥ hmax K n
    · -- `x ≥ max`: nothing at or above `k` has positive probability
      rw [if_pos h2]
      have hz : tail N K n k = 0 := by
        unfold tail
        apply Finset.sum_eq_zero
        intro i hi
        apply pmf_zero_outside N K n i hK
        right; have := (Finset.mem_Icc.1 hi).1; omega
      simp [hz]
    · rw [if_neg h2]
      have hmn : hmax K n ≤ n := by unfold hmax; split <;> omega
      have hk1 : k - 1 + 1 = k := by omega
      simp only [hk1, chooseMul_eq, tailNum_eq]
      have hs := tail_split N K n (k := k) (k' := hmax K n + 1) (by omega) (by omega)
      have hz : tail N K n (hmax K n + 1) = 0 := by
        unfold tail
        apply Finset.sum_eq_zero
        intro i hi
        apply pmf_zero_outside N K n i hK
        right; have := (Finset.mem_Icc.1 hi).1; omega
      rw [hz, add_zero] at hs
      rw [hs, Finset.sum_Ico_eq_sum_range, Nat.cast_sum, Finset.sum_div]
      have hc : hmax K n - (k - 1) = hmax K n + 1 - k := by omega
      rw [hc]
      apply Finset.sum_congr rfl
      intro j hj
      have : k + j ≤ n := by have := Finset.mem_range.1 hj; omega
      simp [pmf, this]

theorem sfQ_range (N K n k : ℕ) (hK : K ≤ N) (hn : n ≤ N) (hk : 0 < k) :
    0 ≤ sfQ N K n (k - 1) ∧ sfQ N K n (k - 1) ≤ 1 := by
  rw [sfQ_eq_tail N K n k hK hn hk]
  exact ⟨tail_nonneg N K n k, tail_le_one N K n k hK hn⟩

theorem sfQ_antitone (N K n k k' : ℕ) (hK : K ≤ N) (hn : n ≤ N) (hk : 0 < k) (h : k ≤ k') :
    sfQ N K n (k' - 1) ≤ sfQ N K n (k - 1) := by
  rw [sfQ_eq_tail N K n k hK hn hk, sfQ_eq_tail N K n k' hK hn (by omega)]
  exact tail_antitone N K n h

/-! ### fold enrichment over `ℚ` -/

namespace RatNum
/-- `Num ℚ`, used to evaluate the fold enrichment exactly.  `log`/`exp` are not rational functions
and are not used by `foldEnrichment`; they are placeholders here. -/
scoped instance instNumRat : Num ℚ where
  ofNat := fun n => (n : ℚ)
  add := (· + ·)
  sub := (· - ·)
  mul := (· * ·)
  div? := fun a b => if b = 0 then none else some (a / b)
  log := fun _ => 0
  exp := fun _ => 0
  neg := fun a => -a
  isZero := fun a => decide (a = 0)
  lt := fun a b => decide (a < b)
  isNaN := fun _ => false
end RatNum
open RatNum

theorem div?_rat (a b : ℚ) : Num.div? a b = if b = 0 then none else some (a / b) := rfl
theorem ofNat_rat (n : ℕ) : (Num.ofNat n : ℚ) = (n : ℚ) := rfl

theorem fold_eq (k n K N : ℕ) (hk : 0 < k) (hkn : k ≤ n) (hkK : k ≤ K) (hKN : K ≤ N) :
    (foldEnrichment k n K N : Option ℚ) = some ((k * N : ℚ) / (n * K)) := by
  have hn : (n : ℚ) ≠ 0 := by exact_mod_cast (by omega : n ≠ 0)
  have hK' : (K : ℚ) ≠ 0 := by exact_mod_cast (by omega : K ≠ 0)
  have hN : (N : ℚ) ≠ 0 := by exact_mod_cast (by omega : N ≠ 0)
  have hKN' : (K : ℚ) / N ≠ 0 := div_ne_zero hK' hN
  simp only [foldEnrichment, div?_rat, ofNat_rat, hn, hN, hKN', if_false]
  congr 1
  field_simp

end Hypergeom
end Hpo
