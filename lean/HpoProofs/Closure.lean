import Mathlib.Logic.Relation
import HpoProofs.Arena
/-!
`connect_all_terms` computes exactly the transitive closure of the parent relation.

The memoised recursion `create_cache_of_grandparents` / `all_grandparents` with the
`parents_cached` heuristic is analysed as a state machine over the arena: the invariant `Good`
says every `all_parents` field is either still empty or already the exact closure; the heuristic
is exact because a computed closure of a term with parents contains those parents (is non-empty).
-/
namespace Hpo
open Relation Group

section
variable (par : Nat → List Nat)

/-- the is_a relation: `p` is a direct parent of `c` -/
def E (c p : Nat) : Prop := p ∈ par c

/-- what never changes while caching: parents fields, referential closure, id range -/
structure Static (ts : List Term) : Prop where
  frame : ∀ j, parentsOf ts j = par j
  closed : ∀ j p, p ∈ par j → (getT ts p).isSome
  small : ∀ j, (getT ts j).isSome → j < maxId

def Computed (ts : List Term) (j : Nat) : Prop := ∀ a, a ∈ allOf ts j ↔ TransGen (E par) j a

def Good (ts : List Term) : Prop := ∀ j, (allOf ts j = [] ∨ Computed par ts j) ∧ Sorted (allOf ts j)

/-- `ts'` differs from `ts` only in `all_parents` fields -/
def Upd (ts ts' : List Term) : Prop :=
  ts'.map (·.id) = ts.map (·.id) ∧
  ∀ j, getT ts' j = (getT ts j).map (fun t => { t with allParents := allOf ts' j })

theorem Upd.refl (ts : List Term) : Upd ts ts := by
  refine ⟨rfl, ?_⟩
  intro j
  cases h : getT ts j with
  | none => rfl
  | some t => simp [allOf, h]

theorem Upd.isSome {ts ts' : List Term} (h : Upd ts ts') (j : Nat) :
    (getT ts' j).isSome = (getT ts j).isSome := by
  rw [h.2 j]; cases getT ts j <;> rfl

theorem Upd.parents_eq {ts ts' : List Term} (h : Upd ts ts') (j : Nat) :
    parentsOf ts' j = parentsOf ts j := by
  simp only [parentsOf, h.2 j]; cases getT ts j <;> rfl

theorem Upd.trans {a b c : List Term} (h1 : Upd a b) (h2 : Upd b c) : Upd a c := by
  refine ⟨h2.1.trans h1.1, ?_⟩
  intro j
  rw [h2.2 j, h1.2 j]
  cases getT a j <;> rfl

theorem Static.upd {ts ts' : List Term} (hs : Static par ts) (h : Upd ts ts') : Static par ts' :=
  ⟨fun j => by rw [h.parents_eq]; exact hs.frame j,
   fun j p hp => by rw [h.isSome]; exact hs.closed j p hp,
   fun j hj => hs.small j (by rw [← h.isSome]; exact hj)⟩

theorem transGen_iff (i a : Nat) :
    TransGen (E par) i a ↔ ∃ p ∈ par i, p = a ∨ TransGen (E par) p a := by
  rw [TransGen.head'_iff]
  constructor
  · rintro ⟨p, hp, h⟩
    refine ⟨p, hp, ?_⟩
    rcases reflTransGen_iff_eq_or_transGen.1 h with h | h
    · exact Or.inl h.symm
    · exact Or.inr h
  · rintro ⟨p, hp, h⟩
    refine ⟨p, hp, ?_⟩
    rcases h with rfl | h
    · exact ReflTransGen.refl
    · exact h.to_reflTransGen

/-- the `parents_cached` heuristic is exact on `Good` states -/
theorem computed_of_cached {ts : List Term} (hF : ∀ j, parentsOf ts j = par j) (hG : Good par ts)
    {p : Nat} {tp : Term} (hp : getT ts p = some tp) (hc : tp.parentsCached = true) :
    Computed par ts p := by
  have hpar : parentsOf ts p = tp.parents := by simp [parentsOf, hp]
  have hall : allOf ts p = tp.allParents := by simp [allOf, hp]
  rcases (hG p).1 with h0 | h
  · intro a
    rw [hall] at h0
    simp only [Term.parentsCached, h0, List.isEmpty_nil, Bool.not_true, Bool.or_false,
      List.isEmpty_iff] at hc
    rw [hall, h0]
    simp only [List.not_mem_nil, false_iff]
    intro h
    rw [transGen_iff] at h
    obtain ⟨q, hq, _⟩ := h
    rw [← hF p, hpar, hc] at hq
    simp at hq
  · exact h

end

/-! ### `getUnchecked` / `modUnchecked` on present ids -/

theorem getUnchecked_present {o : Onto} {i : Nat} {t : Term} (h : getT o.terms i = some t)
    (hs : i < maxId) : o.getUnchecked i = some t := by
  simp [Onto.getUnchecked, h, Nat.not_le.2 hs]

theorem modUnchecked_present {o : Onto} {i : Nat} {t : Term} (f : Term → Term)
    (h : getT o.terms i = some t) (hs : i < maxId) :
    o.modUnchecked i f = some { o with terms := modT o.terms i f } := by
  simp [Onto.modUnchecked, h, Nat.not_le.2 hs]

/-- setting one `all_parents` field -/
theorem upd_setAll (ts : List Term) (i : Nat) (v : List Nat) :
    Upd ts (modT ts i (fun t' => { t' with allParents := v })) := by
  refine ⟨modT_ids _ _ _ (fun _ => rfl), ?_⟩
  intro j
  have hg := getT_modT ts i j (fun t' => { t' with allParents := v }) (fun _ => rfl)
  simp only [allOf, hg]
  cases h : getT ts j with
  | none => rfl
  | some t =>
    simp only [Option.map_some, Option.getD_some]
    split <;> rfl

theorem allOf_setAll_ne (ts : List Term) (i j : Nat) (v : List Nat) (h : j ≠ i) :
    allOf (modT ts i (fun t' => { t' with allParents := v })) j = allOf ts j := by
  have hm := getT_modT ts i j (fun t' => { t' with allParents := v }) (fun _ => rfl)
  simp only [allOf, hm]
  cases hg : getT ts j with
  | none => rfl
  | some t =>
    have := getT_id hg
    have : ¬ t.id = i := by omega
    simp [this]

theorem allOf_setAll_same (ts : List Term) (i : Nat) (v : List Nat) (t : Term)
    (h : getT ts i = some t) :
    allOf (modT ts i (fun t' => { t' with allParents := v })) i = v := by
  have hm := getT_modT ts i i (fun t' => { t' with allParents := v }) (fun _ => rfl)
  simp only [allOf, hm, h]
  have := getT_id h
  simp [this]

section
variable (par : Nat → List Nat)

/-- outcome of one `create_cache_of_grandparents(i)` -/
structure CachePost (o o' : Onto) (i : Nat) : Prop where
  rest : o' = { o with terms := o'.terms }
  upd : Upd o.terms o'.terms
  good : Good par o'.terms
  comp : Computed par o'.terms i
  mono : ∀ j, Computed par o.terms j → Computed par o'.terms j

theorem cacheFold_post (fuel : Nat) (rank : Nat → Nat) (i : Nat) (o0 : Onto)
    (ih : ∀ (o : Onto) (p : Nat), Static par o.terms → Good par o.terms → (getT o.terms p).isSome →
      rank p < fuel → ∃ o', Onto.createCache fuel o p = .ok o' ∧ CachePost par o o' p)
    (hrk : ∀ p ∈ par i, rank p < fuel) :
    ∀ (ps : List Nat) (o : Onto) (acc done : List Nat), (∀ p ∈ ps, p ∈ par i) →
      Static par o.terms → Good par o.terms → Sorted acc →
      (∀ a ∈ acc, ∃ p ∈ done, TransGen (E par) p a) →
      (∀ p ∈ done, ∀ a, TransGen (E par) p a → a ∈ acc) →
      (o = { o0 with terms := o.terms }) → Upd o0.terms o.terms →
      (∀ j, Computed par o0.terms j → Computed par o.terms j) →
      ∃ o' acc', Onto.cacheFold (Onto.createCache fuel) ps o acc = .ok (o', acc') ∧
        o' = { o0 with terms := o'.terms } ∧ Upd o0.terms o'.terms ∧ Good par o'.terms ∧ Sorted acc' ∧
        (∀ a ∈ acc', ∃ p ∈ done ++ ps, TransGen (E par) p a) ∧
        (∀ p ∈ done ++ ps, ∀ a, TransGen (E par) p a → a ∈ acc') ∧
        (∀ j, Computed par o0.terms j → Computed par o'.terms j) := by
  intro ps
  induction ps with
  | nil =>
    intro o acc done _ _ hG hS h1 h2 hrest hupd hmono
    exact ⟨o, acc, rfl, hrest, hupd, hG, hS, by simpa using h1, by simpa using h2, hmono⟩
  | cons p ps ihp =>
    intro o acc done hsub hSt hG hS h1 h2 hrest hupd hmono
    have hp : p ∈ par i := hsub p (by simp)
    have hpres : (getT o.terms p).isSome := hSt.closed i p hp
    obtain ⟨tp, htp⟩ := Option.isSome_iff_exists.1 hpres
    have hsmall : p < maxId := hSt.small p hpres
    simp only [Onto.cacheFold, getUnchecked_present htp hsmall]
    -- state after making sure `p` is cached
    obtain ⟨o1, ho1, hrest1, hupd1, hG1, hC1, hM1⟩ :
        ∃ o1, (if tp.parentsCached then Res.ok o else Onto.createCache fuel o p) = .ok o1 ∧
          o1 = { o with terms := o1.terms } ∧ Upd o.terms o1.terms ∧ Good par o1.terms ∧
          Computed par o1.terms p ∧ (∀ j, Computed par o.terms j → Computed par o1.terms j) := by
      by_cases hc : tp.parentsCached = true
      · refine ⟨o, by simp [hc], rfl, Upd.refl _, hG, ?_, fun _ h => h⟩
        exact computed_of_cached par hSt.frame hG htp hc
      · obtain ⟨o1, h1', hp1⟩ := ih o p hSt hG hpres (hrk p hp)
        exact ⟨o1, by simp [hc, h1'], hp1.rest, hp1.upd, hp1.good, hp1.comp, hp1.mono⟩
    rw [ho1]
    simp only [Res.bind]
    have hSt1 : Static par o1.terms := hSt.upd par hupd1
    have hpres1 : (getT o1.terms p).isSome := by rw [hupd1.isSome]; exact hpres
    obtain ⟨tp1, htp1⟩ := Option.isSome_iff_exists.1 hpres1
    simp only [getUnchecked_present htp1 hsmall]
    have hall1 : allOf o1.terms p = tp1.allParents := by simp [allOf, htp1]
    have hrest1' : o1 = { o0 with terms := o1.terms } := by
      rw [hrest1, hrest]
    have := ihp o1 (insertAll acc tp1.allParents) (done ++ [p])
      (fun q hq => hsub q (by simp [hq])) hSt1 hG1
      (sorted_insertAll _ _ hS)
      (by
        intro a ha; rw [mem_insertAll] at ha
        rcases ha with ha | ha
        · obtain ⟨q, hq, h⟩ := h1 a ha; exact ⟨q, by simp [hq], h⟩
        · exact ⟨p, by simp, (hC1 a).1 (by rw [hall1]; exact ha)⟩)
      (by
        intro q hq a ha; rw [mem_insertAll]
        simp at hq; rcases hq with hq | rfl
        · exact Or.inl (h2 q hq a ha)
        · right; rw [← hall1]; exact (hC1 a).2 ha)
      hrest1' (hupd.trans hupd1) (fun j hj => hM1 j (hmono j hj))
    simpa [List.append_assoc] using this

theorem cache_post (rank : Nat → Nat) (hrank : ∀ c p, p ∈ par c → rank p < rank c)
    (hps : ∀ j, Sorted (par j)) :
    ∀ fuel (o : Onto) (i : Nat), Static par o.terms → Good par o.terms → (getT o.terms i).isSome →
      rank i < fuel → ∃ o', Onto.createCache fuel o i = .ok o' ∧ CachePost par o o' i := by
  intro fuel
  induction fuel with
  | zero => intro o i _ _ _ h; omega
  | succ fuel ih =>
    intro o i hSt hG hpres hr
    obtain ⟨t, ht⟩ := Option.isSome_iff_exists.1 hpres
    have hsmall : i < maxId := hSt.small i hpres
    have hpar : t.parents = par i := by
      have := hSt.frame i; simpa [parentsOf, ht] using this
    simp only [Onto.createCache, getUnchecked_present ht hsmall, hpar]
    obtain ⟨o1, acc1, hf, hrest1, hupd1, hG1, hS1, hr1, hr2, hM1⟩ :=
      cacheFold_post par fuel rank i o ih (fun p hp => by have := hrank i p hp; omega)
        (par i) o [] [] (fun _ h => h) hSt hG sorted_nil (by simp) (by simp) rfl (Upd.refl _)
        (fun _ h => h)
    simp only [List.nil_append] at hr1 hr2
    rw [hf]
    simp only [Res.bind]
    have hpres1 : (getT o1.terms i).isSome := by rw [hupd1.isSome]; exact hpres
    obtain ⟨t1, ht1⟩ := Option.isSome_iff_exists.1 hpres1
    rw [modUnchecked_present _ ht1 hsmall]
    refine ⟨_, rfl, ?_⟩
    have hSt1 : Static par o1.terms := hSt.upd par hupd1
    have hmem : ∀ a, a ∈ bitor acc1 (par i) ↔ TransGen (E par) i a := by
      intro a
      rw [mem_bitor, transGen_iff]
      constructor
      · rintro (h | h)
        · obtain ⟨p, hp, h⟩ := hr1 a h; exact ⟨p, hp, Or.inr h⟩
        · exact ⟨a, h, Or.inl rfl⟩
      · rintro ⟨p, hp, rfl | h⟩
        · exact Or.inr hp
        · exact Or.inl (hr2 p hp a h)
    have hcompi : Computed par (modT o1.terms i (fun t' => { t' with allParents := bitor acc1 (par i) })) i := by
      intro a
      rw [allOf_setAll_same _ _ _ _ ht1]
      exact hmem a
    refine ⟨?_, ?_, ?_, hcompi, ?_⟩
    · rw [hrest1]
    · exact hupd1.trans (upd_setAll _ _ _)
    · intro j
      by_cases hji : j = i
      · subst hji
        refine ⟨Or.inr hcompi, ?_⟩
        rw [allOf_setAll_same _ _ _ _ ht1]
        exact sorted_bitor _ _ hS1 (hps j)
      · rw [allOf_setAll_ne _ _ _ _ hji]
        refine ⟨?_, (hG1 j).2⟩
        rcases (hG1 j).1 with h | h
        · exact Or.inl h
        · refine Or.inr ?_; intro a; rw [allOf_setAll_ne _ _ _ _ hji]; exact h a
    · intro j hj
      by_cases hji : j = i
      · subst hji; exact hcompi
      · intro a; rw [allOf_setAll_ne _ _ _ _ hji]; exact hM1 j hj a

/-- `connect_all_terms`: after the fold over all keys every term holds its exact closure -/
theorem connectFold_post (rank : Nat → Nat) (hrank : ∀ c p, p ∈ par c → rank p < rank c)
    (hps : ∀ j, Sorted (par j)) (fuel : Nat) (hfuel : ∀ j, rank j < fuel) :
    ∀ (is : List Nat) (o : Onto), Static par o.terms → Good par o.terms →
      (∀ i ∈ is, (getT o.terms i).isSome) →
      ∃ o', Onto.connectFold fuel is o = .ok o' ∧ o' = { o with terms := o'.terms } ∧
        Upd o.terms o'.terms ∧ Good par o'.terms ∧ (∀ i ∈ is, Computed par o'.terms i) ∧
        (∀ j, Computed par o.terms j → Computed par o'.terms j) := by
  intro is
  induction is with
  | nil => intro o _ hG _; exact ⟨o, rfl, rfl, Upd.refl _, hG, by simp, fun _ h => h⟩
  | cons i is ih =>
    intro o hSt hG hpres
    obtain ⟨o1, h1, p1⟩ := cache_post par rank hrank hps fuel o i hSt hG (hpres i (by simp)) (hfuel i)
    simp only [Onto.connectFold, h1, Res.bind]
    obtain ⟨o2, h2, hrest2, hupd2, hG2, hC2, hM2⟩ := ih o1 (hSt.upd par p1.upd) p1.good
      (fun j hj => by rw [p1.upd.isSome]; exact hpres j (by simp [hj]))
    refine ⟨o2, h2, ?_, p1.upd.trans hupd2, hG2, ?_, fun j hj => hM2 j (p1.mono j hj)⟩
    · rw [hrest2, p1.rest]
    · intro j hj
      rcases List.mem_cons.1 hj with rfl | hj
      · exact hM2 _ p1.comp
      · exact hC2 j hj

end
end Hpo
