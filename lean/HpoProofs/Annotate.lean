import HpoProofs.Link
/-!
Invariants of the annotation phase of the builder (`add_gene`/`add_*_disease`, `annotate_*`):
for every history of calls on a connected ontology, for each kind separately,
a record id is on a term iff the record is directly annotated to the term or to a descendant;
records list exactly their direct terms; failing calls change nothing.
-/
namespace Hpo
open Group

/-- direct terms of record `r` of kind `k` (`[]` if there is no such record) -/
def hposOf (k : Kind) (o : Onto) (r : Nat) : List Nat := ((getR (o.recs k) r).map (·.hpos)).getD []

theorem recs_setRecs (o : Onto) (k : Kind) (v : List Rec) : (o.setRecs k v).recs k = v := by
  cases k <;> rfl

theorem recs_setRecs_ne (o : Onto) (k k' : Kind) (v : List Rec) (h : k' ≠ k) :
    (o.setRecs k v).recs k' = o.recs k' := by
  cases k <;> cases k' <;> first | rfl | exact absurd rfl h

theorem terms_setRecs (o : Onto) (k : Kind) (v : List Rec) : (o.setRecs k v).terms = o.terms := by
  cases k <;> rfl

theorem getR_addR (rs : List Rec) (r : Rec) (j : Nat) :
    getR (addR rs r) j = match getR rs j with
      | some x => some x
      | none => if r.id = j then some r else none := by
  unfold addR
  cases h : getR rs r.id with
  | some x =>
    simp only
    cases hj : getR rs j with
    | some y => rfl
    | none =>
      have : ¬ r.id = j := by intro e; rw [e] at h; rw [h] at hj; cases hj
      simp [this]
  | none => simp only; exact getR_append rs r j

/-- `add_gene` & co never change the direct terms of any record -/
theorem hposOf_addRec (o : Onto) (k k' : Kind) (n : List Char) (i r : Nat) :
    hposOf k' (o.addRec k n i) r = hposOf k' o r := by
  unfold hposOf Onto.addRec
  by_cases hk : k' = k
  · subst hk
    rw [recs_setRecs, getR_addR]
    cases h : getR (o.recs k') r with
    | some x => rfl
    | none => simp only; split <;> rfl
  · rw [recs_setRecs_ne _ _ _ _ hk]

/-- `add_gene(name, id)` then `record.add_term(t)` -/
theorem hposOf_addTermToRec (o : Onto) (k k' : Kind) (n : List Char) (rid t r : Nat) :
    hposOf k' (o.addTermToRec k n rid t) r =
      if k' = k ∧ r = rid then (insert (hposOf k o rid) t).1 else hposOf k' o r := by
  unfold Onto.addTermToRec
  by_cases hk : k' = k
  · subst hk
    unfold hposOf
    rw [recs_setRecs, getR_modR ((o.addRec k' n rid).recs k') rid r
      (fun r => { r with hpos := (Group.insert r.hpos t).1 }) (fun _ => rfl)]
    have hadd := fun j => getR_addR (o.recs k') { id := rid, name := n } j
    simp only [Onto.addRec, recs_setRecs, hadd]
    by_cases hr : r = rid
    · subst hr
      cases h : getR (o.recs k') r with
      | some x => have := getR_id h; simp [this]
      | none => simp
    · have hr' : ¬ rid = r := fun e => hr e.symm
      cases h : getR (o.recs k') r with
      | some x => have := getR_id h; simp [this, hr]
      | none => simp [hr, hr']
  · unfold hposOf
    rw [recs_setRecs_ne _ _ _ _ hk]
    simp only [Onto.addRec, recs_setRecs_ne _ _ _ _ hk, hk, false_and, ↓reduceIte]

theorem terms_addTermToRec (o : Onto) (k : Kind) (n : List Char) (rid t : Nat) :
    (o.addTermToRec k n rid t).terms = o.terms := by
  simp [Onto.addTermToRec, Onto.addRec, terms_setRecs]

theorem recs_of_rest {o o' : Onto} (h : o' = { o with terms := o'.terms }) (k : Kind) :
    o'.recs k = o.recs k := by
  rw [h]; cases k <;> rfl

section
variable (anc : Nat → List Nat) (ex : Nat → Prop)

/-- invariant of `Builder<ConnectedTerms>` for all three kinds -/
structure AnnInv (o : Onto) : Prop where
  ancF : ∀ j, allOf o.terms j = anc j
  pres : ∀ j, (getT o.terms j).isSome ↔ ex j
  small : ∀ j, (getT o.terms j).isSome → j < maxId
  sorted : ∀ k j, Sorted (annOf k o.terms j)
  /-- a record is on a term iff it is directly annotated to the term or one of its descendants -/
  linked : ∀ k x r, r ∈ annOf k o.terms x ↔ ∃ d, d ∈ hposOf k o r ∧ Up anc d x
  /-- direct terms of every record resolve -/
  recTerms : ∀ k r d, d ∈ hposOf k o r → ex d
  hposSorted : ∀ k r, Sorted (hposOf k o r)

theorem AnnInv.lstate {o : Onto} (h : AnnInv anc ex o) (k : Kind) : LState anc ex k o.terms :=
  ⟨h.ancF, h.pres, h.small, h.sorted k⟩

theorem AnnInv.upclosed {o : Onto} (h : AnnInv anc ex o) (rank : Nat → Nat)
    (hc : AncClosure anc ex rank) (k : Kind) (x r : Nat)
    (hx : r ∈ annOf k o.terms x) : ∀ y ∈ anc x, r ∈ annOf k o.terms y := by
  intro y hy
  obtain ⟨d, hd, hu⟩ := (h.linked k x r).1 hx
  refine (h.linked k y r).2 ⟨d, hd, Or.inr ?_⟩
  rcases hu with rfl | hu
  · exact hy
  · exact hc.trans d x y hu hy

theorem annInv_addRec (o : Onto) (k : Kind) (n : List Char) (i : Nat) (h : AnnInv anc ex o) :
    AnnInv anc ex (o.addRec k n i) := by
  have ht : (o.addRec k n i).terms = o.terms := by simp [Onto.addRec, terms_setRecs]
  constructor
  · rw [ht]; exact h.ancF
  · rw [ht]; exact h.pres
  · rw [ht]; exact h.small
  · rw [ht]; exact h.sorted
  · intro k' x r; rw [ht, hposOf_addRec]; exact h.linked k' x r
  · intro k' r d; rw [hposOf_addRec]; exact h.recTerms k' r d
  · intro k' r; rw [hposOf_addRec]; exact h.hposSorted k' r

/-- a successful or failing `annotate_*` call keeps the invariant; failing calls change nothing -/
theorem annInv_annotate (rank : Nat → Nat) (hc : AncClosure anc ex rank) (o : Onto) (k : Kind)
    (rid : Nat) (n : List Char) (t : Nat) (h : AnnInv anc ex o)
    (hfuel : ∀ j, rank j < o.terms.length + 2) :
    (o.annotate k rid n t = .err .doesNotExist ∧ ¬ ex t) ∨
    (ex t ∧ ∃ o', o.annotate k rid n t = .ok o' ∧ AnnInv anc ex o' ∧
      o'.terms.length = o.terms.length ∧
      (∀ k', o'.recs k' = (o.addTermToRec k n rid t).recs k') ∧
      (∀ k', k' ≠ k → ∀ j, annOf k' o'.terms j = annOf k' o.terms j)) := by
  unfold Onto.annotate
  rw [get_eq_getT o t h.small]
  cases hg : getT o.terms t with
  | none =>
    left
    refine ⟨rfl, ?_⟩
    intro he; have := (h.pres t).2 he; simp [hg] at this
  | some tm =>
    right
    have hext : ex t := (h.pres t).1 (by simp [hg])
    refine ⟨hext, ?_⟩
    simp only
    have ht1 := terms_addTermToRec o k n rid t
    have hst1 : LState anc ex k (o.addTermToRec k n rid t).terms := by rw [ht1]; exact h.lstate anc ex k
    have hup : UpClosedAbove anc k (o.addTermToRec k n rid t).terms rid t := by
      rw [ht1]; intro x _ hx y hy; exact h.upclosed anc ex rank hc k x rid hx y hy
    obtain ⟨o', hl, p⟩ := link_post anc ex k rid rank hc (o.addTermToRec k n rid t).linkFuel
      (o.addTermToRec k n rid t) t (by simp only [Onto.linkFuel, ht1]; exact hfuel t) hext hst1 hup
    refine ⟨o', hl, ?_, ?_, ?_, ?_⟩
    · have hrecs : ∀ k', o'.recs k' = (o.addTermToRec k n rid t).recs k' := recs_of_rest p.rest
      have hhp : ∀ k' r, hposOf k' o' r = hposOf k' (o.addTermToRec k n rid t) r := by
        intro k' r; simp only [hposOf, hrecs]
      constructor
      · exact p.state.ancF
      · exact p.state.pres
      · exact p.state.small
      · intro k' j
        by_cases hk : k' = k
        · subst hk; exact p.state.sortedA j
        · rw [p.upd.ann_ne hk, ht1]; exact h.sorted k' j
      · intro k' x r
        rw [hhp, hposOf_addTermToRec]
        by_cases hk : k' = k
        · subst hk
          rw [p.frame x r, ht1, h.linked k' x r]
          by_cases hr : r = rid
          · subst hr
            rw [if_pos ⟨rfl, rfl⟩]
            constructor
            · rintro (h1 | ⟨_, hu⟩)
              · obtain ⟨d, hd, hu⟩ := h1; exact ⟨d, (mem_insert _ _ _).2 (Or.inr hd), hu⟩
              · exact ⟨t, (mem_insert _ _ _).2 (Or.inl rfl), hu⟩
            · rintro ⟨d, hd, hu⟩
              rcases (mem_insert _ _ _).1 hd with rfl | hd
              · exact Or.inr ⟨rfl, hu⟩
              · exact Or.inl ⟨d, hd, hu⟩
          · rw [if_neg (fun h' => hr h'.2)]
            constructor
            · rintro (h1 | ⟨h2, _⟩)
              · exact h1
              · exact absurd h2 hr
            · exact Or.inl
        · have : ¬ (k' = k ∧ r = rid) := fun h' => hk h'.1
          simp only [this, ↓reduceIte]
          rw [p.upd.ann_ne hk, ht1]; exact h.linked k' x r
      · intro k' r d
        rw [hhp, hposOf_addTermToRec]
        split
        · rename_i hkr
          intro hd
          rcases (mem_insert _ _ _).1 hd with rfl | hd
          · exact hext
          · exact h.recTerms k rid d hd
        · exact h.recTerms k' r d
      · intro k' r
        rw [hhp, hposOf_addTermToRec]
        split
        · exact sorted_insert _ _ (h.hposSorted k rid)
        · exact h.hposSorted k' r
    · have := congrArg List.length p.upd.1
      simpa [ht1] using this
    · exact recs_of_rest p.rest
    · intro k' hk j
      rw [p.upd.ann_ne hk, ht1]

end
end Hpo
