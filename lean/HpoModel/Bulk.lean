import HpoModel.Builder
/-
Bulk forms of two Builder calls, for ontologies with tens of thousands of records (the u16 limit of
the information-content calculation, information contents close to 0).

`addRecRange` is `add_gene` / `add_omim_disease` / `add_orpha_disease` called for the ids
`first, first+1, …, first+count-1` under one name; `addRecRangeFast` is what the driver runs
(one pass instead of `count` passes; `HpoProofs/Bulk.lean`: the two are equal).
`annotateRange` is `annotate_*` called for the same ids in DESCENDING order (each id is then the
smallest of its term's list: sorted insertion at the front) and one term, stopping at the first error.
-/
namespace Hpo
namespace Onto

def addRecRange (o : Onto) (k : Kind) (name : List Char) (first : Nat) : Nat → Onto
  | 0 => o
  | n + 1 => addRecRange (o.addRec k name first) k name (first + 1) n

def rangeRecs (name : List Char) (first count : Nat) : List Rec :=
  (List.range count).map fun i => { id := first + i, name := name }

def addRecRangeFast (o : Onto) (k : Kind) (name : List Char) (first count : Nat) : Onto :=
  if (o.recs k).all (fun r => r.id < first || first + count ≤ r.id) then
    o.setRecs k (o.recs k ++ rangeRecs name first count)
  else addRecRange o k name first count

def annotateRange (o : Onto) (k : Kind) (name : List Char) (t : Nat) (first : Nat) : Nat → Res Onto
  | 0 => .ok o
  | n + 1 => (o.annotate k (first + n) name t).bind fun o' => annotateRange o' k name t first n

end Onto
end Hpo
