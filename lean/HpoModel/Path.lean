import HpoModel.SubOntology
import HpoModel.Num
/-
`Distance` similarity (`src/similarity/defaults.rs`): `1 / (distance_to_term + 1)`, `0` when
there is no common ancestor.  Written once over `[Num F]` (checked division).
-/
namespace Hpo

/-- `usize_to_f32`: via `u16`, `expect("Matrix too large")` -/
def distFitsU16 (n : Nat) : Bool := n ≤ 65535

/-- `a.distance_to_term(b).map_or(0.0, |n| 1.0 / (usize_to_f32(n) + 1.0))`;
outer `none` = panic (`usize_to_f32`), inner `none` = division by zero -/
def distanceSimP {F : Type} [Num F] : Option Nat → Option (Option F)
  | none => some (some (Num.ofNat 0))
  | some n =>
    if distFitsU16 n then some (Num.div? (Num.ofNat 1 : F) (Num.add (Num.ofNat n) (Num.ofNat 1)))
    else none

end Hpo
