import HpoModel.Group
/-
Core data of the model: terms, annotation records, the term arena, the ontology/builder state.

`src/term/internal.rs`  (HpoTermInternal)        -> `Term`
`src/annotations/*.rs`  (Gene, OmimDisease, ...) -> `Rec` (one shape for all three kinds)
`src/ontology/termarena.rs` (Arena)              -> `Onto.terms` + `Onto.slot0` (see below)
`src/ontology.rs` / `src/ontology/builder.rs`    -> `Onto` (Builder<T> and Ontology share all fields)

Hash maps / hash sets are association lists / sorted id lists; iteration order is never an
observable (observations are sorted by id).
-/
namespace Hpo

/-- `MAX_HPO_ID_INTEGER`: size of the arena's id table. -/
def maxId : Nat := 10000000

/-- The three annotation kinds. -/
inductive Kind where
  | gene | omim | orpha
deriving DecidableEq, Repr

/-- Outcome of a fallible operation of the library. -/
inductive Err where
  | notImplemented | doesNotExist | parseInt | parseBinary | cannotOpen | tryFromInt | invalidInput
deriving DecidableEq, Repr

inductive Res (α : Type) where
  | ok (a : α)
  | err (e : Err)
  | panic          -- the real code panics (index out of bounds, unwrap, assert)
  | diverge        -- the real code does not terminate / overflows the stack (fuel exhausted)
deriving Repr, DecidableEq

namespace Res
def bind {α β : Type} (r : Res α) (f : α → Res β) : Res β :=
  match r with
  | ok a => f a
  | err e => err e
  | panic => panic
  | diverge => diverge
def isOk {α : Type} : Res α → Bool
  | ok _ => true
  | _ => false
def toOption {α : Type} : Res α → Option α
  | ok a => some a
  | _ => none
end Res

/-- `HpoTermInternal`. `ic*` hold the pair `(current, total)` the value was computed from
(`InformationContent::calculate(total, current)`); the numeric value is `Ic.value`. -/
structure Term where
  id : Nat
  name : List Char
  parents : List Nat := []
  allParents : List Nat := []
  children : List Nat := []
  genes : List Nat := []
  omim : List Nat := []
  orpha : List Nat := []
  icGene : Nat × Nat := (0, 0)
  icOmim : Nat × Nat := (0, 0)
  icOrpha : Nat × Nat := (0, 0)
  obsolete : Bool := false
  replacement : Option Nat := none
deriving Repr, DecidableEq

/-- `Gene` / `OmimDisease` / `OrphaDisease`: id, name, directly annotated terms (an `HpoGroup`). -/
structure Rec where
  id : Nat
  name : List Char
  hpos : List Nat := []
deriving Repr, DecidableEq

namespace Term
def ann (t : Term) : Kind → List Nat
  | .gene => t.genes
  | .omim => t.omim
  | .orpha => t.orpha
def setAnn (t : Term) (k : Kind) (v : List Nat) : Term :=
  match k with
  | .gene => { t with genes := v }
  | .omim => { t with omim := v }
  | .orpha => { t with orpha := v }
def ic (t : Term) : Kind → Nat × Nat
  | .gene => t.icGene
  | .omim => t.icOmim
  | .orpha => t.icOrpha
def setIc (t : Term) (k : Kind) (v : Nat × Nat) : Term :=
  match k with
  | .gene => { t with icGene := v }
  | .omim => { t with icOmim := v }
  | .orpha => { t with icOrpha := v }
end Term

/-- `HpoTermInternal::default()`: the placeholder in arena slot 0. -/
def placeholder : Term := { id := 0, name := "HP:0000000".toList }

/-- Builder and Ontology state. `terms` are the arena's slots 1.. in insertion order,
`slot0` is the placeholder slot that `get_unchecked(_mut)` addresses for an absent id. -/
structure Onto where
  terms : List Term := []
  slot0 : Term := placeholder
  genes : List Rec := []
  omim : List Rec := []
  orpha : List Rec := []
  version : Nat × Nat × Nat := (0, 0, 0)
  categories : List Nat := []
  modifier : List Nat := []
deriving Repr, DecidableEq

namespace Onto
def recs (o : Onto) : Kind → List Rec
  | .gene => o.genes
  | .omim => o.omim
  | .orpha => o.orpha
def setRecs (o : Onto) (k : Kind) (v : List Rec) : Onto :=
  match k with
  | .gene => { o with genes := v }
  | .omim => { o with omim := v }
  | .orpha => { o with orpha := v }
end Onto

/-! ### arena -/

/-- lookup by id in the slot list (`ids[id]` then `terms[idx]`) -/
def getT : List Term → Nat → Option Term
  | [], _ => none
  | t :: ts, i => if t.id = i then some t else getT ts i

/-- apply `f` to the term with id `i` (ids are unique in the arena) -/
def modT : List Term → Nat → (Term → Term) → List Term
  | [], _, _ => []
  | t :: ts, i, f => (if t.id = i then f t else t) :: modT ts i f

/-- `Arena::insert`: index out of bounds (panic) for ids beyond the table, no-op on a duplicate. -/
def arenaInsert (ts : List Term) (t : Term) : Option (List Term) :=
  if t.id ≥ maxId then none
  else match getT ts t.id with
    | some _ => some ts
    | none => some (ts ++ [t])

/-- `Arena::get`: `None` for ids beyond the table and for absent ids. -/
def arenaGet (ts : List Term) (i : Nat) : Option Term :=
  if i ≥ maxId then none else getT ts i

namespace Onto
/-- `Arena::get_unchecked`: absent id (< 10^7) reads slot 0; id ≥ 10^7 panics (`none`). -/
def getUnchecked (o : Onto) (i : Nat) : Option Term :=
  if i ≥ maxId then none else some ((getT o.terms i).getD o.slot0)

/-- `Arena::get_unchecked_mut` followed by a mutation. -/
def modUnchecked (o : Onto) (i : Nat) (f : Term → Term) : Option Onto :=
  if i ≥ maxId then none
  else match getT o.terms i with
    | some _ => some { o with terms := modT o.terms i f }
    | none => some { o with slot0 := f o.slot0 }

def get (o : Onto) (i : Nat) : Option Term := arenaGet o.terms i
def ids (o : Onto) : List Nat := o.terms.map (·.id)
end Onto

/-! ### record maps (HashMap<Id, Record>) -/

def getR : List Rec → Nat → Option Rec
  | [], _ => none
  | r :: rs, i => if r.id = i then some r else getR rs i

def modR : List Rec → Nat → (Rec → Rec) → List Rec
  | [], _, _ => []
  | r :: rs, i, f => (if r.id = i then f r else r) :: modR rs i f

/-- `HashMap::entry(id)` vacant ⇒ insert; occupied ⇒ unchanged -/
def addR (rs : List Rec) (r : Rec) : List Rec :=
  match getR rs r.id with
  | some _ => rs
  | none => rs ++ [r]

/-- `HashMap::insert(id, rec)`: replaces an existing record -/
def putR (rs : List Rec) (r : Rec) : List Rec :=
  match getR rs r.id with
  | some _ => modR rs r.id (fun _ => r)
  | none => rs ++ [r]

end Hpo
