import HpoModel.Core
/-
Model of `src/term/hpotermid.rs`: `Display` (`HP:{:07}`), `TryFrom<&str>` (as fixed: `s.get(3..)`),
`From<[u8;4]>` / `to_be_bytes`.
A `&str` is a `List Char`; its byte length is the sum of the UTF-8 sizes.
-/
namespace Hpo
namespace TermId

def digitChar (n : Nat) : Char :=
  match n % 10 with
  | 0 => '0' | 1 => '1' | 2 => '2' | 3 => '3' | 4 => '4'
  | 5 => '5' | 6 => '6' | 7 => '7' | 8 => '8' | _ => '9'

/-- decimal digits of `n`, most significant first (`[]` for 0; see `render`) -/
def digitsRev : Nat → Nat → List Char
  | 0, _ => []
  | fuel + 1, n => if n < 10 then [digitChar n] else digitChar n :: digitsRev fuel (n / 10)

def decimal (n : Nat) : List Char := (digitsRev (n + 1) n).reverse

/-- `format!("HP:{:07}", n)`: zero padded to at least seven digits -/
def render (n : Nat) : List Char :=
  let d := decimal n
  ['H', 'P', ':'] ++ List.replicate (7 - d.length) '0' ++ d

def byteLen (cs : List Char) : Nat := (cs.map Char.utf8Size).sum

/-- `s.get(n..)`: the suffix from byte offset `n`, `none` if `n` is not a character boundary
(or beyond the end) -/
def dropBytes : Nat → List Char → Option (List Char)
  | n, [] => if n = 0 then some [] else none
  | n, c :: cs =>
    if n = 0 then some (c :: cs)
    else if c.utf8Size ≤ n then dropBytes (n - c.utf8Size) cs
    else none

def digitVal (c : Char) : Option Nat :=
  if '0' ≤ c ∧ c ≤ '9' then some (c.toNat - 48) else none

def digitsVal : List Char → Nat → Option Nat
  | [], acc => some acc
  | c :: cs, acc =>
    match digitVal c with
    | some d => digitsVal cs (acc * 10 + d)
    | none => none

/-- an optional leading `+` is accepted by `u32::from_str` -/
def stripPlus : List Char → List Char
  | '+' :: r => r
  | cs => cs

/-- one or more decimal digits with value < 2^32 -/
def parseDigits (ds : List Char) : Option Nat :=
  if ds.isEmpty then none
  else (digitsVal ds 0).bind fun v => if v < 4294967296 then some v else none

/-- `str::parse::<u32>()`: `'+'? [0-9]+` with value < 2^32 -/
def parseU32 (cs : List Char) : Option Nat := parseDigits (stripPlus cs)

/-- `HpoTermId::try_from(&str)`: `none` = `Err(ParseIntError)`; total (never panics) -/
def parse (cs : List Char) : Option Nat :=
  if byteLen cs < 4 then none
  else (dropBytes 3 cs).bind parseU32

/-- the code before the fix sliced `s[3..]`: a panic when byte 3 is not a boundary -/
def parsePrefix (cs : List Char) : Res Nat :=
  if byteLen cs < 4 then .err .parseInt
  else match dropBytes 3 cs with
    | none => .panic
    | some r => match parseU32 r with
      | some n => .ok n
      | none => .err .parseInt

/-- `u32::to_be_bytes` -/
def toBe (n : Nat) : List Nat := [n / 16777216 % 256, n / 65536 % 256, n / 256 % 256, n % 256]

/-- `u32::from_be_bytes` -/
def fromBe (b0 b1 b2 b3 : Nat) : Nat := b0 * 16777216 + b1 * 65536 + b2 * 256 + b3

end TermId
end Hpo
