import HpoModel.Hypergeom
/-
Linear-time evaluation of the exact hypergeometric tail for populations of tens of thousands
(`enrichbig`): `tailNum` recomputes both binomials of every term from scratch (quadratic), the
driver runs `tailNumFast`, which carries the two binomials `C(K,j)` and `C(M,n−j)` along and updates
them multiplicatively (exact divisions):

    C(K,j+1)   = C(K,j) · (K−j) / (j+1)
    C(M,n−j−1) = C(M,n−j) · (n−j) / (M−(n−j)+1)         (for 1 ≤ n−j ≤ M; unchanged for n−j = 0)

The downward step cannot leave `C(M,n−j) = 0` (that is `n−j > M`); those leading terms are all 0 and
are skipped before the loop starts.  `HpoProofs/HypergeomFast.lean`: `tailNumFast = tailNum`,
`sfModelFast = sfModel`, `pvalueFast = pvalue`, without side conditions.
-/
namespace Hpo
namespace Hypergeom

/-- `C(M,r) ↦ C(M,r−1)` for `1 ≤ r ≤ M`; `r = 0` stays (`n − (j+1) = n − j = 0` in the caller) -/
def downStep (M r b : Nat) : Nat := if r = 0 then b else b * r / (M - r + 1)

/-- `cnt` terms from index `j` on, `a = C(K,j)`, `b = C(M,n−j)`, the sum so far in `acc` -/
def tailLoop (K M n : Nat) : Nat → Nat → Nat → Nat → Nat → Nat
  | 0, _, _, _, acc => acc
  | c + 1, j, a, b, acc =>
    tailLoop K M n c (j + 1) (a * (K - j) / (j + 1)) (downStep M (n - j) b) (acc + a * b)

/-- `tailNum` in linear time: leading terms with `n − i > M` are 0, then the loop -/
def tailNumFast (K M n : Nat) : Nat → Nat → Nat
  | 0, _ => 0
  | c + 1, i =>
    if M < n - i then tailNumFast K M n c (i + 1)
    else tailLoop K M n (c + 1) i (chooseMul K i) (chooseMul M (n - i)) 0

/-- `sfModel` with the linear-time tail -/
def sfModelFast (N K n x : Nat) : Nat × Nat :=
  if x < hmin N K n then (1, 1)
  else if x ≥ hmax K n then (0, 1)
  else (tailNumFast K (N - K) n (hmax K n - x) (x + 1), chooseMul N n)

/-- `pvalue` with the linear-time tail -/
def pvalueFast (N n : Nat) (e : Enr) : Nat × Nat := sfModelFast N e.K n (e.count - 1)

end Hypergeom
end Hpo
