/-
Model of `src/matrix.rs`: `Matrix { rows, cols, data }` (row-major slice, dimensions NOT checked
against the data length) with its two iterators.

  rows():  `RowIndexIterator` yields `idx ..= idx + cols - 1` while `idx < rows * cols`, then
           `idx += cols`; `RowIterator` slices `data[range]` (panics when out of bounds).
  cols():  `ColumnIndexIterator` yields `(idx, step = cols)` for `idx in 0..cols`;
           `ColumnIterator` advances a fresh `data.iter()` by `idx` and then `step_by(cols)`.
-/
namespace Hpo

structure Matrix (F : Type) where
  rows : Nat
  cols : Nat
  data : List F

namespace Matrix
variable {F : Type}

/-- `Matrix::is_empty`: no data -/
def isEmpty (m : Matrix F) : Bool := m.data.isEmpty

/-- the row loop; `fuel` bounds the number of rounds (`rows * cols + 1` is always enough),
`none` = the slice index panics -/
def rowsGo (m : Matrix F) : Nat → Nat → Option (List (List F))
  | 0, _ => some []
  | fuel + 1, idx =>
    if idx ≥ m.rows * m.cols then some []
    else if idx + m.cols > m.data.length then none
    else (rowsGo m fuel (idx + m.cols)).map fun rest => ((m.data.drop idx).take m.cols) :: rest

/-- `Matrix::rows()` collected -/
def rowList (m : Matrix F) : Option (List (List F)) := rowsGo m (m.rows * m.cols + 1) 0

/-- `iter.skip(k).step_by(c)`: drop `k` elements, then yield one element and drop `c - 1`, … -/
def stepGo (c : Nat) : Nat → List F → List F
  | _, [] => []
  | 0, x :: xs => x :: stepGo c (c - 1) xs
  | k + 1, _ :: xs => stepGo c k xs

/-- the column loop: `idx` from `j` up to `cols` -/
def colsGo (m : Matrix F) : Nat → Nat → List (List F)
  | 0, _ => []
  | n + 1, j => stepGo m.cols j m.data :: colsGo m n (j + 1)

/-- `Matrix::cols()` collected -/
def colList (m : Matrix F) : List (List F) := colsGo m m.cols 0

end Matrix
end Hpo
