import HpoModel.Builder
/-
The logical steps of `Ontology::from_bytes` *after* framing and record decoding
(`src/ontology.rs`, `Builder::add_terms_from_bytes`, `add_parent_from_bytes`,
`add_genes_from_bytes`, ...), on already decoded records (`RawFacts`).
`HpoModel/Binary.lean` maps bytes to `RawFacts`; the line protocol's `f*` ops supply them directly.
-/
namespace Hpo

/-- decoded content of a binary file, in file order -/
structure RawFacts where
  version : Nat × Nat × Nat := (0, 0, 0)
  /-- term records: id, name, obsolete flag, replacement -/
  terms : List Term := []
  /-- parent records: (term, its parents) -/
  parents : List (Nat × List Nat) := []
  /-- gene / disease records with their term ids as listed (any order, duplicates possible) -/
  genes : List Rec := []
  omim : List Rec := []
  orpha : List Rec := []
deriving Repr

namespace Onto

def addTermsFold : List Term → Onto → Option Onto
  | [], o => some o
  | t :: ts, o => (o.addTerm t).bind (addTermsFold ts)

def addParentsOf (t : Nat) : List Nat → Onto → Option Onto
  | [], o => some o
  | p :: ps, o => (o.addParentUnchecked p t).bind (addParentsOf t ps)

/-- `add_parent_from_bytes` -/
def addParentRecs : List (Nat × List Nat) → Onto → Option Onto
  | [], o => some o
  | (t, ps) :: rs, o => (addParentsOf t ps o).bind (addParentRecs rs)

def linkAll (k : Kind) (r : Nat) : List Nat → Onto → Res Onto
  | [], o => .ok o
  | t :: ts, o => (link k r o.linkFuel o t).bind (linkAll k r ts)

/-- `add_genes_from_bytes` etc.: per record link every (deduplicated, ascending) term, then
`HashMap::insert` the record (replacing an earlier record with the same id) -/
def addRecsFromBytes (k : Kind) : List Rec → Onto → Res Onto
  | [], o => .ok o
  | r :: rs, o =>
    let g := Group.ofList r.hpos
    (linkAll k r.id g o).bind fun o' =>
      addRecsFromBytes k rs (o'.setRecs k (putR (o'.recs k) { r with hpos := g }))

/-- `Ontology::from_bytes` after decoding; `fv` = format version 1, 2 or 3 -/
def loadFacts (fv : Nat) (f : RawFacts) : Res Onto :=
  let ts := if fv = 1 then f.terms.map (fun t => { id := t.id, name := t.name : Term }) else f.terms
  let o0 : Onto := { version := if fv = 1 then (0, 0, 0) else f.version }
  match addTermsFold ts o0 with
  | none => .panic
  | some o1 =>
    match addParentRecs f.parents o1 with
    | none => .panic
    | some o2 =>
      o2.connectAll.bind fun o3 =>
        (addRecsFromBytes .gene f.genes o3).bind fun o4 =>
          (addRecsFromBytes .omim f.omim o4).bind fun o5 =>
            (if fv > 2 then addRecsFromBytes .orpha f.orpha o5 else .ok o5).bind fun o6 =>
              o6.calcIc.bind fun o7 => o7.buildWithDefaults

end Onto
end Hpo
