/-
Model of `src/term/group.rs` (`HpoGroup`): a strictly ascending, duplicate-free vector of
term ids.  Ids are `Nat` (the code: `u32`; range guards live where the code has them).

Mirrors, function by function:
  insert            binary_search + Vec::insert(idx)    (contract of binary_search on a sorted
                    slice assumed: Ok iff present, Err(idx) = ordered insertion point)
  contains          binary_search(..).is_ok()
  bitor             the two-iterator merge loop with unchecked push (incl. the `Equal` arm)
  bitand            iterate the operand that is *not* longer, linear `contains` on the other,
                    unchecked push
  addId             `&g + id` and `&g | id`: copy then `insert`
  ofList            From<Vec<_>>, From<HashSet<_>>, FromIterator: fold of `insert`
-/
namespace Hpo
namespace Group

/-- `HpoGroup::insert`: returns the new vector and whether the id was new. -/
def insert : List Nat → Nat → List Nat × Bool
  | [], x => ([x], true)
  | a :: l, x =>
    if x < a then (x :: a :: l, true)
    else if x = a then (a :: l, false)
    else (a :: (insert l x).1, (insert l x).2)

/-- `HpoGroup::contains` -/
def contains (l : List Nat) (x : Nat) : Bool := l.elem x

/-- inner loop of the merge for a fixed head `a` of the left operand; `rec` continues with the
left tail. (Written as two nested structural recursions so that the kernel can evaluate it.) -/
def mergeAux (a : Nat) (rec : List Nat → List Nat) : List Nat → List Nat
  | [] => a :: rec []
  | b :: r =>
    if a < b then a :: rec (b :: r)
    else if b < a then b :: mergeAux a rec r
    else a :: rec r

/-- `BitOr for &HpoGroup`: merge of two ascending vectors, equal heads emitted once:
`bitor (a :: l) (b :: r) = if a < b then a :: bitor l (b :: r) else if b < a then b :: bitor (a :: l) r
else a :: bitor l r` (theorem `bitor_cons_cons`). -/
def bitor : List Nat → List Nat → List Nat
  | [], r => r
  | a :: l, r => mergeAux a (bitor l) r

/-- `BitAnd for &HpoGroup`: scan the operand that is not longer, keep what the other contains. -/
def bitand (l r : List Nat) : List Nat :=
  if l.length > r.length then r.filter (fun x => l.elem x)
  else l.filter (fun x => r.elem x)

/-- `&group + id`, `&group | id` -/
def addId (l : List Nat) (x : Nat) : List Nat := (insert l x).1

/-- all constructors (`From<Vec>`, `From<HashSet>`, `FromIterator`): fold of `insert` -/
def ofList (xs : List Nat) : List Nat := xs.foldl (fun g x => (insert g x).1) []

/-- `for x in xs { g.insert(x) }` -/
def insertAll (g : List Nat) (xs : List Nat) : List Nat := xs.foldl (fun g x => (insert g x).1) g

end Group
end Hpo
