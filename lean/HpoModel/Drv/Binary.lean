import HpoModel.Binary
import HpoModel.Drv.Facts
/- Protocol handlers for the byte-level ops (C07 / C08): decode, encode, round trip, every-offset
truncation, suffixes, version byte, probes for the known findings K2 / K3.

Observations: a load is `r ok` or `r reject` (error and panic are NOT distinguished: the property
says "rejected (error or documented panic)"). -/
namespace Hpo
namespace Drv
open Proto Binary

/-- lexicographic order on byte strings (Rust: `Ord for Vec<u8>`) -/
def bytesLe : Bytes → Bytes → Bool
  | [], _ => true
  | _ :: _, [] => false
  | a :: as, b :: bs => if a < b then true else if b < a then false else bytesLe as bs

/-- records of a section in canonical order (the code iterates hash maps) -/
def canonSection (tag : String) (recs : List Bytes) : String :=
  let sorted := recs.mergeSort (fun a b => bytesLe a b)
  "B " ++ tag ++ " " ++ toString recs.length ++ " " ++ bytesHex (sorted.flatMap id)

/-- `Ontology::as_bytes`, records inside each section sorted -/
def showAsBytes (o : Onto) : List String :=
  let f := factsOf o
  ["B meta " ++ bytesHex (encHeader 3 f.version),
   canonSection "terms" (f.terms.map (encTerm 3)),
   canonSection "parents" (f.parents.map encParents),
   canonSection "genes" (f.genes.map encGene),
   canonSection "omim" (f.omim.map encDisease),
   canonSection "orpha" (f.orpha.map encDisease),
   "B len " ++ toString (encodeOnto o).length]

def classify (bs : Bytes) : Char :=
  match decodeBytes bs with
  | .ok _ => 'o'
  | .diverge => 'd'
  | _ => 'r'

/-- run-length form `r12,o1,r3` -/
def rle (cs : List Char) : String :=
  let rec go : List Char → Char → Nat → List String → List String
    | [], c, n, acc => (String.singleton c ++ toString n) :: acc
    | x :: xs, c, n, acc => if x = c then go xs c (n + 1) acc else go xs x 1 ((String.singleton c ++ toString n) :: acc)
  match cs with
  | [] => "-"
  | c :: rest => String.intercalate "," (go rest c 1 []).reverse

def loadInto (s : DState) (bs : Bytes) (slot : Nat) : Out :=
  match decodeBytes bs with
  | .ok o => (s.setSlot slot o, ["r ok"])
  | .diverge => ({ s with dead := true }, ["diverge"])
  | _ => (s, ["r reject"])

/-! ### probes: the dump minus the fields a known finding may change -/

def stripTok (pfx : List String) (line : String) : String :=
  String.intercalate " " ((line.splitOn " ").filter fun t => !(pfx.any fun p => t.startsWith p))

def tokOf (pfx : String) (line : String) : String :=
  (((line.splitOn " ").find? fun t => t.startsWith pfx).getD "")

def stripDump (key : String) (d : List String) : List String :=
  if key = "K2" then
    (d.filter fun l => !(l.startsWith "CAT " || l.startsWith "MOD ")).map (stripTok ["mod=", "cat="])
  else d.map fun l => if l.startsWith "T " then stripTok ["repl=", "rby="] l else l

/-- the deviation itself, canonical -/
def deviation (key : String) (da db : List String) : List String :=
  if key = "K2" then
    let pick := fun (d : List String) (p : String) => ((d.find? fun l => l.startsWith p).getD "")
    if pick da "CAT " = pick db "CAT " ∧ pick da "MOD " = pick db "MOD " then []
    else [pick da "CAT ", pick da "MOD ", "->", pick db "CAT ", pick db "MOD "]
  else
    (da.zip db).filterMap fun (x, y) =>
      if x.startsWith "T " ∧ (tokOf "repl=" x ≠ tokOf "repl=" y ∨ tokOf "rby=" x ≠ tokOf "rby=" y) then
        some ((x.splitOn " ").getD 1 "" ++ ":" ++ tokOf "repl=" x ++ "->" ++ tokOf "repl=" y)
      else none

def probe (key : String) (oa ob : Onto) : List String :=
  let (da, db) := (dump oa, dump ob)
  if stripDump key da ≠ stripDump key db then ["probe " ++ key ++ " other-difference"]
  else match deviation key da db with
    | [] => ["probe " ++ key ++ " no-deviation"]
    | dv => ["known-finding " ++ key ++ " " ++ String.intercalate " " dv]

/-- the ontology `Ontology::from_standard` builds from the K3 probe's obo file: HP:1 "All",
HP:118 "Phenotypic abnormality" (is_a 1), HP:2 "obsolete Old" obsolete, `replaced_by: HP:0000000` -/
def k3Onto : Res Onto :=
  let o0 : Onto := {}
  match (o0.newTerm "All".toList 1).bind (·.newTerm "Phenotypic abnormality".toList 118)
      |>.bind (·.addTerm { id := 2, name := "obsolete Old".toList, obsolete := true, replacement := some 0 }) with
  | none => .panic
  | some o1 =>
    (o1.addParent 1 118).bind fun o2 => o2.connectAll.bind fun o3 => o3.calcIc.bind fun o4 => o4.buildWithDefaults

def handleBinary (s : DState) (toks : List String) : Option Out :=
  match toks with
  | ["frombytes", hex, slot] =>
    match parseBytes hex, slot.toNat? with
    | some bs, some n => some (loadInto s bs n)
    | _, _ => none
  | ["asbytes", slot] =>
    match slot.toNat?.bind s.slot with
    | some o => some (s, showAsBytes o)
    | none => some (s, ["noslot"])
  | ["roundtrip", slot, dst] =>
    match slot.toNat?.bind s.slot, dst.toNat? with
    | some o, some n => some (loadInto s (encodeOnto o) n)
    | none, some _ => some (s, ["noslot"])
    | _, _ => none
  | ["fenc", v] =>
    match v.toNat? with
    | some v => some (s, ["E " ++ bytesHex (encodeRaw v s.facts)])
    | none => none
  | ["cuts", hex, lo, hi] =>
    match parseBytes hex, lo.toNat?, hi.toNat? with
    | some bs, some lo, some hi =>
      let ks := (List.range (min hi bs.length)).drop lo
      some (s, ["cuts " ++ rle (ks.map fun k => classify (bs.take k))])
    | _, _, _ => none
  | ["suffix", hex, ext] =>
    match parseBytes hex, parseBytes ext with
    | some bs, some ex =>
      some (s, ["suffix " ++ rle ((List.range ex.length).map fun k => classify (bs ++ ex.take (k + 1)))])
    | _, _ => none
  | ["verbyte", hex] =>
    match parseBytes hex with
    | some bs =>
      some (s, ["verbyte " ++ rle ((List.range 256).map fun v => classify (bs.set 3 (UInt8.ofNat v)))])
    | none => none
  | ["hdrbyte", hex] =>
    match parseBytes hex with
    | some bs =>
      -- the supported version bytes 2 and 3 in front of a foreign body are garbage the property
      -- says nothing about: not compared
      some (s, ["hdrbyte " ++ rle ((List.range 256).map fun v =>
        if v = 2 ∨ v = 3 then '-' else classify ([0x48, 0x50, 0x4f, UInt8.ofNat v] ++ bs))])
    | none => none
  | ["rtcheck", a, b] =>
    match a.toNat?.bind s.slot, b.toNat?.bind s.slot with
    | some _, some _ => some (s, ["oracle ok"])
    | _, _ => some (s, ["noslot"])
  | ["probe", key, a, b] =>
    if key ≠ "K2" ∧ key ≠ "K3" then none else
    match a.toNat?.bind s.slot, b.toNat?.bind s.slot with
    | some oa, some ob => some (s, probe key oa ob)
    | _, _ => some (s, ["noslot"])
  | ["obok3", slot] =>
    match slot.toNat? with
    | some n =>
      match k3Onto with
      | .ok o => some (s.setSlot n o, ["r ok"])
      | _ => some (s, ["r reject"])
    | none => none
  | _ => none

end Drv
end Hpo
