import HpoModel.Drv.Core
import HpoModel.TermId
/- Protocol handlers for the group algebra (C12) and term-id conversions (C20). -/
namespace Hpo
namespace Drv
open Proto

def handleGroup (s : DState) (toks : List String) : Option Out :=
  match toks with
  | ["gnew", r] => some (s.setReg r [], [])
  | ["gins", r, x] =>
    match x.toNat? with
    | some x =>
      let res := Group.insert (s.reg r) x
      some (s.setReg r res.1, [showBool res.2])
    | none => none
  | ["gfrom", _, r, ids] =>   -- From<Vec>, From<HashSet>, FromIterator: all fold `insert`
    match parseIds ids with
    | some l => some (s.setReg r (Group.ofList l), [])
    | none => none
  | ["gor", a, b, c] => some (s.setReg c (Group.bitor (s.reg a) (s.reg b)), [])
  | ["gand", a, b, c] => some (s.setReg c (Group.bitand (s.reg a) (s.reg b)), [])
  | ["gadd", a, x, c] =>      -- `&a + id`
    match x.toNat? with
    | some x => some (s.setReg c (Group.addId (s.reg a) x), [])
    | none => none
  | ["gorid", a, x, c] =>     -- `&a | id`
    match x.toNat? with
    | some x => some (s.setReg c (Group.addId (s.reg a) x), [])
    | none => none
  | ["gshow", r] =>
    let g := s.reg r
    some (s, ["g " ++ toString g.length ++ " " ++ showIds g ++ " empty=" ++ showBool g.isEmpty])
  | ["ghas", r, x] =>
    match x.toNat? with
    | some x => some (s, [showBool (Group.contains (s.reg r) x)])
    | none => none
  | ["gget", r, i] =>
    match i.toNat? with
    | some i => some (s, [showOptNat ((s.reg r)[i]?)])
    | none => none
  | _ => none

/-- FNV-1a over the ASCII bytes of a rendering -/
def fnv (h : UInt64) (cs : List Char) : UInt64 :=
  cs.foldl (fun h c => (h ^^^ UInt64.ofNat c.toNat) * 0x100000001b3) h

/-- `rtrange lo hi`: number of ids in `[lo, hi)` whose rendering parses back to the id (and whose
big-endian bytes round-trip) and the digest of all renderings -/
def rtRange (lo hi : Nat) : String :=
  let step := fun (acc : Nat × UInt64) (n : Nat) =>
    let r := TermId.render n
    let good := TermId.parse r == some n &&
      (match TermId.toBe n with
        | [a, b, c, d] => TermId.fromBe a b c d == n
        | _ => false)
    ((if good then acc.1 + 1 else acc.1), fnv acc.2 r)
  let res := (List.range' lo (hi - lo)).foldl step (0, 0xcbf29ce484222325)
  s!"rt {res.1} {res.2.toNat}"

def handleTermId (s : DState) (toks : List String) : Option Out :=
  match toks with
  | ["render", n] =>
    match n.toNat? with
    | some n => some (s, [String.ofList (TermId.render n)])
    | none => none
  | ["parse", hex] =>
    match parseName hex with
    | some cs =>
      match TermId.parse cs with
      | some n => some (s, ["ok " ++ toString n])
      | none => some (s, ["err"])
    | none => none
  | ["tobe", n] =>
    match n.toNat? with
    | some n => some (s, [showIds (TermId.toBe n)])
    | none => none
  | ["frombe", a, b, c, d] =>
    match a.toNat?, b.toNat?, c.toNat?, d.toNat? with
    | some a, some b, some c, some d => some (s, [toString (TermId.fromBe a b c d)])
    | _, _, _, _ => none
  | ["rtrange", lo, hi] =>
    match lo.toNat?, hi.toNat? with
    | some lo, some hi => some (s, [rtRange lo hi])
    | _, _ => none
  | ["roundtrip", n] =>   -- parse(render n), from_be(to_be n)
    match n.toNat? with
    | some n =>
      let p := TermId.parse (TermId.render n)
      let b := match TermId.toBe n with
        | [a, b, c, d] => TermId.fromBe a b c d
        | _ => 0
      some (s, [String.ofList (TermId.render n) ++ " " ++ showOptNat p ++ " " ++ toString b])
    | none => none
  | _ => none

end Drv
end Hpo
