import HpoModel.Drv.Core
import HpoModel.Path
/- Protocol handlers for distances / paths (C11) and sub-ontologies (C14). -/
namespace Hpo
namespace Drv
open Proto

def showOptLen : Option (List Nat) → String
  | none => "-"
  | some p => toString p.length

def simBits (d : Option Nat) : Option String :=
  match (distanceSimP d : Option (Option Float32)) with
  | some (some v) => some (showF32 v)
  | some none => some "f32:nan"
  | none => none

/-- one ordered pair: the tie-independent part of the four queries + `Distance` -/
def distLine (o : Onto) (a b : Term) : Option String :=
  match Onto.distToAnc o.fuel o a b.id, Onto.pathToAnc o.fuel o a b.id, o.distToTerm a b with
  | .ok da, .ok pa, .ok dt =>
    let pt : Option String :=
      if a.id = b.id then some "="
      else match o.pathToTerm a b with
        | .ok p => some (showOptLen p)
        | _ => none
    match pt, simBits dt with
    | some pt, some sim =>
      some (String.intercalate " " ["D", toString a.id, toString b.id, "da=" ++ showOptNat da,
        "pa=" ++ showOptLen pa, "dt=" ++ showOptNat dt, "pt=" ++ pt, "sim=" ++ sim])
    | _, _ => none
  | _, _, _ => none

def distLines (o : Onto) : Option (List String) :=
  let ts := sortTerms o.terms
  (ts.flatMap fun a => ts.map fun b => distLine o a b).foldr
    (fun l acc => match l, acc with
      | some l, some acc => some (l :: acc)
      | _, _ => none) (some [])

def resolveAll (o : Onto) : List Nat → Option (List Term)
  | [] => some []
  | i :: is => match o.get i, resolveAll o is with
    | some t, some ts => some (t :: ts)
    | _, _ => none

def handlePath (s : DState) (toks : List String) : Option Out :=
  match toks with
  | ["dist", slot] =>
    match slot.toNat?.bind s.slot with
    | some o =>
      match distLines o with
      | some ls => some (s, ls)
      | none => some (die s)
    | none => some (s, ["noslot"])
  | ["dist1", slot, a, b] =>
    match slot.toNat?.bind s.slot, a.toNat?, b.toNat? with
    | some o, some a, some b =>
      match o.get a, o.get b with
      | some ta, some tb =>
        match distLine o ta tb with
        | some l => some (s, [l])
        | none => some (die s)
      | _, _ => some (s, ["noterm"])
    | none, some _, some _ => some (s, ["noslot"])
    | _, _, _ => none
  | ["sub", src, dst, root, leaves] =>
    match src.toNat?.bind s.slot, dst.toNat?, root.toNat?, parseIds leaves with
    | some o, some d, some r, some ls =>
      match o.get r, resolveAll o ls with
      | some rt, some lts =>
        match o.subOntology rt lts with
        | .ok o' => some (s.setSlot d o', ["r ok"])
        | .err _ => some (s, ["r err"])
        | .panic => some (die s)
        | .diverge => some ({ s with dead := true }, ["diverge"])
      | _, _ => none
    | none, some _, some _, some _ => some (s, ["noslot"])
    | _, _, _, _ => none
  | ["setmod", slot, v] =>
    -- `set_default_modifier` (`def`) / `*modifier_mut() = ids.into()`, in place on the slot
    match slot.toNat? with
    | none => none
    | some n =>
      match s.slot n with
      | none => some (s, ["noslot"])
      | some o =>
        if v = "def" then
          match o.defaultModifier with
          | .ok md => some (s.setSlot n { o with modifier := md }, ["r ok"])
          | _ => some (s, ["r err"])
        else
          match parseIds v with
          | some l => some (s.setSlot n { o with modifier := Group.ofList l }, ["r ok"])
          | none => none
  | ["setcat", slot, v] =>
    match slot.toNat? with
    | none => none
    | some n =>
      match s.slot n with
      | none => some (s, ["noslot"])
      | some o =>
        if v = "def" then
          match o.defaultCategories with
          | .ok c => some (s.setSlot n { o with categories := c }, ["r ok"])
          | _ => some (s, ["r err"])
        else
          match parseIds v with
          | some l => some (s.setSlot n { o with categories := Group.ofList l }, ["r ok"])
          | none => none
  | ["oracle", "sub", src, root, leaves] =>   -- harness-side oracle; same op validity as `sub`
    match src.toNat?, root.toNat?, parseIds leaves with
    | some n, some r, some ls =>
      match s.slot n with
      | none => some (s, ["noslot"])
      | some o =>
        match o.get r, resolveAll o ls with
        | some _, some _ => some (s, ["oracle ok"])
        | _, _ => none
    | _, _, _ => none
  | _ => none

end Drv
end Hpo
