import HpoModel.Drv.Core
import HpoModel.Linkage
/- Protocol handler for the hierarchical clustering (C17).

  link <union|single|complete|average> <slot> <term ids t_0..t_{n-1}> <table>
      clusters the singleton sets {t_0}, …, {t_{n-1}} (distinct terms of the ontology in <slot>).
      <table> = n(n−1)/2 naturals < 2^24, the distances of the pairs (i,j), i<j, in lexicographic
      order.  The distance callback (the same on both sides):
        both sets are (different) input sets -> the table entry of the pair of their positions
        otherwise                            -> `mix A B` of the two sorted id vectors (see below)
  linkm <method> <slot> <sets s_0|…|s_{n-1}> <table>
      the same for input sets of several terms each (ascending ids, sets pairwise different; they may
      overlap, so that the union of two clusters is smaller than the sum of their sizes)
      prints  `LINK <method> n=<n> merges=<m>`, per merge `M <lhs> <rhs> b32:<distance bits> <size>`
              (compared exactly: the model runs the same IEEE binary32 operations),
              `IDX <indicies()>`, per callback call `CB <#pairs> <A/B> …`, and `oracle ok`
              (the harness validates its own output by an independent oracle there).
-/
namespace Hpo
namespace Drv
open Proto Linkage

/-- position of the pair `(i, j)`, `i < j < n`, in lexicographic order -/
def pairIndex (n i j : Nat) : Nat := i * n - i * (i + 1) / 2 + (j - i - 1)

def mixStep (h x : Nat) : Nat := (h * 31 + x) % 8388593

/-- fixed arithmetic mix of two id vectors, `1 ≤ mix < 2^23` (exact in `f32`) -/
def mix (a b : List Nat) : Nat :=
  (b.foldl mixStep (mixStep (a.foldl mixStep 7) 1000003)) + 1

def cbDist (inputs : List (List Nat)) (table : Array Nat) (a b : List Nat) : Float32 :=
  let i := inputs.idxOf a
  let j := inputs.idxOf b
  let n := inputs.length
  if i < n ∧ j < n ∧ i ≠ j then
    let v := table.getD (if i < j then pairIndex n i j else pairIndex n j i) 0
    -- entries from 2^25 on are the bit pattern of the distance (distances a few ulps apart, negative
    -- distances, +infinity); entries in (2^24, 2^25) are the bit pattern + 2^24 (subnormal distances)
    if v ≥ 2 ^ 25 then Float32.ofBits v.toUInt32
    else if v > 2 ^ 24 then Float32.ofBits (v - 2 ^ 24).toUInt32
    else Float32.ofNat v
  else Float32.ofNat (mix a b)

/-- `1,2|3|2,4` -> `[[1,2],[3],[2,4]]` -/
def parseSets (s : String) : Option (List (List Nat)) :=
  (s.splitOn "|").foldr (fun t acc => match parseIds t, acc with
    | some n, some l => some (n :: l)
    | _, _ => none) (some [])

def parseMethod (s : String) : Option Method :=
  if s = "union" then some .union else if s = "single" then some .single
  else if s = "complete" then some .complete else if s = "average" then some .average else none

def showPair (p : List Nat × List Nat) : String := showIds p.1 ++ "/" ++ showIds p.2

def showCb (c : List (List Nat × List Nat)) : String :=
  String.intercalate " " (("CB " ++ toString c.length) :: c.map showPair)

def showCluster (c : Cluster Float32) : String :=
  String.intercalate " " ["M", toString c.lhs, toString c.rhs, "b32:" ++ padHex 8 c.dist.toBits.toNat, toString c.size]

def f32lt (a b : Float32) : Bool := a < b
def f32mean (a b : Float32) : Float32 := (a + b) / 2.0

def runLink (s : DState) (m slot : String) (meth : Method) (inputs : List (List Nat)) (table : List Nat) : Out :=
  match slot.toNat?.bind s.slot with
  | none => (s, ["noslot"])
  | some _ =>
    match cluster meth f32lt f32mean (cbDist inputs table.toArray) inputs with
    | none => die s
    | some st =>
      (s, [s!"LINK {m} n={inputs.length} merges={st.clusters.length}"]
        ++ st.clusters.map showCluster
        ++ ["IDX " ++ showIds (indicies st.n st.clusters)]
        ++ st.log.map showCb
        ++ ["oracle ok"])

def handleLinkage (s : DState) (toks : List String) : Option Out :=
  match toks with
  | ["link", m, slot, ids, table] =>
    match parseMethod m, parseIds ids, parseIds table with
    | some meth, some ids, some table => some (runLink s m slot meth (ids.map fun x => [x]) table)
    | _, _, _ => none
  | ["linkm", m, slot, sets, table] =>
    match parseMethod m, parseSets sets, parseIds table with
    | some meth, some inputs, some table => some (runLink s m slot meth inputs table)
    | _, _, _ => none
  | _ => none

end Drv
end Hpo
