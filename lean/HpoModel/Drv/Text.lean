import HpoModel.Drv.Core
import HpoModel.Text
/- Protocol handlers for the JAX text loaders (C09):
`jax <slot> <std|transitive> <hex hp.obo> <hex gene file> <hex phenotype.hpoa>` prints `r ok|err|panic`,
`jaxm …` (malformed stream) prints only `r ok` / `r fail`,
`jaxrow <g2p|p2g|hpoa> <hex line>` is answered by the model only through the loaders (not a harness op). -/
namespace Hpo
namespace Drv
open Proto

def handleText (s : DState) (toks : List String) : Option Out :=
  match toks with
  | [op, slot, mode, obo, gene, hpoa] =>
    if op ≠ "jax" ∧ op ≠ "jaxm" then none
    else if mode ≠ "std" ∧ mode ≠ "transitive" then none
    else
      match slot.toNat?, parseName obo, parseName gene, parseName hpoa with
      | some n, some o, some g, some h =>
        let r := Text.loadJax (mode = "transitive") o g h
        if op = "jax" then
          match r with
          | .ok ont => some (s.setSlot n ont, ["r ok"])
          | .err _ => some (s, ["r err"])
          | .panic => some (s, ["r panic"])
          | .diverge => some ({ s with dead := true }, ["diverge"])
        else
          match r with
          | .ok ont => some (s.setSlot n ont, ["r ok"])
          | .diverge => some ({ s with dead := true }, ["diverge"])
          | _ => some (s, ["r fail"])
      | _, _, _, _ => none
  | _ => none

end Drv
end Hpo
