import HpoModel.Drv.Core
import HpoModel.Lookup
/- Protocol handlers for ontology-level queries: lookups (C10), metamorphic equality, oracles. -/
namespace Hpo
namespace Drv
open Proto

def withSlot (s : DState) (slot : String) (f : Onto → List String) : Option Out :=
  match slot.toNat?.bind s.slot with
  | some o => some (s, f o)
  | none => some (s, ["noslot"])

def showRecOpt : Option Rec → String
  | some r => "some " ++ toString r.id ++ " " ++ showName r.name
  | none => "none"

def handleQuery (s : DState) (toks : List String) : Option Out :=
  match toks with
  | ["oracle", _, slot] => withSlot s slot fun _ => ["oracle ok"]
  | ["bigobo", _, _, _] => some (s, ["oracle ok"])  -- implementation-vs-oracle only (70 000 [Term] stanzas)
  | ["bigfan", _, _] => some (s, ["oracle ok"])     -- implementation-vs-oracle only (a term with > 65 535 parents)
  | ["bigarena", _, _] => some (s, ["oracle ok"])   -- implementation-vs-oracle only (70 000 terms)
  | ["clone", a, b] =>   -- `Ontology::clone()`
    match a.toNat?, b.toNat? with
    | some a, some b =>
      match s.slot a with
      | some o => some (s.setSlot b o, [])
      | none => some (s, ["noslot"])
    | _, _ => none
  | ["same", a, b] =>
    match a.toNat?.bind s.slot, b.toNat?.bind s.slot with
    | some oa, some ob => some (s, [if dump oa = dump ob then "same 1" else "same 0"])
    | _, _ => some (s, ["noslot"])
  | ["sweep", slot] => withSlot s slot fun o =>
      -- `Ontology::hpo(id)` resolves exactly the inserted ids (all < 10^7)
      ["sweep " ++ showIds (sortNat ((o.terms.filter (fun t => (o.get t.id).isSome)).map (·.id))) ++ " wrongid=0"]
  | ["iter", slot] => withSlot s slot fun o =>
      let v := o.ids
      [s!"iter len={o.terms.length} n={v.length} distinct={(sortNat v).length} agree=1 empty={showBool o.terms.isEmpty} {showIds (sortNat v)}"]
  | ["hpo", slot, id] =>
    match id.toNat? with
    | some i => withSlot s slot fun o =>
        match o.get i with
        | some t => ["some " ++ toString t.id ++ " " ++ showName t.name]
        | none => ["none"]
    | none => none
  | ["rec", slot, k, id] =>
    match parseKind k, id.toNat? with
    | some k, some i => withSlot s slot fun o => [showRecOpt (getR (o.recs k) i)]
    | _, _ => none
  | ["genebyname", slot, q] =>
    match parseName q with
    | some q => withSlot s slot fun o =>
        match o.geneByName q with
        | some g => ["some " ++ showName g.name]
        | none => ["none"]
    | none => none
  | ["omimsearch", slot, q] =>
    match parseName q with
    | some q => withSlot s slot fun o =>
        let hits := o.omimByName q
        ["search " ++ showIds (sortNat (hits.map (·.id))) ++ " first=" ++ showBool (!hits.isEmpty)]
    | none => none
  | _ => none

end Drv
end Hpo

namespace Hpo
namespace Drv
open Proto

/-- `anc2 <slot>`: the four id-level ancestor queries for all ordered pairs of the first 14 terms;
the model follows the code for `all_union_ancestor_ids` (known finding K1) and prints the same
`known-finding` line as the implementation when the terms themselves are missing from it. -/
def handleAnc2 (s : DState) (toks : List String) : Option Out :=
  match toks with
  | ["anc2", slot] => withSlot s slot fun o =>
      let ts := (sortTerms o.terms).take 14
      let lines := ts.flatMap fun a => ts.map fun b =>
        s!"A2 {a.id} {b.id} c={showIds (a.commonAncestorIds b)} ac={showIds (a.allCommonAncestorIds b)} u={showIds (a.unionAncestorIds b)} au={showIds (a.allUnionAncestorIds b)}"
      let k1 := ts.any fun a => ts.any fun b =>
        !((a.allUnionAncestorIds b).elem a.id) || !((a.allUnionAncestorIds b).elem b.id)
      lines ++ (if k1 then ["known-finding K1 all_union_ancestor_ids(a, b) does not contain a and b"] else [])
        ++ ["oracle ok"]
  | _ => none

end Drv
end Hpo
