import HpoModel.Drv.Core
/- Protocol handlers for decoded-record input (`f*` ops): the harness encodes the same records with
its own v1/v2/v3 encoder and loads them with `Ontology::from_bytes`. -/
namespace Hpo
namespace Drv
open Proto

def pushParent (ps : List (Nat × List Nat)) (t p : Nat) : List (Nat × List Nat) :=
  if ps.any (·.1 = t) then ps.map (fun r => if r.1 = t then (r.1, r.2 ++ [p]) else r)
  else ps ++ [(t, [p])]

def pushLink (rs : List Rec) (rid t : Nat) : List Rec :=
  rs.map (fun r => if r.id = rid then { r with hpos := r.hpos ++ [t] } else r)

def _root_.Hpo.RawFacts.recs (f : RawFacts) : Kind → List Rec
  | .gene => f.genes
  | .omim => f.omim
  | .orpha => f.orpha
def _root_.Hpo.RawFacts.setRecs (f : RawFacts) (k : Kind) (v : List Rec) : RawFacts :=
  match k with
  | .gene => { f with genes := v }
  | .omim => { f with omim := v }
  | .orpha => { f with orpha := v }

def handleFacts (s : DState) (toks : List String) : Option Out :=
  let facts := s.facts
  let upd := fun (f : RawFacts) => some (({ s with facts := f } : DState), ([] : List String))
  match toks with
  | ["fnew"] => upd {}
  | ["fversion", y, m, d] =>
    match y.toNat?, m.toNat?, d.toNat? with
    | some y, some m, some d => upd { facts with version := (y, m, d) }
    | _, _, _ => none
  | ["fterm", id, name, obs, repl] =>
    match id.toNat?, parseName name with
    | some i, some n =>
      -- a decoded record cannot carry `Some(0)`: the field value 0 *is* "no replacement" (finding K3)
      let r := if repl = "-" ∨ repl = "0" then none else repl.toNat?
      let t : Term := { id := i, name := n, obsolete := obs = "1", replacement := r }
      upd { facts with terms := facts.terms ++ [t] }
    | _, _ => none
  | ["fparent", p, c] =>
    match p.toNat?, c.toNat? with
    | some p, some c => upd { facts with parents := pushParent facts.parents c p }
    | _, _ => none
  | ["frec", k, id, name] =>
    match parseKind k, id.toNat?, parseName name with
    | some k, some i, some n =>
      upd (facts.setRecs k (facts.recs k ++ [{ id := i, name := n }]))
    | _, _, _ => none
  | ["flink", k, rid, t] =>
    match parseKind k, rid.toNat?, t.toNat? with
    | some k, some r, some t => upd (facts.setRecs k (pushLink (facts.recs k) r t))
    | _, _, _ => none
  | ["fload", v, slot] =>
    match v.toNat?, slot.toNat? with
    | some v, some n =>
      match Onto.loadFacts v facts with
      | .ok o => some (s.setSlot n o, ["r ok"])
      | .err _ => some (s, ["r err"])
      | .panic => some (s, ["r panic"])
      | .diverge => some ({ s with dead := true }, ["diverge"])
    | _, _ => none
  | _ => none

end Drv
end Hpo
