import HpoModel.Drv.Core
import HpoModel.SetOps
import HpoModel.Compare
/- Protocol handlers for `HpoSet` programs (C13) and ontology comparison (C18).

  setq <slot> <ids> <op>,<op>,...   the set `HpoSet::new(slot, HpoGroup::from(ids))`, then the ops in
                                    sequence on the current set; one output line per op; an op that
                                    panics prints `<op> panic` and ends the line's program
  oracle set <slot> <ids>           harness-side oracle (the model prints `oracle ok`)
  compare <a> <b>                   every accessor of `a.compare(b)` in canonical order
  oracle compare <a> <b>            harness-side oracle
  rtbytes <slot> <dst>              `Ontology::from_bytes(&slot.as_bytes())` (model: identity; only
                                    generated for ontologies where that is the documented behaviour)
-/
namespace Hpo
namespace Drv
open Proto

def showSet (S : List Nat) : String :=
  "len=" ++ toString S.length ++ " empty=" ++ showBool S.isEmpty ++ " ids=" ++ showIds S

def showCounts (m : List (Nat × Nat)) : String :=
  let keys := sortNat (m.map (·.1))
  if keys.isEmpty then "-"
  else String.intercalate "," (keys.map fun k => toString k ++ ":" ++ toString (SetOps.count m k))

/-- a transformation: prints the resulting set, which becomes the current one -/
def transform (op : String) (r : Res (List Nat)) : Option (List Nat) × String :=
  match r with
  | .ok S' => (some S', op ++ " " ++ showSet S')
  | _ => (none, op ++ " panic")

/-- a query whose result is an id list -/
def queryIds (S : List Nat) (op : String) (r : Res (List Nat)) : Option (List Nat) × String :=
  match r with
  | .ok l => (some S, op ++ " " ++ showIds l)
  | _ => (none, op ++ " panic")

def getCell (o : Onto) (S : List Nat) (i : Nat) : String :=
  match SetOps.get o S i with
  | .ok none => "-"
  | .ok (some t) => toString t.id
  | _ => "!"

/-- one op of a set program: `(next set | none after a panic, output line)`; `none` = unknown op -/
def setOp (o : Onto) (S0 S : List Nat) (op : String) : Option (Option (List Nat) × String) :=
  if op = "show" then some (some S, "show " ++ showSet S)
  else if op = "reset" then some (some S0, "reset " ++ showSet S0)
  else if op = "iter" then some (queryIds S op (SetOps.rmap (fun ts => ts.map (·.id)) (SetOps.iter o S)))
  else if op = "get" then
    some (some S, "get " ++ String.intercalate "," ((List.range (S.length + 1)).map (getCell o S)))
  else if op = "gene_ids" then some (queryIds S op (SetOps.geneIds o S))
  else if op = "omim_ids" then some (queryIds S op (SetOps.omimDiseaseIds o S))
  else if op = "orpha_ids" then some (queryIds S op (SetOps.orphaDiseaseIds o S))
  else if op = "categories" then
    some (match SetOps.categories o S with
      | .ok m => (some S, "categories " ++ showCounts m)
      | _ => (none, "categories panic"))
  else if op = "ic" then
    some (match SetOps.informationContent o S with
      | .ok (g, d, r) => (some S, "ic ok " ++ icBits g ++ " " ++ icBits d ++ " " ++ icBits r)
      | .err _ => (some S, "ic err")
      | _ => (none, "ic panic"))
  else if op = "child_nodes" then some (transform op (SetOps.childNodes o S))
  else if op = "without_modifier" then some (transform op (SetOps.withoutModifier o S))
  else if op = "remove_modifier" then some (transform op (SetOps.removeModifier o S))
  else if op = "without_obsolete" then some (transform op (SetOps.withoutObsolete o S))
  else if op = "remove_obsolete" then some (transform op (SetOps.removeObsolete o S))
  else if op = "with_replaced_obsolete" then some (transform op (SetOps.withReplacedObsolete o S))
  else if op = "replace_obsolete" then some (transform op (SetOps.replaceObsolete o S))
  else none

def setProg (o : Onto) (S0 : List Nat) : List String → List Nat → List String → Option (List String)
  | [], _, acc => some acc.reverse
  | op :: ops, S, acc =>
    match setOp o S0 S op with
    | none => none
    | some (some S', line) => setProg o S0 ops S' (line :: acc)
    | some (none, line) => some (line :: acc).reverse

/-! ### comparison -/

def showPairNames (p : Option (List Char × List Char)) : String :=
  match p with
  | none => "none"
  | some (a, b) => showName a ++ "/" ++ showName b

def showOptIds : Option (List Nat) → String
  | none => "none"
  | some l => showIds (sortNat l)

def showTermDelta (d : Compare.TermDelta) : String :=
  String.intercalate " " [
    "TD", toString d.id, "name=" ++ showPairNames d.changedName,
    "addp=" ++ showOptIds d.addedParents?, "remp=" ++ showOptIds d.removedParents?,
    "obs=" ++ (match d.changedObsolete with
      | none => "none"
      | some (a, b) => showBool a ++ "/" ++ showBool b),
    "repl=" ++ (match d.changedReplacement with
      | none => "none"
      | some (a, b) => showOptNat a ++ "/" ++ showOptNat b)]

def sortDeltas (ds : List Compare.TermDelta) : List Compare.TermDelta :=
  (sortNat (ds.map (·.id))).filterMap (fun i => ds.find? (·.id = i))

def sortAnnDeltas (ds : List Compare.AnnDelta) : List Compare.AnnDelta :=
  (sortNat (ds.map (·.id))).filterMap (fun i => ds.find? (·.id = i))

def showAnnDelta (tag : String) (k : Kind) (d : Compare.AnnDelta) : String :=
  String.intercalate " " [
    tag, Compare.idPrefix k ++ toString d.id, "name=" ++ showPairNames d.changedName,
    "n=" ++ toString d.nTerms.1 ++ "," ++ toString d.nTerms.2,
    "added=" ++ showOptIds d.addedTerms?, "removed=" ++ showOptIds d.removedTerms?]

def cmpKind (tag : String) (k : Kind) (l r : Onto) : List String :=
  [tag ++ " added=" ++ showIds (sortNat ((Compare.addedRecs k l r).map (·.id)))
     ++ " removed=" ++ showIds (sortNat ((Compare.removedRecs k l r).map (·.id)))]
  ++ (sortAnnDeltas (Compare.changedRecs k l r)).map (showAnnDelta (tag ++ "D") k)

/-- `impl Display for Comparison` -/
def cmpDisplay (l r : Onto) : String :=
  let row := fun (name : String) (a b : String) => name ++ "\t" ++ a ++ "\t" ++ b
  String.intercalate "\n" [
    row "Version" (showVersion l.version) (showVersion r.version),
    row "Terms" (toString l.terms.length) (toString r.terms.length),
    row "Genes" (toString l.genes.length) (toString r.genes.length),
    row "Omim Diseases" (toString l.omim.length) (toString r.omim.length),
    row "Orpha Diseases" (toString l.orpha.length) (toString r.orpha.length)]

def cmpLines (l r : Onto) : List String :=
  ["DISP " ++ showName (cmpDisplay l r).toList,
   "T added=" ++ showIds (sortNat ((Compare.addedTerms l r).map (·.id)))
     ++ " removed=" ++ showIds (sortNat ((Compare.removedTerms l r).map (·.id)))]
  ++ (match Compare.changedTerms l r with
      | .ok ds => (sortDeltas ds).map showTermDelta
      | _ => ["TD panic"])
  ++ cmpKind "G" .gene l r ++ cmpKind "O" .omim l r ++ cmpKind "R" .orpha l r

def handleSetCmp (s : DState) (toks : List String) : Option Out :=
  match toks with
  | ["setq", slot, ids, prog] =>
    match parseIds ids with
    | some l =>
      match slot.toNat?.bind s.slot with
      | some o =>
        let S0 := Group.ofList l
        match setProg o S0 (prog.splitOn ",") S0 [] with
        | some lines => some (s, lines)
        | none => none
      | none => some (s, ["noslot"])
    | none => none
  | ["oracle", "set", slot, _] =>
    match slot.toNat?.bind s.slot with
    | some _ => some (s, ["oracle ok"])
    | none => some (s, ["noslot"])
  | ["compare", a, b] =>
    match a.toNat?.bind s.slot, b.toNat?.bind s.slot with
    | some l, some r => some (s, cmpLines l r)
    | _, _ => some (s, ["noslot"])
  | ["oracle", "compare", a, b] =>
    match a.toNat?.bind s.slot, b.toNat?.bind s.slot with
    | some _, some _ => some (s, ["oracle ok"])
    | _, _ => some (s, ["noslot"])
  | ["rtbytes", slot, dst] =>
    match slot.toNat?.bind s.slot, dst.toNat? with
    | some o, some d => some (s.setSlot d o, ["r ok"])
    | none, some _ => some (s, ["noslot"])
    | _, none => none
  | _ => none

end Drv
end Hpo
