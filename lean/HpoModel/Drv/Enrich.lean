import HpoModel.Drv.Core
import HpoModel.Hypergeom
import HpoModel.HypergeomFast
/- Protocol handler for the hypergeometric enrichment (C06).

  enrich <slot> <g|o|r> <background ids | *> <sample ids>
      `*` = the whole ontology as background (`&Ontology`), otherwise an `HpoSet` of the ids.
      prints  `ENR N=<background size> n=<sample size> records=<count>` and, sorted by id,
              `E <id> <count> f64:<p-value> f64:<fold enrichment>`, and `oracle ok`
              (the harness validates its own answer by an independent oracle there)
-/
namespace Hpo
namespace Drv
open Proto Hypergeom

def showFold (k n K N : Nat) : String :=
  match (foldEnrichment k n K N : Option Float) with
  | some v => showF64 v
  | none => "f64:nan"

/-- the p-value is evaluated with the linear-time tail: `pvalueFast = pvalue`
(`HpoProofs/HypergeomFast.lean`, `pvalueFast_eq`; C06 `C06_fast_tail_is_model`) -/
def enrLine (N n : Nat) (e : Enr) : String :=
  let p := pvalueFast N n e
  String.intercalate " " ["E", toString e.id, toString e.count, showF64 (ratToFloat p.1 p.2),
    showFold e.count n e.K N]

def sortEnr (l : List Enr) : List Enr :=
  (sortNat (l.map (·.id))).filterMap (fun i => l.find? (·.id = i))

def handleEnrich (s : DState) (toks : List String) : Option Out :=
  match toks with
  | ["enrich", slot, k, bg, smp] =>
    match parseKind k, (if bg = "*" then some [] else parseIds bg), parseIds smp with
    | some k, some bgIds, some smpIds =>
      match slot.toNat?.bind s.slot with
      | none => some (s, ["noslot"])
      | some o =>
        -- `HpoSet::new(&ontology, HpoGroup::from(ids))`, iterated: every id must resolve
        let bgTerms := if bg = "*" then some o.terms else o.resolve (Group.ofList bgIds)
        match bgTerms, o.resolve (Group.ofList smpIds) with
        | some bgT, some smpT =>
          match enrichment k bgT smpT with
          | .ok recs =>
            let N := bgT.length
            let n := smpT.length
            some (s, s!"ENR N={N} n={n} records={recs.length}" :: (sortEnr recs).map (enrLine N n)
              ++ ["oracle ok"])
          | .diverge => some ({ s with dead := true }, ["diverge"])
          | _ => some (die s)
        | _, _ => some (die s)
    | _, _, _ => none
  | ["enrichbig", bigN, bigK, n, k] =>
    -- population sizes far beyond what the arena model can hold: a flat ontology of `N` terms, one
    -- gene on `K` of them, a sample of `n` terms with `k` of the `K`; only the record's line
    match bigN.toNat?, bigK.toNat?, n.toNat?, k.toNat? with
    | some N, some K, some n, some k =>
      if k = 0 ∨ k > K ∨ k > n ∨ K + (n - k) > N then none
      else some (s, [s!"ENR N={N} n={n} records=1",
        -- wide-tolerance tokens: the log-gamma evaluation of the code loses ~1e-9 at this size
        (enrLine N n { id := 1, count := k, K := K }).replace "f64:" "f64w:"])
    | _, _, _, _ => none
  | _ => none

end Drv
end Hpo
