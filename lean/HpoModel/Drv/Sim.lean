import HpoModel.Drv.Query
import HpoModel.Similarity
import HpoModel.Combine
import HpoModel.CombineFast
/- Protocol handlers for term similarities (C04) and set similarities (C05), run at `Float32`. -/
namespace Hpo
namespace Drv
open Proto

/-- a score: `none` (zero denominator) is what the real code prints as NaN/inf -/
def showScore : Option Float32 → String
  | some v => showF32 v
  | none => "f32:nan"

/-- id ↦ cached ic of kind `k`, computed once per query -/
def icTable (o : Onto) (k : Kind) : List (Nat × Float32) :=
  o.terms.map fun t => (t.id, ((icValue (t.ic k) : Option Float32)).getD 0)

def icLookup : List (Nat × Float32) → Nat → Float32
  | [], _ => 0
  | (i, v) :: rest, j => if i = j then v else icLookup rest j

/-- scores of one row `a` against all `bs`; `none` = a panic -/
def simRowScores (o : Onto) (alg : Sim.Alg) (k : Kind) (ic : Nat → Float32) (a : Term) :
    List Term → Option (List String)
  | [] => some []
  | b :: bs =>
    match Sim.builtin o alg k ic a b with
    | .ok v => (simRowScores o alg k ic a bs).map fun r => showScore v :: r
    | _ => none

def simAll (o : Onto) (alg : Sim.Alg) (k : Kind) (ic : Nat → Float32) (ts : List Term) :
    List Term → Option (List String)
  | [] => some []
  | a :: as =>
    match simRowScores o alg k ic a ts with
    | none => none
    | some r => (simAll o alg k ic ts as).map fun rest =>
        String.intercalate " " (("S " ++ toString a.id) :: r) :: rest

/-- the user-supplied similarity of the C05 cases: a table lookup by `(id_a, id_b)` with dyadic
values `k/64` (exact in f32); `t<salt>` asymmetric, `s<salt>` symmetric. The harness computes
the same expression in `u64`. -/
def tableSim (sym : Bool) (salt a b : Nat) : Float32 :=
  Float32.ofNat (if sym then ((a + b) * 13 + a * b * 7 + salt) % 64 else (a * 31 + b * 17 + salt) % 64) / 64

/-- the same table shifted to `[-0.5, 0.5)`: a user-supplied similarity may be negative -/
def tableSimSigned (sym : Bool) (salt a b : Nat) : Float32 :=
  (Float32.ofNat (if sym then ((a + b) * 13 + a * b * 7 + salt) % 64 else (a * 31 + b * 17 + salt) % 64) - 32) / 64

/-- coarse values `0, 0.25, …, 1.75`: scores above 1 and exact 1.0 are frequent -/
def tableSimCoarse (sym : Bool) (salt a b : Nat) : Float32 :=
  Float32.ofNat ((if sym then ((a + b) * 13 + a * b * 7 + salt) % 64 else (a * 31 + b * 17 + salt) % 64) % 8) / 4

/-- NON-FINITE user scores: with `k = (the hash of the other tables) % 16`:
`0 ↦ -inf`, `15 ↦ +inf`, `7 ↦ NaN`, otherwise `k/8` (spec `i` asymmetric, `j` symmetric).  A row maximum `+inf` next to a row maximum `-inf` makes the sum of the maxima
NaN also without NaN entries. -/
def tableSimNonFinite (sym : Bool) (salt a b : Nat) : Float32 :=
  let k := (if sym then ((a + b) * 13 + a * b * 7 + salt) % 64 else (a * 31 + b * 17 + salt) % 64) % 16
  if k = 0 then Float32.ofBits 0xff800000
  else if k = 15 then Float32.ofBits 0x7f800000
  else if k = 7 then Float32.ofBits 0x7fc00000
  else Float32.ofNat k / 8

/-- probability-like scores on a tiny scale: `k / 2^40` (about `1e-12 … 6e-11`, exact in f32) -/
def tableSimTiny (sym : Bool) (salt a b : Nat) : Float32 :=
  Float32.ofNat (if sym then ((a + b) * 13 + a * b * 7 + salt) % 64 else (a * 31 + b * 17 + salt) % 64) / 1099511627776

def parseSimSpec (s : String) : Option (Nat → Nat → Float32) :=
  match s.toList with
  | 'w' :: rest => (String.ofList rest).toNat?.map fun salt => tableSimTiny false salt
  | 'x' :: rest => (String.ofList rest).toNat?.map fun salt => tableSimTiny true salt
  | 'i' :: rest => (String.ofList rest).toNat?.map fun salt => tableSimNonFinite false salt
  | 'j' :: rest => (String.ofList rest).toNat?.map fun salt => tableSimNonFinite true salt
  | 'u' :: rest => (String.ofList rest).toNat?.map fun salt => tableSimCoarse false salt
  | 'v' :: rest => (String.ofList rest).toNat?.map fun salt => tableSimCoarse true salt
  | 't' :: rest => (String.ofList rest).toNat?.map fun salt => tableSim false salt
  | 's' :: rest => (String.ofList rest).toNat?.map fun salt => tableSim true salt
  | 'n' :: rest => (String.ofList rest).toNat?.map fun salt => tableSimSigned false salt
  | 'm' :: rest => (String.ofList rest).toNat?.map fun salt => tableSimSigned true salt
  | _ => none

def parseCombiner (s : String) : Option Combine.Combiner :=
  if s = "funsimavg" then some .funSimAvg
  else if s = "funsimmax" then some .funSimMax
  else if s = "bma" then some .bma
  else none

def showFs (l : List Float32) : String :=
  if l.isEmpty then "-" else String.intercalate " " (l.map showF32)

/-- `A:B` -/
def parseQuery (s : String) : Option (List Nat × List Nat) :=
  match s.splitOn ":" with
  | [a, b] =>
    match parseIds a, parseIds b with
    | some a, some b => some (a, b)
    | _, _ => none
  | _ => none

def parseQueries : List String → Option (List (List Nat × List Nat))
  | [] => some []
  | q :: qs =>
    match parseQuery q, parseQueries qs with
    | some q, some qs => some (q :: qs)
    | _, _ => none

/-- all results, or `none` when one of them panics -/
def showResults : List (Res (Option Float32)) → Option (List String)
  | [] => some []
  | .ok v :: rs => (showResults rs).map fun r => showScore v :: r
  | _ :: _ => none

def handleSim (s : DState) (toks : List String) : Option Out :=
  match toks with
  | ["simname", nm] =>
    match parseName nm with
    | some cs =>
      match Sim.algOfName (String.ofList cs) with
      | some a => some (s, ["simname ok " ++ a.name])
      | none => some (s, ["simname err"])
    | none => none
  | ["simpair", slot, nm, k, a, b] =>
    -- one pair of terms (ontologies too deep for the all-pairs listing)
    match parseName nm, parseKind k, a.toNat?, b.toNat? with
    | some cs, some k, some a, some b =>
      match slot.toNat?.bind s.slot with
      | none => some (s, ["noslot"])
      | some o =>
        match Sim.algOfName (String.ofList cs), o.terms.find? (fun t => t.id == a), o.terms.find? (fun t => t.id == b) with
        | some alg, some ta, some tb =>
          match simRowScores o alg k (icLookup (icTable o k)) ta [tb] with
          | some r => some (s, [String.intercalate " " ("SP" :: r)])
          | none => some (die s)
        | _, _, _ => some (s, ["sim err"])
    | _, _, _, _ => none
  | ["sim", slot, nm, k] =>
    match parseName nm, parseKind k with
    | some cs, some k =>
      match slot.toNat?.bind s.slot with
      | none => some (s, ["noslot"])
      | some o =>
        match Sim.algOfName (String.ofList cs) with
        | none => some (s, ["sim err"])
        | some alg =>
          let tab := icTable o k
          let ts := sortTerms o.terms
          match simAll o alg k (icLookup tab) ts ts with
          | some ls => some (s, ls ++ ["oracle ok"])
          | none => some (die s)
    | _, _ => none
  | ["setsim", slot, spec, cb, a, b] =>
    match parseSimSpec spec, parseCombiner cb, parseIds a, parseIds b with
    | some sim, some cb, some a, some b =>
      match slot.toNat?.bind s.slot with
      | none => some (s, ["noslot"])
      | some o =>
        -- `HpoSet::new(ontology, group)`: the group of the ids; iteration resolves every id
        let ga := Group.ofList a
        let gb := Group.ofList b
        if (o.resolve ga).isNone || (o.resolve gb).isNone then some (die s)
        else match Combine.groupSimilarity cb sim ga gb with
          | .ok v => some (s, ["SS " ++ showScore v, "oracle ok"])
          | _ => some (die s)
    | _, _, _, _ => none
  | ["setsim2", slotA, slotB, spec, cb, a, b] =>
    -- the two sets belong to two ontology OBJECTS (slot A / slot B); every member is resolved in its own
    match parseSimSpec spec, parseCombiner cb, parseIds a, parseIds b with
    | some sim, some cb, some a, some b =>
      match slotA.toNat?.bind s.slot, slotB.toNat?.bind s.slot with
      | some oa, some ob =>
        let ga := Group.ofList a
        let gb := Group.ofList b
        if (oa.resolve ga).isNone || (ob.resolve gb).isNone then some (die s)
        else match Combine.groupSimilarity cb sim ga gb with
          | .ok v => some (s, ["SS " ++ showScore v])
          | _ => some (die s)
      | _, _ => some (s, ["noslot"])
    | _, _, _, _ => none
  | ["matsim1", cb, ks] =>
    -- one-row matrix: closed form `Combine.calculateOneRow` (= `calculate`, HpoProofs/CombineFast.lean)
    match parseCombiner cb, parseIds ks with
    | some cb, some ks =>
      match Combine.calculateOneRow cb (ks.map fun k => (Float32.ofNat k / 64 : Float32)) with
      | .ok v => some (s, ["MS " ++ showScore v])
      | _ => some (die s)
    | _, _ => none
  | ["matsimq", cb, r, c, ks] =>
    -- a matrix of tens of thousands of cells in several rows: only the combined score
    match parseCombiner cb, r.toNat?, c.toNat?, parseIds ks with
    | some cb, some r, some c, some ks =>
      let m : Matrix Float32 := { rows := r, cols := c, data := ks.map fun k => Float32.ofNat k / 64 }
      match Combine.calculate cb m with
      | .ok v => some (s, ["MS " ++ showScore v])
      | _ => some (die s)
    | _, _, _, _ => none
  | ["matsim", cb, r, c, ks] =>
    match parseCombiner cb, r.toNat?, c.toNat?, parseIds ks with
    | some cb, some r, some c, some ks =>
      let m : Matrix Float32 := { rows := r, cols := c, data := ks.map fun k => Float32.ofNat k / 64 }
      if m.isEmpty then
        match Combine.calculate cb m with
        | .ok v => some (s, ["MS " ++ showScore v, "oracle ok"])
        | _ => some (die s)
      else
        match m.rowList, Combine.rowMaxes m, Combine.colMaxes m, Combine.calculate cb m with
        | some rows, some rm, some cm, .ok v =>
          some (s, rows.map (fun row => "ROW " ++ showFs row) ++ m.colList.map (fun col => "COL " ++ showFs col)
            ++ ["RM " ++ showFs rm, "CM " ++ showFs cm, "MS " ++ showScore v, "oracle ok"])
        | _, _, _, _ => some (die s)
    | _, _, _, _ => none
  | "cachesim" :: slot :: spec :: cb :: qs =>
    match parseSimSpec spec, parseCombiner cb, parseQueries qs with
    | some sim, some cb, some qs =>
      match slot.toNat?.bind s.slot with
      | none => some (s, ["noslot"])
      | some o =>
        let qs := qs.map fun q => (Group.ofList q.1, Group.ofList q.2)
        if qs.any (fun q => (o.resolve q.1).isNone || (o.resolve q.2).isNone) then some (die s)
        else match showResults (Combine.runCached cb sim qs []) with
          | some r => some (s, [String.intercalate " " ("CS" :: r), "oracle ok"])
          | none => some (die s)
    | _, _, _ => none
  | _ => none

end Drv
end Hpo
