import HpoModel.Proto
import HpoModel.Num
import HpoModel.Load
import HpoModel.Bulk
import HpoModel.BulkFast
/-
Driver state and the core operations of the line protocol: building an ontology through the
Builder model and dumping the whole read API in canonical form.
-/
namespace Hpo
namespace Drv
open Proto

structure DState where
  cur : Onto := {}
  /-- typestate of the builder: 0 none, 1 LooseCollection, 2 AllTerms, 3 ConnectedTerms, 4 FullyAnnotated -/
  phase : Nat := 0
  slots : List (Nat × Onto) := []
  /-- a panic happened in this case: the rest of the case is skipped on both sides -/
  dead : Bool := false
  regs : List (String × List Nat) := []
  /-- decoded records accumulated by the `f*` ops -/
  facts : RawFacts := {}

def DState.slot (s : DState) (n : Nat) : Option Onto := (s.slots.find? (·.1 = n)).map (·.2)
def DState.setSlot (s : DState) (n : Nat) (o : Onto) : DState :=
  { s with slots := (n, o) :: s.slots.filter (·.1 ≠ n) }
def DState.reg (s : DState) (n : String) : List Nat := ((s.regs.find? (·.1 = n)).map (·.2)).getD []
def DState.setReg (s : DState) (n : String) (v : List Nat) : DState :=
  { s with regs := (n, v) :: s.regs.filter (·.1 ≠ n) }

abbrev Out := DState × List String

def die (s : DState) : Out := ({ s with dead := true }, ["panic"])

/-- result of a fallible builder call that keeps the builder on error -/
def fallible (s : DState) (r : Res Onto) : Out :=
  match r with
  | .ok o => ({ s with cur := o }, ["r ok"])
  | .err _ => (s, ["r err"])
  | .panic => die s
  | .diverge => ({ s with dead := true }, ["diverge"])

def icBits (p : Nat × Nat) : String :=
  match (icValue p : Option Float32) with
  | some v => showF32 v
  | none => "f32:nan"

def pad (w : Nat) (n : Nat) : String :=
  let d := toString n
  String.ofList (List.replicate (w - d.length) '0') ++ d

/-- `Ontology::hpo_version()` : `{:0>4}-{:0>2}-{:0>2}` -/
def showVersion (v : Nat × Nat × Nat) : String := pad 4 v.1 ++ "-" ++ pad 2 v.2.1 ++ "-" ++ pad 2 v.2.2

def sortTerms (ts : List Term) : List Term :=
  let ids := sortNat (ts.map (·.id))
  ids.filterMap (fun i => getT ts i)

def sortRecs (rs : List Rec) : List Rec :=
  let ids := sortNat (rs.map (·.id))
  ids.filterMap (fun i => getR rs i)

def allResolve (o : Onto) (t : Term) : Bool :=
  (o.resolve t.parents).isSome && (o.resolve t.children).isSome && (o.resolve t.allParents).isSome
  && t.genes.all (fun g => (getR o.genes g).isSome)
  && t.omim.all (fun g => (getR o.omim g).isSome)
  && t.orpha.all (fun g => (getR o.orpha g).isSome)

def recResolve (o : Onto) (r : Rec) : Bool := (o.resolve r.hpos).isSome

def dumpTerm (o : Onto) (t : Term) : String :=
  String.intercalate " " [
    "T", toString t.id, showName t.name, "obs=" ++ showBool t.obsolete,
    "repl=" ++ showOptNat t.replacement,
    "rby=" ++ showOptNat ((o.replacedBy t).map (·.id)),
    "P=" ++ showIds t.parents, "C=" ++ showIds t.children, "A=" ++ showIds t.allParents,
    "G=" ++ showIds t.genes, "O=" ++ showIds t.omim, "R=" ++ showIds t.orpha,
    "ic", icBits t.icGene, icBits t.icOmim, icBits t.icOrpha,
    "mod=" ++ showBool (o.isModifier t), "cat=" ++ showIds (o.categoriesOf t)]

def dumpRec (tag : String) (r : Rec) : String :=
  String.intercalate " " [tag, toString r.id, showName r.name, showIds r.hpos]

/-- The whole observable content of an ontology in canonical order. -/
def dump (o : Onto) : List String :=
  let walk := o.terms.all (allResolve o) && o.genes.all (recResolve o) && o.omim.all (recResolve o)
    && o.orpha.all (recResolve o)
  ["V " ++ showVersion o.version, "N " ++ toString o.terms.length,
   "CAT " ++ showIds o.categories, "MOD " ++ showIds o.modifier,
   "NREC " ++ toString o.genes.length ++ " " ++ toString o.omim.length ++ " " ++ toString o.orpha.length]
  ++ (sortTerms o.terms).map (dumpTerm o)
  ++ (sortRecs o.genes).map (dumpRec "G")
  ++ (sortRecs o.omim).map (dumpRec "O")
  ++ (sortRecs o.orpha).map (dumpRec "R")
  ++ ["WALK " ++ (if walk then "ok" else "panic")]

/-- the dump without the per-record lines -/
def tdump (o : Onto) : List String :=
  ["V " ++ showVersion o.version, "N " ++ toString o.terms.length,
   "CAT " ++ showIds o.categories, "MOD " ++ showIds o.modifier,
   "NREC " ++ toString o.genes.length ++ " " ++ toString o.omim.length ++ " " ++ toString o.orpha.length]
  ++ (sortTerms o.terms).map (dumpTerm o)

/-- all ordered pairs: `child_of` / `parent_of` -/
def dumpRel (o : Onto) : List String :=
  let ts := sortTerms o.terms
  ts.flatMap fun a =>
    ["CO " ++ toString a.id ++ " " ++ showIds ((ts.filter (fun b => a.childOf b)).map (·.id)),
     "PO " ++ toString a.id ++ " " ++ showIds ((ts.filter (fun b => a.parentOf b)).map (·.id))]

def handle (s : DState) (toks : List String) : Option Out :=
  match toks with
  | ["new"] => some ({ s with cur := {}, phase := 1 }, [])
  | ["term", id, name] =>
    match id.toNat?, parseName name with
    | some i, some n =>
      if s.phase ≠ 1 then none else
      match s.cur.newTerm n i with
      | some o => some ({ s with cur := o }, [])
      | none => some (die s)
    | _, _ => none
  | ["complete"] => if s.phase ≠ 1 then none else some ({ s with phase := 2 }, [])
  | ["parent", p, c] =>
    match p.toNat?, c.toNat? with
    | some p, some c => if s.phase ≠ 2 then none else some (fallible s (s.cur.addParent p c))
    | _, _ => none
  | ["connect"] =>
    if s.phase ≠ 2 then none else
    match s.cur.connectAll with
    | .ok o => some ({ s with cur := o, phase := 3 }, [])
    | .panic => some (die s)
    | _ => some ({ s with dead := true }, ["diverge"])
  | ["addrec", k, id, name] =>
    match parseKind k, id.toNat?, parseName name with
    | some k, some i, some n =>
      if s.phase ≠ 3 then none else some ({ s with cur := s.cur.addRec k n i }, [])
    | _, _, _ => none
  | ["bulkrec", k, first, count, name] =>
    match parseKind k, first.toNat?, count.toNat?, parseName name with
    | some k, some a, some c, some n =>
      if s.phase ≠ 3 then none else some ({ s with cur := s.cur.addRecRangeFast k n a c }, [])
    | _, _, _, _ => none
  | ["bulkann", k, first, count, name, t] =>
    match parseKind k, first.toNat?, count.toNat?, parseName name, t.toNat? with
    | some k, some a, some c, some n, some t =>
      if s.phase ≠ 3 then none else some (fallible s (s.cur.annotateRangeFast k n t a c))
    | _, _, _, _, _ => none
  | ["ann", k, id, name, t] =>
    match parseKind k, id.toNat?, parseName name, t.toNat? with
    | some k, some i, some n, some t =>
      if s.phase ≠ 3 then none else some (fallible s (s.cur.annotate k i n t))
    | _, _, _, _ => none
  | ["version", y, m, d] =>
    match y.toNat?, m.toNat?, d.toNat? with
    | some y, some m, some d =>
      if s.phase = 0 ∨ y > 65535 ∨ m > 255 ∨ d > 255 then none
      else some ({ s with cur := { s.cur with version := (y, m, d) } }, [])
    | _, _, _ => none
  | ["icover"] =>   -- judged on the implementation side by predicate (refused, or every value right)
    if s.phase ≠ 3 then none else some ({ s with phase := 0 }, ["oracle ok"])
  | ["ic"] =>
    if s.phase ≠ 3 then none else
    match s.cur.calcIc with
    | .ok o => some ({ s with cur := o, phase := 4 }, ["r ok"])
    | .err _ => some ({ s with phase := 0 }, ["r err"])   -- the builder is consumed
    | .panic => some (die s)
    | .diverge => some ({ s with dead := true }, ["diverge"])
  | ["build", mode, slot] =>
    match slot.toNat? with
    | some n =>
      if mode ≠ "min" ∧ mode ≠ "def" then none
      else if s.phase ≠ 4 then none
      else if mode = "min" then some ({ s.setSlot n s.cur.buildMinimal with phase := 0 }, ["r ok"])
      else
        match s.cur.buildWithDefaults with
        | .ok o => some ({ s.setSlot n o with phase := 0 }, ["r ok"])
        | .err _ => some ({ s with phase := 0 }, ["r err"])
        | _ => some (die s)
    | none => none
  | ["dump", slot] =>
    match slot.toNat?.bind s.slot with
    | some o => some (s, dump o)
    | none => some (s, ["noslot"])
  | ["tdump", slot] =>
    match slot.toNat?.bind s.slot with
    | some o => some (s, tdump o)
    | none => some (s, ["noslot"])
  | ["rel", slot] =>
    match slot.toNat?.bind s.slot with
    | some o => some (s, dumpRel o)
    | none => some (s, ["noslot"])
  | _ => none

end Drv
end Hpo
