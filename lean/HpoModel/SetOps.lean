import HpoModel.Read
/-
Model of `src/set.rs` (`HpoSet`): a set is the ontology plus an `HpoGroup` (strictly ascending id
vector).  Every method is modelled on its own, the in-place variants separately from the copying
ones (the code repeats the expression, so does the model).

  `.expect("HpoTermId must be in Ontology")` / `term::Iter`'s "Invalid HPO-Term"   -> `Res.panic`
  `.collect::<HpoGroup>()` (FromIterator: fold of `insert`)                           -> `Group.ofList`
  `HashSet` of record ids, union `&acc | element`                                     -> sorted list,
                                                                       `Group.insertAll acc element`
  `HashMap<HpoTermId, usize>` of category counts                                      -> association list
-/
namespace Hpo
namespace SetOps

/-- functorial map on `Res` (local helper) -/
def rmap {α β : Type} (f : α → β) : Res α → Res β
  | .ok a => .ok (f a)
  | .err e => .err e
  | .panic => .panic
  | .diverge => .diverge

/-! ### child_nodes -/

/-- inner loop of `child_nodes`: `self.group.iter().all(|y| !get(y).expect(..).all_parents().contains(x))`;
`all` stops at the first `false` (a later unknown id is then not looked up). -/
def noDescendant (o : Onto) (x : Nat) : List Nat → Res Bool
  | [] => .ok true
  | y :: ys =>
    match o.get y with
    | none => .panic
    | some t => if Group.contains t.allParents x then .ok false else noDescendant o x ys

/-- outer `filter` of `child_nodes` over the candidates `xs` (the whole set is `S`) -/
def childFilter (o : Onto) (S : List Nat) : List Nat → Res (List Nat)
  | [] => .ok []
  | x :: xs =>
    match noDescendant o x S with
    | .ok true => rmap (x :: ·) (childFilter o S xs)
    | .ok false => childFilter o S xs
    | .err e => .err e
    | .panic => .panic
    | .diverge => .diverge

/-- `HpoSet::child_nodes` -/
def childNodes (o : Onto) (S : List Nat) : Res (List Nat) :=
  rmap Group.ofList (childFilter o S S)

/-! ### modifier -/

/-- `self.iter().filter(|term| !term.is_modifier())`: `term::Iter` resolves every id (panic if unknown);
the kept terms are collected by their `id()` -/
def modifierFilter (o : Onto) : List Nat → Res (List Nat)
  | [] => .ok []
  | x :: xs =>
    match o.get x with
    | none => .panic
    | some t =>
      match modifierFilter o xs with
      | .ok r => .ok (if o.isModifier t then r else t.id :: r)
      | .err e => .err e
      | .panic => .panic
      | .diverge => .diverge

/-- `HpoSet::without_modifier` (copying) -/
def withoutModifier (o : Onto) (S : List Nat) : Res (List Nat) :=
  rmap Group.ofList (modifierFilter o S)

/-- same loop, written out again for the in-place twin -/
def modifierFilterMut (o : Onto) : List Nat → Res (List Nat)
  | [] => .ok []
  | x :: xs =>
    match o.get x with
    | none => .panic
    | some t =>
      match modifierFilterMut o xs with
      | .ok r => .ok (if o.isModifier t then r else t.id :: r)
      | .err e => .err e
      | .panic => .panic
      | .diverge => .diverge

/-- `HpoSet::remove_modifier` (in place: the result is the new `self.group`) -/
def removeModifier (o : Onto) (S : List Nat) : Res (List Nat) :=
  rmap Group.ofList (modifierFilterMut o S)

/-! ### obsolete -/

/-- `self.group.iter().filter(|id| !get(id).expect(..).obsolete())` -/
def obsoleteFilter (o : Onto) : List Nat → Res (List Nat)
  | [] => .ok []
  | x :: xs =>
    match o.get x with
    | none => .panic
    | some t =>
      match obsoleteFilter o xs with
      | .ok r => .ok (if t.obsolete then r else x :: r)
      | .err e => .err e
      | .panic => .panic
      | .diverge => .diverge

/-- `HpoSet::without_obsolete` (copying) -/
def withoutObsolete (o : Onto) (S : List Nat) : Res (List Nat) :=
  rmap Group.ofList (obsoleteFilter o S)

def obsoleteFilterMut (o : Onto) : List Nat → Res (List Nat)
  | [] => .ok []
  | x :: xs =>
    match o.get x with
    | none => .panic
    | some t =>
      match obsoleteFilterMut o xs with
      | .ok r => .ok (if t.obsolete then r else x :: r)
      | .err e => .err e
      | .panic => .panic
      | .diverge => .diverge

/-- `HpoSet::remove_obsolete` (in place) -/
def removeObsolete (o : Onto) (S : List Nat) : Res (List Nat) :=
  rmap Group.ofList (obsoleteFilterMut o S)

/-! ### replacement -/

/-- `self.group.iter().map(|id| get(id).expect(..).replacement().unwrap_or(id))`; the replacement id
is NOT looked up: it need not be a term of the ontology -/
def replaceMap (o : Onto) : List Nat → Res (List Nat)
  | [] => .ok []
  | x :: xs =>
    match o.get x with
    | none => .panic
    | some t =>
      match replaceMap o xs with
      | .ok r => .ok (t.replacement.getD x :: r)
      | .err e => .err e
      | .panic => .panic
      | .diverge => .diverge

/-- `HpoSet::with_replaced_obsolete` (copying); collisions merge in the collected group -/
def withReplacedObsolete (o : Onto) (S : List Nat) : Res (List Nat) :=
  rmap Group.ofList (replaceMap o S)

def replaceMapMut (o : Onto) : List Nat → Res (List Nat)
  | [] => .ok []
  | x :: xs =>
    match o.get x with
    | none => .panic
    | some t =>
      match replaceMapMut o xs with
      | .ok r => .ok (t.replacement.getD x :: r)
      | .err e => .err e
      | .panic => .panic
      | .diverge => .diverge

/-- `HpoSet::replace_obsolete` (in place) -/
def replaceObsolete (o : Onto) (S : List Nat) : Res (List Nat) :=
  rmap Group.ofList (replaceMapMut o S)

/-! ### unions of annotations -/

/-- `gene_ids` / `omim_disease_ids` / `orpha_disease_ids`:
`iter().map(|id| get(id).expect(..).genes()).fold(default, |acc, e| &acc | e)` -/
def annUnion (o : Onto) (k : Kind) : List Nat → List Nat → Res (List Nat)
  | [], acc => .ok acc
  | x :: xs, acc =>
    match o.get x with
    | none => .panic
    | some t => annUnion o k xs (Group.insertAll acc (t.ann k))

def geneIds (o : Onto) (S : List Nat) : Res (List Nat) := annUnion o .gene S []
def omimDiseaseIds (o : Onto) (S : List Nat) : Res (List Nat) := annUnion o .omim S []
def orphaDiseaseIds (o : Onto) (S : List Nat) : Res (List Nat) := annUnion o .orpha S []

/-! ### categories -/

/-- `res.entry(c).and_modify(|n| *n += 1).or_insert(1)` -/
def bump : List (Nat × Nat) → Nat → List (Nat × Nat)
  | [], c => [(c, 1)]
  | (k, n) :: m, c => if k = c then (k, n + 1) :: m else (k, n) :: bump m c

/-- `for category in term.categories() { bump }` -/
def bumpAll : List (Nat × Nat) → List Nat → List (Nat × Nat)
  | m, [] => m
  | m, c :: cs => bumpAll (bump m c) cs

/-- value stored for a key (`0` = absent; stored values are ≥ 1) -/
def count : List (Nat × Nat) → Nat → Nat
  | [], _ => 0
  | (k, n) :: m, c => if k = c then n else count m c

/-- `HpoSet::categories`: `for term in self` resolves every id -/
def categoriesAcc (o : Onto) : List Nat → List (Nat × Nat) → Res (List (Nat × Nat))
  | [], m => .ok m
  | x :: xs, m =>
    match o.get x with
    | none => .panic
    | some t => categoriesAcc o xs (bumpAll m (o.categoriesOf t))

def categories (o : Onto) (S : List Nat) : Res (List (Nat × Nat)) := categoriesAcc o S []

/-! ### information content -/

/-- `HpoSet::information_content`: gene and omim from the sizes of the unions, totals = number of
records; orpha keeps `InformationContent::default()` (0.0, the pair `(0,0)`).
Result: the three `(current, total)` pairs (`icValue` turns a pair into the number). -/
def informationContent (o : Onto) (S : List Nat) : Res ((Nat × Nat) × (Nat × Nat) × (Nat × Nat)) :=
  (geneIds o S).bind fun g =>
    (Onto.icCalc o.genes.length g.length).bind fun ig =>
      (omimDiseaseIds o S).bind fun d =>
        (Onto.icCalc o.omim.length d.length).bind fun io =>
          .ok (ig, io, (0, 0))

/-! ### element access -/

/-- `len` -/
def len (S : List Nat) : Nat := S.length
/-- `is_empty` -/
def isEmpty (S : List Nat) : Bool := S.isEmpty
/-- `contains` -/
def contains (S : List Nat) (x : Nat) : Bool := Group.contains S x
/-- `iter()` / `into_iter()`: the resolving iterator, consumed to the end -/
def iter (o : Onto) (S : List Nat) : Res (List Term) :=
  match o.resolve S with
  | some ts => .ok ts
  | none => .panic
/-- `get(index)`: `None` past the end, `HpoTerm::try_new(..).unwrap()` otherwise -/
def get (o : Onto) (S : List Nat) (i : Nat) : Res (Option Term) :=
  match S[i]? with
  | none => .ok none
  | some x =>
    match o.get x with
    | none => .panic
    | some t => .ok (some t)

end SetOps
end Hpo
