import HpoModel.Core
/-
Lookups of `src/ontology.rs` by name (`gene_by_name`, `omim_diseases_by_name`,
`omim_disease_by_name`) and the two-vector arena of `src/ontology/termarena.rs` as it is laid out
in memory (`Arena2`), which `getT`/`arenaInsert`/`arenaGet` of `Core.lean` abstract.
-/
namespace Hpo

/-- `str::contains`: the query occurs as a contiguous substring -/
def isInfix (q : List Char) : List Char → Bool
  | [] => q.isEmpty
  | c :: cs => q.isPrefixOf (c :: cs) || isInfix q cs

namespace Onto
/-- `gene_by_name(symbol)`: some gene whose symbol equals the query (which one is hash-order
dependent; the model takes the first in insertion order) -/
def geneByName (o : Onto) (q : List Char) : Option Rec := o.genes.find? (fun g => g.name = q)

/-- `omim_diseases_by_name(query)`: all diseases whose name contains the query -/
def omimByName (o : Onto) (q : List Char) : List Rec := o.omim.filter (fun d => isInfix q d.name)
end Onto

/-- `Arena`: `terms` with the placeholder in slot 0, `ids` = table of `M` slots (0 = absent).
`M = 10_000_000` in the code; the model is parametric. -/
structure Arena2 where
  terms : List Term
  ids : List Nat
deriving Repr

namespace Arena2

def new (M : Nat) : Arena2 := ⟨[placeholder], List.replicate M 0⟩

/-- `Arena::len` -/
def len (a : Arena2) : Nat := a.terms.length - 1

/-- `Arena::insert`: `self.ids[id]` panics (`none`) beyond the table; no-op when the slot is taken -/
def insert (a : Arena2) (t : Term) : Option Arena2 :=
  match a.ids[t.id]? with
  | none => none
  | some 0 => some ⟨a.terms ++ [t], a.ids.set t.id a.terms.length⟩
  | some _ => some a

/-- `Arena::get`: `None` beyond the table and for slot value 0, else `&self.terms[n]` -/
def get (a : Arena2) (id : Nat) : Option Term :=
  match a.ids[id]? with
  | none => none
  | some 0 => none
  | some n => a.terms[n]?

/-- `Arena::values` / `keys` / `iter`: everything after the placeholder -/
def values (a : Arena2) : List Term := a.terms.drop 1

end Arena2
end Hpo
