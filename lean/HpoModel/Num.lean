/-
Numeric interface shared by the proof instance (ℝ, in `HpoProofs`) and the execution instances
(`Float32`, `Float`, here).  Division is *checked*: `div?` is `none` on a zero denominator, so
"never NaN" is a real theorem over ℝ rather than an artefact of `x / 0 = 0`.
-/
namespace Hpo

class Num (F : Type) where
  ofNat : Nat → F
  add : F → F → F
  sub : F → F → F
  mul : F → F → F
  div? : F → F → Option F
  log : F → F
  exp : F → F
  neg : F → F
  isZero : F → Bool
  lt : F → F → Bool
  /-- `f32::is_nan`: the execution instances have NaN values (`x != x`); the exact instances
  (ℝ, ℚ, rounded reals) have none. Needed where the code's result depends on NaN-ness by more
  than a comparison (`f32::max` ignores a NaN operand). -/
  isNaN : F → Bool

instance : Num Float32 where
  ofNat := Float32.ofNat
  add := (· + ·)
  sub := (· - ·)
  mul := (· * ·)
  div? a b := if b == 0 then none else some (a / b)
  log := Float32.log
  exp := Float32.exp
  neg := fun x => x * (-1.0)
  isZero := (· == 0)
  lt := (· < ·)
  isNaN := fun x => x != x

instance : Num Float where
  ofNat := Float.ofNat
  add := (· + ·)
  sub := (· - ·)
  mul := (· * ·)
  div? a b := if b == 0 then none else some (a / b)
  log := Float.log
  exp := Float.exp
  neg := fun x => x * (-1.0)
  isZero := (· == 0)
  lt := (· < ·)
  isNaN := fun x => x != x

/-- Information content from the stored pair `(current, total)`:
`0` if either is `0`, else `-ln(current/total)` (`InformationContent::calculate`). -/
def icValue {F : Type} [Num F] (p : Nat × Nat) : Option F :=
  if p.2 = 0 ∨ p.1 = 0 then some (Num.ofNat 0)
  else (Num.div? (Num.ofNat p.1 : F) (Num.ofNat p.2)).map (fun q => Num.neg (Num.log q))

end Hpo
