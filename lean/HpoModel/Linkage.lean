import HpoModel.Group
/-
Model of the hierarchical clustering (`src/stats/linkage.rs`, `src/stats/linkage/cluster.rs`,
`src/utils.rs`).

  utils::Combinations (new / set_to_last / next)  -> `combos`, `combosLast` (`None` entries skipped)
  DistanceMatrix (HashMap<(usize,usize), f32>)    -> association list `DM F` (`dmGet/dmInsert/dmRetain`)
  Linkage::new + calculate_initial_distances      -> `init`
  closest_clusters                                -> `closest` (first strict minimum in iteration order;
                                                     a HashMap iterates in arbitrary order, so the result
                                                     is determined only for tie-free matrices)
  new_cluster / size_of_cluster                   -> `sizeOf`, `mkCluster`
  arithmetic_cluster(func)                        -> `arithRow`, `arithStep`, `arithRun`
  cluster_set_unions(func)                        -> `unionRow`, `unionStep`, `unionRun`
  Linkage::{union,single,complete,average}        -> `cluster`
  indicies                                        -> `indicies`

The numeric type `F` is a parameter: the driver runs the model at `Float32` (bit-identical IEEE
`<`, `+`, `/ 2`), the theorems are about any linearly ordered `F` (and `ℚ` for the mean).
An `HpoSet` is its sorted id vector (`List Nat`, a `Group`); `extend` = `Group.insertAll`.
`none` results = the real code panics (`expect`, index out of bounds).
-/
namespace Hpo
namespace Linkage

/-- `cluster::Cluster` -/
structure Cluster (F : Type) where
  lhs : Nat
  rhs : Nat
  dist : F
  size : Nat

abbrev DM (F : Type) := List ((Nat × Nat) × F)

variable {F : Type}

/-! ### Combinations -/

/-- one row of `Combinations`: `(x, inner[j])` for the remaining `j`, `None` skipped -/
def rowPairs {α : Type} (x : α) : List (Option α) → List (α × α)
  | [] => []
  | none :: r => rowPairs x r
  | some y :: r => (x, y) :: rowPairs x r

/-- `Combinations::new(inner)` run to the end: all `(inner[i], inner[j])`, `i < j`, both `Some`,
in lexicographic order of `(i, j)` -/
def combos {α : Type} : List (Option α) → List (α × α)
  | [] => []
  | none :: r => combos r
  | some x :: r => rowPairs x r ++ combos r

/-- `Combinations::new(inner)` after `set_to_last()`: `(inner[last], inner[j])` for every `j`
including `j = last` itself -/
def combosLast {α : Type} (l : List (Option α)) : List (α × α) :=
  match l.getLast? with
  | some (some x) => rowPairs x l
  | _ => []

/-! ### distance matrix -/

def dmGet : DM F → Nat × Nat → Option F
  | [], _ => none
  | (k, v) :: rest, q => if k = q then some v else dmGet rest q

/-- `HashMap::insert`: replaces the value of an existing key -/
def dmInsert : DM F → Nat × Nat → F → DM F
  | [], q, v => [(q, v)]
  | (k, w) :: rest, q, v => if k = q then (k, v) :: rest else (k, w) :: dmInsert rest q v

/-- `retain(|(i,j),_| i != a && i != b && j != a && j != b)` -/
def dmRetain (a b : Nat) : DM F → DM F
  | [] => []
  | (k, v) :: rest =>
    if k.1 ≠ a ∧ k.1 ≠ b ∧ k.2 ≠ a ∧ k.2 ≠ b then (k, v) :: dmRetain a b rest else dmRetain a b rest

/-- `reduce(|max, elmt| if elmt.1 < max.1 { elmt } else { max })` -/
def closestGo (lt : F → F → Bool) (best : (Nat × Nat) × F) : DM F → (Nat × Nat) × F
  | [] => best
  | e :: rest => closestGo lt (if lt e.2 best.2 then e else best) rest

/-- `closest_clusters`; `none` = `expect("distance matrix is not empty")` -/
def closest (lt : F → F → Bool) : DM F → Option ((Nat × Nat) × F)
  | [] => none
  | e :: rest => some (closestGo lt e rest)

/-- `for (key, sim) in Combinations::new(&index).zip(similarities)` -/
def zipInsert : DM F → List (Nat × Nat) → List F → DM F
  | dm, [], _ => dm
  | dm, _, [] => dm
  | dm, k :: ks, v :: vs => zipInsert (dmInsert dm k v) ks vs

/-! ### state -/

structure State (F : Type) where
  /-- `sets`: live inputs/clusters, merged ones `None` -/
  sets : List (Option (List Nat))
  dm : DM F
  /-- `initial_len` -/
  n : Nat
  /-- `clusters` in push order -/
  clusters : List (Cluster F)
  /-- the argument sequences the distance callback received, one entry per call -/
  log : List (List (List Nat × List Nat))

/-- `size_of_cluster` for one index; `none` = `expect("idx is guaranteed to be in cluster")` -/
def sizeOf (n : Nat) (cl : List (Cluster F)) (idx : Nat) : Option Nat :=
  if idx < n then some 1 else (cl[idx - n]?).map (·.size)

/-- `new_cluster` -/
def mkCluster (n : Nat) (cl : List (Cluster F)) (a b : Nat) (d : F) : Option (Cluster F) :=
  match sizeOf n cl a, sizeOf n cl b with
  | some sa, some sb => some { lhs := a, rhs := b, dist := d, size := sa + sb }
  | _, _ => none

/-- index pairs `(i, j)`, `i < j < n`, lexicographic: `Combinations::new(&index)` -/
def indexPairs (n : Nat) : List (Nat × Nat) := combos ((List.range n).map some)

/-- `Linkage::new`: one callback call with all pairs of input sets -/
def init (d : List Nat → List Nat → F) (members : List (List Nat)) : State F :=
  { sets := members.map some
    dm := zipInsert [] (indexPairs members.length) ((combos (members.map some)).map fun p => d p.1 p.2)
    n := members.length
    clusters := []
    log := [combos (members.map some)] }

/-- the two taken entries -/
def takeTwo (sets : List (Option (List Nat))) (a b : Nat) : List (Option (List Nat)) :=
  (sets.set a none).set b none

/-! ### single / complete / average -/

/-- key under which the distance of live `idx` to merged `c` is stored: `(min, max)` — the four
`(idx.cmp(&key.0), idx.cmp(&key.1))` arms -/
def keyOf (idx c : Nat) : Nat × Nat := if idx < c then (idx, c) else (c, idx)

/-- the loop `for (idx, set) in self.sets.iter().enumerate()` of `arithmetic_cluster` -/
def arithRow (comb : F → F → F) (a b newIdx : Nat) :
    List (Option (List Nat)) → Nat → DM F → Option (DM F)
  | [], _, dm => some dm
  | s :: rest, idx, dm =>
    if idx = a ∨ idx = b then arithRow comb a b newIdx rest (idx + 1) dm
    else
      match s with
      | none => arithRow comb a b newIdx rest (idx + 1) dm
      | some _ =>
        match dmGet dm (keyOf idx a), dmGet dm (keyOf idx b) with
        | some v1, some v2 =>
          arithRow comb a b newIdx rest (idx + 1) (dmInsert dm (idx, newIdx) (comb v1 v2))
        | _, _ => none

/-- one iteration of the loop of `arithmetic_cluster` on a non-empty matrix -/
def arithStep (lt : F → F → Bool) (comb : F → F → F) (s : State F) : Option (State F) :=
  match closest lt s.dm with
  | none => none
  | some e =>
    match mkCluster s.n s.clusters e.1.1 e.1.2 e.2 with
    | none => none
    | some c =>
      if e.1.1 < s.sets.length ∧ e.1.2 < s.sets.length then
        match arithRow comb e.1.1 e.1.2 s.sets.length (takeTwo s.sets e.1.1 e.1.2) 0 s.dm with
        | none => none
        | some dm1 =>
          some { s with
            sets := takeTwo s.sets e.1.1 e.1.2 ++ [(s.sets[e.1.1]?).join]
            dm := dmRetain e.1.1 e.1.2 dm1
            clusters := s.clusters ++ [c] }
      else none

/-! ### union -/

/-- the loop `for (idx, set) in self.sets[..last_index].iter().enumerate()` of `cluster_set_unions` -/
def unionRow (last : Nat) : List (Option (List Nat)) → Nat → List F → DM F → Option (DM F)
  | [], _, _, dm => some dm
  | none :: rest, idx, ds, dm => unionRow last rest (idx + 1) ds dm
  | some _ :: _, _, [], _ => none
  | some _ :: rest, idx, v :: ds, dm => unionRow last rest (idx + 1) ds (dmInsert dm (idx, last) v)

/-- `newset.extend(&set2)` of the two taken sets; `none` = one of them was already taken -/
def mergeSets (sets : List (Option (List Nat))) (a b : Nat) : Option (List Nat) :=
  match (sets[a]?).join, (sets[b]?).join with
  | some x, some y => some (Group.insertAll x y)
  | _, _ => none

/-- one iteration of the loop of `cluster_set_unions` on a non-empty matrix -/
def unionStep (lt : F → F → Bool) (d : List Nat → List Nat → F) (s : State F) : Option (State F) :=
  match closest lt s.dm with
  | none => none
  | some e =>
    match mkCluster s.n s.clusters e.1.1 e.1.2 e.2 with
    | none => none
    | some c =>
      if e.1.1 < s.sets.length ∧ e.1.2 < s.sets.length ∧ e.1.1 ≠ e.1.2 then
        match mergeSets s.sets e.1.1 e.1.2 with
        | none => none
        | some m =>
          match unionRow s.sets.length (takeTwo s.sets e.1.1 e.1.2) 0
              ((combosLast (takeTwo s.sets e.1.1 e.1.2 ++ [some m])).map fun p => d p.1 p.2)
              (dmRetain e.1.1 e.1.2 s.dm) with
          | none => none
          | some dm1 =>
            some { s with
              sets := takeTwo s.sets e.1.1 e.1.2 ++ [some m]
              dm := dm1
              clusters := s.clusters ++ [c]
              log := s.log ++ [combosLast (takeTwo s.sets e.1.1 e.1.2 ++ [some m])] }
      else none

/-! ### the loops -/

/-- `loop { if self.distance_matrix.is_empty() { return } … }` -/
def run (step : State F → Option (State F)) : Nat → State F → Option (State F)
  | 0, _ => none
  | fuel + 1, s =>
    if s.dm.isEmpty then some s
    else
      match step s with
      | none => none
      | some s' => run step fuel s'

inductive Method where
  | union | single | complete | average
deriving DecidableEq, Repr

/-- `f32_min` of `Linkage::single` -/
def fmin (lt : F → F → Bool) (v1 v2 : F) : F := if lt v1 v2 then v1 else v2
/-- `f32_max` of `Linkage::complete`: `if v1 > v2 { v1 } else { v2 }` -/
def fmax (lt : F → F → Bool) (v1 v2 : F) : F := if lt v2 v1 then v1 else v2

def stepOf (m : Method) (lt : F → F → Bool) (mean : F → F → F) (d : List Nat → List Nat → F) :
    State F → Option (State F) :=
  match m with
  | .union => unionStep lt d
  | .single => arithStep lt (fmin lt)
  | .complete => arithStep lt (fmax lt)
  | .average => arithStep lt mean

/-- `Linkage::{union, single, complete, average}(sets, distance)`; fuel: every iteration merges two
live entries into one, so `n` iterations suffice (`n − 1` merges and the final emptiness test).
`none` = the real code panics (never for `n` inputs, see `C17`), or fuel ran out (never). -/
def cluster (m : Method) (lt : F → F → Bool) (mean : F → F → F) (d : List Nat → List Nat → F)
    (members : List (List Nat)) : Option (State F) :=
  run (stepOf m lt mean d) (members.length + 1) (init d members)

/-- `Linkage::indicies` -/
def indicies (n : Nat) : List (Cluster F) → List Nat
  | [] => []
  | c :: cs =>
    (if c.lhs < n then [c.lhs] else []) ++ ((if c.rhs < n then [c.rhs] else []) ++ indicies n cs)

end Linkage
end Hpo
