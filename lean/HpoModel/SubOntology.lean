import HpoModel.Read
/-
Model of `Ontology::sub_ontology` (`src/ontology.rs`), as the tree stands (with the `fix:` commit
for the phenotype filter: a retained term is a phenotype term iff neither it nor one of its
ancestors is a modifier root -- the same test as `HpoTerm::is_modifier`).

The code collects `&HpoTermInternal` of the SOURCE ontology in a `HashSet` (hash / eq = the id);
here: the sorted list of their ids (`Group`), every later loop runs over that list.  The order
in which a hash set / hash map is walked is not observable (arena order and record order are
canonicalised by `dump`); every call that could depend on it is order independent
(`Arena::insert` of distinct ids, `add_parent_unchecked`, `annotate_*` of distinct pairs).
-/
namespace Hpo
namespace Onto

/-- `self.get_unchecked(id)` of the source ontology: the arena entry, slot 0 for an absent id -/
def srcTerm (o : Onto) (i : Nat) : Term := (getT o.terms i).getD o.slot0

/-- the loop `for term in leaves`: the leaf and every id of `path_to_ancestor(leaf, root)` go
into the set; `None` (root is neither the leaf nor an ancestor of it) is `NotImplemented`.
(`get_unchecked(id)` is the identity on ids here: the leaf is a term of the ontology and every
id on a path has been resolved by `path_to_ancestor` or is the root itself.) -/
def collectLeaves (o : Onto) (root : Nat) : List Term → List Nat → Res (List Nat)
  | [], acc => .ok acc
  | l :: ls, acc =>
    match pathToAnc o.fuel o l root with
    | .ok (some p) => collectLeaves o root ls (Group.insertAll (Group.addId acc l.id) p)
    | .ok none => .err .notImplemented
    | .err e => .err e
    | .panic => .panic
    | .diverge => .diverge

/-- `HpoTermInternal::new(name, id)` + obsolete flag + replacement -/
def copyTerm (t : Term) : Term :=
  { id := t.id, name := t.name, obsolete := t.obsolete, replacement := t.replacement }

/-- `for &term in &terms { builder.add_term(copied_term) }`; `none` = panic -/
def copyTerms (o : Onto) : List Nat → Onto → Option Onto
  | [], b => some b
  | i :: is, b => (b.addTerm (copyTerm (o.srcTerm i))).bind (copyTerms o is)

/-- `for parent in term.parents() { if ids.contains(parent) { add_parent_unchecked(parent, term) } }` -/
def linkParentsOf (ids : List Nat) (child : Nat) : List Nat → Onto → Option Onto
  | [], b => some b
  | p :: ps, b =>
    if Group.contains ids p then (b.addParentUnchecked p child).bind (linkParentsOf ids child ps)
    else linkParentsOf ids child ps b

/-- `for term in &terms { ... }` around it -/
def linkInduced (o : Onto) (ids : List Nat) : List Nat → Onto → Option Onto
  | [], b => some b
  | i :: is, b => (linkParentsOf ids i (o.srcTerm i).parents b).bind (linkInduced o ids is)

/-- the fixed filter: `((term.all_parents() | term.id()) & self.modifier()).is_empty()` -/
def isPhenotype (o : Onto) (t : Term) : Bool :=
  (Group.bitand (Group.addId t.allParents t.id) o.modifier).isEmpty

/-- the filter BEFORE the fix (snapshot 8b79950): `(term.all_parents() & self.modifier()).is_empty()`;
kept only for `C14_modifier_root_counterexample` -/
def isPhenotypePrefix (o : Onto) (t : Term) : Bool :=
  (Group.bitand t.allParents o.modifier).isEmpty

/-- `phenotype_ids` -/
def phenotypeIds (o : Onto) (phen : Onto → Term → Bool) : List Nat → List Nat
  | [] => []
  | i :: is => if phen o (o.srcTerm i) then i :: phenotypeIds o phen is else phenotypeIds o phen is

/-- `for term in &(rec.hpo_terms() & &ids) { builder.annotate_*(id, name, term)? }` -/
def annotateAll (k : Kind) (r : Rec) : List Nat → Onto → Res Onto
  | [], b => .ok b
  | t :: ts, b => (b.annotate k r.id r.name t).bind (annotateAll k r ts)

/-- the loop over the genes / OMIM diseases / ORPHA diseases of the source -/
def copyRecs (k : Kind) (ids phen : List Nat) : List Rec → Onto → Res Onto
  | [], b => .ok b
  | r :: rs, b =>
    if (Group.bitand r.hpos phen).isEmpty then copyRecs k ids phen rs b
    else (annotateAll k r (Group.bitand r.hpos ids) b).bind (copyRecs k ids phen rs)

/-- everything after the term set is known -/
def subOntologyOf (o : Onto) (phen : Onto → Term → Bool) (ids : List Nat) : Res Onto :=
  match copyTerms o ids {} with
  | none => .panic
  | some b1 =>
    match linkInduced o ids ids b1 with
    | none => .panic
    | some b2 =>
      b2.connectAll.bind fun b3 =>
        let ph := phenotypeIds o phen ids
        (copyRecs .gene ids ph o.genes b3).bind fun b4 =>
          (copyRecs .omim ids ph o.omim b4).bind fun b5 =>
            (copyRecs .orpha ids ph o.orpha b5).bind fun b6 =>
              b6.calcIc.bind fun b7 => .ok b7.buildMinimal

/-- `Ontology::sub_ontology(root, leaves)` with the phenotype test as a parameter -/
def subOntologyWith (o : Onto) (phen : Onto → Term → Bool) (root : Term) (leaves : List Term) : Res Onto :=
  (collectLeaves o root.id leaves []).bind (subOntologyOf o phen)

/-- `Ontology::sub_ontology(root, leaves)` -/
def subOntology (o : Onto) (root : Term) (leaves : List Term) : Res Onto :=
  subOntologyWith o isPhenotype root leaves

/-- the pre-fix function, for the counterexample only -/
def subOntologyPrefix (o : Onto) (root : Term) (leaves : List Term) : Res Onto :=
  subOntologyWith o isPhenotypePrefix root leaves

end Onto
end Hpo
