import HpoModel.Core
/-
Model of `src/ontology/builder.rs` (as the tree stands, i.e. with the `fix:` commits for
`add_parent` and `annotate_*`): the operations of the typestate builder as functions on `Onto`.
`&mut self` becomes state passing; recursion over the DAG takes fuel (`diverge` when it runs
out: what a cyclic input does to the real code).
-/
namespace Hpo

def Term.addParent (t : Term) (p : Nat) : Term := { t with parents := (Group.insert t.parents p).1 }
def Term.addChild (t : Term) (c : Nat) : Term := { t with children := (Group.insert t.children c).1 }

/-- `HpoTermInternal::parents_cached` -/
def Term.parentsCached (t : Term) : Bool := t.parents.isEmpty || !t.allParents.isEmpty

namespace Onto

/-- `Builder::add_term` / `new_term`; `none` = panic (id ≥ 10^7 indexes past the id table). -/
def addTerm (o : Onto) (t : Term) : Option Onto :=
  (arenaInsert o.terms t).map fun ts => { o with terms := ts }

def newTerm (o : Onto) (name : List Char) (id : Nat) : Option Onto :=
  o.addTerm { id := id, name := name }

/-- `Builder<AllTerms>::add_parent(parent, child)`: both must exist, else `DoesNotExist` and no change. -/
def addParent (o : Onto) (parent child : Nat) : Res Onto :=
  match o.get child with
  | none => .err .doesNotExist
  | some _ =>
    match o.get parent with
    | none => .err .doesNotExist
    | some _ =>
      .ok { o with terms := modT (modT o.terms parent (·.addChild child)) child (·.addParent parent) }

/-- `add_parent` as the sequence of look-ups and in-place mutations the code performs, returning
the builder as it is left behind together with the result (this is what makes "an `Err` leaves the
builder unchanged" a statement with content). As fixed: the child is looked up first. -/
def addParentSt (o : Onto) (parent child : Nat) : Onto × Res Unit :=
  match o.get child with
  | none => (o, .err .doesNotExist)
  | some _ =>
    match o.get parent with
    | none => (o, .err .doesNotExist)
    | some _ =>
      match ({ o with terms := modT o.terms parent (·.addChild child) } : Onto).get child with
      | none => ({ o with terms := modT o.terms parent (·.addChild child) }, .err .doesNotExist)
      | some _ =>
        ({ o with terms := modT (modT o.terms parent (·.addChild child)) child (·.addParent parent) },
         .ok ())

/-- the pinned code before the `fix:` commit: the parent is mutated before the child is looked up -/
def addParentStPrefix (o : Onto) (parent child : Nat) : Onto × Res Unit :=
  match o.get parent with
  | none => (o, .err .doesNotExist)
  | some _ =>
    match ({ o with terms := modT o.terms parent (·.addChild child) } : Onto).get child with
    | none => ({ o with terms := modT o.terms parent (·.addChild child) }, .err .doesNotExist)
    | some _ =>
      ({ o with terms := modT (modT o.terms parent (·.addChild child)) child (·.addParent parent) },
       .ok ())

/-- `add_parent_unchecked`: `get_unchecked_mut` on both (slot 0 if absent, panic beyond the table). -/
def addParentUnchecked (o : Onto) (parent child : Nat) : Option Onto :=
  (o.modUnchecked parent (·.addChild child)).bind fun o' => o'.modUnchecked child (·.addParent parent)

/-- loop body of `create_cache_of_grandparents`: `all_grandparents(parent)` then `res.insert(gp)` for each -/
def cacheFold (rec : Onto → Nat → Res Onto) : List Nat → Onto → List Nat → Res (Onto × List Nat)
  | [], o, acc => .ok (o, acc)
  | p :: ps, o, acc =>
    match o.getUnchecked p with
    | none => .panic
    | some tp =>
      (if tp.parentsCached then Res.ok o else rec o p).bind fun o' =>
        match o'.getUnchecked p with
        | none => .panic
        | some tp' => cacheFold rec ps o' (Group.insertAll acc tp'.allParents)

/-- `create_cache_of_grandparents(term_id)` (with `all_grandparents` inlined in `cacheFold`). -/
def createCache : Nat → Onto → Nat → Res Onto
  | 0, _, _ => .diverge
  | fuel + 1, o, i =>
    match o.getUnchecked i with
    | none => .panic
    | some t =>
      (cacheFold (createCache fuel) t.parents o []).bind fun r =>
        match r.1.modUnchecked i (fun t' => { t' with allParents := Group.bitor r.2 t.parents }) with
        | none => .panic
        | some o' => .ok o'

def connectFold (fuel : Nat) : List Nat → Onto → Res Onto
  | [], o => .ok o
  | i :: is, o => (createCache fuel o i).bind (connectFold fuel is)

/-- `connect_all_terms`: `for id in keys() { create_cache_of_grandparents(id) }` -/
def connectAll (o : Onto) : Res Onto := connectFold (o.terms.length + 2) o.ids o

/-! ### annotations -/

/-- `add_gene` / `add_omim_disease` / `add_orpha_disease`: insert only if vacant -/
def addRec (o : Onto) (k : Kind) (name : List Char) (id : Nat) : Onto :=
  o.setRecs k (addR (o.recs k) { id := id, name := name })

def linkFold (rec : Onto → Nat → Res Onto) : List Nat → Onto → Res Onto
  | [], o => .ok o
  | p :: ps, o => (rec o p).bind (linkFold rec ps)

/-- `link_gene_term` / `link_omim_disease_term` / `link_orpha_disease_term` -/
def link (k : Kind) (r : Nat) : Nat → Onto → Nat → Res Onto
  | 0, _, _ => .diverge
  | fuel + 1, o, t =>
    match o.get t with
    | none => .err .doesNotExist
    | some tm =>
      if (Group.insert (tm.ann k) r).2 then
        linkFold (link k r fuel) tm.allParents
          { o with terms := modT o.terms t (fun x => x.setAnn k (Group.insert (tm.ann k) r).1) }
      else .ok o

def linkFuel (o : Onto) : Nat := o.terms.length + 2

/-- `add_gene(name, id)` (vacant only) followed by `record.add_term(term)` -/
def addTermToRec (o : Onto) (k : Kind) (name : List Char) (rid t : Nat) : Onto :=
  (o.addRec k name rid).setRecs k
    (modR ((o.addRec k name rid).recs k) rid (fun r => { r with hpos := (Group.insert r.hpos t).1 }))

/-- `annotate_gene` etc. (with the existence check of the `fix:` commit first) -/
def annotate (o : Onto) (k : Kind) (rid : Nat) (name : List Char) (t : Nat) : Res Onto :=
  match o.get t with
  | none => .err .doesNotExist
  | some _ =>
    link k rid (o.addTermToRec k name rid t).linkFuel (o.addTermToRec k name rid t) t

/-- `annotate_*` as look-ups and in-place mutations (as fixed: the term is looked up first) -/
def annotateSt (o : Onto) (k : Kind) (rid : Nat) (name : List Char) (t : Nat) : Onto × Res Unit :=
  match o.get t with
  | none => (o, .err .doesNotExist)
  | some _ =>
    match link k rid (o.addTermToRec k name rid t).linkFuel (o.addTermToRec k name rid t) t with
    | .ok o' => (o', .ok ())
    | .err e => (o.addTermToRec k name rid t, .err e)
    | .panic => (o.addTermToRec k name rid t, .panic)
    | .diverge => (o.addTermToRec k name rid t, .diverge)

/-- the pinned code before the `fix:` commit: record created and term added before the look-up -/
def annotateStPrefix (o : Onto) (k : Kind) (rid : Nat) (name : List Char) (t : Nat) : Onto × Res Unit :=
  match link k rid (o.addTermToRec k name rid t).linkFuel (o.addTermToRec k name rid t) t with
  | .ok o' => (o', .ok ())
  | .err e => (o.addTermToRec k name rid t, .err e)
  | .panic => (o.addTermToRec k name rid t, .panic)
  | .diverge => (o.addTermToRec k name rid t, .diverge)

/-! ### information content -/

/-- `f32_from_usize`: via `u16` -/
def fitsU16 (n : Nat) : Bool := n ≤ 65535

/-- `InformationContent::calculate(total, current)`: `Ok` with the pair the value is computed from,
or `TryFromIntError`. A zero count short-cuts to 0.0 before any conversion. -/
def icCalc (total current : Nat) : Res (Nat × Nat) :=
  if total = 0 ∨ current = 0 then .ok (0, 0)
  else if !fitsU16 total then .err .tryFromInt
  else if !fitsU16 current then .err .tryFromInt
  else .ok (current, total)

def icFold (k : Kind) (total : Nat) : List Term → Res (List Term)
  | [] => .ok []
  | t :: ts =>
    (icCalc total (t.ann k).length).bind fun v =>
      (icFold k total ts).bind fun ts' => .ok (t.setIc k v :: ts')

/-- `calculate_gene_ic` etc.: total = number of records of the kind -/
def calcIcKind (o : Onto) (k : Kind) : Res Onto :=
  (icFold k (o.recs k).length o.terms).bind fun ts => .ok { o with terms := ts }

/-- `calculate_information_content` -/
def calcIc (o : Onto) : Res Onto :=
  (o.calcIcKind .gene).bind fun o => (o.calcIcKind .omim).bind fun o => o.calcIcKind .orpha

/-! ### build -/

/-- `Ontology::set_default_categories` + `set_default_modifier` inputs -/
def phenotypeId : Nat := 118

/-- `build_minimal`: categories and modifier start empty (`..Default::default()`) -/
def buildMinimal (o : Onto) : Onto := { o with categories := [], modifier := [] }

/-- `set_default_modifier`: children of HP:1 other than HP:118, collected into a group -/
def defaultModifier (o : Onto) : Res (List Nat) :=
  match o.get 1 with
  | none => .err .doesNotExist
  | some root => .ok (Group.ofList (root.children.filter (· ≠ phenotypeId)))

/-- `set_default_categories`: those plus the children of HP:118 -/
def defaultCategories (o : Onto) : Res (List Nat) :=
  match o.get 1 with
  | none => .err .doesNotExist
  | some root =>
    match o.get phenotypeId with
    | none => .err .doesNotExist
    | some ph => .ok (Group.ofList (root.children.filter (· ≠ phenotypeId) ++ ph.children))

/-- `build_with_defaults` -/
def buildWithDefaults (o : Onto) : Res Onto :=
  let m := o.buildMinimal
  m.defaultCategories.bind fun c =>
    m.defaultModifier.bind fun md => .ok { m with categories := c, modifier := md }

end Onto
end Hpo
