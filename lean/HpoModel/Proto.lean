import HpoModel.Read
/-
Line protocol shared by the Rust harness and the Lean driver: token parsing and canonical
printing.  One operation per line, tokens separated by one space.

  ids        `-` (empty) or `1,2,3`
  names      hex-encoded UTF-8 (`-` for the empty name)
  floats     `f32:<8 hex digits of the IEEE bit pattern>` / `f64:<16 hex digits>`; the differ
             compares such tokens with a tolerance, everything else textually
-/
namespace Hpo
namespace Proto

def hexDigit (c : Char) : Option Nat :=
  if '0' ≤ c ∧ c ≤ '9' then some (c.toNat - '0'.toNat)
  else if 'a' ≤ c ∧ c ≤ 'f' then some (c.toNat - 'a'.toNat + 10)
  else none

def hexBytes : List Char → Option (List UInt8)
  | [] => some []
  | [_] => none
  | a :: b :: rest =>
    match hexDigit a, hexDigit b, hexBytes rest with
    | some x, some y, some r => some (UInt8.ofNat (x * 16 + y) :: r)
    | _, _, _ => none

def hexChar (n : Nat) : Char :=
  if n < 10 then Char.ofNat ('0'.toNat + n) else Char.ofNat ('a'.toNat + n - 10)

def byteHex (b : UInt8) : List Char := [hexChar (b.toNat / 16), hexChar (b.toNat % 16)]

def bytesHex (bs : List UInt8) : String :=
  if bs.isEmpty then "-" else String.ofList (bs.flatMap byteHex)

/-- UTF-8 encoding of a name (core's reference encoder, per character) -/
def utf8 (cs : List Char) : List UInt8 := cs.flatMap String.utf8EncodeChar

/-- UTF-8 decoding of a byte string (core's reference decoder); `none` = invalid UTF-8 -/
def utf8Decode (bs : List UInt8) : Option (List Char) := (bs.toByteArray.utf8Decode?).map (·.toList)

def parseBytes (s : String) : Option (List UInt8) :=
  if s = "-" then some [] else hexBytes s.toList

def parseName (s : String) : Option (List Char) := (parseBytes s).bind utf8Decode

def showName (cs : List Char) : String := bytesHex (utf8 cs)

def parseIds (s : String) : Option (List Nat) :=
  if s = "-" then some []
  else (s.splitOn ",").foldr (fun t acc => match t.toNat?, acc with
    | some n, some l => some (n :: l)
    | _, _ => none) (some [])

def showIds (l : List Nat) : String :=
  if l.isEmpty then "-" else String.intercalate "," (l.map toString)

def padHex (width : Nat) (n : Nat) : String :=
  let ds := Nat.toDigits 16 n
  String.ofList (List.replicate (width - ds.length) '0' ++ ds)

/-- bit pattern; every NaN (whatever its sign / payload) is the one token `f32:nan`, on both sides -/
def showF32 (x : Float32) : String := if x != x then "f32:nan" else "f32:" ++ padHex 8 x.toBits.toNat
def showF64 (x : Float) : String := "f64:" ++ padHex 16 x.toBits.toNat

def showBool (b : Bool) : String := if b then "1" else "0"

def showOptNat : Option Nat → String
  | none => "-"
  | some n => toString n

def parseKind (s : String) : Option Kind :=
  if s = "g" then some .gene else if s = "o" then some .omim else if s = "r" then some .orpha else none

def showRes {α : Type} : Res α → String
  | .ok _ => "ok"
  | .err _ => "err"
  | .panic => "panic"
  | .diverge => "diverge"

/-- insertion sort of ids (canonical order for hash-map content) -/
def sortNat (l : List Nat) : List Nat := l.foldl (fun g x => (Group.insert g x).1) []

end Proto
end Hpo
