import HpoModel.Read
import HpoModel.Num
/-
Model of `src/similarity/defaults.rs` (the eight built-in term similarities) and of the
`Builtins` dispatch of `src/similarity.rs`, written ONCE over `[Num F]`:
`Float32` in the driver, `ℝ` in the theorems (`HpoProps/C04.lean`).

Every algorithm returns `Option F`: `none` = the code would divide by a zero denominator
(NaN / ±inf in `f32`).  The information content is an input `ic : Nat → F` (term id ↦ cached
value of the chosen kind); the two terms are `Term`s (their `id`, `allParents`, annotation sets).

Order of evaluation matters in `f32`:
  * sums (`Iterator::sum`) are left folds from 0 over the ids in ASCENDING order
    (`Combined::iter` walks the sorted `HpoGroup`);
  * Resnik is the fold `|max, x| if x > max { x } else { max }` from `0.0` in the same order.
-/
namespace Hpo
namespace Sim

variable {F : Type} [Num F]

/-- `iter().map(ic).sum::<f32>()` -/
def sumGo (ic : Nat → F) : F → List Nat → F
  | acc, [] => acc
  | acc, i :: is => sumGo ic (Num.add acc (ic i)) is

def sumIc (ic : Nat → F) (l : List Nat) : F := sumGo ic (Num.ofNat 0) l

/-- `.fold(0.0, |max, x| if x > max { x } else { max })` -/
def maxGo (ic : Nat → F) : F → List Nat → F
  | acc, [] => acc
  | acc, i :: is => maxGo ic (if Num.lt acc (ic i) then ic i else acc) is

/-- `Resnik::calculate`: maximal ic among the inclusive common ancestors (0 if there is none) -/
def resnik (ic : Nat → F) (a b : Term) : F := maxGo ic (Num.ofNat 0) (a.allCommonAncestorIds b)

/-- `GraphIc::calculate` -/
def graphIc (ic : Nat → F) (a b : Term) : Option F :=
  if a.id = b.id then some (Num.ofNat 1)
  else if Num.isZero (sumIc ic (a.unionAncestorIds b)) then some (Num.ofNat 0)
  else Num.div? (sumIc ic (a.allCommonAncestorIds b)) (sumIc ic (a.unionAncestorIds b))

/-- `Lin::calculate` -/
def lin (ic : Nat → F) (a b : Term) : Option F :=
  if Num.isZero (Num.add (ic a.id) (ic b.id)) then some (Num.ofNat 0)
  else Num.div? (Num.mul (Num.ofNat 2) (resnik ic a b)) (Num.add (ic a.id) (ic b.id))

/-- denominator of Jiang-Conrath: `ic1 + ic2 - 2.0 * resnik + 1.0` -/
def jcDenom (ic : Nat → F) (a b : Term) : F :=
  Num.add (Num.sub (Num.add (ic a.id) (ic b.id)) (Num.mul (Num.ofNat 2) (resnik ic a b))) (Num.ofNat 1)

/-- `Jc::calculate` -/
def jc (ic : Nat → F) (a b : Term) : Option F :=
  if a.id = b.id then some (Num.ofNat 1)
  else if Num.isZero (ic a.id) || Num.isZero (ic b.id) then some (Num.ofNat 0)
  else Num.div? (Num.ofNat 1) (jcDenom ic a b)

/-- `Relevance::calculate`: `lin * (1.0 - (resnik * -1.0).exp())` -/
def relevance (ic : Nat → F) (a b : Term) : Option F :=
  (lin ic a b).map fun l =>
    Num.mul l (Num.sub (Num.ofNat 1) (Num.exp (Num.neg (resnik ic a b))))

/-- `InformationCoefficient::calculate`: `lin * (1.0 - (1.0 / (1.0 + resnik)))` -/
def infoCoef (ic : Nat → F) (a b : Term) : Option F :=
  (lin ic a b).bind fun l =>
    (Num.div? (Num.ofNat 1) (Num.add (Num.ofNat 1) (resnik ic a b))).map fun q =>
      Num.mul l (Num.sub (Num.ofNat 1) q)

/-- `Distance::calculate` on the result of `distance_to_term`: `1/(n+1)`, `0` without a path -/
def distanceSim : Option Nat → Option F
  | none => some (Num.ofNat 0)
  | some n => Num.div? (Num.ofNat 1) (Num.add (Num.ofNat n) (Num.ofNat 1))

/-- `Mutation::gene_similarity` (as fixed: empty union ⇒ 0) -/
def mutationGene (ga gb : List Nat) : Option F :=
  if (Group.bitor ga gb).isEmpty then some (Num.ofNat 0)
  else Num.div? (Num.ofNat (Group.bitand ga gb).length) (Num.ofNat (Group.bitor ga gb).length)

/-- `Mutation::disease_similarity` (shared by OMIM and ORPHA) -/
def mutationDisease (da db : List Nat) : Option F :=
  if (Group.bitor da db).isEmpty then some (Num.ofNat 0)
  else Num.div? (Num.ofNat (Group.bitand da db).length) (Num.ofNat (Group.bitor da db).length)

/-- `Mutation::calculate` -/
def mutation (k : Kind) (a b : Term) : Option F :=
  if a.id = b.id then some (Num.ofNat 1)
  else match k with
    | .gene => mutationGene a.genes b.genes
    | .omim => mutationDisease a.omim b.omim
    | .orpha => mutationDisease a.orpha b.orpha

/-- `Mutation::gene_similarity` BEFORE the fix "Mutation similarity of two terms without genes is
0, not NaN": the quotient is taken unconditionally. Kept only for the counterexample theorem. -/
def mutationGenePrefix (ga gb : List Nat) : Option F :=
  Num.div? (Num.ofNat (Group.bitand ga gb).length) (Num.ofNat (Group.bitor ga gb).length)

def mutationPrefix (k : Kind) (a b : Term) : Option F :=
  if a.id = b.id then some (Num.ofNat 1)
  else match k with
    | .gene => mutationGenePrefix a.genes b.genes
    | .omim => mutationDisease a.omim b.omim
    | .orpha => mutationDisease a.orpha b.orpha

/-! ### `Builtins` -/

inductive Alg where
  | distance | graphIc | infoCoef | jc | lin | mutation | relevance | resnik
deriving DecidableEq, Repr

/-- `Builtins::new(method, kind)`: the match on the lower-cased name; `none` = `DoesNotExist` -/
def algOfLower (s : String) : Option Alg :=
  if s = "graphic" then some .graphIc
  else if s = "resnik" then some .resnik
  else if s = "distance" ∨ s = "dist" then some .distance
  else if s = "informationcoefficient" ∨ s = "ic" then some .infoCoef
  else if s = "jc" ∨ s = "jc2" then some .jc
  else if s = "lin" then some .lin
  else if s = "relevance" ∨ s = "rel" then some .relevance
  else if s = "mutation" ∨ s = "mut" then some .mutation
  else none

/-- `str::to_lowercase` restricted to what the generator sends: ASCII letters (other characters
are kept; the generator never sends a non-ASCII character whose lower case is ASCII) -/
def algOfName (s : String) : Option Alg := algOfLower s.toLower

def Alg.name : Alg → String
  | .distance => "distance" | .graphIc => "graphic" | .infoCoef => "informationcoefficient"
  | .jc => "jc" | .lin => "lin" | .mutation => "mutation" | .relevance => "relevance"
  | .resnik => "resnik"

/-- `usize_to_f32`: through `u16`, panics ("Matrix too large") beyond 65535 -/
def fitsU16 (n : Nat) : Bool := n ≤ 65535

/-- `<Builtins as Similarity>::calculate` on two terms of `o`.
`Res.panic`: an id of an ancestor group does not resolve (`Invalid HPO-Term`) or a count does
not fit `u16`; inside `ok`: `none` = division by zero. -/
def builtin (o : Onto) (alg : Alg) (k : Kind) (ic : Nat → F) (a b : Term) : Res (Option F) :=
  match alg with
  | .graphIc =>
    if a.id = b.id then .ok (graphIc ic a b)
    else match o.resolve (a.unionAncestorIds b) with
      | none => .panic
      | some _ =>
        if Num.isZero (sumIc ic (a.unionAncestorIds b)) then .ok (graphIc ic a b)
        else match o.resolve (a.allCommonAncestorIds b) with
          | none => .panic
          | some _ => .ok (graphIc ic a b)
  | .resnik =>
    match o.resolve (a.allCommonAncestorIds b) with
    | none => .panic
    | some _ => .ok (some (resnik ic a b))
  | .lin =>
    if Num.isZero (Num.add (ic a.id) (ic b.id)) then .ok (lin ic a b)
    else match o.resolve (a.allCommonAncestorIds b) with
      | none => .panic
      | some _ => .ok (lin ic a b)
  | .jc =>
    if a.id = b.id then .ok (jc ic a b)
    else if Num.isZero (ic a.id) || Num.isZero (ic b.id) then .ok (jc ic a b)
    else match o.resolve (a.allCommonAncestorIds b) with
      | none => .panic
      | some _ => .ok (jc ic a b)
  | .relevance =>
    match o.resolve (a.allCommonAncestorIds b) with
    | none => .panic
    | some _ => .ok (relevance ic a b)
  | .infoCoef =>
    match o.resolve (a.allCommonAncestorIds b) with
    | none => .panic
    | some _ => .ok (infoCoef ic a b)
  | .distance =>
    match o.distToTerm a b with
    | .ok d =>
      match d with
      | some n => if fitsU16 n then .ok (distanceSim d) else .panic
      | none => .ok (distanceSim d)
    | .err e => .err e
    | .panic => .panic
    | .diverge => .diverge
  | .mutation =>
    if a.id = b.id then .ok (mutation k a b)
    else if (Group.bitor (a.ann k) (b.ann k)).isEmpty then .ok (mutation k a b)
    else if fitsU16 (Group.bitor (a.ann k) (b.ann k)).length then .ok (mutation k a b)
    else .panic

/-- cached information content of kind `k` by term id (value of an absent id is never read) -/
def icOf (o : Onto) (k : Kind) (i : Nat) : F :=
  match o.get i with
  | some t => (icValue (t.ic k)).getD (Num.ofNat 0)
  | none => Num.ofNat 0

end Sim
end Hpo
