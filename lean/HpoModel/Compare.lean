import HpoModel.Read
/-
Model of `src/ontology/comparison.rs`: `Comparison` (lhs = old, rhs = new), `HpoTermDelta`,
`AnnotationDelta`.

As read from the code:
  added_*    iterate the NEW ontology, keep what the OLD one does not resolve (`lhs.hpo(id).is_none()`)
  removed_*  iterate the OLD ontology, keep what the NEW one does not resolve
  changed_*  iterate the OLD ontology, for ids that resolve in the NEW one build a delta, keep `Some`
  HpoTermDelta::new   names; direct parents as `HashSet`s of the ids of `parents()` (the RESOLVING
                      iterator: an unknown parent id panics); obsolete flags; replacement =
                      `replaced_by().map(id)`, i.e. the replacement RESOLVED in the term's own
                      ontology (a replacement id that does not resolve reads `None`)
  AnnotationDelta     names; direct term groups: added = new \ old, removed = old \ new; n_terms
`Vec`s that come out of hash maps/sets are compared as sorted lists (the driver sorts by id).
-/
namespace Hpo
namespace Compare

/-- `a \ b` on id lists (order of `a` kept) -/
def diff (a b : List Nat) : List Nat := a.filter (fun x => !b.elem x)

/-! ### terms -/

/-- `added_hpo_terms`: terms of the new ontology whose id the old one does not resolve -/
def addedTerms (l r : Onto) : List Term := r.terms.filter (fun t => (l.get t.id).isNone)
/-- `removed_hpo_terms` -/
def removedTerms (l r : Onto) : List Term := l.terms.filter (fun t => (r.get t.id).isNone)

structure TermDelta where
  id : Nat
  names : List Char × List Char
  addedParents : List Nat
  removedParents : List Nat
  obsolete : Bool × Bool
  replacement : Option Nat × Option Nat
deriving Repr, DecidableEq

/-- `term.parents().map(|t| t.id()).collect::<HashSet<_>>()` as a sorted list; `none` = panic -/
def parentIdSet (o : Onto) (t : Term) : Option (List Nat) :=
  (o.resolve t.parents).map (fun ts => Group.ofList (ts.map (·.id)))

/-- `replaced_by().map(|t| t.id())` -/
def replId (o : Onto) (t : Term) : Option Nat := (o.replacedBy t).map (·.id)

/-- the struct `HpoTermDelta::new` builds before deciding whether to return it -/
def mkDelta (l r : Onto) (tl tr : Term) (pl pr : List Nat) : TermDelta :=
  { id := tl.id
    names := (tl.name, tr.name)
    addedParents := diff pr pl
    removedParents := diff pl pr
    obsolete := (tl.obsolete, tr.obsolete)
    replacement := (replId l tl, replId r tr) }

/-- the `if` of `HpoTermDelta::new` -/
def TermDelta.differs (d : TermDelta) : Bool :=
  d.names.1 != d.names.2 || !d.removedParents.isEmpty || !d.addedParents.isEmpty
    || d.obsolete.1 != d.obsolete.2 || d.replacement.1 != d.replacement.2

/-- `HpoTermDelta::new(lhs, rhs)` -/
def termDelta (l r : Onto) (tl tr : Term) : Res (Option TermDelta) :=
  match parentIdSet l tl with
  | none => .panic
  | some pl =>
    match parentIdSet r tr with
    | none => .panic
    | some pr => .ok (if (mkDelta l r tl tr pl pr).differs then some (mkDelta l r tl tr pl pr) else none)

/-- `changed_hpo_terms`: `lhs.hpos().filter_map(..)` -/
def changedFold (l r : Onto) : List Term → Res (List TermDelta)
  | [] => .ok []
  | t :: ts =>
    match r.get t.id with
    | none => changedFold l r ts
    | some tr =>
      match termDelta l r t tr with
      | .ok none => changedFold l r ts
      | .ok (some d) =>
        match changedFold l r ts with
        | .ok ds => .ok (d :: ds)
        | .err e => .err e
        | .panic => .panic
        | .diverge => .diverge
      | .err e => .err e
      | .panic => .panic
      | .diverge => .diverge

def changedTerms (l r : Onto) : Res (List TermDelta) := changedFold l r l.terms

/-- accessors of `HpoTermDelta` (`None` when unchanged / empty) -/
def TermDelta.changedName (d : TermDelta) : Option (List Char × List Char) :=
  if d.names.1 = d.names.2 then none else some d.names
def TermDelta.addedParents? (d : TermDelta) : Option (List Nat) :=
  if d.addedParents.isEmpty then none else some d.addedParents
def TermDelta.removedParents? (d : TermDelta) : Option (List Nat) :=
  if d.removedParents.isEmpty then none else some d.removedParents
def TermDelta.changedObsolete (d : TermDelta) : Option (Bool × Bool) :=
  if d.obsolete.1 = d.obsolete.2 then none else some d.obsolete
def TermDelta.changedReplacement (d : TermDelta) : Option (Option Nat × Option Nat) :=
  if d.replacement.1 = d.replacement.2 then none else some d.replacement

/-! ### genes and diseases -/

/-- `added_genes` / `added_omim_diseases` / `added_orpha_diseases` -/
def addedRecs (k : Kind) (l r : Onto) : List Rec := (r.recs k).filter (fun x => (getR (l.recs k) x.id).isNone)
/-- `removed_*` -/
def removedRecs (k : Kind) (l r : Onto) : List Rec := (l.recs k).filter (fun x => (getR (r.recs k) x.id).isNone)

structure AnnDelta where
  id : Nat
  names : List Char × List Char
  nTerms : Nat × Nat
  addedTerms : List Nat
  removedTerms : List Nat
deriving Repr, DecidableEq

/-- the struct `AnnotationDelta::delta` builds -/
def mkAnnDelta (a b : Rec) : AnnDelta :=
  { id := a.id
    names := (a.name, b.name)
    nTerms := (a.hpos.length, b.hpos.length)
    addedTerms := diff b.hpos a.hpos
    removedTerms := diff a.hpos b.hpos }

def AnnDelta.differs (d : AnnDelta) : Bool :=
  !d.addedTerms.isEmpty || !d.removedTerms.isEmpty || d.names.1 != d.names.2

/-- `AnnotationDelta::gene` / `::disease` -/
def annDelta (a b : Rec) : Option AnnDelta :=
  if (mkAnnDelta a b).differs then some (mkAnnDelta a b) else none

/-- `changed_genes` / `changed_omim_diseases` / `changed_orpha_diseases` -/
def changedRecs (k : Kind) (l r : Onto) : List AnnDelta :=
  (l.recs k).filterMap (fun a => (getR (r.recs k) a.id).bind (annDelta a))

def AnnDelta.changedName (d : AnnDelta) : Option (List Char × List Char) :=
  if d.names.1 = d.names.2 then none else some d.names
def AnnDelta.addedTerms? (d : AnnDelta) : Option (List Nat) :=
  if d.addedTerms.isEmpty then none else some d.addedTerms
def AnnDelta.removedTerms? (d : AnnDelta) : Option (List Nat) :=
  if d.removedTerms.isEmpty then none else some d.removedTerms

/-- `Display` prefix of the record id types -/
def idPrefix : Kind → String
  | .gene => "NCBI-GeneID:"
  | .omim => "OMIM:"
  | .orpha => "ORPHA:"

end Compare
end Hpo
