import HpoModel.Load
import HpoModel.Proto
/-
Byte-level model of the binary ontology format (`src/ontology.rs` `from_bytes` / `as_bytes`,
`src/parser/binary.rs`, `parser/binary/term.rs`, `parser/binary/ontology.rs`,
`term/internal.rs` `as_bytes` / `parents_as_byte`, `annotations/gene.rs`, `annotations/disease.rs`,
`ontology/builder.rs` `add_*_from_bytes`, `hpo_version_from_bytes`).

Bytes are `List UInt8`.  A Rust slice `&bytes[i..]` is the list that is left after dropping `i`
bytes, so every decoder works on "the rest of the section"; every slice / index operation of the
code is a CHECKED operation here and yields `panic` exactly where the Rust operation panics
(`geLen` = the bounds check).  Structure:

  decodeBytes bs = version bs >>= fun (fv, data) => decodeRaw fv data >>= Onto.loadFacts fv

`decodeRaw` does the framing and the record decoding (bytes → `RawFacts`), `Onto.loadFacts`
(`HpoModel/Load.lean`) the logical steps.  The real code interleaves the two (it links the terms
of gene 1 before it looks at the bytes of gene 2).  The classification ok / reject / diverge of
`decodeBytes` is exactly the code's; when an input has TWO independent defects the *kind* of the
rejection (`err` vs. `panic`) can be the other one's (not an observable of C07 / C08).

Encoders: `encodeRaw fv` is written from the documented layouts (the same tables as
`harness/src/enc.rs`), `encodeOnto` mirrors `Ontology::as_bytes` (always v3; term and gene names
cut to at most 255 bytes at a character boundary).
-/
namespace Hpo
namespace Binary
open Proto (utf8 utf8Decode)

abbrev Bytes := List UInt8

/-! ### primitives -/

/-- bounds check `n ≤ bs.len()` in `O(min n len)` -/
def geLen : Bytes → Nat → Bool
  | _, 0 => true
  | [], _ + 1 => false
  | _ :: r, n + 1 => geLen r n

/-- `u32::to_be_bytes` (the value is reduced mod 2^32; the code's `try_into().expect(..)` is part
of the encodability hypothesis) -/
def u32be (n : Nat) : Bytes :=
  [UInt8.ofNat (n / 16777216), UInt8.ofNat (n / 65536), UInt8.ofNat (n / 256), UInt8.ofNat n]

/-- `u32::from_be_bytes` -/
def be32 (a b c d : UInt8) : Nat := a.toNat * 16777216 + b.toNat * 65536 + c.toNat * 256 + d.toNat

/-- `n` big-endian u32 read one after the other (the caller has checked the length) -/
def readIds : Nat → Bytes → List Nat
  | 0, _ => []
  | n + 1, a :: b :: c :: d :: r => be32 a b c d :: readIds n r
  | _ + 1, _ => []

def magic : Bytes := [0x48, 0x50, 0x4f]

/-! ### record decoders -/

/-- `from_bytes_v1` applied to the rest of the terms section. The name is `bytes[9..total_len]`
(not `9 + name_len`): a slice that panics when `total_len < 9` or beyond the section. -/
def decTermV1 (bs : Bytes) : Res Term :=
  match bs with
  | l0 :: l1 :: l2 :: l3 :: i0 :: i1 :: i2 :: i3 :: n :: r =>
    if !geLen r n.toNat then .err .parseBinary
    else if be32 l0 l1 l2 l3 < 9 then .panic
    else if !geLen r (be32 l0 l1 l2 l3 - 9) then .panic
    else match utf8Decode (r.take (be32 l0 l1 l2 l3 - 9)) with
      | none => .err .parseBinary
      | some name => .ok { id := be32 i0 i1 i2 i3, name := name }
  | _ => .err .parseBinary

/-- `from_bytes_v2` (format versions 2 and 3) applied to the rest of the terms section.
`len < 14` and `len < 14 + name_len` both give `ParseBinaryError`. -/
def decTermV2 (bs : Bytes) : Res Term :=
  match bs with
  | _ :: _ :: _ :: _ :: i0 :: i1 :: i2 :: i3 :: n :: r =>
    if !geLen r (n.toNat + 5) then .err .parseBinary
    else match utf8Decode (r.take n.toNat), r.drop n.toNat with
      | none, _ => .err .parseBinary
      | some name, f :: r0 :: r1 :: r2 :: r3 :: _ =>
        .ok { id := be32 i0 i1 i2 i3, name := name, obsolete := f.toNat % 2 = 1,
              replacement := if be32 r0 r1 r2 r3 = 0 then none else some (be32 r0 r1 r2 r3) }
      | some _, _ => .panic   -- not reachable: the length was checked
  | _ => .err .parseBinary

/-- `HpoTermInternal::try_from(Bytes)`: dispatch on the format version -/
def decTerm (fv : Nat) (bs : Bytes) : Res Term := if fv = 1 then decTermV1 bs else decTermV2 bs

/-- `Gene::try_from(&[u8])` on exactly the record's slice -/
def decGene (b : Bytes) : Res Rec :=
  match b with
  | l0 :: l1 :: l2 :: l3 :: i0 :: i1 :: i2 :: i3 :: n :: r =>
    if !geLen r 4 then .err .parseBinary
    else if b.length ≠ be32 l0 l1 l2 l3 then .err .parseBinary
    else if !geLen r (n.toNat + 4) then .err .parseBinary
    else match utf8Decode (r.take n.toNat), r.drop n.toNat with
      | none, _ => .err .parseBinary
      | some name, c0 :: c1 :: c2 :: c3 :: ids =>
        if !geLen ids (4 * be32 c0 c1 c2 c3) then .err .parseBinary
        else if 13 + n.toNat + 4 * be32 c0 c1 c2 c3 = be32 l0 l1 l2 l3 then
          .ok { id := be32 i0 i1 i2 i3, name := name, hpos := readIds (be32 c0 c1 c2 c3) ids }
        else .err .parseBinary
      | some _, _ => .panic   -- not reachable
  | _ => .err .parseBinary

/-- `Disease::from_bytes(&[u8])` (OMIM and ORPHA): as the gene, with a u32 name length -/
def decDisease (b : Bytes) : Res Rec :=
  match b with
  | l0 :: l1 :: l2 :: l3 :: i0 :: i1 :: i2 :: i3 :: n0 :: n1 :: n2 :: n3 :: r =>
    if !geLen r 4 then .err .parseBinary
    else if b.length ≠ be32 l0 l1 l2 l3 then .err .parseBinary
    else if !geLen r (be32 n0 n1 n2 n3 + 4) then .err .parseBinary
    else match utf8Decode (r.take (be32 n0 n1 n2 n3)), r.drop (be32 n0 n1 n2 n3) with
      | none, _ => .err .parseBinary
      | some name, c0 :: c1 :: c2 :: c3 :: ids =>
        if !geLen ids (4 * be32 c0 c1 c2 c3) then .err .parseBinary
        else if 16 + be32 n0 n1 n2 n3 + 4 * be32 c0 c1 c2 c3 = be32 l0 l1 l2 l3 then
          .ok { id := be32 i0 i1 i2 i3, name := name, hpos := readIds (be32 c0 c1 c2 c3) ids }
        else .err .parseBinary
      | some _, _ => .panic   -- not reachable
  | _ => .err .parseBinary

/-! ### section walks -/

/-- The loop shared by the four record walks: `step` looks at the rest of the section and returns
the decoded record and the number of bytes to advance MINUS ONE (a record announcing length 0 is
handled by the step itself). Stops when the rest is empty. -/
def walk {α : Type} (step : Bytes → Res (α × Nat)) (bs : Bytes) : Res (List α) :=
  if _h : bs = [] then .ok []
  else match step bs with
    | .ok x => (walk step (bs.drop (x.2 + 1))).bind fun xs => .ok (x.1 :: xs)
    | .err e => .err e
    | .panic => .panic
    | .diverge => .diverge
termination_by bs.length
decreasing_by
  cases bs with
  | nil => contradiction
  | cons a r => simp only [List.length_drop, List.length_cons]; omega

/-- `BinaryTermBuilder::next` + `add_term`: `u32_prefix` asserts `len > 4`, then
`assert!(len >= term_len)`, then `try_from(rest).expect(..)`; `add_term` indexes the id table
(panic for ids ≥ 10^7); a record announcing length 0 never advances (the loop does not end). -/
def stepTerm (fv : Nat) (bs : Bytes) : Res (Term × Nat) :=
  match bs with
  | a :: b :: c :: d :: _ :: _ =>
    if !geLen bs (be32 a b c d) then .panic
    else match decTerm fv bs with
      | .ok t =>
        if t.id ≥ maxId then .panic
        else if be32 a b c d = 0 then .diverge
        else .ok (t, be32 a b c d - 1)
      | .diverge => .diverge
      | _ => .panic
  | _ => .panic

/-- `add_terms_from_bytes` -/
def decodeTerms (fv : Nat) (bs : Bytes) : Res (List Term) := walk (stepTerm fv) bs

/-- one record of `add_parent_from_bytes`: every index is unchecked in the code ⇒ panic when
bytes are missing -/
def stepParents (bs : Bytes) : Res ((Nat × List Nat) × Nat) :=
  match bs with
  | a :: b :: c :: d :: t0 :: t1 :: t2 :: t3 :: r =>
    if !geLen r (4 * be32 a b c d) then .panic
    else .ok ((be32 t0 t1 t2 t3, readIds (be32 a b c d) r), 7 + 4 * be32 a b c d)
  | _ => .panic

/-- `add_parent_from_bytes` -/
def decodeParents (bs : Bytes) : Res (List (Nat × List Nat)) := walk stepParents bs

/-- one record of `add_genes_from_bytes` / `add_omim_disease_from_bytes` /
`add_orpha_disease_from_bytes`: `u32_from_bytes(&bytes[idx..])` (panic on < 4 bytes),
`&bytes[idx..idx + len]` (panic beyond the section), `try_from(..)?`. A record length 0 hands the
decoder an empty slice (an error in both decoders; were it accepted the loop would not advance). -/
def stepRec (dec : Bytes → Res Rec) (bs : Bytes) : Res (Rec × Nat) :=
  match bs with
  | a :: b :: c :: d :: _ =>
    if !geLen bs (be32 a b c d) then .panic
    else match dec (bs.take (be32 a b c d)) with
      | .ok g => if be32 a b c d = 0 then .diverge else .ok (g, be32 a b c d - 1)
      | .err e => .err e
      | .panic => .panic
      | .diverge => .diverge
  | _ => .panic

def decodeRecs (dec : Bytes → Res Rec) (bs : Bytes) : Res (List Rec) := walk (stepRec dec) bs

/-! ### file level -/

/-- `parser::binary::ontology::version`: format version and the data after magic + version byte -/
def version (bs : Bytes) : Res (Nat × Bytes) :=
  if !geLen bs 5 then .err .parseBinary
  else match bs with
    | m0 :: m1 :: m2 :: v :: r =>
      if [m0, m1, m2] = magic then
        if v = 3 then .ok (3, r) else if v = 2 then .ok (2, r) else .err .notImplemented
      else .ok (1, bs)
    | _ => .ok (1, bs)

/-- `hpo_version_from_bytes`: release version and the rest (offset 0 for v1, 4 otherwise) -/
def hpoVersion (fv : Nat) (d : Bytes) : Res ((Nat × Nat × Nat) × Bytes) :=
  if fv = 1 then .ok ((0, 0, 0), d)
  else match d with
    | y0 :: y1 :: m :: dd :: r => .ok ((y0.toNat * 256 + y1.toNat, m.toNat, dd.toNat), r)
    | _ => .err .parseBinary

/-- one step of the section walk of `from_bytes`: `u32_from_bytes(&bytes[start..])` then
`&bytes[start + 4..start + 4 + len]`; returns the section and what follows it -/
def takeSection (bs : Bytes) : Res (Bytes × Bytes) :=
  match bs with
  | a :: b :: c :: d :: r =>
    if !geLen r (be32 a b c d) then .panic
    else .ok (r.take (be32 a b c d), r.drop (be32 a b c d))
  | _ => .panic

/-- the optional fifth section: `if bytes.version() > V2` -/
def orphaSection (fv : Nat) (bs : Bytes) : Res (List Rec × Bytes) :=
  if fv > 2 then
    (takeSection bs).bind fun s => (decodeRecs decDisease s.1).bind fun rs => .ok (rs, s.2)
  else .ok ([], bs)

/-- the final `section_start == bytes.len()` -/
def finish (f : RawFacts) (rest : Bytes) : Res RawFacts :=
  if rest.isEmpty then .ok f else .err .parseBinary

/-- the section walk of `from_bytes` (after the release version) -/
def decodeSections (fv : Nat) (ver : Nat × Nat × Nat) (d : Bytes) : Res RawFacts :=
  (takeSection d).bind fun s1 => (decodeTerms fv s1.1).bind fun ts =>
  (takeSection s1.2).bind fun s2 => (decodeParents s2.1).bind fun ps =>
  (takeSection s2.2).bind fun s3 => (decodeRecs decGene s3.1).bind fun gs =>
  (takeSection s3.2).bind fun s4 => (decodeRecs decDisease s4.1).bind fun os =>
  (orphaSection fv s4.2).bind fun s5 =>
  finish { version := ver, terms := ts, parents := ps, genes := gs, omim := os, orpha := s5.1 } s5.2

/-- bytes (after `version`) → decoded records -/
def decodeRaw (fv : Nat) (d : Bytes) : Res RawFacts :=
  (hpoVersion fv d).bind fun hv => decodeSections fv hv.1 hv.2

/-- `Ontology::from_bytes` -/
def decodeBytes (bs : Bytes) : Res Onto :=
  (version bs).bind fun v => (decodeRaw v.1 v.2).bind fun f => Onto.loadFacts v.1 f

/-! ### encoders -/

/-- a length-prefixed section -/
def sec (x : Bytes) : Bytes := u32be x.length ++ x

def idsBytes : List Nat → Bytes
  | [] => []
  | i :: is => u32be i ++ idsBytes is

/-- term record; `fv = 1`: without flags and replacement -/
def encTerm (fv : Nat) (t : Term) : Bytes :=
  if fv = 1 then
    u32be ((utf8 t.name).length + 9) ++ (u32be t.id ++ (UInt8.ofNat (utf8 t.name).length :: utf8 t.name))
  else
    u32be ((utf8 t.name).length + 14) ++ (u32be t.id ++ (UInt8.ofNat (utf8 t.name).length ::
      (utf8 t.name ++ ((if t.obsolete then 1 else 0) :: u32be (t.replacement.getD 0)))))

/-- parents record: number of parents, term, parents -/
def encParents (p : Nat × List Nat) : Bytes := u32be p.2.length ++ (u32be p.1 ++ idsBytes p.2)

def encGene (r : Rec) : Bytes :=
  u32be (13 + (utf8 r.name).length + 4 * r.hpos.length) ++ (u32be r.id ++
    (UInt8.ofNat (utf8 r.name).length :: (utf8 r.name ++ (u32be r.hpos.length ++ idsBytes r.hpos))))

def encDisease (r : Rec) : Bytes :=
  u32be (16 + (utf8 r.name).length + 4 * r.hpos.length) ++ (u32be r.id ++
    (u32be (utf8 r.name).length ++ (utf8 r.name ++ (u32be r.hpos.length ++ idsBytes r.hpos))))

/-- records one after the other -/
def encList {α : Type} (enc : α → Bytes) : List α → Bytes
  | [] => []
  | x :: xs => enc x ++ encList enc xs

def encTerms (fv : Nat) (ts : List Term) : Bytes := encList (encTerm fv) ts
def encParentRecs (ps : List (Nat × List Nat)) : Bytes := encList encParents ps
def encRecs (enc : Rec → Bytes) (rs : List Rec) : Bytes := encList enc rs

/-- `metadata_as_bytes` (v2, v3): magic, format version, release version -/
def encHeader (fv : Nat) (v : Nat × Nat × Nat) : Bytes :=
  magic ++ [UInt8.ofNat fv, UInt8.ofNat (v.1 / 256), UInt8.ofNat v.1, UInt8.ofNat v.2.1, UInt8.ofNat v.2.2]

/-- the sections of format version `fv` -/
def encSections (fv : Nat) (f : RawFacts) : Bytes :=
  sec (encTerms fv f.terms) ++ (sec (encParentRecs f.parents) ++ (sec (encRecs encGene f.genes) ++
    (sec (encRecs encDisease f.omim) ++ (if fv > 2 then sec (encRecs encDisease f.orpha) else []))))

/-- a file of format version `fv ∈ {1, 2, 3}` from the documented layout; what a version cannot
carry is dropped -/
def encodeRaw (fv : Nat) (f : RawFacts) : Bytes :=
  if fv = 1 then encSections 1 f else encHeader fv f.version ++ encSections fv f

/-! ### `Ontology::as_bytes` -/

/-- longest prefix of characters whose UTF-8 encoding fits into `n` bytes -/
def takeFit : Nat → List Char → List Char
  | _, [] => []
  | n, c :: cs =>
    if (String.utf8EncodeChar c).length ≤ n then c :: takeFit (n - (String.utf8EncodeChar c).length) cs
    else []

/-- the fixed code: `min(len, 255)`, then back off to a character boundary -/
def truncName (cs : List Char) : List Char := takeFit 255 cs

/-- the code before the fix: the first `min(len, 255)` BYTES of the name -/
def truncateRaw (cs : List Char) : Bytes := (utf8 cs).take 255

def termFact (t : Term) : Term :=
  { id := t.id, name := truncName t.name, obsolete := t.obsolete, replacement := t.replacement }

def termFacts : List Term → List Term
  | [] => []
  | t :: ts => termFact t :: termFacts ts

def parentFacts : List Term → List (Nat × List Nat)
  | [] => []
  | t :: ts => (t.id, t.parents) :: parentFacts ts

def geneFacts : List Rec → List Rec
  | [] => []
  | r :: rs => { r with name := truncName r.name } :: geneFacts rs

/-- what `as_bytes` writes, as records (iteration order of the maps = list order) -/
def factsOf (o : Onto) : RawFacts :=
  { version := o.version, terms := termFacts o.terms, parents := parentFacts o.terms,
    genes := geneFacts o.genes, omim := o.omim, orpha := o.orpha }

/-- `Ontology::as_bytes` -/
def encodeOnto (o : Onto) : Bytes := encodeRaw 3 (factsOf o)

end Binary
end Hpo
