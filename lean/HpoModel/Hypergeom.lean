import HpoModel.Read
import HpoModel.Num
/-
Model of the hypergeometric enrichment (`src/stats.rs`, `src/stats/hypergeom.rs`,
`hypergeom/gene.rs`, `hypergeom/disease.rs`, `hypergeom/statrs.rs`).

  calculate_counts               -> `counts` (HashMap<u32,u64> = association list) and `size`
  inner_gene_enrichment /
  inner_disease_enrichment       -> `inner` (one shape for the three kinds)
  Hypergeometric::new/min/max/sf -> `hmin`, `hmax`, `sfModel` (the three branches of `sf`), exact:
                                    the tail is a fraction of naturals `(num, den)`
  fold enrichment                -> `foldEnrichment` over `[Num F]` (checked division)

What the float code approximates (`ln_binomial` through the factorial table up to 170! and the
Lanczos `ln_gamma` above, `exp`, the rounded sum and its clamp `.min(1.0)`) is replaced by the
exact value; the driver prints it as an `f64` and the differ allows a relative error of 1e-9.
-/
namespace Hpo
namespace Hypergeom

/-! ### binomial coefficients -/

/-- Pascal's recursion (specification level; equals Mathlib's `Nat.choose`, see `HpoProofs`). -/
def choose : Nat → Nat → Nat
  | _, 0 => 1
  | 0, _ + 1 => 0
  | n + 1, k + 1 => choose n k + choose n (k + 1)

/-- Multiplicative evaluation `C(n,k+1) = C(n,k)·(n−k)/(k+1)` (exact division), linear in `k`:
what the driver runs.  `chooseMul n k = choose n k` is proved in `HpoProofs/Hypergeom.lean`. -/
def chooseMul (n : Nat) : Nat → Nat
  | 0 => 1
  | k + 1 => chooseMul n k * (n - k) / (k + 1)

/-! ### the distribution -/

/-- `Hypergeometric::min`: `(draws + successes).saturating_sub(population)` -/
def hmin (N K n : Nat) : Nat := (n + K) - N

/-- `Hypergeometric::max`: `min(successes, draws)` -/
def hmax (K n : Nat) : Nat := if K ≤ n then K else n

/-- `Σ_{i = lo}^{lo+cnt−1} C(K,i)·C(M,n−i)`: the numerators of `cnt` consecutive pmf terms -/
def tailNum (K M n : Nat) : Nat → Nat → Nat
  | 0, _ => 0
  | c + 1, i => chooseMul K i * chooseMul M (n - i) + tailNum K M n c (i + 1)

/-- `Hypergeometric::sf(x)` as an exact fraction `(numerator, denominator)`:
`x < min → 1`, `x ≥ max → 0`, else `Σ_{i=x+1}^{max} C(K,i)·C(N−K,n−i) / C(N,n)`. -/
def sfModel (N K n x : Nat) : Nat × Nat :=
  if x < hmin N K n then (1, 1)
  else if x ≥ hmax K n then (0, 1)
  else (tailNum K (N - K) n (hmax K n - x) (x + 1), chooseMul N n)

/-- `Hypergeometric::new`: error iff `successes > population ∨ draws > population` -/
def validParams (N K n : Nat) : Bool := !(K > N || n > N)

/-- fold enrichment `(k/n) / (K/N)`, every division checked -/
def foldEnrichment {F : Type} [Num F] (k n K N : Nat) : Option F :=
  match Num.div? (Num.ofNat k : F) (Num.ofNat n), Num.div? (Num.ofNat K : F) (Num.ofNat N) with
  | some a, some b => Num.div? a b
  | _, _ => none

/-! ### counts (`SampleSet`) -/

/-- `counts.entry(id).and_modify(|c| *c += 1).or_insert(1)` -/
def bump : List (Nat × Nat) → Nat → List (Nat × Nat)
  | [], id => [(id, 1)]
  | (i, c) :: rest, id => if i = id then (i, c + 1) :: rest else (i, c) :: bump rest id

def bumpAll : List (Nat × Nat) → List Nat → List (Nat × Nat)
  | m, [] => m
  | m, i :: is => bumpAll (bump m i) is

/-- `HashMap::get` -/
def getC : List (Nat × Nat) → Nat → Option Nat
  | [], _ => none
  | (i, c) :: rest, id => if i = id then some c else getC rest id

/-- all annotation ids met while walking the terms (`for term in terms { for id in iter(term) {..} }`) -/
def flatAnn (k : Kind) : List Term → List Nat
  | [] => []
  | t :: ts => t.ann k ++ flatAnn k ts

/-- `calculate_counts`: `(size, counts)` -/
def calculateCounts (k : Kind) (terms : List Term) : Nat × List (Nat × Nat) :=
  (terms.length, bumpAll [] (flatAnn k terms))

/-- One `Enrichment` before the float evaluation: annotation id, observed successes `k`, and the
successes `K` in the background. -/
structure Enr where
  id : Nat
  count : Nat
  K : Nat
deriving Repr, DecidableEq

/-- `inner_gene_enrichment` / `inner_disease_enrichment`: loop over the sample's counts.
Count 0 is skipped; an id missing in the background panics (`expect`), and so do parameters
rejected by `Hypergeometric::new`. -/
def inner (N n : Nat) (bg : List (Nat × Nat)) : List (Nat × Nat) → Res (List Enr)
  | [] => .ok []
  | (id, c) :: rest =>
    if c = 0 then inner N n bg rest
    else
      match getC bg id with
      | none => .panic
      | some K =>
        if validParams N K n then
          match inner N n bg rest with
          | .ok l => .ok ({ id := id, count := c, K := K } :: l)
          | r => r
        else .panic

/-- `gene_enrichment(background, set)` / `omim_…` / `orpha_…`: returns `(N, n, records)` -/
def enrichment (k : Kind) (background sample : List Term) : Res (List Enr) :=
  inner (calculateCounts k background).1 (calculateCounts k sample).1
    (calculateCounts k background).2 (calculateCounts k sample).2

/-! ### evaluation of the exact fraction as `f64` (driver only) -/

/-- `num/den` as a `Float`: the quotient is taken with ≥ 64 significant bits and scaled back, so
neither huge binomials nor tiny tails overflow or lose relative precision. -/
def ratToFloat (num den : Nat) : Float :=
  if num = 0 || den = 0 then 0.0
  else
    let s : Int := (Nat.log2 den : Int) - (Nat.log2 num : Int) + 64
    let q : Nat := if s ≥ 0 then (num <<< s.toNat) / den else num / (den <<< (-s).toNat)
    (Float.ofNat q).scaleB (-s)

/-- `pvalue = hyper.sf(observed_successes - 1)` -/
def pvalue (N n : Nat) (e : Enr) : Nat × Nat := sfModel N e.K n (e.count - 1)

end Hypergeom
end Hpo
