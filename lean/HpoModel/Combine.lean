import HpoModel.Matrix
import HpoModel.Num
import HpoModel.Core
/-
Model of the set-similarity part of `src/similarity.rs`:
`SimilarityCombiner::{calculate,row_maxes,col_maxes,dim_f32}`, `StandardCombiner::{fun_sim_avg,
fun_sim_max,bma}`, `GroupSimilarity::calculate`, `CachedSimilarity`.

Results are `Res (Option F)`: `Res.panic` = the code panics (slice index, `expect` on an empty
row, `usize_to_f32` beyond `u16`), inner `none` = a zero denominator would be divided by.
A term similarity is a function of the two term ids (`sim : Nat → Nat → F`).
-/
namespace Hpo
namespace Combine

variable {F : Type} [Num F]

/-- `.reduce(|a, b| if a > b { a } else { b })`, accumulator `a` -/
def maxGo : F → List F → F
  | a, [] => a
  | a, b :: bs => maxGo (if Num.lt b a then a else b) bs

/-- `reduce(..)`: `none` on an empty row/column (the code then panics in `expect`) -/
def reduceMax : List F → Option F
  | [] => none
  | x :: xs => some (maxGo x xs)

/-- maxima of a list of rows (or columns); `none` = panic -/
def maxes : List (List F) → Option (List F)
  | [] => some []
  | r :: rs =>
    match reduceMax r with
    | none => none
    | some v => (maxes rs).map fun vs => v :: vs

/-- `row_maxes` -/
def rowMaxes (m : Matrix F) : Option (List F) := m.rowList.bind maxes
/-- `col_maxes` -/
def colMaxes (m : Matrix F) : Option (List F) := maxes m.colList

/-- `iter().sum::<f32>()` -/
def sumGo : F → List F → F
  | acc, [] => acc
  | acc, x :: xs => sumGo (Num.add acc x) xs

def sum (l : List F) : F := sumGo (Num.ofNat 0) l

/-- `f32::max`: a NaN operand is IGNORED (the other operand is returned, NaN only if both are);
otherwise the larger one. (The maxima above are comparison based instead: there a NaN element
wins or loses depending on its position, exactly as `maxGo` does with `Num.lt`.) -/
def fmax (a b : F) : F :=
  if Num.isNaN a then b else if Num.isNaN b then a else if Num.lt a b then b else a

inductive Combiner where
  | funSimAvg | funSimMax | bma
deriving DecidableEq, Repr

/-- `fun_sim_avg`: `nom = Σrow/rows; nom += Σcol/cols; nom / 2.0` -/
def funSimAvg (r c : Nat) (rm cm : List F) : Option F :=
  (Num.div? (sum rm) (Num.ofNat r)).bind fun x =>
    (Num.div? (sum cm) (Num.ofNat c)).bind fun y =>
      Num.div? (Num.add x y) (Num.ofNat 2)

/-- `fun_sim_max`: `(Σrow/rows).max(Σcol/cols)` -/
def funSimMax (r c : Nat) (rm cm : List F) : Option F :=
  (Num.div? (sum rm) (Num.ofNat r)).bind fun x =>
    (Num.div? (sum cm) (Num.ofNat c)).map fun y => fmax x y

/-- `bma`: `(Σrow + Σcol) / (rows + cols)` -/
def bma (r c : Nat) (rm cm : List F) : Option F :=
  Num.div? (Num.add (sum rm) (sum cm)) (Num.add (Num.ofNat r) (Num.ofNat c))

def combineWith (cb : Combiner) (r c : Nat) (rm cm : List F) : Option F :=
  match cb with
  | .funSimAvg => funSimAvg r c rm cm
  | .funSimMax => funSimMax r c rm cm
  | .bma => bma r c rm cm

/-- `usize_to_f32`: through `u16` -/
def fitsU16 (n : Nat) : Bool := n ≤ 65535

/-- `StandardCombiner::combine` -/
def combine (cb : Combiner) (m : Matrix F) : Res (Option F) :=
  if !fitsU16 m.rows || !fitsU16 m.cols then .panic
  else match rowMaxes m with
    | none => .panic
    | some rm =>
      match colMaxes m with
      | none => .panic
      | some cm => .ok (combineWith cb m.rows m.cols rm cm)

/-- `SimilarityCombiner::calculate`: 0 for a matrix without data -/
def calculate (cb : Combiner) (m : Matrix F) : Res (Option F) :=
  if m.isEmpty then .ok (some (Num.ofNat 0)) else combine cb m

/-- inner loop of `GroupSimilarity::calculate`: `for t2 in b { v.push(sim(t1, t2)) }` -/
def simRow (sim : Nat → Nat → F) (a : Nat) : List Nat → List F
  | [] => []
  | b :: bs => sim a b :: simRow sim a bs

/-- the nested loops: row-major, `a` outer -/
def simData (sim : Nat → Nat → F) : List Nat → List Nat → List F
  | [], _ => []
  | a :: as, bs => simRow sim a bs ++ simData sim as bs

/-- `GroupSimilarity::calculate` / `HpoSet::similarity` on the id vectors of the two sets -/
def groupSimilarity (cb : Combiner) (sim : Nat → Nat → F) (A B : List Nat) : Res (Option F) :=
  calculate cb { rows := A.length, cols := B.length, data := simData sim A B }

/-! ### `CachedSimilarity`: `cache.entry((a.id(), b.id())).or_insert_with(|| sim(a, b))` -/

abbrev Memo (F : Type) := List ((Nat × Nat) × F)

def memoGet : Memo F → Nat → Nat → Option F
  | [], _, _ => none
  | (k, v) :: rest, a, b => if k.1 = a ∧ k.2 = b then some v else memoGet rest a b

/-- one cached evaluation: value and new cache -/
def cachedCalc (sim : Nat → Nat → F) (memo : Memo F) (a b : Nat) : F × Memo F :=
  match memoGet memo a b with
  | some v => (v, memo)
  | none => (sim a b, ((a, b), sim a b) :: memo)

def simRowM (sim : Nat → Nat → F) (a : Nat) : List Nat → Memo F → List F × Memo F
  | [], memo => ([], memo)
  | b :: bs, memo =>
    let r := simRowM sim a bs (cachedCalc sim memo a b).2
    ((cachedCalc sim memo a b).1 :: r.1, r.2)

def simDataM (sim : Nat → Nat → F) : List Nat → List Nat → Memo F → List F × Memo F
  | [], _, memo => ([], memo)
  | a :: as, bs, memo =>
    let r := simRowM sim a bs memo
    let d := simDataM sim as bs r.2
    (r.1 ++ d.1, d.2)

/-- `GroupSimilarity::new(cb, CachedSimilarity::new(sim))` used for one query; cache threaded -/
def groupSimilarityM (cb : Combiner) (sim : Nat → Nat → F) (A B : List Nat) (memo : Memo F) :
    Res (Option F) × Memo F :=
  let d := simDataM sim A B memo
  (calculate cb { rows := A.length, cols := B.length, data := d.1 }, d.2)

/-- a sequence of set-similarity queries through ONE cached adaptor -/
def runCached (cb : Combiner) (sim : Nat → Nat → F) : List (List Nat × List Nat) → Memo F →
    List (Res (Option F))
  | [], _ => []
  | q :: qs, memo =>
    let r := groupSimilarityM cb sim q.1 q.2 memo
    r.1 :: runCached cb sim qs r.2

/-- the same queries with the bare similarity -/
def runPlain (cb : Combiner) (sim : Nat → Nat → F) : List (List Nat × List Nat) →
    List (Res (Option F))
  | [] => []
  | q :: qs => groupSimilarity cb sim q.1 q.2 :: runPlain cb sim qs

end Combine
end Hpo
