import HpoModel.Builder
import HpoModel.TermId
/-
Character-level model of the JAX text loaders:

`src/parser/hp_obo.rs`   (`read_obo_file`, `term_from_obo`, `add_connections`, `version_from_obo`)
`src/parser.rs`          (`gene_to_hpo::{remove_header, genes_to_phenotype_line, phenotype_to_gene_line, parse}`,
                          `disease_to_hpo::{parse_line, parse_disease_components, parse}`,
                          `load_from_jax_files`, `load_from_jax_files_with_transivitve_genes`)

A `&str` / file content is a `List Char` (valid UTF-8 by construction). The helpers mirror the Rust
std functions the parsers call (`split(char)`, `splitn`, `split_once`, `split(&str)`, `lines`,
`trim`, `starts_with`, `strip_prefix`) by direct structural recursion (no accumulators), so that the
laws in `HpoProofs/Text.lean` are simple inductions.
-/
namespace Hpo
namespace Text

/-! ### std helpers -/

def consHead (x : Char) : List (List Char) → List (List Char)
  | [] => [[x]]
  | f :: fs => (x :: f) :: fs

/-- `str::split(c : char)`: always at least one field -/
def splitOnChar (c : Char) : List Char → List (List Char)
  | [] => [[]]
  | x :: xs => if x = c then [] :: splitOnChar c xs else consHead x (splitOnChar c xs)

/-- `str::splitn(n, c : char)`: at most `n` fields, the last one takes the rest -/
def splitN (c : Char) : Nat → List Char → List (List Char)
  | 0, _ => []
  | 1, s => [s]
  | _ + 2, [] => [[]]
  | n + 2, x :: xs => if x = c then [] :: splitN c (n + 1) xs else consHead x (splitN c (n + 2) xs)

/-- `str::split_once(c : char)` -/
def splitOnce (c : Char) : List Char → Option (List Char × List Char)
  | [] => none
  | x :: xs =>
    if x = c then some ([], xs)
    else match splitOnce c xs with
      | some (a, b) => some (x :: a, b)
      | none => none

/-- `str::starts_with(pat : &str)` -/
def startsWith : List Char → List Char → Bool
  | [], _ => true
  | _ :: _, [] => false
  | p :: ps, c :: cs => if p = c then startsWith ps cs else false

/-- `str::strip_prefix(pat : &str)` -/
def stripPrefix : List Char → List Char → Option (List Char)
  | [], s => some s
  | _ :: _, [] => none
  | p :: ps, c :: cs => if p = c then stripPrefix ps cs else none

/-- `str::split_once(pat : &str)` (first occurrence from the left) -/
def splitOnceStr (pat : List Char) : List Char → Option (List Char × List Char)
  | [] => if pat.isEmpty then some ([], []) else none
  | x :: xs =>
    match stripPrefix pat (x :: xs) with
    | some rest => some ([], rest)
    | none => match splitOnceStr pat xs with
      | some (a, b) => some (x :: a, b)
      | none => none

/-- `str::split(pat : &str)` for a non-empty pattern: non-overlapping matches from the left.
`skip` = characters of a matched pattern still to be passed over. -/
def splitOnStrGo (pat : List Char) : Nat → List Char → List (List Char)
  | _, [] => [[]]
  | skip + 1, _ :: cs => splitOnStrGo pat skip cs
  | 0, c :: cs =>
    if startsWith pat (c :: cs) then [] :: splitOnStrGo pat (pat.length - 1) cs
    else consHead c (splitOnStrGo pat 0 cs)

def splitOnStr (pat s : List Char) : List (List Char) := splitOnStrGo pat 0 s

/-- `char::is_whitespace` (Unicode `White_Space`) -/
def isWs (c : Char) : Bool :=
  (9 ≤ c.toNat && c.toNat ≤ 13) || c.toNat = 32 || c.toNat = 0x85 || c.toNat = 0xA0 || c.toNat = 0x1680
  || (0x2000 ≤ c.toNat && c.toNat ≤ 0x200A) || c.toNat = 0x2028 || c.toNat = 0x2029 || c.toNat = 0x202F
  || c.toNat = 0x205F || c.toNat = 0x3000

def trimStart : List Char → List Char
  | [] => []
  | c :: cs => if isWs c then trimStart cs else c :: cs

def trimEnd : List Char → List Char
  | [] => []
  | c :: cs =>
    match trimEnd cs with
    | [] => if isWs c then [] else [c]
    | r :: rs => c :: r :: rs

/-- `str::trim` -/
def trim (s : List Char) : List Char := trimEnd (trimStart s)

/-- strip one trailing `\r` -/
def stripCr : List Char → List Char
  | [] => []
  | [c] => if c = '\r' then [] else [c]
  | c :: d :: cs => c :: stripCr (d :: cs)

/-- from the `split('\n')` pieces to `lines()`: every piece that was terminated by `\n` loses one
trailing `\r`; the unterminated last piece is kept as it is unless it is empty -/
def linesOf : List (List Char) → List (List Char)
  | [] => []
  | [last] => if last.isEmpty then [] else [last]
  | l :: m :: rest => stripCr l :: linesOf (m :: rest)

/-- `str::lines()` and `BufRead::lines()` (on valid UTF-8) -/
def lines (s : List Char) : List (List Char) := linesOf (splitOnChar '\n' s)

/-- `str::parse::<uN>()` with `bound = 2^N`: `'+'? [0-9]+`, value below the bound -/
def parseUnsigned (bound : Nat) (cs : List Char) : Option Nat :=
  if (TermId.stripPlus cs).isEmpty then none
  else match TermId.digitsVal (TermId.stripPlus cs) 0 with
    | some v => if v < bound then some v else none
    | none => none

/-- `s.get(..n)`-like prefix of `n` bytes; `none` if `n` is not a character boundary -/
def takeBytes : Nat → List Char → Option (List Char)
  | n, [] => if n = 0 then some [] else none
  | n, c :: cs =>
    if n = 0 then some []
    else if c.utf8Size ≤ n then
      match takeBytes (n - c.utf8Size) cs with
      | some r => some (c :: r)
      | none => none
    else none

/-- `&s[a..b]`: `none` = panic (not on character boundaries / out of range) -/
def sliceBytes (a b : Nat) (s : List Char) : Option (List Char) :=
  match TermId.dropBytes a s with
  | some r => takeBytes (b - a) r
  | none => none

/-! ### hp.obo -/

def kId : List Char := ['i', 'd']
def kName : List Char := ['n', 'a', 'm', 'e']
def kObsolete : List Char := ['i', 's', '_', 'o', 'b', 's', 'o', 'l', 'e', 't', 'e']
def kReplaced : List Char := ['r', 'e', 'p', 'l', 'a', 'c', 'e', 'd', '_', 'b', 'y']
def kTrue : List Char := ['t', 'r', 'u', 'e']
def colonSp : List Char := [':', ' ']
def isaPrefix : List Char := ['i', 's', '_', 'a', ':', ' ']
def termPrefix : List Char := ['[', 'T', 'e', 'r', 'm', ']', '\n']
def formatPrefix : List Char :=
  ['f', 'o', 'r', 'm', 'a', 't', '-', 'v', 'e', 'r', 's', 'i', 'o', 'n', ':', ' ', '1', '.', '2']
def versionPrefix : List Char :=
  ['d', 'a', 't', 'a', '-', 'v', 'e', 'r', 's', 'i', 'o', 'n', ':', ' ',
   'h', 'p', '/', 'r', 'e', 'l', 'e', 'a', 's', 'e', 's', '/']
def blankLine : List Char := ['\n', '\n']

/-- the four `Option<&str>` variables of `term_from_obo` -/
structure Fields where
  id : Option (List Char) := none
  name : Option (List Char) := none
  obsolete : Option (List Char) := none
  replaced : Option (List Char) := none
deriving Repr, DecidableEq

/-- one arm of the `match parse_line(line)`: a later line with the same key overwrites -/
def Fields.set (f : Fields) (k v : List Char) : Fields :=
  if k = kId then { f with id := some v }
  else if k = kName then { f with name := some v }
  else if k = kObsolete then { f with obsolete := some v }
  else if k = kReplaced then { f with replaced := some v }
  else f

/-- the loop of `term_from_obo`; `parse_line` = `split_once(": ").expect(..)`: panic without `": "` -/
def scanFields : List (List Char) → Fields → Res Fields
  | [], f => .ok f
  | l :: ls, f =>
    match splitOnceStr colonSp l with
    | none => .panic
    | some (k, v) => scanFields ls (f.set k v)

/-- the tail of `term_from_obo`: both id and name present, else `None`;
`try_new(..).unwrap()` and `try_from(replacement).expect(..)` panic on an invalid id -/
def fieldsTerm (f : Fields) : Res (Option Term) :=
  match f.id, f.name with
  | some i, some n =>
    match TermId.parse i with
    | none => .panic
    | some id =>
      match f.replaced with
      | none => .ok (some { id := id, name := n, obsolete := f.obsolete = some kTrue })
      | some r =>
        match TermId.parse r with
        | none => .panic
        | some rid => .ok (some { id := id, name := n, obsolete := f.obsolete = some kTrue, replacement := some rid })
  | _, _ => .ok none

def termFromObo (ls : List (List Char)) : Res (Option Term) := (scanFields ls {}).bind fieldsTerm

/-- `add_connections`: lines `is_a: <id> <anything>`; without a space after the id the line is
dropped (logged); an id that does not parse panics (`unwrap`) -/
def isaParents : List (List Char) → Res (List Nat)
  | [] => .ok []
  | l :: ls =>
    match stripPrefix isaPrefix l with
    | none => isaParents ls
    | some v =>
      match splitOnce ' ' v with
      | none => isaParents ls
      | some (tid, _) =>
        match TermId.parse tid with
        | none => .panic
        | some p => (isaParents ls).bind fun ps => .ok (p :: ps)

/-- the closure inside `version_from_obo` for one line: `ok none` = this line yields nothing -/
def versionOfLine (l : List Char) : Res (Option (Nat × Nat × Nat)) :=
  match stripPrefix versionPrefix l with
  | none => .ok none
  | some v =>
    if TermId.byteLen v = 10 then
      match sliceBytes 0 4 v, sliceBytes 5 7 v, sliceBytes 8 10 v with
      | some y, some m, some d =>
        .ok (some ((parseUnsigned 65536 y).getD 0, (parseUnsigned 256 m).getD 0, (parseUnsigned 256 d).getD 0))
      | _, _, _ => .panic
    else .ok none

/-- `header.lines().find_map(..)` -/
def versionFromLines : List (List Char) → Res (Option (Nat × Nat × Nat))
  | [] => .ok none
  | l :: ls =>
    match versionOfLine l with
    | .ok none => versionFromLines ls
    | r => r

/-- what one block of the file (between blank lines) contributes -/
inductive Block where
  | term (t : Term) (parents : List Nat)
  | header (v : Nat × Nat × Nat)
  | other
deriving Repr, DecidableEq

/-- body of the `for term in file_content.split("\n\n")` loop -/
def parseBlock (b : List Char) : Res Block :=
  match stripPrefix termPrefix b with
  | some body =>
    (termFromObo (lines body)).bind fun r =>
      match r with
      | none => .ok .other
      | some t => (isaParents (lines body)).bind fun ps => .ok (.term t ps)
  | none =>
    if startsWith formatPrefix b then
      (versionFromLines (lines b)).bind fun v => .ok (.header (v.getD (0, 0, 0)))
    else .ok .other

/-- content of an obo file as the loader sees it: term stanzas in file order (each with its
`is_a` ids in line order) and the release version (of the last header block) -/
structure Obo where
  terms : List (Term × List Nat) := []
  version : Nat × Nat × Nat := (0, 0, 0)
deriving Repr, DecidableEq

def Obo.push (o : Obo) : Block → Obo
  | .term t ps => { o with terms := o.terms ++ [(t, ps)] }
  | .header v => { o with version := v }
  | .other => o

def readBlocks : List (List Char) → Obo → Res Obo
  | [], o => .ok o
  | b :: bs, o => (parseBlock b).bind fun r => readBlocks bs (o.push r)

/-- the parsing half of `read_obo_file` (the only failure is a panic, which absorbs everything, so
the builder calls interleaved in the real loop can be done afterwards: `oboBuild`) -/
def readObo (file : List Char) : Res Obo := readBlocks (splitOnStr blankLine file) {}

def addOboTerms : List (Term × List Nat) → Onto → Option Onto
  | [], o => some o
  | (t, _) :: r, o => (o.addTerm t).bind (addOboTerms r)

def addParentsOfChild (child : Nat) : List Nat → Onto → Option Onto
  | [], o => some o
  | p :: ps, o => (o.addParentUnchecked p child).bind (addParentsOfChild child ps)

/-- `for (child, parent) in connections { builder.add_parent_unchecked(parent, child) }` -/
def addOboConnections : List (Term × List Nat) → Onto → Option Onto
  | [], o => some o
  | (t, ps) :: r, o => (addParentsOfChild t.id ps o).bind (addOboConnections r)

/-- the builder half of `read_obo_file`: `add_term` per stanza, `set_hpo_version`,
`terms_complete`, then the connections; `none` = panic (id beyond the arena's table) -/
def oboBuild (ob : Obo) : Option Onto :=
  (addOboTerms ob.terms { version := ob.version }).bind (addOboConnections ob.terms)

/-! ### genes_to_phenotype.txt / phenotype_to_genes.txt -/

def hdrNcbi : List Char := ['n', 'c', 'b', 'i', '_', 'g', 'e', 'n', 'e', '_', 'i', 'd']
def hdrHpo : List Char := ['h', 'p', 'o', '_', 'i', 'd']

/-- `ParsedGene::try_new`: (gene id, symbol, term id) -/
def parseGeneCols (ncbi sym hpo : List Char) : Res (Nat × List Char × Nat) :=
  match TermId.parse hpo with
  | none => .err .parseInt
  | some h =>
    match TermId.parseU32 ncbi with
    | none => .err .parseInt
    | some g => .ok (g, sym, h)

/-- `genes_to_phenotype_line`: columns 1 (gene id), 2 (symbol), 3 (term id) -/
def parseG2P (line : List Char) : Res (Nat × List Char × Nat) :=
  match splitOnChar '\t' line with
  | ncbi :: sym :: hpo :: _ => parseGeneCols ncbi sym hpo
  | _ => .err .invalidInput

/-- `phenotype_to_gene_line`: columns 1 (term id), 3 (gene id), 4 (symbol) -/
def parseP2G (line : List Char) : Res (Nat × List Char × Nat) :=
  match splitOnChar '\t' line with
  | hpo :: _ :: ncbi :: sym :: _ => parseGeneCols ncbi sym hpo
  | _ => .err .invalidInput

/-- `parse_line` argument of `gene_to_hpo::parse`: `transitive` = phenotype_to_genes.txt -/
def parseGeneRow (transitive : Bool) (line : List Char) : Res (Nat × List Char × Nat) :=
  if transitive then parseP2G line else parseG2P line

/-- `remove_header`: the first line (whatever follows the first `\n` is the rest) must start with
`#`, `ncbi_gene_id` or `hpo_id` -/
def removeHeader (file : List Char) : Res (List Char) :=
  match splitOnce '\n' file with
  | some (h, rest) =>
    if startsWith ['#'] h || startsWith hdrNcbi h || startsWith hdrHpo h then .ok rest
    else .err .invalidInput
  | none =>
    if startsWith ['#'] file || startsWith hdrNcbi file || startsWith hdrHpo file then .ok []
    else .err .invalidInput

/-- the row loop of `gene_to_hpo::parse`: the first bad row or unknown term aborts the load -/
def geneRows (transitive : Bool) : List (List Char) → Onto → Res Onto
  | [], o => .ok o
  | l :: ls, o =>
    (parseGeneRow transitive l).bind fun r =>
      (o.annotate .gene r.1 r.2.1 r.2.2).bind (geneRows transitive ls)

/-! ### phenotype.hpoa -/

def pOmim : List Char := ['O', 'M', 'I', 'M']
def pOrpha : List Char := ['O', 'R', 'P', 'H', 'A']
def kNot : List Char := ['N', 'O', 'T']

/-- `parse_disease_components`: `ok none` = `NOT` row; (text after the first `:` of column 1,
column 2, term id of column 4); the 5th piece of `splitn(5, '\t')` is never looked at -/
def parseDiseaseComponents (line : List Char) : Res (Option (List Char × List Char × Nat)) :=
  match splitN '\t' 5 (trim line) with
  | idcol :: name :: q :: rest =>
    match splitOnce ':' idcol with
    | none => .err .invalidInput
    | some (_, did) =>
      if q = kNot then .ok none
      else match rest with
        | hpo :: _ =>
          match TermId.parse hpo with
          | none => .err .parseInt
          | some h => .ok (some (did, name, h))
        | [] => .err .invalidInput
  | _ => .err .invalidInput

/-- `disease_to_hpo::parse_line`: the database is decided by `starts_with("OMIM")` / `("ORPHA")` -/
def parseDiseaseRow (line : List Char) : Res (Option (Kind × List Char × List Char × Nat)) :=
  if startsWith pOmim line then
    (parseDiseaseComponents line).bind fun r => .ok (r.map fun c => (Kind.omim, c))
  else if startsWith pOrpha line then
    (parseDiseaseComponents line).bind fun r => .ok (r.map fun c => (Kind.orpha, c))
  else .ok none

/-- the row loop of `disease_to_hpo::parse`; the disease id is converted (`parse::<u32>`) only for
rows that are not skipped -/
def diseaseRows : List (List Char) → Onto → Res Onto
  | [], o => .ok o
  | l :: ls, o =>
    (parseDiseaseRow l).bind fun r =>
      match r with
      | none => diseaseRows ls o
      | some (k, did, name, h) =>
        match TermId.parseU32 did with
        | none => .err .parseInt
        | some id => (o.annotate k id name h).bind (diseaseRows ls)

/-! ### the two pipelines -/

/-- `load_from_jax_files` (`transitive = false`, gene file = genes_to_phenotype.txt) and
`load_from_jax_files_with_transivitve_genes` (`true`, phenotype_to_genes.txt) on the contents of
the three files -/
def loadJax (transitive : Bool) (obo gene hpoa : List Char) : Res Onto :=
  (readObo obo).bind fun ob =>
    match oboBuild ob with
    | none => .panic
    | some o1 =>
      o1.connectAll.bind fun o2 =>
        (removeHeader gene).bind fun rows =>
          (geneRows transitive (lines rows) o2).bind fun o3 =>
            (diseaseRows (lines hpoa) o3).bind fun o4 =>
              o4.calcIc.bind fun o5 => o5.buildWithDefaults

end Text
end Hpo
