import HpoModel.Builder
/-
Model of the read API of `src/term/hpoterm.rs` (`HpoTerm`) on an `Onto`.
A `HpoTerm` is a view of one arena entry plus the ontology; here: the `Term` and the `Onto`.
-/
namespace Hpo

/-- `(self.all_parent_ids() + self.id())` -/
def Term.allInclusive (t : Term) : List Nat := Group.addId t.allParents t.id

/-- `all_common_ancestor_ids` -/
def Term.allCommonAncestorIds (a b : Term) : List Nat := Group.bitand a.allInclusive b.allInclusive
/-- `common_ancestor_ids` -/
def Term.commonAncestorIds (a b : Term) : List Nat := Group.bitand a.allParents b.allParents
/-- `union_ancestor_ids` and (as the code stands) `all_union_ancestor_ids` -/
def Term.unionAncestorIds (a b : Term) : List Nat := Group.bitor a.allParents b.allParents
def Term.allUnionAncestorIds (a b : Term) : List Nat := Group.bitor a.allParents b.allParents

/-- `child_of`: `self.all_parent_ids().contains(other.id())` -/
def Term.childOf (a b : Term) : Bool := Group.contains a.allParents b.id
def Term.parentOf (a b : Term) : Bool := b.childOf a

namespace Onto

/-- `term::Iter`: resolve every id of a group; `none` = panic ("Invalid HPO-Term") -/
def resolve (o : Onto) : List Nat → Option (List Term)
  | [] => some []
  | i :: is =>
    match o.get i with
    | none => none
    | some t => (resolve o is).map (t :: ·)

/-- first minimum of a list of naturals (`Iterator::min`) -/
def minNat : List Nat → Option Nat
  | [] => none
  | x :: xs => match minNat xs with
    | none => some x
    | some m => some (if m < x then m else x)

/-- `distance_to_ancestor`; `none` inside `Res.ok` = not an ancestor. -/
def distToAnc : Nat → Onto → Term → Nat → Res (Option Nat)
  | 0, _, _, _ => .diverge
  | fuel + 1, o, t, a =>
    if t.id = a then .ok (some 0)
    else if Group.contains t.parents a then .ok (some 1)
    else if !Group.contains t.allParents a then .ok none
    else
      let rec go : List Nat → List Nat → Res (List Nat)
        | [], acc => .ok acc.reverse
        | p :: ps, acc =>
          match o.get p with
          | none => .panic
          | some tp =>
            match distToAnc fuel o tp a with
            | .ok (some d) => go ps (d :: acc)
            | .ok none => go ps acc
            | .err e => .err e
            | .panic => .panic
            | .diverge => .diverge
      match go t.parents [] with
      | .ok ds => .ok ((minNat ds).map (· + 1))
      | .err e => .err e
      | .panic => .panic
      | .diverge => .diverge

/-- first shortest list (`min_by_key(Vec::len)` returns the first minimum) -/
def minByLen : List (List Nat) → Option (List Nat)
  | [] => none
  | x :: xs => match minByLen xs with
    | none => some x
    | some m => some (if m.length < x.length then m else x)

/-- `path_to_ancestor`: excludes `self`, includes the ancestor; `[]` for the term itself. -/
def pathToAnc : Nat → Onto → Term → Nat → Res (Option (List Nat))
  | 0, _, _, _ => .diverge
  | fuel + 1, o, t, a =>
    if t.id = a then .ok (some [])
    else if Group.contains t.parents a then .ok (some [a])
    else if !Group.contains t.allParents a then .ok none
    else
      let rec go : List Nat → List (List Nat) → Res (List (List Nat))
        | [], acc => .ok acc.reverse
        | p :: ps, acc =>
          match o.get p with
          | none => .panic
          | some tp =>
            match pathToAnc fuel o tp a with
            | .ok (some x) => go ps ((p :: x) :: acc)
            | .ok none => go ps acc
            | .err e => .err e
            | .panic => .panic
            | .diverge => .diverge
      match go t.parents [] with
      | .ok xs => .ok (minByLen xs)
      | .err e => .err e
      | .panic => .panic
      | .diverge => .diverge

def fuel (o : Onto) : Nat := o.terms.length + 2

/-- per common ancestor: `(ancestor, d(self, anc) + d(other, anc))`, skipping pairs without distance -/
def commonDists (o : Onto) (a b : Term) : List Nat → Res (List (Nat × Nat))
  | [] => .ok []
  | c :: cs =>
    match o.get c with
    | none => .panic
    | some _ =>
      match distToAnc o.fuel o a c, distToAnc o.fuel o b c with
      | .ok da, .ok db =>
        match commonDists o a b cs with
        | .ok rest =>
          match da, db with
          | some x, some y => .ok ((c, x + y) :: rest)
          | _, _ => .ok rest
        | r => r
      | .ok _, .err e => .err e
      | .ok _, .panic => .panic
      | .ok _, .diverge => .diverge
      | .err e, _ => .err e
      | .panic, _ => .panic
      | .diverge, _ => .diverge

/-- `distance_to_term` -/
def distToTerm (o : Onto) (a b : Term) : Res (Option Nat) :=
  match commonDists o a b (a.allCommonAncestorIds b) with
  | .ok ds => .ok (minNat (ds.map (·.2)))
  | .err e => .err e
  | .panic => .panic
  | .diverge => .diverge

/-- first pair with minimal second component (`min_by_key(|t| t.1)`) -/
def minBySnd : List (Nat × Nat) → Option (Nat × Nat)
  | [] => none
  | x :: xs => match minBySnd xs with
    | none => some x
    | some m => some (if m.2 < x.2 then m else x)

/-- `path_to_term` (as fixed: always joined at the closest common ancestor; `other` is not
appended a second time when it is the meeting point). -/
def pathToTerm (o : Onto) (a b : Term) : Res (Option (List Nat)) :=
  match commonDists o a b (a.allCommonAncestorIds b) with
  | .ok ds =>
    match minBySnd ds with
    | none => .ok none
    | some m =>
      match pathToAnc o.fuel o a m.1, pathToAnc o.fuel o b m.1 with
      | .ok (some pa), .ok (some pb) =>
        let path := pa ++ (pb.reverse.drop 1)
        .ok (some (if path.getLast? = some b.id then path else path ++ [b.id]))
      | .ok _, .ok _ => .panic   -- `expect("... must have a path to its ancestor")`
      | .diverge, _ => .diverge
      | _, .diverge => .diverge
      | _, _ => .panic
  | .err e => .err e
  | .panic => .panic
  | .diverge => .diverge

/-- `is_modifier` -/
def isModifier (o : Onto) (t : Term) : Bool :=
  o.modifier.any fun m => Group.contains (Group.addId t.allParents t.id) m

/-- `categories` -/
def categoriesOf (o : Onto) (t : Term) : List Nat :=
  o.categories.filter fun c => Group.contains (Group.addId t.allParents t.id) c

/-- `replaced_by()`: the replacement id resolved in this ontology -/
def replacedBy (o : Onto) (t : Term) : Option Term := t.replacement.bind o.get

end Onto
end Hpo
