import HpoModel.Builder
/-
Model of the read API of `src/term/hpoterm.rs` (`HpoTerm`) on an `Onto`.
A `HpoTerm` is a view of one arena entry plus the ontology; here: the `Term` and the `Onto`.
-/
namespace Hpo

/-- `(self.all_parent_ids() + self.id())` -/
def Term.allInclusive (t : Term) : List Nat := Group.addId t.allParents t.id

/-- `all_common_ancestor_ids` -/
def Term.allCommonAncestorIds (a b : Term) : List Nat := Group.bitand a.allInclusive b.allInclusive
/-- `common_ancestor_ids` -/
def Term.commonAncestorIds (a b : Term) : List Nat := Group.bitand a.allParents b.allParents
/-- `union_ancestor_ids` and (as the code stands) `all_union_ancestor_ids` -/
def Term.unionAncestorIds (a b : Term) : List Nat := Group.bitor a.allParents b.allParents
def Term.allUnionAncestorIds (a b : Term) : List Nat := Group.bitor a.allParents b.allParents

/-- `child_of`: `self.all_parent_ids().contains(other.id())` -/
def Term.childOf (a b : Term) : Bool := Group.contains a.allParents b.id
def Term.parentOf (a b : Term) : Bool := b.childOf a

namespace Onto

/-- `term::Iter`: resolve every id of a group; `none` = panic ("Invalid HPO-Term") -/
def resolve (o : Onto) : List Nat → Option (List Term)
  | [] => some []
  | i :: is =>
    match o.get i with
    | none => none
    | some t => (resolve o is).map (t :: ·)

/-! ### distances and paths (`distance_to_ancestor`, `path_to_ancestor`, `distance_to_term`,
`path_to_term`)

The recursion over the DAG takes fuel; the loop over the parents (`self.parents().filter_map(..)`)
is the helper `distParents` / `pathParents`, which resolves the parents in ascending id order
(`term::Iter`: panic "Invalid HPO-Term" on an id that does not resolve) and keeps the running
minimum (`Iterator::min` / `min_by_key(Vec::len)`: the FIRST minimum). -/

/-- `Iterator::min` over the `Some` values seen so far (`none` = nothing seen) -/
def optMin : Option Nat → Option Nat → Option Nat
  | none, m => m
  | some d, none => some d
  | some d, some m => some (if m < d then m else d)

/-- `self.parents().filter_map(|p| p.distance_to_ancestor(other)).min()` -/
def distParents (rec : Term → Res (Option Nat)) (o : Onto) : List Nat → Res (Option Nat)
  | [] => .ok none
  | p :: ps =>
    match o.get p with
    | none => .panic
    | some tp =>
      match rec tp with
      | .ok d =>
        match distParents rec o ps with
        | .ok m => .ok (optMin d m)
        | .err e => .err e
        | .panic => .panic
        | .diverge => .diverge
      | .err e => .err e
      | .panic => .panic
      | .diverge => .diverge

/-- `distance_to_ancestor`; `none` inside `Res.ok` = not an ancestor. -/
def distToAnc : Nat → Onto → Term → Nat → Res (Option Nat)
  | 0, _, _, _ => .diverge
  | fuel + 1, o, t, a =>
    if t.id = a then .ok (some 0)
    else if Group.contains t.parents a then .ok (some 1)
    else if !Group.contains t.allParents a then .ok none
    else
      match distParents (fun tp => distToAnc fuel o tp a) o t.parents with
      | .ok m => .ok (m.map (· + 1))
      | .err e => .err e
      | .panic => .panic
      | .diverge => .diverge

/-- first shortest list (`min_by_key(Vec::len)` returns the first minimum): `x` comes before `m` -/
def firstShorter : Option (List Nat) → Option (List Nat) → Option (List Nat)
  | none, m => m
  | some x, none => some x
  | some x, some m => some (if m.length < x.length then m else x)

/-- `self.parents().filter_map(|p| p.path_to_ancestor(other).map(|x| [p] ++ x)).min_by_key(Vec::len)` -/
def pathParents (rec : Term → Res (Option (List Nat))) (o : Onto) : List Nat → Res (Option (List Nat))
  | [] => .ok none
  | p :: ps =>
    match o.get p with
    | none => .panic
    | some tp =>
      match rec tp with
      | .ok x =>
        match pathParents rec o ps with
        | .ok m => .ok (firstShorter (x.map (p :: ·)) m)
        | .err e => .err e
        | .panic => .panic
        | .diverge => .diverge
      | .err e => .err e
      | .panic => .panic
      | .diverge => .diverge

/-- `path_to_ancestor`: excludes `self`, includes the ancestor; `[]` for the term itself. -/
def pathToAnc : Nat → Onto → Term → Nat → Res (Option (List Nat))
  | 0, _, _, _ => .diverge
  | fuel + 1, o, t, a =>
    if t.id = a then .ok (some [])
    else if Group.contains t.parents a then .ok (some [a])
    else if !Group.contains t.allParents a then .ok none
    else pathParents (fun tp => pathToAnc fuel o tp a) o t.parents

def fuel (o : Onto) : Nat := o.terms.length + 2

/-- `distance_to_term`: `all_common_ancestors(other).iter().filter_map(|c| Some(self.d(c)? + other.d(c)?)).min()`
(the second distance is not evaluated when the first is `None`) -/
def termDists (o : Onto) (a b : Term) : List Nat → Res (Option Nat)
  | [] => .ok none
  | c :: cs =>
    match o.get c with
    | none => .panic
    | some _ =>
      match distToAnc o.fuel o a c with
      | .ok none => termDists o a b cs
      | .ok (some x) =>
        match distToAnc o.fuel o b c with
        | .ok none => termDists o a b cs
        | .ok (some y) =>
          match termDists o a b cs with
          | .ok m => .ok (optMin (some (x + y)) m)
          | .err e => .err e
          | .panic => .panic
          | .diverge => .diverge
        | .err e => .err e
        | .panic => .panic
        | .diverge => .diverge
      | .err e => .err e
      | .panic => .panic
      | .diverge => .diverge

/-- `distance_to_term` -/
def distToTerm (o : Onto) (a b : Term) : Res (Option Nat) :=
  termDists o a b (a.allCommonAncestorIds b)

/-- first pair with minimal second component (`min_by_key(|t| t.1)`): `x` comes before `m` -/
def firstSmaller : Nat × Nat → Option (Nat × Nat) → Nat × Nat
  | x, none => x
  | x, some m => if m.2 < x.2 then m else x

/-- `path_to_term`, first stage: `(ancestor, d(self, anc) + d(other, anc))` for every common ancestor
(`expect`: panic when a distance is `None`), then `min_by_key` on the sum -/
def joinPoint (o : Onto) (a b : Term) : List Nat → Res (Option (Nat × Nat))
  | [] => .ok none
  | c :: cs =>
    match o.get c with
    | none => .panic
    | some _ =>
      match distToAnc o.fuel o a c with
      | .ok none => .panic
      | .ok (some x) =>
        match distToAnc o.fuel o b c with
        | .ok none => .panic
        | .ok (some y) =>
          match joinPoint o a b cs with
          | .ok m => .ok (some (firstSmaller (c, x + y) m))
          | .err e => .err e
          | .panic => .panic
          | .diverge => .diverge
        | .err e => .err e
        | .panic => .panic
        | .diverge => .diverge
      | .err e => .err e
      | .panic => .panic
      | .diverge => .diverge

/-- `path.push(other.id())` unless the path already ends with it -/
def pushLast (path : List Nat) (b : Nat) : List Nat :=
  if path.getLast? = some b then path else path ++ [b]

/-- `path_to_term`, second stage: the two upward paths joined at the chosen ancestor `c` -/
def joinPaths (o : Onto) (a b : Term) (c : Nat) : Res (Option (List Nat)) :=
  match pathToAnc o.fuel o a c with
  | .ok (some pa) =>
    match pathToAnc o.fuel o b c with
    | .ok (some pb) => .ok (some (pushLast (pa ++ pb.reverse.drop 1) b.id))
    | .ok none => .panic   -- `expect("other must have a path to its ancestor")`
    | .err e => .err e
    | .panic => .panic
    | .diverge => .diverge
  | .ok none => .panic     -- `expect("self must have a path to its ancestor")`
  | .err e => .err e
  | .panic => .panic
  | .diverge => .diverge

/-- `path_to_term` (as fixed: always joined at the closest common ancestor; `other` is not
appended a second time when it is the meeting point). -/
def pathToTerm (o : Onto) (a b : Term) : Res (Option (List Nat)) :=
  match joinPoint o a b (a.allCommonAncestorIds b) with
  | .ok none => .ok none
  | .ok (some m) => joinPaths o a b m.1
  | .err e => .err e
  | .panic => .panic
  | .diverge => .diverge

/-- `path_to_term` BEFORE the fix (pinned snapshot 8b79950): ancestor / descendant shortcuts first,
and `other` always appended.  Kept only for `C11_path_shortcut_counterexample`. -/
def pathToTermPrefix (o : Onto) (a b : Term) : Res (Option (List Nat)) :=
  if b.parentOf a then pathToAnc o.fuel o a b.id
  else if a.parentOf b then
    match pathToAnc o.fuel o b a.id with
    | .ok (some ts) => .ok (some (ts.reverse.drop 1 ++ [b.id]))
    | r => r
  else
    match joinPoint o a b (a.allCommonAncestorIds b) with
    | .ok none => .ok none
    | .ok (some m) =>
      match pathToAnc o.fuel o a m.1, pathToAnc o.fuel o b m.1 with
      | .ok (some pa), .ok (some pb) => .ok (some (pa ++ pb.reverse.drop 1 ++ [b.id]))
      | .diverge, _ => .diverge
      | _, .diverge => .diverge
      | _, _ => .panic
    | .err e => .err e
    | .panic => .panic
    | .diverge => .diverge

/-- `is_modifier` -/
def isModifier (o : Onto) (t : Term) : Bool :=
  o.modifier.any fun m => Group.contains (Group.addId t.allParents t.id) m

/-- `categories` -/
def categoriesOf (o : Onto) (t : Term) : List Nat :=
  o.categories.filter fun c => Group.contains (Group.addId t.allParents t.id) c

/-- `replaced_by()`: the replacement id resolved in this ontology -/
def replacedBy (o : Onto) (t : Term) : Option Term := t.replacement.bind o.get

end Onto
end Hpo
