import HpoModel.Combine
/-
One-row matrices with tens of thousands of columns (the u16 limit of a matrix dimension): the row
and column loops of `HpoModel/Matrix.lean` are quadratic there, so the driver evaluates this closed
form; `HpoProofs/CombineFast.lean` proves it equal to `Combine.calculate` on the `1 × n` matrix.
-/
namespace Hpo
namespace Combine

variable {F : Type} [Num F]

/-- `calculate` on `Matrix::new(1, data.len(), data)`: the only row is the data, every column is one cell -/
def calculateOneRow (cb : Combiner) (data : List F) : Res (Option F) :=
  match data with
  | [] => .ok (some (Num.ofNat 0))
  | x :: xs =>
    if !fitsU16 (xs.length + 1) then .panic
    else .ok (combineWith cb 1 (xs.length + 1) [maxGo x xs] (x :: xs))

end Combine
end Hpo
