import HpoModel.Bulk
/-
One-pass form of `annotateRange` (the `count`-fold `annotate_*` call for the record ids
`first+count-1, …, first` and one term), for ontologies with tens of thousands of records: every
`annotate` call scans and re-appends the whole record list and rewrites the arena once per linked
term, which is quadratic in `count`.

`annotateRangeFast` checks a guard on the term `t` and its cached ancestors only and, when it holds,
writes the result down directly; otherwise it runs `annotateRange`.  The guard (`bulkGuard`):

  * `t` resolves, and so does every id of `S = t :: allParents(t)`;
  * the cached ancestors of every member of `S` are members of `S` (the upward walk of `link_*_term`
    stays inside `S`);
  * `allParents(t)` has at most as many entries as the arena (the fuel of the walk suffices);
  * no record of the kind has an id in `[first, first+count)` (every call creates its record);
  * the annotation group of every member of `S` is empty or starts above `first+count-1`
    (every sorted insertion is an insertion at the front).

Then the records `first+count-1, …, first` (each with the term list `[t]`) are appended in this order
and the ids `first, …, first+count-1` are put in front of the annotation group of every term whose
id is in `S`.  `HpoProofs/BulkFast.lean`: `annotateRangeFast = annotateRange` for ALL arguments
(the guard only selects the branch).
-/
namespace Hpo
namespace Onto

def setTerms (o : Onto) (ts : List Term) : Onto := { o with terms := ts }

/-- `Group.insert l r` is the prepend `r :: l`: `l` is empty or starts above `r` -/
def headAbove (r : Nat) : List Nat → Bool
  | [] => true
  | a :: _ => decide (r < a)

/-- the annotation group of the (first) term with id `i` -/
def annFirst (k : Kind) (ts : List Term) (i : Nat) : List Nat :=
  match getT ts i with
  | some u => u.ann k
  | none => []

/-- one member of `S`: resolves, its cached ancestors are in `S`, its group starts above `r` -/
def memberOk (o : Onto) (k : Kind) (S : List Nat) (r : Nat) (p : Nat) : Bool :=
  match o.get p with
  | none => false
  | some tp => tp.allParents.all (fun q => S.elem q) && headAbove r (tp.ann k)

/-- guard of the one-pass form for the ids `first, …, first+n` (`count = n+1`) and `S = t :: A` -/
def bulkGuard (o : Onto) (k : Kind) (t : Nat) (A : List Nat) (first n : Nat) : Bool :=
  decide (A.length ≤ o.terms.length) &&
  ((o.recs k).all (fun r => r.id < first || first + (n + 1) ≤ r.id) &&
   (t :: A).all (memberOk o k (t :: A) (first + n)))

/-- the records `first+n-1, …, first`, each annotated to `t` only -/
def descRecs (name : List Char) (t first : Nat) : Nat → List Rec
  | 0 => []
  | n + 1 => { id := first + n, name := name, hpos := [t] } :: descRecs name t first n

/-- a term of `S` gets `ids` in front of the group of the first term with its id -/
def bulkTerm (k : Kind) (S ids : List Nat) (ts : List Term) (u : Term) : Term :=
  if S.elem u.id then u.setAnn k (ids ++ annFirst k ts u.id) else u

/-- the result written down directly -/
def annotateBulk (o : Onto) (k : Kind) (name : List Char) (t : Nat) (A : List Nat)
    (first cnt : Nat) : Onto :=
  (o.setRecs k (o.recs k ++ descRecs name t first cnt)).setTerms
    (o.terms.map (bulkTerm k (t :: A) (List.range' first cnt) o.terms))

def annotateRangeFast (o : Onto) (k : Kind) (name : List Char) (t : Nat) (first : Nat) :
    Nat → Res Onto
  | 0 => .ok o
  | n + 1 =>
    match o.get t with
    | none => annotateRange o k name t first (n + 1)
    | some tm =>
      if bulkGuard o k t tm.allParents first n then
        .ok (annotateBulk o k name t tm.allParents first (n + 1))
      else annotateRange o k name t first (n + 1)

end Onto
end Hpo
