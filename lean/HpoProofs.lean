import HpoProofs.Group
import HpoProofs.TermId
import HpoProofs.NumReal
import HpoProofs.Similarity
import HpoProofs.Matrix
import HpoProofs.Combine
import HpoProofs.Distance
