import HpoProofs.Group
import HpoProofs.TermId
import HpoProofs.Binary
import HpoProofs.BinaryLoad
