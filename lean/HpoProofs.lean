import HpoProofs.Group
import HpoProofs.TermId
import HpoProofs.Arena
import HpoProofs.Closure
import HpoProofs.BuilderInv
import HpoProofs.Link
import HpoProofs.Annotate
