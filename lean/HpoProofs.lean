import HpoProofs.Group
import HpoProofs.TermId
import HpoProofs.SetOps
import HpoProofs.Compare
