import HpoProofs.Group
import HpoProofs.TermId
import HpoProofs.Hypergeom
import HpoProofs.Enrich
import HpoProofs.Linkage
