import HpoProofs.Group
import HpoProofs.TermId
import HpoProofs.Path
