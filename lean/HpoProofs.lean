import HpoProofs.Group
import HpoProofs.TermId
