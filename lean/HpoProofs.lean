import HpoProofs.Group
import HpoProofs.TermId
import HpoProofs.Path
import HpoProofs.SubOntology
