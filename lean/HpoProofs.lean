import HpoProofs.Group
import HpoProofs.TermId
import HpoProofs.Text
