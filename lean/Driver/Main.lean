import HpoModel
open Hpo Hpo.Drv

def handlers : List (DState → List String → Option Out) :=
  [Drv.handle, Drv.handleGroup, Drv.handleTermId, Drv.handleQuery, Drv.handleFacts,
   Drv.handleEnrich, Drv.handleLinkage]

def dispatch (s : DState) (toks : List String) : Out :=
  let rec go : List (DState → List String → Option Out) → Out
    | [] => (s, ["bad-op"])
    | h :: hs => match h s toks with
      | some r => r
      | none => go hs
  go handlers

partial def loop (inp : IO.FS.Stream) (out : IO.FS.Stream) (s : DState) : IO Unit := do
  let line ← inp.getLine
  if line.isEmpty then return ()
  let toks := (line.trimAscii.toString.splitOn " ")
  match toks with
  | "case" :: n :: _ =>
    out.putStrLn s!"case {n}"
    loop inp out {}
  | ["end"] =>
    out.putStrLn "end"
    loop inp out {}
  | [""] => loop inp out s
  | _ =>
    if s.dead then loop inp out s
    else
      let (s', lines) := dispatch s toks
      for l in lines do out.putStrLn l
      loop inp out s'

def main : IO Unit := do
  let inp ← IO.getStdin
  let out ← IO.getStdout
  loop inp out {}
