import HpoModel
open Hpo Hpo.Drv

def handlers : List (DState → List String → Option Out) :=
  [Drv.handle, Drv.handleGroup, Drv.handleTermId, Drv.handleQuery, Drv.handleAnc2, Drv.handleFacts, Drv.handleSetCmp, Drv.handleText, Drv.handlePath, Drv.handleSim, Drv.handleBinary, Drv.handleEnrich, Drv.handleLinkage]

def dispatch (s : DState) (toks : List String) : Out :=
  let rec go : List (DState → List String → Option Out) → Out
    | [] => (s, ["bad-op"])
    | h :: hs => match h s toks with
      | some r => r
      | none => go hs
  go handlers

/-- a token `@<path>` stands for the hex of that file's content (byte-level ops on shipped files) -/
def expandFiles (toks : List String) : IO (List String) :=
  toks.mapM fun t =>
    if t.startsWith "@" then do
      let b ← IO.FS.readBinFile (t.drop 1).toString
      pure (Proto.bytesHex b.toList)
    else pure t

partial def loop (inp : IO.FS.Stream) (out : IO.FS.Stream) (s : DState) : IO Unit := do
  let line ← inp.getLine
  if line.isEmpty then return ()
  let toks := (line.trimAscii.toString.splitOn " ")
  match toks with
  | "case" :: n :: _ =>
    out.putStrLn s!"case {n}"
    loop inp out {}
  | ["end"] =>
    out.putStrLn "end"
    loop inp out {}
  | [""] => loop inp out s
  | _ =>
    if s.dead then loop inp out s
    else
      let toks ← if toks.any (·.startsWith "@") then expandFiles toks else pure toks
      let (s', lines) := dispatch s toks
      for l in lines do out.putStrLn l
      loop inp out s'

def main : IO Unit := do
  let inp ← IO.getStdin
  let out ← IO.getStdout
  loop inp out {}
