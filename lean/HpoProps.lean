import HpoProps.C12
import HpoProps.C20
import HpoProps.C06
import HpoProps.C17
