import HpoProps.C12
import HpoProps.C20
