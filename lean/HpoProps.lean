import HpoProps.C12
import HpoProps.C20
import HpoProps.C04
import HpoProps.C05
