import HpoProps.C12
import HpoProps.C20
import HpoProps.C07
import HpoProps.C08
