import HpoProps.C12
import HpoProps.C20
import HpoProps.C11
import HpoProps.C14
