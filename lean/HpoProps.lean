import HpoProps.C12
import HpoProps.C20
import HpoProps.C01
import HpoProps.C02
import HpoProps.C15
import HpoProps.C03
import HpoProps.C10
import HpoProps.C19
