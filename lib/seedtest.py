#!/usr/bin/env python3
"""seedtest.py <seed-dir> <prop> [<prop> ...]

Validate a seeded mutation (<seed-dir>/patch.diff + demo.rs) and run checks against it WITHOUT touching
/repo: a scratch worktree of /repo gets the patch, a scratch copy of /verif gets its harness pointed at
that worktree. Prints one JSON object with the findings. Scratch dirs live under /tmp/mt and are removed.
"""
import json
import os
import shutil
import subprocess
import sys

seed = os.path.abspath(sys.argv[1])
props = sys.argv[2:]
# --verif-rev=<git rev>: run the checks of that committed state of /verif (how the check stood then)
VREV = None
# --seeds=a,b,c: run every check once per seed (default: the check's own default seed only)
SEEDS = [None]
for a in list(props):
    if a.startswith("--seeds="):
        SEEDS = [x for x in a.split("=", 1)[1].split(",") if x]
        props.remove(a)
for a in list(props):
    if a.startswith("--verif-rev="):
        VREV = a.split("=", 1)[1]
        props.remove(a)
tag = seed.strip("/").replace("/", "_")
base = f"/tmp/mt/{tag}"
shutil.rmtree(base, ignore_errors=True)
os.makedirs(base)
wt = f"{base}/repo"
env = dict(os.environ, CARGO_NET_OFFLINE="true")
res = {"seed": seed, "props": props}


def sh(cmd, cwd=None, timeout=3600):
    r = subprocess.run(cmd, shell=True, cwd=cwd, stdout=subprocess.PIPE, stderr=subprocess.STDOUT, text=True, env=env, timeout=timeout)
    return r.returncode, r.stdout


try:
    sh(f"git -C /repo worktree add -q --detach {wt} HEAD")
    # share the build cache of /repo to save time: copy target dir lazily? no - independent build
    if "--skip-validate" not in sys.argv:
        shutil.copy(f"{seed}/demo.rs", f"{wt}/tests/demo.rs")
        rc, out = sh("cargo test --offline --test demo 2>&1 | tail -5", cwd=wt)
        res["demo_passes_unchanged"] = "test result: ok" in out
        rc, out = sh(f"git apply {seed}/patch.diff", cwd=wt)
        res["patch_applies"] = rc == 0
        rc, out = sh("cargo test --offline --test demo 2>&1 | tail -8", cwd=wt)
        res["demo_fails_with_patch"] = "test result: FAILED" in out or "panicked" in out
        os.remove(f"{wt}/tests/demo.rs")
        rc, out = sh("cargo test --offline 2>&1 | grep -E '^test result|FAILED|error' | head", cwd=wt)
        res["suite_with_patch"] = out.strip().split("\n")
        res["suite_passes_with_patch"] = "FAILED" not in out and "error" not in out and "test result: ok" in out
    else:
        props = [p for p in props if p != "--skip-validate"]
        rc, out = sh(f"git apply {seed}/patch.diff", cwd=wt)
        res["patch_applies"] = rc == 0
    # scratch copy of /verif with the harness pointed at the mutated worktree
    vc = f"{base}/verif"
    if VREV:
        os.makedirs(vc)
        sh(f"git -C /verif archive {VREV} | tar -x -C {vc}")
        # the Lean build output of the current tree is reused where the sources are unchanged
        sh(f"rsync -a /verif/lean/.lake {vc}/lean/")
        res["verif_rev"] = VREV
    else:
        sh(f"rsync -a --exclude work --exclude replay --exclude .git /verif/ {vc}/")
    ct = open(f"{vc}/harness/Cargo.toml").read().replace('path = "/repo"', f'path = "{wt}"')
    open(f"{vc}/harness/Cargo.toml", "w").write(ct)
    res["checks"] = {}
    for p in props:
        for sd in SEEDS:
            key = p if sd is None else f"{p}@{sd}"
            rc, out = sh(f"./check {p} --tier quick" + ("" if sd is None else f" --seed {sd}"), cwd=vc, timeout=3600)
            lines = [l for l in out.split("\n") if l.startswith(("VIOLATION", "OK", "KNOWN", "FINDING", "BROKEN"))]
            res["checks"][key] = {"exit": rc, "lines": [l[:400] for l in lines[:4]]}
            if rc != 0:
                rp = [l for l in lines if l.startswith("VIOLATION")]
                if rp and "replay=" in rp[0]:
                    path = rp[0].split("replay=")[1].split()[0]
                    try:
                        r = json.load(open(path))
                        res["checks"][key]["replay_ops"] = r.get("ops", [])[:40]
                        res["checks"][key]["class"] = r.get("class")
                    except Exception as e:  # noqa: BLE001
                        res["checks"][key]["replay_err"] = str(e)
finally:
    sh(f"git -C /repo worktree remove --force {wt}")
    shutil.rmtree(base, ignore_errors=True)
print(json.dumps(res, indent=1))
