#!/usr/bin/env python3
"""Prepare a mutation-seeding round: one prompt file and one scratch worktree of /repo per property under
/tmp/seed<round>/.  The prompt holds ONLY the property's text (properties.jsonl), the one-line summaries of the
changes already studied for it (so that a round does not repeat an earlier one) and the deliverable format; nothing
about the verification machinery.  Usage: lib/mkseedprompts.py <round>"""
import glob
import json
import os
import sys

RND = sys.argv[1]
PERSONAS = {
    "9": 'Think like three different maintainers: one making the code "more defensive" (an extra guard, a clamp, an early return), one porting a loop to iterators or changing an integer width / a container type, one handling a corner case (empty, single element, the root, the last element, a maximal value, an obsolete term, a tie) differently.',
    "10": 'Think like three different maintainers: one touching NUMBERS (an `as` cast, a rounding, a float comparison, `<` against `<=` at a tie, saturating / wrapping arithmetic, the order of a sum, min against max, a count taken from the wrong collection), one relying on an ORDERING or UNIQUENESS assumption that the callers do not guarantee (input not sorted, duplicates, reversed, the same element on both sides, equal keys), one introducing or reusing STATE (a cache, a memo, a buffer kept between calls, a clone that shares or forgets something, an iterator used twice, calling the same function a second time, an early `return` that skips an update).',
    "11": 'Think like three different maintainers: one changing what happens at the BORDER BETWEEN ACCEPTED AND REJECTED input (an input that used to be an error is now silently accepted or repaired, a valid border-line input is now rejected or panics, an error is detected only after part of the work has been done, a different failure for the second of two problems), one making a CONSISTENT PAIR of edits in two functions that must cooperate (a writer and its reader, a setter and its getter, an encoder and its decoder, an insertion and the matching lookup, the same formula in two places) so that the obvious self-consistency test still passes while the documented format / contract / meaning is no longer met, one changing behaviour only for UNUSUAL BUT LEGAL SHAPES of the data (several roots, a term that is its own replacement, two records with the same name, an annotation on the root or on an obsolete term, a set with one element, a diamond inside a diamond, ids at both ends of the id space in one ontology).',
    "12": 'Think like three different maintainers: one doing a PERFORMANCE rewrite (pre-sized buffers, early exits, binary search instead of a scan or the reverse, caching a length or a flag, avoiding a clone, bit tricks, hashing instead of sorting, processing in chunks) that is subtly wrong for some inputs; one doing a READABILITY refactoring (extracting a helper, merging two similar branches, reordering statements, replacing a `match` by `if let` chains or `?`, a mix-up of two similarly named variables, an iterator chain with `zip` / `take_while` / `skip` / `windows` / `chunks` that silently stops early) that changes behaviour in a rarely taken branch; one MERGING or GENERALISING near-identical code paths (gene / OMIM / ORPHA, v1 / v2 / v3, the `_mut` and the copying variant, the `&` and the owned operator impl, parent and child direction) into shared code and losing a difference between them.',
    "13": 'No persona this time: the list below shows what earlier rounds tried — it is long. Look for what is LEFT: public functions, trait impls, parameters, input shapes and combinations of features that none of the listed changes depends on (read the whole `src/` tree, not only the anchor files, and the doc comments: a documented behaviour that no listed change attacks is a good target). At least one of your three changes must need a COMBINATION of two independent conditions to manifest (for example an obsolete term AND a binary file of version 2; a second root AND an annotation on it; a name at the length limit AND a multi-byte character).',
    "14": 'Think like three different maintainers: one changing a CONSTANT, a LITERAL or a DERIVE (a capacity, a limit, a table size, a magic number, a default value, an id of a well-known term, a format tag, `#[derive(PartialEq/Ord/Hash/Default)]` replaced by a hand-written impl or the reverse, a field type) whose old value mattered only for rare inputs; one rewriting ERROR HANDLING (`?` instead of a match, `unwrap_or` / `unwrap_or_default` / `.ok()` swallowing an error, `expect` turned into a silent default or the reverse, `map_err` to another variant where callers match on it, an `Option` collapsed with `flatten` / `and_then`, an early `return Ok(..)`); one adding a SMALL FEATURE or convenience (a new optional behaviour, accepting a further input form, normalising input, a new public helper that shares and mutates internals, support for a newer file layout) that is meant to be backwards compatible and is not quite.',
    "15": 'Think like three different maintainers: one slipping on UNITS AND INDEXING (`..` against `..=`, `len() - 1`, `idx + 1`, a byte offset in a binary layout, a position mixed up with an id — arena slot against term id, matrix row against column, dendrogram node index `n + k` —, a count of bytes against a count of characters, a length in records against a length in bytes); one relying on ITERATION ORDER OR COLLECTION SEMANTICS (a `HashMap` / `HashSet` walked as if ordered, `BTreeMap` swapped for `HashMap` or back, `retain` / `drain` / `dedup` / `dedup_by_key` / `sort_unstable_by_key` semantics, `extend` against `insert`, `entry().or_insert` against `insert`, first-wins against last-wins); one getting the LIFETIME OF DERIVED DATA wrong (ancestor caches, information content, categories and modifier roots, the version, record term lists: computed too early, not refreshed when a later call changes their inputs, refreshed from stale inputs, shared between a clone / sub-ontology and its source, or lost by `clone` / `Default` / `sub_ontology`).',
}
PERSONA = PERSONAS.get(RND, PERSONAS["9"])
ROOT = os.path.dirname(os.path.dirname(os.path.abspath(__file__)))
props = {}
for l in open(os.path.join(ROOT, "properties.jsonl")):
    p = json.loads(l)
    props[p["id"]] = p
for pid in sorted(props):
    p = props[pid]
    studied = []
    for d in sorted(glob.glob(f"{ROOT}/seeded/{pid}-*")):
        m = json.load(open(d + "/meta.json"))
        studied.append(f"- ({', '.join(m.get('files') or [])}) {' '.join((m.get('summary') or '').split())[:200]}")
    q = p.get("quantifier") or {}
    a = p.get("anchors") or {}
    W = f"/tmp/seed{RND}/{pid}"
    txt = f'''You are a software engineer doing mutation seeding for a robustness study of the Rust crate `hpo` (Human Phenotype Ontology library). You have your OWN scratch git worktree of the crate at `{W}/repo` (detached HEAD). Work ONLY inside `{W}/`. Do not read or write anything under `/verif`, `/repo` or any other `/tmp/*` directory, do not use `git stash`, and do not look for any verification tooling. No network; build with `cargo build --offline` / `cargo test --offline` inside your worktree (84 unit tests + doctests pass on the unchanged tree). KEEP YOUR REPLIES SHORT: write code to files with tools, never paste long listings into a reply.

Here is a semantic property that the unchanged crate satisfies:

PROPERTY {pid} — {p.get('title')}

Statement: {p.get('statement')}

Quantified over: {q.get('text') if isinstance(q, dict) else q}

Code anchors (files of the crate the property is about): {', '.join(a.get('files', []))}
Observed at (public API): {'; '.join(a.get('observe_at', []))}

YOUR TASK: produce THREE different, realistic code changes ("mutations") to the crate's `src/` (each one independently, each as its own patch against the unchanged worktree) such that each change
  1. still compiles, and the existing test suite (`cargo test --offline`, unit tests AND doctests) still passes unchanged with it,
  2. BREAKS the property above (makes the library misbehave on inputs inside the property's quantifier),
  3. needs something specific to manifest — NOT something that ordinary use would expose at once,
  4. looks like a plausible bug a maintainer could introduce, is small (a few lines), and touches only non-test code.
The three changes must be in three different functions, and may be ANYWHERE in `src/` — the anchor files, but also shared helpers the anchored code relies on (id sets and their merge/insert routines, the arena, conversions, parsers, iterators, `Default`/`From`/`TryFrom` impls, comparison and hashing impls). {PERSONA} Prefer functions and code paths that the earlier changes (listed below) did not touch.

Changes of earlier rounds (do NOT repeat these or close variants):
{chr(10).join(studied)}

For each change deliver, under `{W}/out/A/`, `{W}/out/B/` and `{W}/out/C/`: `patch.diff` (`git diff` against the unchanged worktree, apply-able with `git apply` at the crate root), `demo.rs` (a Rust integration test file for `tests/demo.rs` using only the public API of `hpo` — build ontologies in code through `hpo::builder::Builder`, `Ontology::from_bytes`, the shipped `tests/example.hpo` etc. — whose tests PASS on the unchanged crate and FAIL with the change; verify both with `cargo test --offline --test demo`), `meta.json` = {{"property": "{pid}", "summary": "<one sentence: what the change does>", "needs": "<what specific input/sequence is needed for it to manifest>", "files": ["src/..."], "verified": "<the commands you ran and what you saw>"}}.
Leave the worktree UNCHANGED when you finish (`git -C {W}/repo checkout -- . && rm -f {W}/repo/tests/demo.rs && rm -rf {W}/repo/target`).

Useful API facts: `hpo::builder::Builder::new()` → `new_term(name, id)` → `terms_complete()` → `add_parent(parent, child)` → `connect_all_terms()` → `annotate_gene(GeneId::from(1u32), "name", HpoTermId::from(5u32))` / `annotate_omim_disease` / `annotate_orpha_disease` → `calculate_information_content()?` → `build_with_defaults()?` (needs HP:0000001 and HP:0000118) or `build_minimal()`. `Ontology::hpo(id)`, `HpoTerm::{{parent_ids, children_ids, all_parent_ids, gene_ids, ...}}`, `HpoSet::new(&ontology, group)`, `Ontology::as_bytes()/from_bytes()`, `hpo::similarity::*`, `hpo::stats::*`.

Reply with a short summary of the three changes and confirm that each demo passes without and fails with its patch and that the full existing test suite passes with each patch.
'''
    os.makedirs(W, exist_ok=True)
    open(f"/tmp/seed{RND}/{pid}.prompt", "w").write(txt)
    os.system(f"git -C /repo worktree add -q --detach {W}/repo HEAD")
print("ok")
