#!/usr/bin/env python3
"""Regenerate the status table (8.3) and the seeded-change tables (8.5) of DESIGN.md from evidence/,
lib/propmeta.py, seeded/ and harmless/ (text between the markers is replaced)."""
import glob
import json
import os
import re
import sys

ROOT = os.path.dirname(os.path.dirname(os.path.abspath(__file__)))
sys.path.insert(0, os.path.join(ROOT, "lib"))
from propmeta import PROPS  # noqa: E402


def status_table():
    rows = ["| id | theorems | cases (non-trivial) | compared lines | proved only partially / by correspondence (short) |", "|---|---|---|---|---|"]
    total = 0
    for p in sorted(PROPS):
        e = json.load(open(os.path.join(ROOT, "evidence", f"{p}.json")))
        c = e["coverage"]
        total += c["obligations"]
        part = PROPS[p].get("partial", "") or "—"
        part = part.replace("|", "/")
        if len(part) > 230:
            part = part[:227] + "…"
        rows.append(f"| {p} | {c['obligations']} | {c['evaluations']} ({c['distinct_nontrivial']}) | {c['compared_lines']} | {part} |")
    rows.append(f"\nTotal: {total} property theorems, all audited (`#print axioms` ⊆ {{propext, Classical.choice, Quot.sound}}) on every run.")
    return "\n".join(rows)


def seed_table():
    rows = ["| seed | file | change | needs | caught by (class of own check) | other checks run, not alarmed |", "|---|---|---|---|---|---|"]
    n = 0
    for d in sorted(glob.glob(os.path.join(ROOT, "seeded", "*"))):
        m = json.load(open(os.path.join(d, "meta.json")))
        own = m["property"]
        det = [p for p, c in m["checks"].items() if c["detected"]]
        nd = [p for p, c in m["checks"].items() if not c["detected"]]
        cls = m["checks"][own].get("class")
        n += 1
        rows.append(f"| {os.path.basename(d)} | {(m['files'] or ['?'])[0]} | {' '.join((m['summary'] or '').split())[:140].replace('|', '/')} | {' '.join((m['needs_to_manifest'] or '').split())[:120].replace('|', '/')} | {', '.join(det)} ({cls}) | {', '.join(nd) or '—'} |")
    return "\n".join(rows), n


def harmless_table():
    rows = ["| refactoring | files | what changed | checks run | alarms |", "|---|---|---|---|---|"]
    for d in sorted(glob.glob(os.path.join(ROOT, "harmless", "*"))):
        m = json.load(open(os.path.join(d, "meta.json")))
        ch = m.get("checks_run_against_it", {})
        al = [p for p, v in ch.items() if v != "ok"]
        note = ""
        if m.get("note"):
            note = " (false alarm, corrected: see 8.4)"
        rows.append(f"| {os.path.basename(d)} | {', '.join(m.get('files', []))[:80]} | {' '.join(m.get('summary', '').split())[:200].replace('|', '/')} | {len(ch)} | {', '.join(al) or 'none'}{note} |")
    return "\n".join(rows)


s = open(os.path.join(ROOT, "DESIGN.md")).read()
st, n = seed_table()
for name, content in (("STATUS", status_table()), ("SEEDS", st), ("HARMLESS", harmless_table())):
    b, e = f"<!-- BEGIN {name} -->", f"<!-- END {name} -->"
    if b in s:
        s = re.sub(re.escape(b) + ".*?" + re.escape(e), lambda _m, b=b, e=e, content=content: b + "\n" + content + "\n" + e, s, flags=re.S)
    else:
        print("marker missing:", name)
open(os.path.join(ROOT, "DESIGN.md"), "w").write(s)
print("seeds:", n)
