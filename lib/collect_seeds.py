#!/usr/bin/env python3
"""Collect confirmed seeded mutations from /tmp/seed/<id>/out/<v> and /tmp/mt_results into /verif/seeded/."""
import glob
import json
import os
import shutil

ROOT = os.path.dirname(os.path.dirname(os.path.abspath(__file__)))
import sys
RND = sys.argv[1] if len(sys.argv) > 1 else ""
SRC = "/tmp/seed" + RND
RES = "/tmp/mt_results" + RND
for d in sorted(glob.glob(SRC + "/C*/out/[ABC]")):
    pid = d.split("/")[3]
    v = d.split("/")[5]
    res = {}
    later = sorted(x for x in glob.glob(f"{RES}/{pid}_{v}?.json") if not x.endswith("_stood.json"))
    stood = f"{RES}/{pid}_{v}_stood.json"
    if os.path.exists(stood) and os.path.getsize(stood) > 0:
        try:
            rs = json.load(open(stood))
            res["checks_as_the_check_stood_before_this_round"] = {p: c["exit"] != 0 for p, c in rs.get("checks", {}).items()}
            res["verif_rev_stood"] = rs.get("verif_rev")
        except Exception:  # noqa: BLE001
            pass
    for f in [f"{RES}/{pid}_{v}.json"] + later:
        if os.path.exists(f) and os.path.getsize(f) > 0:
            r = json.load(open(f))
            for k in ("demo_passes_unchanged", "patch_applies", "demo_fails_with_patch", "suite_passes_with_patch", "suite_with_patch"):
                if r.get(k) is not None:
                    res[k] = r[k]
            res.setdefault("checks", {}).update(r.get("checks", {}))
    if not res:
        continue
    ok = res.get("demo_passes_unchanged") and res.get("patch_applies") and res.get("demo_fails_with_patch") and res.get("suite_passes_with_patch")
    if not ok:
        print("NOT CONFIRMED", pid, v, {k: res.get(k) for k in ("demo_passes_unchanged", "patch_applies", "demo_fails_with_patch", "suite_passes_with_patch")})
        continue
    out = os.path.join(ROOT, "seeded", f"{pid}-{RND}{v}")
    os.makedirs(out, exist_ok=True)
    shutil.copy(f"{d}/patch.diff", out)
    shutil.copy(f"{d}/demo.rs", out)
    m = json.load(open(f"{d}/meta.json"))
    meta = {
        "property": pid,
        "summary": m.get("summary"),
        "needs_to_manifest": m.get("needs"),
        "files": m.get("files"),
        "author": "fresh sub-agent given only the property text and a scratch worktree of /repo"
        + (", the list of changes already studied for the property, and (adversarial rounds) a description of the testing envelope it should try to evade" if RND in ("2", "3", "4", "5") else ", and the one-line summaries of the changes already studied for the property (so that a round does not repeat an earlier one); nothing about the checks" if RND in ("6", "7", "8", "9", "10", "11", "12", "13", "14", "15") else ""),
        "confirmed_by_lead": {
            "how": "lib/seedtest.py: scratch worktree of /repo; `cargo test --offline --test demo` without and with the patch; `cargo test --offline` (84 unit tests + doctests) with the patch; then ./check <prop> --tier quick in a scratch copy of /verif whose harness points at the patched worktree",
            "demo_passes_on_unchanged_tree": res.get("demo_passes_unchanged"),
            "demo_fails_with_patch": res.get("demo_fails_with_patch"),
            "existing_suite_passes_with_patch": res.get("suite_passes_with_patch"),
            "suite_output": res.get("suite_with_patch"),
        },
        "detected_by_the_check_as_it_stood_when_the_change_arrived": res.get("checks_as_the_check_stood_before_this_round"),
        "checks": {p: {"detected": c["exit"] != 0, "class": c.get("class"), "first_line": (c["lines"][0] if c["lines"] else "")[:300],
                       "shrunk_replay_ops": len(c.get("replay_ops", []))} for p, c in res.get("checks", {}).items()},
    }
    json.dump(meta, open(os.path.join(out, "meta.json"), "w"), indent=1)
    det = {p: c["detected"] for p, c in meta["checks"].items()}
    print(pid, v, det)
