"""Per-property metadata used by ./check (rule for non-trivial cases, partial labels, extra trusted base)."""
PROPS = {
    "C12": {
        "rule": "random group programs (constructors from Vec/Vec<u32>/HashSet/iterator, insertion sequences with return values, | & + |id on pairs that are equal / nested / disjoint-equal-length / random, sizes 0..80 crossing the inline limit 30, universes 6..10^7); distinct = distinct op lists (FNV hash); non-trivial = both operand sets non-empty",
        "assumptions": ["slice::binary_search contract (Ok iff present, Err = ordered insertion point) on sorted input"],
    },
    "C20": {
        "rule": "roundtrip of sampled ids (3/4 in the 10^7 id space, 1/4 any u32) + all border ids; parse of structured strings (valid renderings with other 3-byte prefixes, overflow region, signs, leading zeros) and random strings over an alphabet with 1-4 byte chars at every offset; distinct = distinct op lists; every case non-trivial",
        "assumptions": ["Rust u32::from_str grammar: optional '+', decimal digits, overflow is an error", "Display {:07} pads with zeros to at least 7 digits"],
    },
    "C01": {
        "rule": "DAGs by hidden topological order (shapes: random multi-parent, chain, tree, diamond ladder, chain+shortcut, multi-root/disconnected), ids by an independent random injection (0, 9_999_999, small, large), shuffled new_term/add_parent order, duplicate new_term calls, repeated add_parent; construction path Builder or harness-encoded binary v1/v2/v3; observables: full dump (parents, children, ancestors per term) + child_of/parent_of for all ordered pairs + BFS-closure oracle; distinct = distinct op lists; non-trivial = at least one multi-parent node",
        "assumptions": ["acyclicity is a hypothesis (a rank function bounded by #terms+2); cyclic input makes the real code overflow its stack and is outside the property's quantifier",
                        "obo and sub_ontology construction paths are covered by the C09 / C14 checks, which compare the same dump"],
    },
    "C02": {
        "rule": "same ontology generator as C01 plus annotation facts for the three kinds with numerically overlapping record ids: records without terms (add_* only), repeated facts, facts on inner nodes whose ancestors are already linked through another child, shuffled call order; Builder path and binary v1/v2/v3 path; observables: per-term gene/omim/orpha id sets, per-record direct terms, resolving iterators; inheritance oracle (BFS) in the harness; non-trivial = at least one link to a term that has a parent",
        "assumptions": ["one kind-generic model function stands for the three textually separate copies link_gene_term / link_omim_disease_term / link_orpha_disease_term; the correspondence check exercises each copy"],
    },
    "C15": {
        "rule": "builder histories with 30-50 % (2/3 of the cases) or ~3 % (1/3) failing calls: add_parent with absent parent / absent child / both (ids < 10^7 and >= 10^7), annotate_* with absent term and existing or fresh record id, interleaved with succeeding calls in shuffled order; compared: every call's Ok/Err, the full read-API dump incl. the resolving-iterator walk under catch_unwind, referential-closure oracle, and equality with the ontology built from the successful calls alone (`same 0 1`); non-trivial = at least one failing call",
        "assumptions": ["C15_filter_errors is proved generically and instantiated for add_parent histories; for annotate_* histories the per-call theorem C15_annotate_error_no_effect (under the builder invariant) is what is proved"],
    },
    "C03": {
        "rule": "ontology generator of C01/C02 (Builder and binary v1-v3 paths); the three kinds get independent record sets so totals and per-term counts differ between kinds; kinds with zero records, records without terms, terms linked to all records (ic = -0.0); compared: f32 bit patterns of the three ic values per term against the model's Float32 evaluation of the same formula (<= 4 ulp), plus harness oracle on the implementation: value = -ln(n/N) from the observed counts, finite, >= 0, get_kind == accessor, non-decreasing from ancestor to descendant among annotated terms; non-trivial = at least one inherited link",
        "partial": "theorems are over the reals (exact formula, definedness, sign, monotonicity, error kind); f32 rounding and the accuracy of logf are outside the model and covered by the 4-ulp comparison only; the error branch (count > 65535) is proved in the model but exercised by correspondence only in the thorough tier",
        "assumptions": ["f32 division and ln are monotone/accurate enough that the real-number theorems transfer: checked bit-exactly on the implementation by the harness oracle, not proved"],
    },
    "C10": {
        "rule": "per ontology (sparse and dense id blocks, borders 0, 1, 9_999_999): sweep of Ontology::hpo over ALL ids 0..10_001_000 plus a stride over the rest of u32 and u32::MAX, iteration/len agreement, point lookups at ids, id+-1, id+10^7 (table wrap), u32 borders; gene/omim/orpha lookups by present and absent ids; gene_by_name and disease substring search for names, substrings of names, empty, absent and multi-byte queries; every case non-trivial",
        "assumptions": ["C10_arena2_* prove that the code's two-vector layout (placeholder slot 0, id table of M entries) refines the association-list arena the driver executes"],
    },
    "C19": {
        "rule": "ontologies with HP:1 and HP:118 and extra children of both (0..n top-level branches), terms below several categories and below both a modifier and a phenotype branch, 1/8 of the cases missing HP:1 and 1/8 missing HP:118 (build must fail with an error); compared: categories()/modifier() groups, per-term is_modifier and categories(), build result; independent defaults oracle; non-trivial = both roots present and at least two top-level branches",
        "assumptions": ["'descends from' is membership in the ancestor group, which C01 proves to be the transitive closure"],
    },
    "C13": {
        "rule": "ontologies of 3..35 terms loaded through the binary format (v3, 1/10 v2) with extra children of HP:1 (modifier roots) and HP:118 (categories), obsolete flags and replacements (resolving, colliding with other terms, not resolving, none) and gene/omim/orpha records; ALL subsets for ontologies of <= 5 terms, else 20 (thorough 50) subsets: empty, full, singleton, all obsolete, term + all its ancestors, replaced terms + their replacements, terms around modifier roots, random densities, constructor input shuffled with duplicates; per subset every query (len/is_empty/contains over a universe, iter, get(i), gene/omim/orpha unions, categories, information_content) and every transformation followed by the resolving views, random chains of 2-5 transformations, and the harness oracle (`oracle set`: recomputation from parent_ids BFS, flags, replacement_id, modifier/category roots, per-term record ids; in-place = copy; receiver unchanged); 1/4 of the cases add a set with a member that is not a term (every looking-up operation must panic); distinct = distinct op lists; non-trivial = some subset holds an ancestor together with a descendant and the ontology has an obsolete or replaced term",
        "assumptions": [
            "a set is observed through len/is_empty/contains over a universe (ontology ids, all replacement ids, the constructor ids, border ids) because iter()/get() resolve ids and panic on a replacement id that is not a term; the model prints the id vector",
            "HashSet/HashMap results (record id unions, category counts) are compared sorted by id",
            "'descends from' is read through the cached all_parents of the members (C01 ties that cache to the transitive closure)",
        ],
        "partial": "C13_ic states the result as the (count, total) pairs passed to C03's icCalc plus the definition of icValue for every Num instance; the real-number identity -ln(|union|/N) >= 0 is C03's theorem, not restated here. For a set with a member that is not a term the panic of every whole-set operation is a theorem (C13_panic_without_member); for child_nodes (whose inner `all` short-circuits) it is modelled and compared only.",
    },
    "C18": {
        "rule": "pairs (old, new) of ontologies of 3..35 terms loaded through the binary format (v3, 1/8 v2, the two sides independently) with obsolete flags, replacements (resolving / not resolving / none) and gene/omim/orpha records; the case index cycles through 17 edit kinds: none, rename_term, add_parent (kept acyclic), remove_parent, flip_obsolete, change_replacement, add_link, remove_link, add_record, remove_record, rename_record (gene or disease), add_term, remove_term (leaf), version, several (2-4 random edits), many (5-15), dangling_parent (malformed: a parent id that is not a term; changed_hpo_terms must panic on both sides); per pair: compare old new, compare new old (swap), compare old old (self), the binary round trip rtbytes old -> slot 2 with `same` and compare old rt / compare rt new, and the harness oracle (`oracle compare`: all set differences and deltas recomputed from per-item accessors of the two ontologies, duplicates and Some(empty) rejected, swap checked); every accessor of Comparison (incl. Display), HpoTermDelta and AnnotationDelta is printed, lists sorted by id; distinct = distinct op lists; non-trivial = at least one edit was applied",
        "assumptions": [
            "'replacement' is read as the code has it: replaced_by().map(id), the replacement id resolved in the term's own ontology; two different raw replacement ids that both do not resolve compare as unchanged (stat raw_replacement_differs_resolved_equal counts such terms; the raw ids are not an observable of Comparison)",
            "Vec results built from HashMap/HashSet iteration are compared sorted by id",
            "rtbytes is the identity in the model: generated only for ontologies loaded by fload (names <= 255 bytes, replacement 0 already read as none, default categories/modifier), where C07 documents as_bytes/from_bytes to preserve every observable; `same` checks that on the implementation in every case",
        ],
        "partial": "the round-trip clause ('comparing with the binary round-trip reports nothing') is established by correspondence (rtbytes + same + compare in every case) together with C18_self; a theorem decode(encode o) = o belongs to C07's binary model, which this revision does not contain. The panic of changed_hpo_terms on a dangling parent id is modelled and compared, theorems assume ParentsResolve.",
    },
    "C16": {
        "rule": "each fact set (DAG + annotations, one name per id) is built under k random permutations (k = 4 quick, 12 thorough) of the new_term / add_parent / add_*+annotate_* call order into different slots; all dumps must be identical (`same 0 i`, implementation vs implementation) and equal to the model's dump; non-trivial = more than two terms and at least one multi-parent node",
        "partial": "proved: lookups of terms (name, flags, parents, children, ancestors) and, per kind, the links of every term and the direct terms of every record are equal for permuted fact lists (C16_terms, C16_annotations); record names, record counts and hence information content under permutation, and the binary/text routes, rest on the correspondence check (dumps compared across permutations) and on C07-C09",
        "assumptions": ["the typestate order (all new_term before all add_parent before connect before annotations) is part of the hypothesis: the Builder API enforces it"],
    },
}
