"""Per-property metadata used by ./check (rule for non-trivial cases, partial labels, extra trusted base)."""
PROPS = {
    "C12": {
        "rule": "random group programs (constructors from Vec/Vec<u32>/HashSet/iterator, insertion sequences with return values, | & + |id on pairs that are equal / nested / disjoint-equal-length / random, sizes 0..80 crossing the inline limit 30, universes 6..10^7); distinct = distinct op lists (FNV hash); non-trivial = both operand sets non-empty",
        "assumptions": ["slice::binary_search contract (Ok iff present, Err = ordered insertion point) on sorted input"],
    },
    "C20": {
        "rule": "roundtrip of sampled ids (3/4 in the 10^7 id space, 1/4 any u32) + all border ids; parse of structured strings (valid renderings with other 3-byte prefixes, overflow region, signs, leading zeros) and random strings over an alphabet with 1-4 byte chars at every offset; distinct = distinct op lists; every case non-trivial",
        "assumptions": ["Rust u32::from_str grammar: optional '+', decimal digits, overflow is an error", "Display {:07} pads with zeros to at least 7 digits"],
    },
    "C04": {
        "rule": "small ontologies (2..16 terms + disconnected obsolete terms on the bytes path; shapes chain/tree/ladder/shortcut/multi-root/random; builder path or binary v1-v3) whose three annotation kinds have pairwise different record totals, with a term linked to every record of a kind (ic = -0.0), copied annotation sets (Mutation = 1 on distinct terms), kinds without records; for every ontology ALL ordered pairs of terms x 8 algorithms x 3 kinds, the algorithm selected through Builtins::new with a random documented name/alias in random case, plus non-existing names; distinct = distinct op lists; non-trivial = >= 3 terms, >= 1 inherited annotation, >= 2 kinds with >= 2 records, and (a multi-parent node or several roots or obsolete/replaced terms)",
        "assumptions": [
            "C03's conclusions about the information content (0 <= ic; ic of an ancestor <= ic of a term with positive ic) are hypotheses of the theorems, as is the sortedness of ancestor groups / annotation sets (C12/C01)",
            "the ASCII lower-casing of the model equals str::to_lowercase on the generated (ASCII + a few unaffected non-ASCII) names",
        ],
        "partial": "theorems are over the reals with checked division (zero denominators are `none`); f32 rounding, overflow and the accuracy of logf/expf are NOT modelled and are covered only by the tolerance (4 ulp / 1e-6 relative) of the correspondence check; symmetry / finite / >= 0 / special cases are additionally checked bit-exactly on the implementation by the harness; for Distance the theorems cover the score as a function of distance_to_term plus its symmetry and d(a,a)=0 whenever it returns (that the distance is the least chain length is C11's subject)",
    },
    "C05": {
        "rule": "per case one ontology (14..20 terms, random ids) and: 13 hand-built matrices Matrix::new(r, c, data) with r = case index mod 13 and every c in 0..12 (all shapes incl. empty and non-square, dyadic entries k/64 with ties/constant/random fillings) through SimilarityCombiner::calculate, rows(), cols(), row_maxes, col_maxes; 12 set pairs of sizes 0..12 x 0..12 (empty, equal, unequal, identical sets, duplicate ids) through HpoSet::similarity with a USER-SUPPLIED similarity injected via the public Similarity trait (asymmetric table ((31a+17b+salt) mod 64)/64 or a symmetric one), all three combiners; 2 sequences of 2..7 queries (repeated, swapped, overlapping) through one CachedSimilarity; distinct = distinct op lists; every case non-trivial (contains non-square asymmetric matrices)",
        "assumptions": [
            "slice indexing / Iterator::step_by / Iterator::reduce / f32::max contracts of the Rust standard library",
            "a term similarity is a function of the two term ids (the injected one is)",
        ],
        "partial": "theorems are over the reals with checked division; f32 rounding of sums and quotients is not modelled: the generated similarities are dyadic (k/64) so the f32 evaluation is exact up to the final correctly rounded divisions, compared within the f32 tolerance of the differ and against a naive f64 recomputation in the harness (1e-6); matrices whose dimensions do not match the data length are outside the property (Matrix::new documents that callers must ensure it)",
    },
}
