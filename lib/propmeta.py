"""Per-property metadata used by ./check (rule for non-trivial cases, partial labels, extra trusted base)."""
PROPS = {
    "C12": {
        "rule": "random group programs (constructors from Vec/Vec<u32>/HashSet/iterator, insertion sequences with return values, | & + |id on pairs that are equal / nested / disjoint-equal-length / random, sizes 0..80 crossing the inline limit 30, universes 6..10^7); distinct = distinct op lists (FNV hash); non-trivial = both operand sets non-empty",
        "assumptions": ["slice::binary_search contract (Ok iff present, Err = ordered insertion point) on sorted input"],
    },
    "C20": {
        "rule": "roundtrip of sampled ids (3/4 in the 10^7 id space, 1/4 any u32) + all border ids; parse of structured strings (valid renderings with other 3-byte prefixes, overflow region, signs, leading zeros) and random strings over an alphabet with 1-4 byte chars at every offset; distinct = distinct op lists; every case non-trivial",
        "assumptions": ["Rust u32::from_str grammar: optional '+', decimal digits, overflow is an error", "Display {:07} pads with zeros to at least 7 digits"],
    },
    "C11": {
        "rule": "TODO",
        "assumptions": [],
        "partial": "",
    },
    "C14": {
        "rule": "TODO",
        "assumptions": [],
        "partial": "",
    },
}
