"""Per-property metadata used by ./check (rule for non-trivial cases, partial labels, extra trusted base)."""
PROPS = {
    "C12": {
        "rule": "random group programs (constructors from Vec/Vec<u32>/HashSet/iterator, insertion sequences with return values, | & + |id on pairs that are equal / nested / disjoint-equal-length / random, sizes 0..80 crossing the inline limit 30, universes 6..10^7); distinct = distinct op lists (FNV hash); non-trivial = both operand sets non-empty",
        "assumptions": ["slice::binary_search contract (Ok iff present, Err = ordered insertion point) on sorted input"],
    },
    "C20": {
        "rule": "roundtrip of sampled ids (3/4 in the 10^7 id space, 1/4 any u32) + all border ids; parse of structured strings (valid renderings with other 3-byte prefixes, overflow region, signs, leading zeros) and random strings over an alphabet with 1-4 byte chars at every offset; distinct = distinct op lists; every case non-trivial",
        "assumptions": ["Rust u32::from_str grammar: optional '+', decimal digits, overflow is an error", "Display {:07} pads with zeros to at least 7 digits"],
    },
    "C06": {
        "rule": "64 ontologies (quick): flat ontologies (N disconnected terms, no inheritance) with N in {1..60 random, 150, 169, 170, 171, 172, 200, 500, 1000, 5000} (factorial table -> Lanczos switch at 170) whose records are DESIGNED against a primary sample of n terms: families of records sharing K with k swept over {min, min+1, expected, max-1, max, 1, 0, random} (k=0: no record may be reported), including (N,K,n,k)=(5000,1000,1000,1); further nested/random samples, HpoSet backgrounds (N = set size, sample inside), and hierarchical DAGs (inherited annotations) for the record-set clause; three annotation kinds; distinct = distinct op lists; non-trivial = at least one designed record in the summed-tail branch (min < k <= max) resp. inherited links for hierarchical cases",
        "assumptions": [
            "f64 evaluation (ln of the factorial table / Lanczos ln_gamma, exp, rounded sum, clamp) is tied to the exact rational tail only by the tolerance 1e-9 relative + 1e-300 absolute on the generated inputs (observed worst 5e-12 at N=5000)",
            "the branch `x >= max -> 0` of Hypergeometric::sf is unreachable through the public enrichment functions (k <= min(K,n) always); it is covered by the theorems, not by the correspondence check",
            "HashMap iteration order of the counts is irrelevant: records are compared sorted by id",
        ],
        "partial": "Lanczos/exp/ln accuracy of the f64 evaluation is covered by tolerance only; theorems are over Q (exact tail).",
    },
    "C17": {
        "rule": "400 cases (quick) x 3-6 clustering runs of singleton HpoSets of distinct terms (n in 0..60; average linkage n <= 13 with dyadic tables = distinct integers < 2^12 times 2^12 so every nested mean is exact in f32, 1/5 of the average runs up to n = 30 with rounding mirrored by the Float32 model), four methods, distance tables: points on a line / dense ranks / random distinct integers < 2^24 / dyadic; inputs in an order unrelated to id order; union distance = fixed arithmetic mix of the two sorted member id vectors computed identically on both sides; tables on which two live distances tie at any step are rejected by an independent re-run in the generator (ties are broken by HashMap order); distinct = distinct op lists; non-trivial = some run with n >= 3",
        "assumptions": [
            "tie-free distance matrices only (the argmin among equal distances depends on HashMap iteration order)",
            "Float32 of the Lean runtime = Rust f32 for <, + and /2 (IEEE-754 binary32); exact for the dyadic tables",
            "theorems C17_update_* assume a linear order / field; f32 rounding is outside them",
        ],
        "partial": "C17_update_union_partial: for union linkage the callback argument sequence, the merged set and the key set of the new matrix are proved, the VALUES stored for the new entry (callback result per live entry) are only compared by the correspondence check; closed forms of single/complete linkage as min/max over leaf pairs are not proved (one-step recurrences C17_update_arith/_single/_complete/_average only); f32 rounding is outside the theorems (exact for the dyadic tables).",
    },
}
