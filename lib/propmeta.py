"""Per-property metadata used by ./check (rule for non-trivial cases, partial labels, extra trusted base)."""
PROPS = {
    "C12": {
        "rule": "random group programs (constructors from Vec/Vec<u32>/HashSet/iterator, insertion sequences with return values, | & + |id on pairs that are equal / nested / disjoint-equal-length / random, sizes 0..80 crossing the inline limit 30, universes 6..10^7); distinct = distinct op lists (FNV hash); non-trivial = both operand sets non-empty",
        "assumptions": ["slice::binary_search contract (Ok iff present, Err = ordered insertion point) on sorted input"],
    },
    "C20": {
        "rule": "roundtrip of sampled ids (3/4 in the 10^7 id space, 1/4 any u32) + all border ids; parse of structured strings (valid renderings with other 3-byte prefixes, overflow region, signs, leading zeros) and random strings over an alphabet with 1-4 byte chars at every offset; distinct = distinct op lists; every case non-trivial",
        "assumptions": ["Rust u32::from_str grammar: optional '+', decimal digits, overflow is an error", "Display {:07} pads with zeros to at least 7 digits"],
    },
    "C09": {
        "rule": "fact sets of gen_facts (DAG shapes chain/tree/ladder/multi-root/random with HP:1 and HP:118, three annotation kinds with overlapping ids, optional obsolete/replaced_by flags) rendered in JAX style: header block with data-version at a random position, [Term] stanzas with alt_id/def/comment/synonym/xref/created_by lines around id/name/is_a '! label'/is_obsolete/replaced_by, [Typedef]/[Instance] stanzas, stanzas and rows shuffled; phenotype.hpoa with # block + column header, OMIM/ORPHA rows with 4..12 columns, NOT rows (also for diseases that occur nowhere else), DECIPHER rows; genes_to_phenotype.txt / phenotype_to_genes.txt with either header style and 3..7 columns; both loaders; every case compares r, the whole read-API dump, and `same` against the ontology built from the same facts through the Builder ops (when no flags) and through the v3 binary encoder; 1 case in 8 is from the malformed stream (16 kinds: unknown HPO id in a row, bad ids, missing columns, no header, obo line without ': ', bad ids in obo, NOT rows with bad content, stanza without name, id beyond the table, missing root) where only load success vs. failure is compared; distinct = distinct op lists; non-trivial = well-formed case with >=1 gene row, >=1 OMIM/ORPHA row and >=1 ignored element (NOT/DECIPHER row or non-Term stanza)",
        "assumptions": [
            "Rust std string functions behave as mirrored in HpoModel/Text.lean: str::split(char/&str), splitn, split_once, lines (and BufRead::lines), trim (Unicode White_Space), starts_with, strip_prefix, u8/u16/u32::from_str",
            "files are valid UTF-8 with LF line ends (the generator emits nothing else); file-system errors (missing file) are not modelled",
        ],
        "partial": "C09_file_partial: proved for a whole rendered hp.obo (any number of stanzas in any order, [Typedef] blocks, header) is that readObo returns exactly the rendered term list and version, and for rendered row files that the row loops are exactly the folds of annotate calls over the rendered rows (NOT/comment/DECIPHER rows contributing nothing); that this fold over the Builder model is independent of stanza/row order and equal to the Builder-API / binary construction is C16's statement and is covered here by the correspondence check only (three-way `same` comparison on every well-formed case).",
    },
}
