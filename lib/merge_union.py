#!/usr/bin/env python3
"""Resolve 'both sides appended' merge conflicts by keeping both blocks (ours first). For lib/propmeta.py
the closing brace of the first block is dropped. MANIFEST.json is regenerated afterwards."""
import re
import subprocess
import sys

files = subprocess.run(["git", "diff", "--name-only", "--diff-filter=U"], capture_output=True, text=True).stdout.split()
for f in files:
    if f == "MANIFEST.json":
        subprocess.run(["git", "checkout", "--ours", f])
        continue
    s = open(f).read()
    def repl(m):
        ours, theirs = m.group(1), m.group(2)
        if f.endswith("propmeta.py"):
            lines = ours.rstrip("\n").split("\n")
            if lines and lines[-1] == "}":
                lines = lines[:-1]
            ours = "\n".join(lines) + "\n"
        # drop duplicate lines (imports)
        seen = set(ours.split("\n"))
        t = "\n".join(l for l in theirs.split("\n") if l not in seen or not l.strip().startswith(("import", "mod ")))
        return ours + t
    s2 = re.sub(r"<<<<<<< [^\n]*\n(.*?)=======\n(.*?)>>>>>>> [^\n]*\n", repl, s, flags=re.S)
    open(f, "w").write(s2)
    print("resolved", f)

# normalise lib/propmeta.py: every entry must be closed before the next one starts
import os
if os.path.exists("lib/propmeta.py"):
    lines = open("lib/propmeta.py").read().split("\n")
    out, first = [], True
    for l in lines:
        if re.match(r'^    "C\d+": \{', l):
            if not first:
                k = len(out) - 1
                while out[k].strip() == "":
                    k -= 1
                if out[k] != "    },":
                    out.append("    },")
            first = False
        out.append(l)
    open("lib/propmeta.py", "w").write("\n".join(out))
