#!/usr/bin/env python3
"""Resolve the recurring 'both sides appended' conflicts when pulling a sub-agent's clone:
root import files, mod lines, handler list, ext4 chain, props2 match arms, propmeta entries.
MANIFEST.json / evidence are taken from ours (regenerated afterwards)."""
import os
import re
import subprocess

CONF = re.compile(r"<<<<<<< [^\n]*\n(.*?)=======\n(.*?)>>>>>>> [^\n]*\n", re.S)
files = subprocess.run(["git", "diff", "--name-only", "--diff-filter=U"], capture_output=True, text=True).stdout.split()


def union(m):
    ours, theirs = m.group(1), m.group(2)
    seen = set(ours.split("\n"))
    t = "\n".join(l for l in theirs.split("\n") if l not in seen or not l.strip().startswith(("import", "mod ")))
    return ours + t


for f in files:
    if f == "MANIFEST.json" or f.startswith("evidence/"):
        subprocess.run(["git", "checkout", "--ours", f])
        continue
    s = open(f).read()
    if f.endswith("ext4.rs"):
        s = CONF.sub(lambda m: m.group(1).rstrip("\n") + "\n        || " + m.group(2).strip() + "\n", s)
    elif f.endswith("props2.rs"):
        def p2(m):
            arms = [l for l in m.group(1).split("\n") if re.match(r'\s*"C\d+"', l)]
            return "\n".join(arms) + ("\n" if arms else "") + m.group(2)
        s = CONF.sub(p2, s)
    elif f.endswith("Driver/Main.lean"):
        def ml(m):
            ha = re.findall(r"Drv\.\w+", m.group(1))
            hb = re.findall(r"Drv\.\w+", m.group(2))
            hs = ha + [h for h in hb if h not in ha]
            return "  [" + ", ".join(hs) + "]\n"
        s = CONF.sub(ml, s)
    elif f.endswith("NumReal.lean"):
        s = CONF.sub(lambda m: m.group(1), s)   # keep ours; reconcile by hand if names differ
    else:
        s = CONF.sub(union, s)
    open(f, "w").write(s)
    print("resolved", f)

# normalise lib/propmeta.py: every entry must be closed before the next one starts
if os.path.exists("lib/propmeta.py"):
    lines = open("lib/propmeta.py").read().split("\n")
    out, first = [], True
    for l in lines:
        if re.match(r'^    "C\d+": \{', l):
            if not first:
                k = len(out) - 1
                while out[k].strip() == "":
                    k -= 1
                if out[k] != "    },":
                    out.append("    },")
            first = False
        out.append(l)
    open("lib/propmeta.py", "w").write("\n".join(out))
