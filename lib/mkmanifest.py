#!/usr/bin/env python3
"""Regenerate /verif/MANIFEST.json from lib/propmeta.py (claimed properties) and properties.jsonl."""
import json
import os
import sys

ROOT = os.path.dirname(os.path.dirname(os.path.abspath(__file__)))
sys.path.insert(0, os.path.join(ROOT, "lib"))
from propmeta import PROPS  # noqa: E402

props = [json.loads(l) for l in open(os.path.join(ROOT, "properties.jsonl"))]
checks = []
na = []
for p in props:
    pid = p["id"]
    if pid in PROPS:
        m = PROPS[pid]
        checks.append({
            "property_id": pid,
            "quick_cmd": f"./check {pid} --tier quick",
            "thorough_cmd": f"./check {pid} --tier thorough",
            "evidence_file": f"evidence/{pid}.json",
            "replay_cmd_template": f"./check {pid} --replay {{path}}",
            "engine": "lean-model+correspondence",
            "level_claimed": {
                "category": "proof",
                "text": m.get("level_text", "Lean 4 theorems about a hand-written executable model (all inputs, no size bound), tied to the code by a per-run correspondence check (real library vs. model on generated inputs) plus independent oracles in the harness."),
                "design_ref": f"DESIGN.md sec. 8.3 / 8.5 ({pid}: as built); sec. 3 ({pid}: plan)",
            },
            "level_note": m.get("level_note", "Trusted: Lean kernel + axioms propext/Classical.choice/Quot.sound (audited on every run); the hand-written model corresponds to the code only as far as the generated inputs show; Rust std contracts as listed in DESIGN.md sec. 1/2.5.") + (" PARTIAL: " + m["partial"] if m.get("partial") else ""),
            "technique": m.get("technique", "Lean 4 proof over executable model + differential correspondence check"),
        })
    else:
        na.append({"property_id": pid, "reason": "not claimed in this revision: its model, theorems and correspondence check are not built yet (planned, see DESIGN.md sec. 7); the technique applies"})

manifest = {
    "version": 1,
    "setup_cmd": "./setup.sh",
    "hooks": {
        "guard": "hpo_verif",
        "enable": "none needed: every observable is public API; checks build /repo unmodified as a path dependency of /verif/harness (RUSTFLAGS unchanged)",
        "baseline_off_cmd": "cd /repo && cargo test --workspace --no-fail-fast --offline",
        "source_commits": [],
        "add_only": True,
    },
    "engines": [{
        "name": "lean-model+correspondence",
        "path": "check",
        "serves_properties": sorted(PROPS.keys()),
        "kind_free_text": "Lean 4 theorems (lean/HpoProps) about an executable model (lean/HpoModel); Rust harness (harness/) runs the real crate and the compiled Lean driver on the same generated op lines and diffs canonical observations; axiom audit via #print axioms on every run",
    }],
    "checks": checks,
    "not_applicable": na,
    "notes": "Eight genuine defects were repaired in /repo by separate `fix:` commits (known_findings.txt, DESIGN.md sec. 5); three findings are recorded as known. No hooks are compiled into /repo.",
}
with open(os.path.join(ROOT, "MANIFEST.json"), "w") as f:
    json.dump(manifest, f, indent=1)
print("claimed:", sorted(PROPS.keys()))
